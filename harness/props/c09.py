"""C09 — requested equations come back complete, minimal and in evaluable order (Model.get_equations_for)."""
import itertools
import math

from common import Str, sx

ID = 'C09'
LEAN_MODULES = ['Cellml.Props.C09', 'Cellml.Tie.GraphEqs', 'Cellml.Tie.GraphNum', 'Cellml.Tie.GraphBuild', 'Cellml.Tie.Misc5', 'Cellml.Tie.Graph', 'Cellml.Tie.GenDGraph', 'Cellml.Props.C09Gen']
N = {'quick': 800, 'thorough': 25000}
RULE = ('random acyclic equation systems of 3-14 variables built through Model.add_variable / create_quantity / '
        'add_equation (shapes: chain, diamond, layered, wide, star, random DAG; ODEs whose derivatives are used on other '
        'right-hand sides; shared sub-expressions and shared Quantity objects; twelve kinds of dependency that vanish when '
        'numbers are substituted; nine shapes (products of 3+ factors, with and without Quantities) in which a defined '
        'variable would cancel only after multiplying out and therefore must NOT vanish, in about half of the systems; names whose str keys collide in prefix / case / digit order); 4-7 request sets per '
        'system (all non-empty subsets when there are at most 3 equations), each with both recurse and both strip_units; '
        'every query is asked twice and once more on a second Model built with variables and equations inserted in a '
        'different order; ~12% malformed systems (cycle, cycle that vanishes after substitution, dangling reference, '
        'undefined derivative, duplicate left-hand side, str collision, request outside the graph); non-trivial = at '
        'least one query returns >= 3 equations; distinct = distinct case JSON')
TRUSTED = ['Lean 4.33 kernel', 'axioms: propext, Classical.choice, Quot.sound',
           'correspondence harness harness/props/c09.py (generator, independent reference walker over SymPy trees, '
           'float evaluator of the case\'s expression trees)',
           'networkx 3.6 lexicographical_topological_sort / ancestors / DiGraph.pred are modelled '
           '(Cellml/C09/Model.lean: kahn, closure, preds), not verified',
           'SymPy 1.14 simplification during xreplace(Quantity -> Float) is observed, not modelled: the reference set of '
           'each right-hand side after substitution is read off SymPy and handed to the model']
ASSUMPTIONS = ['numerical identity of stripped right-hand sides is checked at 3 random points per equation with '
               'relative tolerance 1e-9 (SymPy Float arithmetic is outside the model)',
               'Variable.type left over from an earlier graph build (C08/C10 finding) is outside this model: every case '
               'uses fresh Model objects']
FINGERPRINT = {'cellmlmanip/model.py': ['Model.get_equations_for', 'Model.graph', 'Model.graph_with_sympy_numbers',
                                       'Model.find_variables_and_derivatives', 'Variable.__str__', 'FLOAT_PRECISION']}

NAMES = ['a', 'a_b', 'A', 'b10', 'b9', 'B', 'Da', 'D', 'Derivativf', 'E', 'C', 'ab', 'a0', 'a_', '_a', 'aa', 'Z', 'z',
         'b', 'b1', 'b_', 'x', 'X', 'x_1', 'x_10', 'x_2', 'y', 'k', 'k_on', 'K', 'V', 'v', 'm', 'n', 'h', 'alpha',
         'Alpha', 'beta', 'i_Na', 'I_Na', 'g_K', 'membrane$V', 'membrane$v', 'sodium$m', 'Derivative', 'Dz', 'a1',
         'a10', 'a2', 'A_', 'A0', 'b90', 'b09']
FREE = ['time', 't', 'T', 'tau', 'environment$time', 'Time']
VANISH = ['zero', 'diff', 'cancel', 'pow0', 'zero2', 'zerodiv', 'pw', 'exp0', 'zeroexp', 'paren', 'qdiff2', 'qdiff3']
XCANCEL = ['q3', 'q3', 'q4', 'abc', 'abcq', 'reord', 'powf', 'expf', 'sharedq']
LIVE = ['lin', 'sq', 'exp', 'prod', 'div', 'pw', 'sub', 'near6', 'bare', 'bare2']
SHAPES = ['chain', 'diamond', 'layered', 'wide', 'star', 'dag', 'dag', 'dense']


# ---------------------------------------------------------------------------------------------- generator
def key_of(case, node):
    n = len(case['names'])
    if node < n:
        return case['names'][node]
    if node == n:
        return case['free']
    return 'Derivative(_%s, _%s)' % (case['names'][node - n - 1], case['free'])


def lhs_node(case, eq):
    return eq['lhs'][1] if eq['lhs'][0] == 'v' else len(case['names']) + 1 + eq['lhs'][1]


def ref_spec(n, node):
    return ['v', node] if node < n else (['t'] if node == n else ['d', node - n - 1])


def live_term(rng, n, d, others):
    c = rng.choice([0.5, 1.0, 2.0, 3.0, 0.25, 1.5, -1.0, -2.0, 0.1])
    form = rng.choice(LIVE)
    D = ref_spec(n, d)
    o = ref_spec(n, rng.choice(others)) if others else ['q', 1.25]
    if form == 'lin':
        return ['mul', ['q', c], D]
    if form == 'sq':
        return ['mul', ['q', c], ['pow', D, 2]]
    if form == 'exp':
        return ['mul', ['q', c], ['exp', ['mul', ['q', 0.25], D]]]
    if form == 'prod':
        return ['mul', ['q', c], D, o]
    if form == 'div':
        return ['div', D, ['add', ['q', 2.0], ['pow', o, 2]]]
    if form == 'pw':
        return ['pw', D, ['q', 1.25], o, ['mul', ['q', c], D]]
    if form == 'bare':        # the right-hand side collapses to the bare reference once the number is substituted
        return rng.choice([['add', D, ['q', 0.0]], ['powq', D, 1.0]])
    if form == 'bare2':       # one path to another quantity vanishes, the bare reference stays
        return ['add', ['mul', ['q', 0.0], o], D]
    if form == 'near6':       # two different numbers that agree in their first six significant digits: the dependency
        a, b = rng.choice([(96485.3415, 96485.3365), (8314.4724, 8314.472), (1.0000001, 1.0), (0.30000004, 0.3)])
        return ['mul', ['sub', ['q', a], ['q', b]], D]                      # on D is small but real
    return ['sub', ['mul', ['q', c + 3.0], D], ['mul', ['q', c], D]]


def vanish_term(rng, n, d, others):
    form = rng.choice(VANISH)
    D = ref_spec(n, d)
    c = rng.choice([0.1, 2.0, 3.0, 0.3])
    o = ref_spec(n, rng.choice(others)) if others else ['q', 1.25]
    if form == 'zero':
        return rng.choice([['mul', ['q', 0.0], D], ['mul', D, ['q', 0.0]]])
    if form == 'diff':
        return ['mul', ['sub', ['q', c], ['q', c]], D]
    if form == 'cancel':
        return ['sub', ['mul', ['q', c], D], ['mul', ['q', c], D]]
    if form == 'pow0':
        return ['powq', ['add', ['q', 1.0], ['pow', D, 2]], 0.0]
    if form == 'zero2':
        return ['mul', ['q', 0.0], D, o]
    if form == 'zerodiv':
        return ['div', ['q', 0.0], ['add', ['q', 1.0], ['pow', D, 2]]]
    if form == 'pw':
        return ['pw', ['q', 0.0], ['q', 1.0], ['q', c], D]
    if form == 'exp0':
        return ['exp', ['mul', ['q', 0.0], D]]
    if form == 'zeroexp':
        return ['mul', ['q', 0.0], ['exp', ['mul', ['q', 0.25], D]]]
    if form == 'qdiff2':      # number * (x - e1) - number * (x - e2): SymPy distributes a numeric coefficient, x cancels
        return ['sub', ['mul', ['q', c], ['sub', D, ['q', 1.0]]], ['mul', ['q', c], ['sub', D, ['q', 3.0]]]]
    if form == 'qdiff3':      # the same with two numeric factors, which merge into one coefficient
        return ['sub', ['mul', ['q', c], ['q', 0.5], ['sub', D, ['q', 1.0]]],
                ['mul', ['q', c], ['q', 0.5], ['sub', D, ['q', 3.0]]]]
    return ['mul', ['add', D, ['q', 1.0]], ['q', 0.0]]


def xcancel_term(rng, n, d, factors):
    """A term in which `d` would cancel only if the products were multiplied out — SymPy does not do that on its
    own when there are three or more factors, so `d` stays referenced before AND after number substitution and the
    returned (stripped) right-hand side still mentions it: g*y*(V - E1) - g*y*(V - E2),  a*(x + b)*c - c*a*(x + d), ...
    `factors` are references to other quantities of the system (never `d`)."""
    form = rng.choice(XCANCEL)
    D = ref_spec(n, d)
    F1 = ref_spec(n, rng.choice(factors))
    F2 = ref_spec(n, rng.choice(factors))
    c = rng.choice([2.0, 3.0, 0.5, 1.5, -2.0])
    e1, e2 = rng.sample([1.0, 3.0, 0.25, -1.0, 2.0], 2)
    if form == 'q3':
        return ['sub', ['mul', ['q', c], F1, ['sub', D, ['q', e1]]], ['mul', ['q', c], F1, ['sub', D, ['q', e2]]]]
    if form == 'q4':
        return ['sub', ['mul', ['q', c], F1, F2, ['sub', D, ['q', e1]]], ['mul', ['q', c], F1, F2, ['sub', D, ['q', e2]]]]
    if form == 'abc':         # no Quantity inside the term at all
        return ['sub', ['mul', F1, ['add', D, F2], F2], ['mul', F2, F1, ['add', D, F1]]]
    if form == 'abcq':
        return ['sub', ['mul', F1, ['add', D, ['q', e1]], F2], ['mul', F2, F1, ['add', D, ['q', e2]]]]
    if form == 'reord':
        return ['sub', ['mul', ['sub', D, ['q', e1]], F1, ['q', c]], ['mul', F1, ['sub', D, ['q', e2]], ['q', c]]]
    if form == 'powf':
        return ['sub', ['mul', ['pow', F1, 2], ['q', c], ['sub', D, ['q', e1]]],
                ['mul', ['q', c], ['pow', F1, 2], ['sub', D, ['q', e2]]]]
    if form == 'expf':
        return ['sub', ['mul', ['exp', ['mul', ['q', 0.25], F1]], ['q', c], ['sub', D, F2]],
                ['mul', ['q', c], ['exp', ['mul', ['q', 0.25], F1]], ['sub', D, ['q', e2]]]]
    return ['sub', ['mul', ['qs', 0], F1, ['sub', D, ['q', e1]]], ['mul', ['qs', 0], F1, ['sub', D, ['q', e2]]]]


def choose_deps(rng, shape, i, avail):
    """avail: nodes with an equation that come earlier in the dependency order."""
    if not avail:
        return []
    if shape == 'chain':
        return [avail[-1]]
    if shape == 'diamond':
        if i == 1 or i == 2:
            return [avail[0]]
        return avail[-2:] if i == 3 else rng.sample(avail, min(len(avail), rng.randint(1, 2)))
    if shape == 'layered':
        return rng.sample(avail[-4:], min(len(avail[-4:]), rng.randint(1, 3)))
    if shape == 'wide':
        return rng.sample(avail, 1) if rng.random() < 0.2 else []
    if shape == 'star':
        return [avail[0]] if rng.random() < 0.8 else []
    if shape == 'dense':
        return [a for a in avail if rng.random() < 0.7]
    return rng.sample(avail, min(len(avail), rng.randint(0, 3)))


def gen_system(rng):
    n = rng.randint(3, 14)
    pool = rng.sample(NAMES, n) if rng.random() < 0.8 else \
        rng.sample(['a', 'A', 'a_b', 'a_', 'a0', 'a1', 'a10', 'a2', 'aa', 'ab', 'b10', 'b9', 'b90', 'b09', 'b', 'b1',
                    'B', 'A_', 'A0', 'b_'], n)
    free = rng.choice(FREE)
    shape = rng.choice(SHAPES)
    order = list(range(n))
    rng.shuffle(order)
    n_states = rng.choice([0, 0, 1, 1, 2, max(1, n // 3)])
    states = set(rng.sample(order, min(n, n_states)))
    n_eq = n if rng.random() < 0.7 else rng.randint(max(1, n // 2), n)   # the rest are unused variables
    defined = order[:n_eq]
    states &= set(defined)
    p_vanish = rng.choice([0.0, 0.15, 0.15, 0.35])
    p_xc = rng.choice([0.0, 0.1, 0.25, 0.5])
    n_xc = 0
    n_shared = rng.randint(0, 2)
    shared, shared_deps = [], []
    eqs, avail = [], []
    for i, v in enumerate(defined):
        deps = list(choose_deps(rng, shape, i, avail))
        # state variables and the free variable never create cycles
        extras = [s for s in states if rng.random() < 0.25] + ([n] if states and rng.random() < 0.2 else [])
        deps += [e for e in extras if e not in deps]
        # dependencies that occur ONLY inside a shape that would cancel after multiplying out (they must survive)
        protected = set(d for d in deps if d in avail and rng.random() < p_xc)
        factors = [x for x in deps if x not in protected] or \
            [x for x in avail + sorted(states) + ([n] if states else []) if x not in protected]
        if not factors:
            protected = set()
        if deps and rng.random() < 0.1:
            # an ALIAS once the numbers are substituted: the right-hand side collapses to one bare reference
            # (x = y + 0,  x = 0*z + y); the dependency on y is real, the one on z vanishes
            d0 = rng.choice(deps)
            rest = [x for x in deps if x != d0]
            alias = ['add', ref_spec(n, d0), ['q', 0.0]] if not rest or rng.random() < 0.5 else \
                ['add', ['mul', ['q', 0.0], ref_spec(n, rng.choice(rest))], ref_spec(n, d0)]
            eqs.append({'lhs': ['d', v] if v in states else ['v', v], 'rhs': alias})
            avail.append(n + 1 + v if v in states else v)
            continue
        terms = [['q', float(rng.randint(1, 9))]]
        for d in deps:
            others = [x for x in deps if x != d and x not in protected]
            if d in protected:
                terms.append(xcancel_term(rng, n, d, factors))
                n_xc += 1
            elif rng.random() < p_vanish:
                terms.append(vanish_term(rng, n, d, others))
                if rng.random() < 0.2:
                    terms.append(live_term(rng, n, d, others))   # vanishes in one place, survives in another
            else:
                terms.append(live_term(rng, n, d, others))
        deps = [d for d in deps if d not in protected]
        if shared and rng.random() < 0.4:
            k = rng.randrange(len(shared))
            terms.append(['s', k])          # its references are all earlier in the dependency order
        if len(shared) < n_shared and deps and rng.random() < 0.5:
            shared.append(['mul', ['q', 0.5], ['add', ['q', 1.0]] + [ref_spec(n, d) for d in deps[:2]]])
            shared_deps.append(deps[:2])
            terms.append(['s', len(shared) - 1])
        if rng.random() < 0.15:
            terms.append(['qs', rng.randrange(3)])
        rng.shuffle(terms)
        lhs = ['d', v] if v in states else ['v', v]
        eqs.append({'lhs': lhs, 'rhs': ['add'] + terms if len(terms) > 1 else terms[0]})
        avail.append(n + 1 + v if v in states else v)
    rng.shuffle(eqs)
    init = {str(s): float(rng.randint(1, 5)) for s in states}
    return {'names': pool, 'free': free, 'init': init, 'eqs': eqs, 'shared': shared, 'quants': [2.0, 0.0, 0.5],
            'shape': shape, 'kind': 'valid', 'dups': [], 'xc': n_xc}


def gen_queries(rng, case, extra_nodes=()):
    n = len(case['names'])
    lhss = [lhs_node(case, e) for e in case['eqs']]
    lhss = list(dict.fromkeys(lhss))
    others = [e['lhs'][1] for e in case['eqs'] if e['lhs'][0] == 'd']
    others = list(dict.fromkeys(others)) + ([n] if others else [])
    sets = []
    if len(lhss) <= 3:
        for k in range(1, len(lhss) + 1):
            sets += [list(c) for c in itertools.combinations(lhss, k)]
    else:
        sets.append([rng.choice(lhss)])
        sets.append(rng.sample(lhss, 2))
        sets.append(rng.sample(lhss, min(len(lhss), 3)))
        sets.append(list(lhss))
        if rng.random() < 0.5:
            sets.append(rng.sample(lhss, rng.randint(1, len(lhss))))
    if others:
        sets.append(rng.sample(others, 1) + rng.sample(lhss, 1))
    if rng.random() < 0.3:
        s = rng.sample(lhss, min(2, len(lhss)))
        sets.append(s + s[:1])          # a request repeated
    if rng.random() < 0.1:
        sets.append([])
    for x in extra_nodes:
        sets.append([x] + rng.sample(lhss, 1))
        sets.append([x])
    qs = []
    for s in sets:
        for recurse in (True, False):
            for strip in (True, False):
                qs.append({'req': s, 'recurse': recurse, 'strip': strip})
    if rng.random() < 0.5:
        rng.shuffle(qs)     # the queries run one after the other on ONE model: other histories of the cached graphs
    return qs


def finish(rng, case, extra_nodes=()):
    n = len(case['names'])
    case['queries'] = gen_queries(rng, case, extra_nodes)
    case['points'] = [[round(rng.uniform(0.5, 2.0), 3) for _ in range(2 * n + 1)] for _ in range(3)]
    vo = list(range(n + 1))
    rng.shuffle(vo)
    eo = list(range(len(case['eqs'])))
    rng.shuffle(eo)
    case['order2'] = {'vars': vo, 'eqs': eo}
    return case


def malform(rng, case):
    """Turn a valid system into one of the malformed kinds (outside the property's quantifier; the model must still
    agree with the implementation on the outcome)."""
    n = len(case['names'])
    kind = rng.choice(['cycle', 'selfloop', 'vanishing-cycle', 'dangling', 'undef-derivative', 'dup-lhs',
                       'str-collision', 'outside-request', 'outside-request'])
    eqs = case['eqs']
    plain = [i for i, e in enumerate(eqs) if e['lhs'][0] == 'v']
    unused = [v for v in range(n) if not any(e['lhs'][1] == v for e in eqs)]
    case['kind'] = kind
    extra = ()
    before = repr(case)
    if kind in ('cycle', 'vanishing-cycle') and len(eqs) >= 2:
        i, j = rng.sample(range(len(eqs)), 2)
        a, b = ref_spec(n, lhs_node(case, eqs[i])), ref_spec(n, lhs_node(case, eqs[j]))
        eqs[i]['rhs'] = ['add', eqs[i]['rhs'], ['mul', ['q', 0.0 if kind == 'vanishing-cycle' else 2.0], b]]
        eqs[j]['rhs'] = ['add', eqs[j]['rhs'], ['mul', ['q', 0.5], a]]
    elif kind == 'selfloop' and plain:
        i = rng.choice(plain)
        eqs[i]['rhs'] = ['add', eqs[i]['rhs'], ['mul', ['q', 0.5], ref_spec(n, lhs_node(case, eqs[i]))]]
    elif kind == 'dangling' and unused:
        i = rng.randrange(len(eqs))
        eqs[i]['rhs'] = ['add', eqs[i]['rhs'], ['v', rng.choice(unused)]]
    elif kind == 'undef-derivative' and (plain or unused):
        i = rng.randrange(len(eqs))
        v = rng.choice(unused) if unused else eqs[rng.choice(plain)]['lhs'][1]
        eqs[i]['rhs'] = ['add', eqs[i]['rhs'], ['d', v]]
    elif kind == 'dup-lhs':
        i = rng.randrange(len(eqs))
        eqs.append({'lhs': list(eqs[i]['lhs']), 'rhs': ['q', 4.0]})
        case['dups'] = [len(eqs) - 1]
    elif kind == 'str-collision' and unused:
        odes = [e for e in eqs if e['lhs'][0] == 'd']
        if odes:
            v = unused[0]
            case['names'][v] = 'Derivative(_%s, _%s)' % (case['names'][odes[0]['lhs'][1]], case['free'])
            if rng.random() < 0.7:
                eqs.append({'lhs': ['v', v], 'rhs': ['q', 1.0]})
    elif kind == 'outside-request':
        if unused:
            extra = (rng.choice(unused),)
        elif not any(e['lhs'][0] == 'd' for e in eqs):
            extra = (n,)        # the free variable of a system without ODEs is not a node
    if not extra and repr(case) == before:
        case['kind'] = 'valid'      # the malformation did not apply to this system
    return finish(rng, case, extra)


def gen(rng, n, tier):
    for _ in range(n):
        case = gen_system(rng)
        if rng.random() < 0.12:
            yield malform(rng, case)
        else:
            yield finish(rng, case)


def corpus():
    """The diamond proved in Lean (`Props/C09.lean`, `diamond`), a vanishing dependency, and name ties."""
    import random
    rng = random.Random(9)
    diamond = {'names': ['d', 'b', 'c', 'a'], 'free': 't', 'init': {}, 'shared': [], 'quants': [2.0, 0.0, 0.5],
               'shape': 'diamond', 'kind': 'valid', 'dups': [],
               'eqs': [{'lhs': ['v', 0], 'rhs': ['add', ['v', 1], ['v', 2]]},
                       {'lhs': ['v', 1], 'rhs': ['mul', ['q', 2.0], ['v', 3]]},
                       {'lhs': ['v', 2], 'rhs': ['add', ['mul', ['q', 0.0], ['v', 3]], ['q', 1.0]]},
                       {'lhs': ['v', 3], 'rhs': ['q', 1.0]}]}
    ode = {'names': ['x', 'A', 'a', 'a_b', 'b10', 'b9'], 'free': 't', 'init': {'0': 1.0}, 'shared': [],
           'quants': [2.0, 0.0, 0.5], 'shape': 'dag', 'kind': 'valid', 'dups': [],
           'eqs': [{'lhs': ['v', 2], 'rhs': ['q', 1.0]},
                   {'lhs': ['v', 1], 'rhs': ['add', ['mul', ['v', 2], ['q', 0.0]], ['q', 2.0]]},
                   {'lhs': ['v', 3], 'rhs': ['add', ['v', 2], ['v', 1], ['d', 0]]},
                   {'lhs': ['d', 0], 'rhs': ['add', ['mul', ['q', -2.0], ['v', 0]], ['mul', ['t'], ['v', 1]]]},
                   {'lhs': ['v', 4], 'rhs': ['mul', ['exp', ['v', 3]], ['v', 5]]},
                   {'lhs': ['v', 5], 'rhs': ['q', 3.0]}]}
    # i = g*y*(V - E1) - g*y*(V - E2): V cancels only after multiplying out, so its equation must stay in the stripped list
    expand_only = {'names': ['i', 'V', 'y'], 'free': 't', 'init': {}, 'shared': [], 'quants': [2.0, 0.0, 0.5],
                   'shape': 'dag', 'kind': 'valid', 'dups': [], 'xc': 1,
                   'eqs': [{'lhs': ['v', 0], 'rhs': ['sub', ['mul', ['q', 2.0], ['v', 2], ['sub', ['v', 1], ['q', 1.0]]],
                                                     ['mul', ['q', 2.0], ['v', 2], ['sub', ['v', 1], ['q', 3.0]]]]},
                           {'lhs': ['v', 1], 'rhs': ['q', 1.5]},
                           {'lhs': ['v', 2], 'rhs': ['q', 0.5]}]}
    return [finish(rng, diamond), finish(rng, ode), finish(rng, expand_only)]


# ---------------------------------------------------------------------------------------------- implementation
def _build_expr(spec, env):
    import sympy
    k = spec[0]
    if k == 'q':
        return env['Q'](spec[1])
    if k == 'qs':
        return env['quants'][spec[1]]
    if k == 'v':
        return env['vars'][spec[1]]
    if k == 't':
        return env['free']
    if k == 'd':
        return sympy.Derivative(env['vars'][spec[1]], env['free'])
    if k == 's':
        return env['shared'][spec[1]]
    if k == 'add':
        return sympy.Add(*[_build_expr(s, env) for s in spec[1:]])
    if k == 'mul':
        return sympy.Mul(*[_build_expr(s, env) for s in spec[1:]])
    if k == 'sub':
        return _build_expr(spec[1], env) - _build_expr(spec[2], env)
    if k == 'div':
        return _build_expr(spec[1], env) / _build_expr(spec[2], env)
    if k == 'pow':
        return _build_expr(spec[1], env) ** spec[2]
    if k == 'powq':
        return _build_expr(spec[1], env) ** env['Q'](spec[2])
    if k == 'exp':
        return sympy.exp(_build_expr(spec[1], env))
    if k == 'pw':
        return sympy.Piecewise((_build_expr(spec[3], env), _build_expr(spec[1], env) < _build_expr(spec[2], env)),
                               (_build_expr(spec[4], env), True))
    raise ValueError(k)


def _build_model(case, var_order, eq_order):
    import sympy
    from cellmlmanip.model import Model
    n = len(case['names'])
    m = Model('m')
    vars_ = {}
    free = None
    for i in var_order:
        if i == n:
            free = m.add_variable(case['free'], 'second')
        else:
            vars_[i] = m.add_variable(case['names'][i], 'dimensionless', initial_value=case['init'].get(str(i)))
    env = {'Q': lambda v: m.create_quantity(v, 'dimensionless'), 'vars': vars_, 'free': free}
    env['quants'] = [env['Q'](v) for v in case['quants']]
    env['shared'] = []
    for s in case['shared']:
        env['shared'].append(_build_expr(s, env))
    built = {}
    for i in eq_order:
        e = case['eqs'][i]
        lhs = vars_[e['lhs'][1]] if e['lhs'][0] == 'v' else sympy.Derivative(vars_[e['lhs'][1]], free)
        built[i] = sympy.Eq(lhs, _build_expr(e['rhs'], env), evaluate=False)
    for i in eq_order:
        m.add_equation(built[i], check_duplicates=i not in case['dups'])
    return m, vars_, free, built


def _walk(expr):
    """Reference walker (independent of Model.find_variables_and_derivatives): variables and derivatives of an
    expression, derivatives taken whole."""
    import sympy
    from cellmlmanip.model import Variable
    out, stack = [], [expr]
    while stack:
        e = stack.pop()
        if isinstance(e, sympy.Derivative) or isinstance(e, Variable):
            if e not in out:
                out.append(e)
        else:
            stack.extend(e.args)
    return out


def impl(case):
    import logging

    import sympy
    from cellmlmanip.model import FLOAT_PRECISION, Quantity, Variable
    logging.disable(logging.CRITICAL)
    n = len(case['names'])
    m, vars_, free, built = _build_model(case, list(range(n, -1, -1)), list(range(len(case['eqs']))))
    index = {v: i for i, v in vars_.items()}
    index[free] = n

    def node_of(obj):
        if isinstance(obj, Variable):
            return index[obj]
        wrt = obj.args[1][0]
        if wrt is not free or len(obj.args) != 2 or obj.args[1][1] != 1:
            raise ValueError('unexpected derivative %s' % obj)
        return n + 1 + index[obj.args[0]]

    def obj_of(node):
        return vars_[node] if node < n else (free if node == n else sympy.Derivative(vars_[node - n - 1], free))

    # what each right-hand side refers to, before and after the substitution graph_with_sympy_numbers performs.
    # The code substitutes (and prunes in-edges) ONLY in an equation whose right-hand side holds a Quantity
    # (`if subs_dict:`): 'hasQ' is that guard. For an equation without one there is no substituted right-hand side to
    # observe; 'refsNum' is then sent EMPTY on purpose - the model has the same guard (C09.Eqn.hasQ, C09.keepEdge) and
    # must not look at it (a model that pruned such an equation by refsNum would lose all its in-edges and disagree).
    eq_obs = []
    for i in range(len(case['eqs'])):
        rhs = built[i].rhs
        subs = {q: q.evalf(FLOAT_PRECISION) for q in rhs.atoms(Quantity)}
        eq_obs.append({'refs': sorted(node_of(o) for o in _walk(rhs)), 'hasQ': bool(subs),
                       'refsNum': sorted(node_of(o) for o in _walk(rhs.xreplace(subs))) if subs else []})

    points = []
    for p in case['points']:
        points.append({obj_of(k): sympy.Float(p[k]) for k in range(2 * n + 1)})
    table, row_of = [], {}

    def row(eq, strip):
        """index into `table` of what was observed about one returned equation: the references of its right-hand
        side (reference walker), its value at the sample points, the number of Quantity objects left in it"""
        key = (strip, node_of(eq.lhs), id(eq))
        if key not in row_of:
            out = []
            for pt in points:
                sub = dict(pt)
                for q in eq.rhs.atoms(Quantity):
                    sub[q] = sympy.Float(float(q))
                try:
                    out.append(repr(float(eq.rhs.xreplace(sub))))
                except Exception as e:
                    out.append('err:' + type(e).__name__)
            row_of[key] = len(table)
            keep.append(eq)     # keeps id(eq) unique for the life of this call
            table.append({'used': sorted(node_of(x) for x in _walk(eq.rhs)), 'vals': out,
                          'quantities': len(eq.rhs.atoms(Quantity))})
        return row_of[key]

    keep = []
    m2 = None
    try:
        m2, vars2, free2, _ = _build_model(case, case['order2']['vars'], case['order2']['eqs'])
        index2 = {v: i for i, v in vars2.items()}
        index2[free2] = n
    except Exception as e:
        m2 = 'err:' + type(e).__name__

    def node_of2(obj):
        if isinstance(obj, Variable):
            return index2[obj]
        return n + 1 + index2[obj.args[0]]

    res = []
    for q in case['queries']:
        req = [obj_of(k) for k in q['req']]
        o = {}
        try:
            eqs = m.get_equations_for(req, recurse=q['recurse'], strip_units=q['strip'])
            o['res'] = [node_of(e.lhs) for e in eqs]
            o['rows'] = [row(e, q['strip']) for e in eqs]
            again = m.get_equations_for(req, recurse=q['recurse'], strip_units=q['strip'])
            o['again'] = [str(e) for e in again] == [str(e) for e in eqs]
        except Exception as e:
            o['res'] = 'err:' + type(e).__name__
        if isinstance(m2, str):
            o['res2'] = m2
        else:
            try:
                req2 = [vars2[k] if k < n else (free2 if k == n else sympy.Derivative(vars2[k - n - 1], free2))
                        for k in q['req']]
                o['res2'] = [node_of2(e.lhs) for e in
                             m2.get_equations_for(req2, recurse=q['recurse'], strip_units=q['strip'])]
            except Exception as e:
                o['res2'] = 'err:' + type(e).__name__
        res.append(o)
    return {'eqs': eq_obs, 'table': table, 'queries': res}


# ---------------------------------------------------------------------------------------------- model
def requests(case, obs):
    n = len(case['names'])
    keys = [Str(key_of(case, k)) for k in range(2 * n + 1)]
    eqs = []
    for e, o in zip(case['eqs'], obs['eqs']):
        item = [lhs_node(case, e), list(o['refs']), list(o['refsNum']), bool(o['hasQ'])]
        if e['lhs'][0] == 'd':
            item += [e['lhs'][1], n]
        eqs.append(item)
    qs = [[list(q['req']), q['recurse'], q['strip']] for q in case['queries']]
    return [sx(['C09', ['keys'] + keys, ['eqs'] + eqs, ['queries'] + qs])]


ERRMAP = {'assertion': ('AssertionError',), 'badRef': ('AssertionError', 'AttributeError'),
          'notInGraph': ('NetworkXError', 'KeyError'), 'unfeasible': ('NetworkXUnfeasible',)}


def compare(case, obs, replies):
    rep = replies[0]
    if not isinstance(rep, list) or len(rep) != len(case['queries']):
        return 'model reply malformed: %r' % (rep,)
    for q, o, r in zip(case['queries'], obs['queries'], rep):
        where = 'request %s recurse=%s strip=%s' % ([key_of(case, k) for k in q['req']], q['recurse'], q['strip'])
        if not isinstance(r, list) or not r:
            return '%s: model reply %r' % (where, r)
        if r[0] == 'err':
            if not (isinstance(o['res'], str) and o['res'][4:] in ERRMAP.get(r[1], ())):
                return '%s: model error %s, implementation %s' % (where, r[1], o['res'])
            continue
        got = o['res']
        want = [int(x) for x in r[1:]]
        if got != want:
            return '%s: implementation %s, model %s' % (
                where, got if isinstance(got, str) else [key_of(case, k) for k in got], [key_of(case, k) for k in want])
    return None


# ---------------------------------------------------------------------------------------------- property oracle
def _ev(spec, case, pt):
    """(value, magnitude) of an expression tree of the case in plain float arithmetic; magnitude bounds the size of
    the intermediate terms (for the tolerance)."""
    k = spec[0]
    n = len(case['names'])
    if k == 'q':
        return spec[1], abs(spec[1])
    if k == 'qs':
        v = case['quants'][spec[1]]
        return v, abs(v)
    if k == 'v':
        return pt[spec[1]], abs(pt[spec[1]])
    if k == 't':
        return pt[n], abs(pt[n])
    if k == 'd':
        return pt[n + 1 + spec[1]], abs(pt[n + 1 + spec[1]])
    if k == 's':
        return _ev(case['shared'][spec[1]], case, pt)
    if k == 'add':
        vs = [_ev(s, case, pt) for s in spec[1:]]
        return math.fsum(v for v, _ in vs), sum(g for _, g in vs)
    if k == 'mul':
        vs = [_ev(s, case, pt) for s in spec[1:]]
        return math.prod(v for v, _ in vs), math.prod(g for _, g in vs)
    if k == 'sub':
        (a, ga), (b, gb) = _ev(spec[1], case, pt), _ev(spec[2], case, pt)
        return a - b, ga + gb
    if k == 'div':
        (a, ga), (b, gb) = _ev(spec[1], case, pt), _ev(spec[2], case, pt)
        return a / b, ga / abs(b) * (gb / abs(b))
    if k == 'pow':
        a, ga = _ev(spec[1], case, pt)
        return a ** spec[2], ga ** spec[2]
    if k == 'powq':
        a, ga = _ev(spec[1], case, pt)
        return a ** spec[2], max(1.0, ga ** spec[2])
    if k == 'exp':
        a, ga = _ev(spec[1], case, pt)
        return math.exp(a), math.exp(ga)
    if k == 'pw':
        c1, c2 = _ev(spec[1], case, pt)[0], _ev(spec[2], case, pt)[0]
        return _ev(spec[3], case, pt) if c1 < c2 else _ev(spec[4], case, pt)
    raise ValueError(k)


def oracle(case, obs):
    """The property stated on what get_equations_for returned; no reference to the Lean model. Only systems the
    generator built as valid (acyclic, every reference defined) are judged."""
    if case.get('kind', 'valid') != 'valid':
        return []
    fails = []
    n = len(case['names'])
    eq_of = {}
    for e in case['eqs']:
        eq_of[lhs_node(case, e)] = e
    name = lambda k: key_of(case, k)   # noqa: E731
    for q, o in zip(case['queries'], obs['queries']):
        where = 'request %s recurse=%s strip=%s' % ([name(k) for k in q['req']], q['recurse'], q['strip'])
        res = o['res']
        if isinstance(res, str):
            fails.append({'key': 'error-on-valid-system', 'detail': '%s raised %s' % (where, res)})
            continue
        rows = [obs['table'][r] for r in o['rows']]
        used = dict(zip(res, (r['used'] for r in rows)))
        pos = {}
        for i, v in enumerate(res):
            if v in pos:
                fails.append({'key': 'duplicate-equation', 'detail': '%s: %s twice' % (where, name(v))})
            pos.setdefault(v, i)
        for v in res:
            if v not in eq_of:
                fails.append({'key': 'not-an-equation-of-the-model', 'detail': '%s: %s' % (where, name(v))})
        # every requested left-hand side is there
        for v in q['req']:
            if v in eq_of and v not in pos:
                fails.append({'key': 'requested-missing', 'detail': '%s: %s missing' % (where, name(v))})
        # closure by an independent DFS over what the returned right-hand sides use
        need = set(v for v in q['req'] if v in eq_of)
        if q['recurse']:
            stack = list(need)
            while stack:
                x = stack.pop()
                for u in used.get(x, ()):
                    if u in eq_of and u not in need:
                        need.add(u)
                        stack.append(u)
        else:
            for x in list(need):
                need.update(u for u in used.get(x, ()) if u in eq_of)
        missing, surplus = sorted(need - set(res)), sorted(set(res) - need)
        if missing:
            fails.append({'key': 'incomplete', 'detail': '%s: %s used but not returned' % (where, [name(v) for v in missing])})
        if surplus:
            fails.append({'key': 'not-minimal', 'detail': '%s: %s returned but not needed' % (where, [name(v) for v in surplus])})
        # evaluable order
        for i, v in enumerate(res):
            for u in used.get(v, ()):
                if u in eq_of:
                    if u in pos and pos[u] > i:
                        fails.append({'key': 'use-before-definition', 'detail': '%s: %s uses %s, defined later' % (where, name(v), name(u))})
                    elif u not in pos and q['recurse']:
                        fails.append({'key': 'use-before-definition', 'detail': '%s: %s uses %s, which has an equation '
                                      'that is not in the list' % (where, name(v), name(u))})
                elif not (u == n or (u < n and (n + 1 + u) in eq_of)):
                    fails.append({'key': 'undefined-non-state', 'detail': '%s: %s uses %s' % (where, name(v), name(u))})
        # determinism: second call, and a second model with another insertion order
        if not o.get('again', True):
            fails.append({'key': 'second-call-differs', 'detail': where})
        if o['res2'] != res:
            fails.append({'key': 'insertion-order-dependent', 'detail': '%s: %s vs %s' % (
                where, [name(v) for v in res], o['res2'] if isinstance(o['res2'], str) else [name(v) for v in o['res2']])})
        # the right-hand sides: same numbers as the equations that were added (stripped: after substitution)
        if q['strip'] and any(r['quantities'] for r in rows):
            fails.append({'key': 'quantity-left-after-strip', 'detail': where})
        for v, vals in zip(res, (r['vals'] for r in rows)):
            if v not in eq_of:
                continue
            for pt, got in zip(case['points'], vals):
                want, mag = _ev(eq_of[v]['rhs'], case, pt)
                if got.startswith('err') or not abs(float(got) - want) <= 1e-9 * (1.0 + mag):
                    fails.append({'key': 'rhs-value-differs' + (':stripped' if q['strip'] else ''),
                                  'detail': '%s: %s = %s at point, expected %r' % (where, name(v), got, want)})
                    break
        if len(fails) > 8:
            break
    return fails[:8]


def nontrivial(case, obs):
    return any(isinstance(o['res'], list) and len(o['res']) >= 3 for o in obs['queries'])


def tag(case, obs):
    kind = case.get('kind', 'valid')
    if kind != 'valid':
        errs = sorted({o['res'][4:] for o in obs['queries'] if isinstance(o['res'], str)})
        return 'malformed:%s->%s' % (kind, '/'.join(errs) or 'ok')
    odes = sum(1 for e in case['eqs'] if e['lhs'][0] == 'd')
    sizes = {}
    for q, o in zip(case['queries'], obs['queries']):
        if isinstance(o['res'], list):
            sizes[(tuple(q['req']), q['recurse'], q['strip'])] = o['res']
    dropped = reordered = False
    for (req, rec, strip), res in sizes.items():
        if strip and (req, rec, False) in sizes:
            plain = sizes[(req, rec, False)]
            dropped = dropped or len(res) < len(plain)
            reordered = reordered or (len(res) == len(plain) and res != plain)
    return '%s odes=%s strip=%s%s' % (case['shape'], 'yes' if odes else 'no',
                                      'drops' if dropped else ('reorders' if reordered else 'same'),
                                      ' expand-only' if case.get('xc') else '')


MANIFEST = {
    'technique': 'Lean 4 theorems over an executable model of Model.graph / graph_with_sympy_numbers / '
                 'get_equations_for and of networkx\'s Kahn sort and ancestor closure + differential correspondence',
    'text': ('Proved in Lean for every equation system, request list, recursion mode and number representation '
             '(lean/Cellml/Props/C09.lean, 25 theorems, standard axioms only, no bound on size or shape): the sort is a '
             'permutation of the nodes on every acyclic graph (Kahn never gets stuck; it succeeds iff no node reaches '
             'itself), puts every node after all its predecessors, picks at each position the least key among the '
             'ready nodes, and with distinct str keys depends only on the SET of nodes and edges, not on insertion '
             'order (lexTopo_perm, lexTopo_topological, lexTopo_least, lexTopo_ok_iff_acyclic, acyclic_iff_no_cycle, '
             'lexTopo_insertion_independent); get_equations_for returns, exactly once each, exactly the equations of '
             'the requests and of their transitive (recurse) or direct dependencies (eqsfor_exact, eqsfor_count), every '
             'reference on a returned right-hand side is defined earlier in the list or is a state / the free variable '
             '(eqsfor_order, eqsfor_relative_order), so that assigning the list top to bottom satisfies every returned '
             'equation (eqsfor_evaluable); the call succeeds on every valid acyclic system and only there '
             '(eqsfor_total, eqsfor_ok_only_if); the result is the same however the equations and reference sets were '
             'ordered (eqsfor_insertion_independent); the stripped result contains every requested left-hand side, is '
             'exactly the closure through references surviving number substitution, and is a subset of the unstripped '
             'one (strip_subset, strip_ok_of_plain_ok); an equation without a Quantity is not touched by the stripped variant, '
             'as in the code (strip_keeps_plain_equation, strip_noop_without_quantities). Partial: strip_values_partial (stripped and unstripped lists '
             'compute the same value for every left-hand side the stripped list returns) ASSUMES that SymPy\'s '
             'Quantity->Float substitution preserves the value of each right-hand side. The model is tied to model.py '
             'by a seeded correspondence check: random acyclic systems of 3-14 variables built through the public API, '
             'ordered list of left-hand sides compared with the compiled model for every query; an independent oracle '
             '(DFS closure over the returned right-hand sides, exactly-once, definition-before-use, second call, a '
             'second model with another insertion order, numeric equality of returned right-hand sides with the '
             'equations entered at random points) searches for failing inputs.'),
    'note': ('Trusted: Lean kernel; propext, Classical.choice, Quot.sound; the correspondence harness. networkx '
             '(lexicographical_topological_sort, ancestors, pred) is modelled, not verified. SymPy is not modelled: which '
             'references survive xreplace(Quantity -> Float) is observed from SymPy and handed to the model, and the '
             'numerical identity of stripped right-hand sides is checked numerically (3 points, rel. 1e-9), not proved.'),
}
