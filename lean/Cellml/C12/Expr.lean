/-! # C12 — expression trees as `_singularity_fixes.py` sees them (core Lean only).

    One tree type mirroring the SymPy trees that reach `_fix_expr_parts`: every number of the model is a `Quantity`
    symbol (`num`), the voltage is `volt`, other variables are `var`, `Add`/`Mul` are n-ary with the argument order
    SymPy holds, `Pow` has an integer exponent, `exp` is the exponential, `pw lo hi f` is the two-branch `Piecewise`
    produced by `_generate_piecewise` (after the swap), `fn name args` is anything else (a user `Piecewise`, `log`, …). -/

namespace C12

inductive Expr where
  | num (q : Rat)
  | volt
  | var (n : String)
  | add (args : List Expr)
  | mul (args : List Expr)
  | pow (b : Expr) (n : Int)
  | exp (a : Expr)
  | pw (lo hi : Rat) (f : Expr)
  | fn (name : String) (args : List Expr)
deriving Repr, Inhabited

namespace Expr

mutual
/-- `expr.has(exp_function)` -/
def hasExp : Expr → Bool
  | num _ | volt | var _ => false
  | add as | mul as | fn _ as => anyExp as
  | pow b _ => hasExp b
  | exp _ => true
  | pw _ _ f => hasExp f
def anyExp : List Expr → Bool
  | [] => false
  | a :: as => hasExp a || anyExp as
end

mutual
def size : Expr → Nat
  | num _ | volt | var _ => 1
  | add as | mul as | fn _ as => 1 + sizeL as
  | pow b _ => 1 + size b
  | exp a => 1 + size a
  | pw _ _ f => 1 + size f
def sizeL : List Expr → Nat
  | [] => 0
  | a :: as => size a + sizeL as
end

/-- the partially evaluated right-hand sides kept by `remove_fixable_singularities` (`unprocessed_eqs`) -/
abbrev Env := List (String × Expr)

def lookup (env : Env) (n : String) : Option Expr :=
  match env with
  | [] => none
  | (m, e) :: rest => if m == n then some e else lookup rest n

mutual
/-- `rhs.xreplace(unprocessed_eqs)`: variables with a stored right-hand side are replaced by it (one pass) -/
def subst (env : Env) : Expr → Expr
  | num q => num q
  | volt => volt
  | var n => match lookup env n with
             | some e => e
             | none => var n
  | add as => add (substL env as)
  | mul as => mul (substL env as)
  | pow b n => pow (subst env b) n
  | exp a => exp (subst env a)
  | pw lo hi f => pw lo hi (subst env f)
  | fn name as => fn name (substL env as)
def substL (env : Env) : List Expr → List Expr
  | [] => []
  | a :: as => subst env a :: substL env as
end

/-- is the right-hand side itself a `Piecewise` (those equations are skipped by the traversal) -/
def isPiecewise : Expr → Bool
  | pw _ _ _ => true
  | fn name _ => name == "piecewise"
  | _ => false

/-- `str(a) in ('1.0', '1')`: a quantity (or integer) one -/
def isOne : Expr → Bool
  | num q => q == 1
  | _ => false

/-- `Mul(*args)` on arguments that are themselves arguments of a `Mul` -/
def mkMul : List Expr → Expr
  | [] => num 1
  | [a] => a
  | as => mul as

end Expr
end C12
