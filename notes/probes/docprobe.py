"""Scratch probe: random CellML documents (component trees, routed signals, unit-changing connections) vs a reference evaluator (C01)."""
import random, sys, collections, logging, os, tempfile
import sympy as sp, cellmlmanip
from cellmlmanip.model import Quantity, Variable
logging.disable(logging.CRITICAL)
seed = int(sys.argv[1]) if len(sys.argv) > 1 else 0; N = int(sys.argv[2]) if len(sys.argv) > 2 else 100
rng = random.Random(seed); finds = collections.defaultdict(list); stats = collections.Counter()
HDR = '<?xml version="1.0"?>\n<model name="m" xmlns="http://www.cellml.org/cellml/1.0#" xmlns:cellml="http://www.cellml.org/cellml/1.0#" xmlns:cmeta="http://www.cellml.org/metadata/1.0#">\n'
UNITS = {'V': ('volt', 1.0), 'mV': ('mV', 1e-3), 'uV': ('uV', 1e-6), 's': ('second', 1.0), 'ms': ('ms', 1e-3)}
UDEF = '<units name="mV"><unit units="volt" prefix="milli"/></units><units name="uV"><unit units="volt" prefix="micro"/></units><units name="ms"><unit units="second" prefix="milli"/></units>\n'
FAMS = {'volt': ['V', 'mV', 'uV'], 'time': ['s', 'ms']}
def ratio_units(a, b):  # name for unit a/b, defined on demand
    return 'r_%s_per_%s' % (a, b)
def gen_doc():
    k = rng.randint(2, 6); comps = ['c%d' % i for i in range(k)]
    parent = {}
    for i, c in enumerate(comps):
        parent[c] = rng.choice([None] + comps[:i]) if i and rng.random() < 0.6 else None
    def anc(c):
        out = [c]
        while parent[out[-1]] is not None: out.append(parent[out[-1]])
        return out          # c, parent, grandparent...
    def path(a, b):
        """list of components from a to b moving along parent/child/sibling hops"""
        A, B = anc(a), anc(b)
        common = [x for x in A if x in B]
        if common:
            l = common[0]; up = A[:A.index(l)+1]; down = B[:B.index(l)][::-1]
            # if neither is ancestor of the other we could go sibling-to-sibling below l instead of via l
            if l != a and l != b: up = A[:A.index(l)]; return up + down      # sibling hop between children of l
            return up + down
        return A + B[::-1]    # up to top-level of a, sibling hop to top-level of b, down
    nsig = rng.randint(1, 4); sigs = []
    vars_ = collections.defaultdict(dict)   # comp -> local name -> dict(units, pub, priv, init, sig)
    conns = []   # (c1, v1, c2, v2)
    for si in range(nsig):
        fam = 'volt'; owner = rng.choice(comps); name = 'q%d' % si
        vars_[owner][name] = dict(units=rng.choice(FAMS[fam]), pub='out', priv='out', sig=si, init=None)
        sig = dict(id=si, owner=owner, name=name, views={owner: name}); sigs.append(sig)
        for tgt in rng.sample(comps, rng.randint(0, min(3, k))):
            p = path(owner, tgt)
            for a, b in zip(p[:-1], p[1:]):
                if b in sig['views']: continue
                ln = name if rng.random() < 0.6 else '%s_in_%s' % (name, b)
                v = dict(units=rng.choice(FAMS[fam]), pub='none', priv='none', sig=si, init=None)
                if parent[b] == a: v['pub'] = 'in'; v['priv'] = 'out'                      # came down from parent
                elif parent[a] == b: v['priv'] = 'in'; v['pub'] = 'out'                    # came up from child
                else: v['pub'] = 'in'; v['priv'] = 'out'                                   # sibling
                vars_[b][ln] = v; sig['views'][b] = ln
                pair = (a, sig['views'][a], b, ln)
                conns.append(pair if rng.random() < 0.5 else (b, ln, a, sig['views'][a]))
    # definitions
    extra_units = set(); maths = collections.defaultdict(list); truth = {}
    def cn(val, u): return '<cn cellml:units="%s">%r</cn>' % (UNITS[u][0] if u in UNITS else u, val)
    for sig in sigs:
        o = sig['owner']; v = vars_[o][sig['name']]; U = v['units']
        avail = [(s2, vars_[o][s2['views'][o]]) for s2 in sigs[:sig['id']] if o in s2['views']]
        if not avail or rng.random() < 0.3:
            val = float(rng.randint(1, 9))
            if rng.random() < 0.5: v['init'] = val
            else: maths[o].append('<apply><eq/><ci>%s</ci>%s</apply>' % (sig['name'], cn(val, U)))
            truth[sig['id']] = val * UNITS[U][1]
        else:
            terms = []; total = 0.0
            c0 = float(rng.randint(0, 5)); terms.append(cn(c0, U)); total += c0 * UNITS[U][1]
            for s2, lv in rng.sample(avail, rng.randint(1, min(2, len(avail)))):
                kf = float(rng.randint(1, 4)); ru = ratio_units(U, lv['units']); extra_units.add((U, lv['units']))
                terms.append('<apply><times/>%s<ci>%s</ci></apply>' % (cn(kf, ru), s2['views'][o]))
                total += kf * (UNITS[U][1] / UNITS[lv['units']][1]) * truth[s2['id']]
            maths[o].append('<apply><eq/><ci>%s</ci><apply><plus/>%s</apply></apply>' % (sig['name'], ''.join(terms)))
            truth[sig['id']] = total
    xml = HDR + UDEF
    for a, b in sorted(extra_units):
        xml += '<units name="%s"><unit units="%s"/><unit units="%s" exponent="-1"/></units>\n' % (ratio_units(a, b), UNITS[a][0], UNITS[b][0])
    order = comps[:]; rng.shuffle(order)
    for c in order:
        xml += '<component name="%s">\n' % c
        items = list(vars_[c].items()); rng.shuffle(items)
        for n, v in items:
            xml += '  <variable name="%s" units="%s" public_interface="%s" private_interface="%s"%s/>\n' % (n, UNITS[v['units']][0], v['pub'], v['priv'], (' initial_value="%r"' % v['init']) if v['init'] is not None else '')
        if maths[c]:
            ms = maths[c][:]; rng.shuffle(ms)
            xml += '<math xmlns="http://www.w3.org/1998/Math/MathML">' + ''.join(ms) + '</math>\n'
        xml += '</component>\n'
    kids = collections.defaultdict(list)
    for c in comps:
        if parent[c] is not None: kids[parent[c]].append(c)
    def ref(c): return '<component_ref component="%s">%s</component_ref>' % (c, ''.join(ref(x) for x in kids[c]))
    roots = [c for c in comps if parent[c] is None and kids[c]]
    if roots: xml += '<group><relationship_ref relationship="encapsulation"/>' + ''.join(ref(c) for c in roots) + '</group>\n'
    rng.shuffle(conns)
    for c1, v1, c2, v2 in conns:
        xml += '<connection><map_components component_1="%s" component_2="%s"/><map_variables variable_1="%s" variable_2="%s"/></connection>\n' % (c1, c2, v1, v2)
    xml += '</model>\n'
    return xml, sigs, vars_, truth
def phys_eval(m, expr, pv):
    """physical SI value of expr given physical values pv of variables (by Variable); units handled via pint"""
    s = m.units
    def sc(u): return float(s._registry.get_base_units(u)[0])
    def go(e):
        if isinstance(e, Quantity): return float(e) * sc(e.units)
        if isinstance(e, Variable): return pv[e]
        if e.is_Number: return float(e)
        if e.is_Add: return sum(go(a) for a in e.args)
        if e.is_Mul:
            r = 1.0
            for a in e.args: r *= go(a)
            return r
        if e.is_Pow: return go(e.args[0]) ** go(e.args[1])
        raise NotImplementedError(str(e.func))
    return go(expr)
def close(a, b): return abs(a-b) <= 1e-9*max(1.0, abs(a), abs(b))
for case in range(N):
    xml, sigs, vars_, truth = gen_doc()
    fd, p = tempfile.mkstemp(suffix='.cellml', dir='/tmp/pr'); os.write(fd, xml.encode()); os.close(fd)
    try: m = cellmlmanip.load_model(p)
    except Exception as ex:
        finds['load EXC ' + type(ex).__name__ + ': ' + str(ex)[:70]].append(case); open('/tmp/pr/fail_%d_%d.cellml' % (seed, case), 'w').write(xml); continue
    finally: os.unlink(p)
    stats['loaded'] += 1; stats['hops'] += sum(len(sg['views'])-1 for sg in sigs)
    pv = {}
    try:
        defined = [v for v in m.variables() if m.get_definition(v) is not None]
        for eq in m.get_equations_for(defined, strip_units=False):
            pv[eq.lhs] = phys_eval(m, eq.rhs, pv)
    except Exception as ex: finds['eval EXC ' + type(ex).__name__ + ' ' + str(ex)[:60]].append(case); continue
    used = set().union(*[e.atoms(Variable) for e in m.equations]) if m.equations else set()
    for sg in sigs:
        for c, ln in sg['views'].items():
            var = m.get_variable_by_name('%s$%s' % (c, ln))
            if var in pv:
                stats['views checked'] += 1
                if not close(pv[var], truth[sg['id']]): finds['WRONG VALUE for a view'].append((case, var.name, pv[var], truth[sg['id']]))
            elif var in used: finds['view used but undefined'].append((case, var.name))
            else: stats['views substituted away'] += 1
print(dict(stats))
for k, v in finds.items(): print('##', k, len(v), v[:3])
