import Cellml.Tie.ConnDir
import Cellml.Tie.ConnLoop
import Cellml.Tie.LoaderConsts
import Cellml.Tie.LoaderSym
import Cellml.Tie.LoaderRel
import Cellml.Tie.LoaderComps
import Cellml.Tie.LoaderParse

/-! # Ties of package Loader (properties C01, C15, C17): parser.py ↔ `Load.*` / `C17.*`

    | python (cellmlmanip/parser.py)                 | generated                          | tie theorem(s)                                   |
    |------------------------------------------------|------------------------------------|--------------------------------------------------|
    | `Parser._determine_connection_direction`       | `Gen.ConnDir`                      | `connDir_tie`                                    |
    | `Parser._add_connections` (while body)         | `Gen.ConnLoop`                     | `connLoop_body_tie`, `connectLoop_cons`          |
    | `Parser.transform_constants`                   | `Gen.LoaderConsts`                 | `transformConstants_tie`, `…_inits`              |
    | `Parser._add_maths.symbol_generator`           | `Gen.LoaderSym`                    | `symbolGenerator_tie`, `whileUpTo_resolve`       |
    | `Parser._handle_component_ref`                 | `Gen.LoaderRel.handleComponentRef` | `handleComponentRef_fix`                         |
    | `Parser._add_relationships`                    | `Gen.LoaderRel.addRelationships`   | `addRelationships_tie`, `…_badGroup`             |
    | `Parser._add_components`                       | `Gen.LoaderComps`                  | `addComponents_tie`, `addComponents_reaction`    |
    | `Parser.parse`                                 | `Gen.LoaderParse`                  | `parse_tie`                                      | -/
