/-! # Prelude of the code translator (harness/translate_code.py)

    The generated definitions (`Cellml/Generated/Code/*.lean`) are `do` blocks in `Except PyErr`. This file holds the few
    python notions the translator's generic rules refer to: the exception value (class name only: messages are not
    behaviour the properties speak about), truthiness in condition positions, and `in`. Core Lean only. -/

namespace Cellml.Tie

/-- a raised python exception, identified by the name of its class -/
structure PyErr where
  cls : String
deriving DecidableEq, Repr

namespace Py

/-- python truthiness, for the types that occur in condition positions of the translated functions -/
class Truthy (α : Type) where
  truthy : α → Bool

export Truthy (truthy)

instance : Truthy Bool := ⟨id⟩
instance {α} : Truthy (Option α) := ⟨Option.isSome⟩
instance {α} : Truthy (List α) := ⟨fun l => !l.isEmpty⟩
instance : Truthy String := ⟨fun s => !(s == "")⟩
instance : Truthy Nat := ⟨fun n => !(n == 0)⟩
instance : Truthy Int := ⟨fun n => !(n == 0)⟩

@[simp] theorem truthy_bool (b : Bool) : truthy b = b := rfl
@[simp] theorem truthy_option {α} (o : Option α) : truthy o = o.isSome := rfl
@[simp] theorem truthy_list {α} (l : List α) : truthy l = !l.isEmpty := rfl
@[simp] theorem truthy_nat (n : Nat) : truthy n = !(n == 0) := rfl

/-- python `fmt % (a, b, …)` restricted to `%s` / `%d` place-holders over arguments that are already strings:
    the i-th place-holder is replaced by the i-th argument; `%%` is a literal percent sign -/
def fmtAux : List Char → List String → List Char
  | [], _ => []
  | '%' :: '%' :: cs, args => '%' :: fmtAux cs args
  | '%' :: 's' :: cs, a :: args => a.toList ++ fmtAux cs args
  | '%' :: 'd' :: cs, a :: args => a.toList ++ fmtAux cs args
  | c :: cs, args => c :: fmtAux cs args

def fmt (f : String) (args : List String) : String := String.ofList (fmtAux f.toList args)

/-- python `x in xs` for lists -/
def isIn {α} [BEq α] (x : α) (xs : List α) : Bool := xs.contains x

/-- `while test(s): s = body(s)` cut off after at most `n` iterations (the state reached is returned; the tie theorems
    say for which `n` the test is false at the end, i.e. the python loop has really finished) -/
def whileUpTo {σ : Type} (n : Nat) (test : σ → Bool) (body : σ → Except PyErr σ) (s : σ) : Except PyErr σ :=
  match n with
  | 0 => .ok s
  | n + 1 => if test s then (body s) >>= whileUpTo n test body else .ok s

/-- python `a is b` for objects that are represented by their identity -/
def is_ {α} [BEq α] (a b : α) : Bool := a == b

/-- `d[k] = v` on an insertion-ordered dict kept as an association list: in place when the key exists, at the end
    otherwise -/
def setAssoc {κ ν} [DecidableEq κ] (k : κ) (v : ν) : List (κ × ν) → List (κ × ν)
  | [] => [(k, v)]
  | (k', v') :: rest => if k' = k then (k, v) :: rest else (k', v') :: setAssoc k v rest

/-- dict-like objects: `x in d` looks at the keys (`Py.isIn x (Py.keys d)`), `d[k] = v` is `Py.setItem d k v` -/
class DictLike (δ : Type) (κ : outParam Type) (ν : outParam Type) where
  keys : δ → List κ
  setItem : δ → κ → ν → δ

export DictLike (keys setItem)

instance {κ ν} [DecidableEq κ] : DictLike (List (κ × ν)) κ ν := ⟨fun d => d.map (·.1), fun d k v => setAssoc k v d⟩

/-- `{}` -/
def emptyDict {κ ν} : List (κ × ν) := []

/-- `{k: v for x in xs}` from the list of its (key, value) pairs in iteration order -/
def dictOf {κ ν} [DecidableEq κ] (l : List (κ × ν)) : List (κ × ν) := l.foldl (fun d p => setAssoc p.1 p.2 d) []

end Py

/-- forget the message of a model-side error: only the class is compared -/
def errClass {ε α} (cls : ε → String) : Except ε α → Except PyErr α
  | .ok a => .ok a
  | .error e => .error ⟨cls e⟩

end Cellml.Tie
