import Cellml.Tie.SingFix
set_option linter.unusedSimpArgs false

/-! # Tie of the `Add` branch of `_fix_expr_parts` (lines 275-294 of `_singularity_fixes.py`), and the full tie

    Python (generated text in `Cellml/Generated/Code/SingFix.lean`): the terms are analysed one by one; with
    `range` the flat list of the bounds `(Vmin, Vmax)` of all the terms,
    `len(parts) > 1 and len(set(str(sp) …)) == 1 and all(isinstance(b, Quantity) for b in range)` decides between ONE
    window `(min(range), max(range), parts[0].sp)` around the original sum and a term-by-term wrap.
    Model (`C12.fixBody`, `add` case): `C12.sameSp` — at least two terms, the first has a window, every other term has
    a window with the same singular point — and then `C12.mergeAll` (a left fold of `mergeWide`, i.e. nested
    `min2`/`max2` that re-read the running minimum and maximum at every step). -/

namespace Cellml.Tie.Sing
open C12 C12.Expr Cellml.Gen

/-! ## python `set` -/

section
variable {α : Type} [BEq α] [LawfulBEq α]

theorem mem_pySet (l : List α) : ∀ a : α, a ∈ pySet l ↔ a ∈ l := by
  induction l with
  | nil => intro a; simp [pySet]
  | cons b bs ih =>
    intro a
    unfold pySet
    by_cases h : (pySet bs).contains b = true
    · rw [if_pos h]
      have hb : b ∈ bs := (ih b).mp (by simpa using h)
      constructor
      · intro ha; exact List.mem_cons_of_mem _ ((ih a).mp ha)
      · intro ha
        rcases List.mem_cons.mp ha with rfl | ha
        · exact (ih _).mpr hb
        · exact (ih a).mpr ha
    · rw [if_neg h]
      simp only [List.mem_cons, ih]

theorem nodup_pySet (l : List α) : (pySet l).Nodup := by
  induction l with
  | nil => simp [pySet]
  | cons b bs ih =>
    unfold pySet
    by_cases h : (pySet bs).contains b = true
    · rw [if_pos h]; exact ih
    · rw [if_neg h]
      refine List.nodup_cons.mpr ⟨?_, ih⟩
      simpa using h

/-- `len(set(xs)) == 1` for a non-empty list: every element equals the first -/
theorem pySet_length_one (a : α) (as : List α) : ((pySet (a :: as)).length == 1) = as.all (· == a) := by
  have hmem := mem_pySet (a :: as)
  have hnd := nodup_pySet (a :: as)
  rw [Bool.eq_iff_iff]
  simp only [beq_iff_eq, List.all_eq_true]
  constructor
  · intro h1 b hb
    match hs : pySet (a :: as), h1 with
    | [c], _ =>
      rw [hs] at hmem
      have ha : a = c := by simpa using (hmem a).mpr List.mem_cons_self
      have hb' : b = c := by simpa using (hmem b).mpr (List.mem_cons_of_mem _ hb)
      rw [ha, hb']
  · intro hall
    have hall' : ∀ x ∈ pySet (a :: as), x = a := by
      intro x hx
      rcases List.mem_cons.mp ((hmem x).mp hx) with h | h
      · exact h
      · exact hall x h
    match hs : pySet (a :: as) with
    | [] =>
      have : a ∈ pySet (a :: as) := (hmem a).mpr List.mem_cons_self
      rw [hs] at this; cases this
    | [c] => rfl
    | c :: d :: rest =>
      rw [hs] at hall' hnd
      have hc : c = a := hall' c List.mem_cons_self
      have hd : d = a := hall' d (List.mem_cons_of_mem _ List.mem_cons_self)
      rw [hc, hd] at hnd
      simp at hnd

end

/-! ## `min(range)` / `max(range)` over the flat list of bounds = `C12.mergeAll` -/

/-- the bounds of a list of windows in python's order: `Vmin₁, Vmax₁, Vmin₂, Vmax₂, …` -/
def flatB (ws : List (Win Rat)) : List Rat := ws.flatMap (fun w => [w.vmin, w.vmax])

/-- the model's fold of `mergeWide` re-reads the running `(min, max)` pair at every step (`min2 (min2 m M) …`);
    because `m ≤ M` from the first step on, it is the flat left fold python's `min` / `max` perform -/
theorem mergeAll_flat (s : Win Rat) (ts : List (Win Rat)) :
    mergeAll s ts = ⟨(flatB ts).foldl min2 (min2 s.vmin s.vmax), (flatB ts).foldl max2 (max2 s.vmin s.vmax), s.sp⟩ := by
  induction ts generalizing s with
  | nil => rfl
  | cons t ts ih =>
    rw [mergeAll, ih]
    have hle : (mergeWide s t).vmin ≤ (mergeWide s t).vmax := by
      simp only [mergeWide, min2_eq, max2_eq]
      exact le_trans (min4_le s.vmin s.vmax t.vmin t.vmax).1 (le_max4 s.vmin s.vmax t.vmin t.vmax).1
    have h1 : min2 (mergeWide s t).vmin (mergeWide s t).vmax = (mergeWide s t).vmin := by
      rw [min2_eq]; exact min_eq_left hle
    have h2 : max2 (mergeWide s t).vmin (mergeWide s t).vmax = (mergeWide s t).vmax := by
      rw [max2_eq]; exact max_eq_right hle
    rw [h1, h2]
    simp [flatB, mergeWide]

/-! ## the decision of the `Add` branch = `C12.sameSp` -/

theorem bounds5_enc (rs : List Res) :
    bounds5 (rs.map enc) = (rs.map (·.win)).flatMap (fun o => [o.map (·.vmin), o.map (·.vmax)]) := by
  simp [bounds5, enc, List.flatMap_map]

theorem spStrs_enc (rs : List Res) : spStrs (rs.map enc) = (rs.map (·.win)).map (fun o => o.map (·.sp)) := by
  simp [spStrs, enc, List.map_map, Function.comp_def]

theorem all_some_bounds (os : List (Option (Win Rat))) :
    (os.flatMap (fun o => [o.map (·.vmin), o.map (·.vmax)])).all (fun b => b.isSome) = os.all (·.isSome) := by
  induction os with
  | nil => rfl
  | cons o os ih => cases o <;> simp [ih]

theorem filterMap_bounds (ws : List (Win Rat)) :
    (((ws.map some).flatMap (fun o => [o.map (·.vmin), o.map (·.vmax)])).filterMap id) = flatB ws := by
  induction ws with
  | nil => rfl
  | cons w ws ih => simp [flatB] at ih ⊢; exact ih

theorem exists_wins (os : List (Option (Win Rat))) (h : os.all (·.isSome) = true) :
    ∃ ws : List (Win Rat), os = ws.map some := by
  induction os with
  | nil => exact ⟨[], rfl⟩
  | cons o os ih =>
    simp only [List.all_cons, Bool.and_eq_true] at h
    obtain ⟨ws, rfl⟩ := ih h.2
    cases o with
    | none => simp at h
    | some w => exact ⟨w :: ws, rfl⟩

theorem all_wins (f : Res → Bool) (g : Win Rat → Bool) (hf : ∀ x w', x.win = some w' → f x = g w') :
    ∀ (l : List Res) (vs : List (Win Rat)), l.map (·.win) = vs.map some → l.all f = vs.all g := by
  intro l
  induction l with
  | nil => intro vs h; cases vs with
    | nil => rfl
    | cons v vs => simp at h
  | cons x l ih =>
    intro vs h
    cases vs with
    | nil => simp at h
    | cons v vs =>
      have h' := List.cons.inj h
      simp only [List.all_cons]
      rw [hf x v h'.1, ih vs h'.2]

/-- `sameSp` reads the windows only -/
theorem sameSp_wins (r : Res) (tl : List Res) (w : Win Rat) (ws : List (Win Rat)) (hw : r.win = some w)
    (hne : tl ≠ []) (hws : tl.map (·.win) = ws.map some) :
    sameSp (r :: tl) = if ws.all (fun w' => w'.sp == w.sp) then some (mergeAll w ws) else none := by
  obtain ⟨t, tl', rfl⟩ : ∃ t tl', tl = t :: tl' := by
    cases tl with
    | nil => exact absurd rfl hne
    | cons t tl' => exact ⟨t, tl', rfl⟩
  have h2 : (t :: tl').filterMap (·.win) = ws := by
    have : (t :: tl').filterMap (·.win) = ((t :: tl').map (·.win)).filterMap id := by rw [List.filterMap_map]; rfl
    rw [this, hws, List.filterMap_map]; simp
  simp only [sameSp, hw]
  rw [h2]
  congr 2
  apply all_wins _ _ ?_ _ _ hws
  intro x w' hx
  simp [hx]

/-- **the `if` of the `Add` branch.** On the python spelling of any list of model results: the condition
    `len(parts) > 1 and len(set(str(sp) …)) == 1 and all(isinstance(b, Quantity) for b in range)` holds exactly when
    `C12.sameSp` finds a common window, and then `min(range)`, `max(range)`, `parts[0][2]` are its `vmin`, `vmax`,
    `sp` (`C12.mergeAll`) -/
theorem sameSp_py (rs : List Res) :
    (decide ((rs.map enc).length > 1) && ((pySet (spStrs (rs.map enc))).length == 1)
        && (bounds5 (rs.map enc)).all (fun b => b.isSome)) = (sameSp rs).isSome ∧
    ∀ w, sameSp rs = some w →
      pyMin (bounds5 (rs.map enc)) = some w.vmin ∧ pyMax (bounds5 (rs.map enc)) = some w.vmax ∧
      ((rs.map enc).headD pyResDefault).2.2.1 = some w.sp := by
  match rs with
  | [] => simp [sameSp]
  | [r] => simp [sameSp]
  | r :: r' :: rs' =>
    rw [bounds5_enc, spStrs_enc, all_some_bounds]
    by_cases hall : ((r :: r' :: rs').map (·.win)).all (·.isSome) = true
    · obtain ⟨ws0, hws0⟩ := exists_wins _ hall
      match ws0, hws0 with
      | w :: ws, hws0 =>
        have hw : r.win = some w := (List.cons.inj hws0).1
        have hws : (r' :: rs').map (·.win) = ws.map some := (List.cons.inj hws0).2
        have hs := sameSp_wins r (r' :: rs') w ws hw (by simp) hws
        rw [hs, hall]
        have hset : ((pySet (((r :: r' :: rs').map (·.win)).map (fun o => o.map (·.sp)))).length == 1)
            = ws.all (fun w' => w'.sp == w.sp) := by
          have : ((r :: r' :: rs').map (·.win)).map (fun o => o.map (·.sp))
              = some w.sp :: ws.map (fun w' => some w'.sp) := by
            rw [List.map_cons, hw, hws]
            simp [List.map_map, Function.comp_def]
          rw [this, pySet_length_one, List.all_map]
          congr 1
        rw [hset]
        refine ⟨by cases h : ws.all (fun w' => w'.sp == w.sp) <;> simp [h], ?_⟩
        intro m hm
        split at hm
        · have hm' := Option.some.inj hm
          have hb : ((r :: r' :: rs').map (·.win)) = (w :: ws).map some := by
            rw [List.map_cons, hw, hws]; rfl
          rw [hb]
          unfold pyMin pyMax
          rw [filterMap_bounds, ← hm', mergeAll_flat]
          simp [flatB, enc, hw]
        · cases hm
    · have hnone : sameSp (r :: r' :: rs') = none := by
        cases hw : r.win with
        | none => simp [sameSp, hw]
        | some w =>
          simp only [sameSp, hw]
          rw [if_neg]
          intro hc
          apply hall
          rw [List.map_cons, List.all_cons, hw]
          simp only [Option.isSome_some, Bool.true_and]
          rw [List.all_map]
          rw [List.all_eq_true] at hc ⊢
          intro x hx
          have := hc x hx
          cases hx' : x.win with
          | none => simp [hx'] at this
          | some _ => simp [hx']
      rw [hnone]
      simp only [Bool.not_eq_true] at hall
      rw [hall]
      simp

/-! ## the branch -/

theorem foldl_append_map {α β : Type} (l : List α) (f : α → β) (acc : List β) :
    l.foldl (fun s a => s ++ [f a]) acc = acc ++ l.map f := by
  induction l generalizing acc with
  | nil => simp
  | cons a as ih => rw [List.foldl_cons, ih]; simp

/-- what the generated definition computes after the loop over the terms, on the python spelling of any list of
    model results `rs`, `x` the sum itself -/
theorem addBranch_core (rs : List Res) (x : Expr) :
    ((if (decide ((rs.map enc).length > 1) && (pySet (spStrs (rs.map enc))).length == 1 &&
            (bounds5 (rs.map enc)).all fun b => b.isSome) = true then
        Except.ok (pyMin (bounds5 (rs.map enc)), pyMax (bounds5 (rs.map enc)),
          ((rs.map enc).headD pyResDefault).2.2.1, x, true)
      else
        Except.ok (none, none, none,
          add (List.foldl (fun (s : List Expr × Bool) (a : PyRes) =>
                  (s.1 ++ [if a.2.2.1.isSome = true then genPw a.2.2.2.1 a.2.2.1 a.1 a.2.1 else a.2.2.2.1],
                    s.2 || a.2.2.2.2 || a.1.isSome)) ([], false) (rs.map enc)).1,
          (List.foldl (fun (s : List Expr × Bool) (a : PyRes) =>
                  (s.1 ++ [if a.2.2.1.isSome = true then genPw a.2.2.2.1 a.2.2.1 a.1 a.2.1 else a.2.2.2.1],
                    s.2 || a.2.2.2.2 || a.1.isSome)) ([], false) (rs.map enc)).2)) : Except PyErr PyRes)
      = .ok (enc (match sameSp rs with
                  | some w => ⟨some w, x, true⟩
                  | none => ⟨none, add (rs.map wrap), rs.any Res.touched⟩)) := by
  obtain ⟨hc, hv⟩ := sameSp_py rs
  rw [hc]
  cases hs : sameSp rs with
  | some w =>
    obtain ⟨h1, h2, h3⟩ := hv w hs
    rw [if_pos (by rfl), h1, h2, h3]
    rfl
  | none =>
    simp only [Option.isSome_none, Bool.false_eq_true, if_false]
    rw [foldl_parts]
    simp only [List.nil_append, Bool.false_or, List.map_map, List.any_map, Function.comp_def, genPw_enc,
      touched_enc]
    rfl

/-- the code of the branch, as the generated definition has it once `expr` is known to be the sum `add bs` -/
theorem addBranch (det : List Expr → List (Win Rat)) (rec : Expr → Res) (e : Expr) (bs : List Expr)
    (h : e.hasExp = true) (hd : dropOnes e = add bs) :
    SingFix.fixExprParts det (fun x => enc (rec x)) e = .ok (enc (fixBody det rec (add bs))) := by
  have hm : List.map (fun a => enc (rec a)) bs = (bs.map rec).map enc := by simp [List.map_map]
  unfold SingFix.fixExprParts
  cases e with
  | mul as =>
    simp only [bind, Except.bind, pure, Except.pure, Py.truthy_bool, isMul_mul, args_mul, h, Bool.not_true,
      Bool.false_eq_true, if_false, if_true, dropOnes_filter, hd]
    simp only [isAdd, args_add, if_true, forIn_ok_yield, foldl_append_map, List.nil_append]
    rw [hm, addBranch_core]
    rfl
  | add bs' =>
    obtain rfl : bs' = bs := by simpa [dropOnes] using hd
    simp only [bind, Except.bind, pure, Except.pure, Py.truthy_bool, h, Bool.not_true,
      Bool.false_eq_true, if_false, if_true, isMul]
    simp only [isAdd, args_add, if_true, forIn_ok_yield, foldl_append_map, List.nil_append]
    rw [hm, addBranch_core]
    rfl
  | _ => simp [dropOnes] at hd

/-! ## the full tie -/

/-- **Tie of `_fix_expr_parts` (open recursion), every branch.**
    For every detector `det` (`_get_singularity`), every value `rec` of the recursive calls and every expression `e`,
    the definition generated from `_fix_expr_parts` never raises and returns the python spelling of the hand model's
    `if !e.hasExp then ⟨none, e, false⟩ else fixBody det rec (dropOnes e)` — the body of `C12.fixParts`.
    The one remaining hypothesis `hcanon` (when the ones-free form is a product it has at least two factors) is
    genuinely needed: SymPy never holds a `Mul` with fewer arguments, python's `Mul(*[x])` IS `x`, the model's
    `mul [x]` is a node (`example` at the end of `Tie/SingFix.lean` gives the input on which they differ). -/
theorem fixExprParts_tie (det : List Expr → List (Win Rat)) (rec : Expr → Res) (e : Expr)
    (hcanon : ∀ as, dropOnes e = mul as → 2 ≤ as.length) :
    SingFix.fixExprParts det (fun x => enc (rec x)) e
      = .ok (enc (if e.hasExp then fixBody det rec (dropOnes e) else ⟨none, e, false⟩)) := by
  by_cases h : e.hasExp = true
  · cases hd : dropOnes e with
    | add bs => rw [if_pos h]; exact addBranch det rec e bs h hd
    | _ => rw [← hd]; exact fixExprParts_tie_partial det rec e (by rw [hd]; rfl) hcanon
  · unfold SingFix.fixExprParts
    simp [h, pure, Except.pure, enc]

/-- the hand model `fixParts` is a fixpoint of the functional generated from the source of `_fix_expr_parts` -/
theorem fixParts_fixpoint (det : List Expr → List (Win Rat)) (n : Nat) (e : Expr)
    (hcanon : ∀ as, dropOnes e = mul as → 2 ≤ as.length) :
    SingFix.fixExprParts det (fun x => enc (fixParts det n x)) e = .ok (enc (fixParts det (n + 1) e)) := by
  rw [fixExprParts_tie det _ e hcanon]
  unfold fixParts
  by_cases h : e.hasExp = true <;> simp [h]

end Cellml.Tie.Sing
