#!/bin/bash
# tools/merge_tie2.sh <Name>: bring the deliverables of a wave-2 package built in /tmp/tie2/<Name> into /verif
set -u
n=$1; src=/tmp/tie2/$n; base=${TIE_BASE}
cd /verif
for d in lean/Cellml/Tie lean/Cellml/Props lean/Cellml/Iso lean/Cellml/Generated/Code harness/code_specs harness/translate_ext; do
  [ -d $src/$d ] && rsync -a --ignore-existing --exclude __pycache__ $src/$d/ $d/
done
rsync -a $src/notes/reports/TIE2_*.md notes/reports/ 2>/dev/null
# existing files the package changed (relative to the commit the copy was made from)
(cd $src; find lean/Cellml harness -type f \( -name '*.lean' -o -name '*.py' \) | grep -v "__pycache__\|\.lake" ) | while read f; do
  if git cat-file -e $base:$f 2>/dev/null && ! cmp -s $src/$f <(git show $base:$f); then
     if cmp -s /verif/$f <(git show $base:$f); then cp $src/$f /verif/$f; echo "took changed $f"; else echo "CHANGED ON BOTH SIDES: $f"; fi
  fi
done
# imports
grep "^import" $src/lean/Cellml.lean | while read l; do grep -qxF "$l" lean/Cellml.lean || echo "$l" >> lean/Cellml.lean; done
