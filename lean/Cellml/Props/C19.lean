import Cellml.Units.RulesLemmas

/-! # C19 — custom conversion rules apply the same way whatever units sit on either side.

    Model (`Cellml/Units/Rules.lean`): `add_conversion_rule` as pint 0.18 executes it — a transformation keyed by the pair
    (source DIMENSIONALITY, target DIMENSIONALITY), newest first; `convertWithRules` = pint's `Quantity.to` with the
    enabled contexts (shortest path in the graph of keys, every hop multiplies the quantity by the rule's κ, then the
    ordinary conversion); `convertQ` = `UnitStore.convert`, `conversionFactorR` = `get_conversion_factor`,
    `convertVariable` = the part of `Model.convert_variable` that depends on the factor.

    A factor is a pair (scale, symbols): the scale is a prime ↦ exponent map (`add` is multiplication, `sub` division,
    `[]` is one), the symbols a symbol ↦ exponent map (`Cs/Cm` is `[("Cs",1),("Cm",-1)]`); `≃` is equality of the
    numbers / monomials denoted. `(toRoot reg u).1` is the SI scale of the unit `u`.

    Every theorem quantifies over ALL registries, ALL rule lists (any number of rules, any shadowing), ALL unit
    expressions. The tie to cellmlmanip + pint is the correspondence check `harness/props/c19.py`. -/

namespace Cellml.Props.C19
open Units PMap Cellml.Props.C07

/-! ### a rule is keyed by dimensions: the units it was registered with do not matter -/

/-- `add_conversion_rule(f, t, rule)` and `add_conversion_rule(f', t', rule)` enable the same transformation whenever
    `f, f'` have the same dimension and `t, t'` have the same dimension. -/
theorem rule_registration_units_irrelevant (reg : Registry) (f f' t t' : Container) (body : List RFactor)
    (hf : dimsOf reg f ≃ dimsOf reg f') (ht : dimsOf reg t ≃ dimsOf reg t') :
    mkRule reg f t body = mkRule reg f' t' body := by
  unfold mkRule
  rw [dimsOf_eq_of_equiv hf, dimsOf_eq_of_equiv ht]

/-- a respelling of a unit (same container up to order / splitting of exponents) has the same key -/
theorem rule_key_respelling (reg : Registry) {u u' : Container} (h : u ≃ u') : dimsOf reg u = dimsOf reg u' :=
  dimsOf_congr reg h

/-! ### `UnitStore.convert` / `get_conversion_factor` are pint's conversion -/

/-- the special case of `UnitStore.convert` for the unit `dimensionless` cannot be observed (after the repair recorded
    in findings/C19.json): `convert` is pint's conversion with the enabled rules, for every pair of units. -/
theorem convert_special_case_invisible (reg : Registry) (rules : List Rule) (a b : Container) :
    convertQ reg rules a b = convertWithRules reg rules a b := convertQ_eq reg rules a b

/-- `get_conversion_factor` is that multiplier, with exactly-one reported as the int `1` -/
theorem conversionFactorR_eq (reg : Registry) (rules : List Rule) (a b : Container) :
    conversionFactorR reg rules a b =
      match convertWithRules reg rules a b with
      | .ok (f, y) => .ok (if f = [] ∧ y = [] then none else some (f, y))
      | .error e => .error e := by
  unfold conversionFactorR
  rw [convertQ_eq]
  rfl

/-! ### conversion through one rule -/

/-- **rule_unit_independent.** If the newest rule enabled for the key (dimension of `a`, dimension of `b`) is `r`
    (whatever units it was written for) and `r` is dimensionally a rule between these dimensions, then converting from
    ANY unit `a` of the source dimension to ANY unit `b` of the target dimension succeeds, and the multiplier is
    `scale(a) · |κ| · scale(unit κ) / scale(b)` with the symbols of κ: only the scales of `a` and `b` enter, not their
    spelling, and nothing of the units the rule was registered with. -/
theorem rule_unit_independent (reg : Registry) (rules : List Rule) (a b : Container) (r : Rule)
    (ha : allKnown reg a = true) (hb : allKnown reg b = true) (hk : allKnown reg r.kunit = true)
    (hne : ¬ dimsOf reg a ≃ dimsOf reg b)
    (hr : lookupRule rules (dimsOf reg a) (dimsOf reg b) = some r)
    (hdim : dimsOf reg r.kunit ≃ sub r.dst r.src) :
    ∃ f y, convertWithRules reg rules a b = .ok (f, y) ∧
      f ≃ add (sub (toRoot reg a).1 (toRoot reg b).1) (add r.kscale (toRoot reg r.kunit).1) ∧ y ≃ r.ksyms := by
  have hne' : dimsOf reg a ≠ dimsOf reg b := fun h => hne (h ▸ Equiv.refl _)
  obtain ⟨_, hsrc, hdst⟩ := lookupRule_some hr
  have hpath := findPath_direct hne' hr
  have hnil : add r.kunit ([] : Container) = r.kunit := by simp [add]
  have hdims : dimsOf reg (add a r.kunit) ≃ dimsOf reg b := by
    refine (dimsOf_add reg a r.kunit).trans ?_
    intro p
    have := hdim p
    simp only [get_add, get_sub, hsrc, hdst] at this ⊢
    grind
  have hka : allKnown reg (add a r.kunit) = true := by rw [allKnown_add_eq, ha, hk]; rfl
  obtain ⟨f, hf⟩ := same_dims_convert reg (add a r.kunit) b hka hb hdims
  refine ⟨norm (add f (add r.kscale [])), norm (add r.ksyms []), ?_, ?_, ?_⟩
  · rw [convertWithRules_known ha hb, hpath]
    simp only [rulesAlong, hr, pathUnit, pathScale, pathSyms, hnil, hf]
  · have e := factor_with_kappa hf
    intro p
    have := e p
    simp only [get_norm, get_add, get_sub, get_nil] at this ⊢
    grind
  · intro p; simp only [get_norm, get_add, get_nil]; grind

/-- **"rescaled by exactly the ordinary factors".** Let the rule's result be known for one pair of units `(a, b)` — say
    the units the rule was written for. For any other unit `a'` of the source dimension and `b'` of the target
    dimension the conversion succeeds with the same symbols and
    `factor(a' → b') = factor(a' → a) · result(a → b) · factor(b → b')`, the outer two being ordinary factors. -/
theorem rule_rescaled_by_ordinary_factors (reg : Registry) (rules : List Rule) (a a' b b' : Container) (r : Rule)
    (hk : allKnown reg r.kunit = true)
    (hne : ¬ dimsOf reg a ≃ dimsOf reg b)
    (hr : lookupRule rules (dimsOf reg a) (dimsOf reg b) = some r)
    (hdim : dimsOf reg r.kunit ≃ sub r.dst r.src)
    (g h f : Scale) (y : Syms)
    (hg : factor reg a' a = .ok g) (hh : factor reg b b' = .ok h)
    (hf : convertWithRules reg rules a b = .ok (f, y)) :
    ∃ f' y', convertWithRules reg rules a' b' = .ok (f', y') ∧ f' ≃ add g (add f h) ∧ y' ≃ y := by
  obtain ⟨ha', ha, hda, rfl⟩ := (factor_ok_iff reg a' a g).mp hg
  obtain ⟨hb, hb', hdb, rfl⟩ := (factor_ok_iff reg b b' h).mp hh
  have eda : dimsOf reg a' = dimsOf reg a := dimsOf_eq_of_equiv (beq_iff_equiv.mp hda)
  have edb : dimsOf reg b = dimsOf reg b' := dimsOf_eq_of_equiv (beq_iff_equiv.mp hdb)
  obtain ⟨f₀, y₀, h₀, hf₀, hy₀⟩ := rule_unit_independent reg rules a b r ha hb hk hne hr hdim
  rw [hf] at h₀
  simp only [Except.ok.injEq, Prod.mk.injEq] at h₀
  obtain ⟨rfl, rfl⟩ := h₀
  have hne' : ¬ dimsOf reg a' ≃ dimsOf reg b' := by rw [eda, ← edb]; exact hne
  have hr' : lookupRule rules (dimsOf reg a') (dimsOf reg b') = some r := by rw [eda, ← edb]; exact hr
  obtain ⟨f', y', h', hf', hy'⟩ := rule_unit_independent reg rules a' b' r ha' hb' hk hne' hr' hdim
  refine ⟨f', y', h', ?_, hy'.trans hy₀.symm⟩
  intro p
  have := hf' p; have := hf₀ p
  simp only [get_norm, get_add, get_sub] at *
  grind

/-- a rule whose κ does not have the dimension (target / source) is refused at conversion time
    (pint's ordinary conversion after the transformation raises DimensionalityError) -/
theorem rule_of_wrong_dimension_refused (reg : Registry) (rules : List Rule) (a b : Container) (r : Rule)
    (ha : allKnown reg a = true) (hb : allKnown reg b = true) (hk : allKnown reg r.kunit = true)
    (hne : ¬ dimsOf reg a ≃ dimsOf reg b)
    (hr : lookupRule rules (dimsOf reg a) (dimsOf reg b) = some r)
    (hdim : ¬ dimsOf reg (add a r.kunit) ≃ dimsOf reg b) :
    convertWithRules reg rules a b = .error .dimensionality := by
  have hne' : dimsOf reg a ≠ dimsOf reg b := fun h => hne (h ▸ Equiv.refl _)
  have hpath := findPath_direct hne' hr
  have hnil : add r.kunit ([] : Container) = r.kunit := by simp [add]
  have hka : allKnown reg (add a r.kunit) = true := by rw [allKnown_add_eq, ha, hk]; rfl
  rw [convertWithRules_known ha hb, hpath]
  simp only [rulesAlong, hr, pathUnit, hnil, mismatch_is_error' reg _ b hka hb hdim]

/-! ### chains of two rules -/

/-- **rule_chain.** No rule for the key (dim a, dim b); a rule `r₁` from dim a to an intermediate dimension `m` and a
    rule `r₂` from `m` to dim b, `m` being the only such intermediate: the conversion succeeds and multiplies by both
    κ's — `scale(a) · |κ₁| · scale(unit κ₁) · |κ₂| · scale(unit κ₂) / scale(b)`, symbols of both. -/
theorem rule_chain (reg : Registry) (rules : List Rule) (a b : Container) (m : Dims) (r₁ r₂ : Rule)
    (ha : allKnown reg a = true) (hb : allKnown reg b = true)
    (hk₁ : allKnown reg r₁.kunit = true) (hk₂ : allKnown reg r₂.kunit = true)
    (hne : ¬ dimsOf reg a ≃ dimsOf reg b)
    (hdirect : lookupRule rules (dimsOf reg a) (dimsOf reg b) = none)
    (h₁ : lookupRule rules (dimsOf reg a) m = some r₁) (h₂ : lookupRule rules m (dimsOf reg b) = some r₂)
    (huniq : ∀ r ∈ rules, r.src = dimsOf reg a → (∃ r' ∈ rules, r'.src = r.dst ∧ r'.dst = dimsOf reg b) → r.dst = m)
    (hdim₁ : dimsOf reg r₁.kunit ≃ sub r₁.dst r₁.src) (hdim₂ : dimsOf reg r₂.kunit ≃ sub r₂.dst r₂.src) :
    ∃ f y, convertWithRules reg rules a b = .ok (f, y) ∧
      f ≃ add (sub (toRoot reg a).1 (toRoot reg b).1)
            (add (add r₁.kscale (toRoot reg r₁.kunit).1) (add r₂.kscale (toRoot reg r₂.kunit).1)) ∧
      y ≃ add r₁.ksyms r₂.ksyms := by
  have hne' : dimsOf reg a ≠ dimsOf reg b := fun h => hne (h ▸ Equiv.refl _)
  obtain ⟨_, hsrc₁, hdst₁⟩ := lookupRule_some h₁
  obtain ⟨_, hsrc₂, hdst₂⟩ := lookupRule_some h₂
  have hpath := findPath_chain hne' hdirect h₁ h₂ huniq
  have hnil : add r₂.kunit ([] : Container) = r₂.kunit := by simp [add]
  have hdims : dimsOf reg (add a (add r₁.kunit r₂.kunit)) ≃ dimsOf reg b := by
    refine (dimsOf_add reg a _).trans ?_
    intro p
    have e := dimsOf_add reg r₁.kunit r₂.kunit p
    have := hdim₁ p; have := hdim₂ p
    simp only [get_add, get_sub, hsrc₁, hdst₁, hsrc₂, hdst₂] at *
    grind
  have hka : allKnown reg (add a (add r₁.kunit r₂.kunit)) = true := by
    rw [allKnown_add_eq, allKnown_add_eq, ha, hk₁, hk₂]; rfl
  obtain ⟨f, hf⟩ := same_dims_convert reg _ b hka hb hdims
  refine ⟨norm (add f (add r₁.kscale (add r₂.kscale []))), norm (add r₁.ksyms (add r₂.ksyms [])), ?_, ?_, ?_⟩
  · rw [convertWithRules_known ha hb, hpath]
    simp only [rulesAlong, h₁, h₂, pathUnit, pathScale, pathSyms, hnil, hf]
  · have e := factor_with_kappa hf
    have m₁ := (toRoot_add reg r₁.kunit r₂.kunit).1
    intro p
    have := e p; have := m₁ p
    simp only [get_norm, get_add, get_sub, get_nil] at *
    grind
  · intro p; simp only [get_norm, get_add, get_nil]; grind

/-- the chain is the composition of its two rules: for ANY unit `c` of the intermediate dimension,
    `result(a → b) = result(a → c) · result(c → b)` (scales multiply, symbols multiply). -/
theorem rule_chain_composes (reg : Registry) (rules : List Rule) (a b c : Container) (r₁ r₂ : Rule)
    (ha : allKnown reg a = true) (hb : allKnown reg b = true) (hc : allKnown reg c = true)
    (hk₁ : allKnown reg r₁.kunit = true) (hk₂ : allKnown reg r₂.kunit = true)
    (hne : ¬ dimsOf reg a ≃ dimsOf reg b) (hac : ¬ dimsOf reg a ≃ dimsOf reg c) (hcb : ¬ dimsOf reg c ≃ dimsOf reg b)
    (hdirect : lookupRule rules (dimsOf reg a) (dimsOf reg b) = none)
    (h₁ : lookupRule rules (dimsOf reg a) (dimsOf reg c) = some r₁)
    (h₂ : lookupRule rules (dimsOf reg c) (dimsOf reg b) = some r₂)
    (huniq : ∀ r ∈ rules, r.src = dimsOf reg a → (∃ r' ∈ rules, r'.src = r.dst ∧ r'.dst = dimsOf reg b) →
      r.dst = dimsOf reg c)
    (hdim₁ : dimsOf reg r₁.kunit ≃ sub r₁.dst r₁.src) (hdim₂ : dimsOf reg r₂.kunit ≃ sub r₂.dst r₂.src) :
    ∃ f y f₁ y₁ f₂ y₂, convertWithRules reg rules a b = .ok (f, y) ∧
      convertWithRules reg rules a c = .ok (f₁, y₁) ∧ convertWithRules reg rules c b = .ok (f₂, y₂) ∧
      f ≃ add f₁ f₂ ∧ y ≃ add y₁ y₂ := by
  obtain ⟨f, y, h, hf, hy⟩ := rule_chain reg rules a b _ r₁ r₂ ha hb hk₁ hk₂ hne hdirect h₁ h₂ huniq hdim₁ hdim₂
  obtain ⟨f₁, y₁, h1, hf₁, hy₁⟩ := rule_unit_independent reg rules a c r₁ ha hc hk₁ hac h₁ hdim₁
  obtain ⟨f₂, y₂, h2, hf₂, hy₂⟩ := rule_unit_independent reg rules c b r₂ hc hb hk₂ hcb h₂ hdim₂
  refine ⟨f, y, f₁, y₁, f₂, y₂, h, h1, h2, ?_, ?_⟩
  · intro p
    have := hf p; have := hf₁ p; have := hf₂ p
    simp only [get_add, get_sub] at *
    grind
  · intro p
    have := hy p; have := hy₁ p; have := hy₂ p
    simp only [get_add] at *
    grind

/-! ### conversions that do not need a rule are unaffected -/

/-- **rule_noninterference.** Between units of the same dimension the result is the ordinary factor (no symbols),
    whatever rules are enabled — including rules from or to that very dimension, or from it to itself. -/
theorem rule_noninterference (reg : Registry) (rules : List Rule) (a b : Container)
    (hd : dimsOf reg a ≃ dimsOf reg b) :
    convertWithRules reg rules a b =
      match factor reg a b with
      | .ok f => .ok (f, [])
      | .error e => .error e :=
  convertWithRules_same_dims reg rules a b (dimsOf_eq_of_equiv hd)

/-- hence registering rules changes no same-dimension answer of `get_conversion_factor` … -/
theorem rule_noninterference_api (reg : Registry) (rules rules' : List Rule) (a b : Container)
    (hd : dimsOf reg a ≃ dimsOf reg b) :
    conversionFactorR reg rules a b = conversionFactorR reg rules' a b := by
  rw [conversionFactorR_eq, conversionFactorR_eq, rule_noninterference reg rules a b hd,
    rule_noninterference reg rules' a b hd]

/-- … and that answer is the one of C07's `get_conversion_factor` without rules -/
theorem rule_noninterference_is_plain_factor (reg : Registry) (rules : List Rule) (a b : Container)
    (hd : dimsOf reg a ≃ dimsOf reg b) :
    conversionFactorR reg rules a b =
      match conversionFactor reg a b with
      | .ok none => .ok none
      | .ok (some f) => .ok (some (f, []))
      | .error e => .error e := by
  rw [conversionFactorR_eq, rule_noninterference reg rules a b hd]
  unfold conversionFactor
  cases hf : factor reg a b with
  | error e => rfl
  | ok f => by_cases h : f = [] <;> simp [h]

/-- with no rule enabled every conversion is the ordinary one -/
theorem no_rules_plain (reg : Registry) (a b : Container) :
    convertWithRules reg [] a b =
      match factor reg a b with
      | .ok f => .ok (f, [])
      | .error e => .error e := by
  by_cases hd : dimsOf reg a = dimsOf reg b
  · exact convertWithRules_same_dims reg [] a b hd
  · cases hk : (allKnown reg a && allKnown reg b) with
    | false => rw [convertWithRules_unknown hk, factor_unknown hk]
    | true =>
        simp only [Bool.and_eq_true] at hk
        rw [convertWithRules_known hk.1 hk.2]
        have : findPath [] (dimsOf reg a) (dimsOf reg b) = none := by
          simp [findPath, walks, hd, search]
        rw [this]
        rfl

/-! ### dimensions that no rule path connects still fail -/

/-- **rule_unreachable.** If no sequence of enabled rules leads from the dimension of `a` to the dimension of `b`, the
    conversion is a DimensionalityError — before and after any registration (`rules` is arbitrary). -/
theorem rule_unreachable (reg : Registry) (rules : List Rule) (a b : Container)
    (ha : allKnown reg a = true) (hb : allKnown reg b = true)
    (hun : ¬ Reach rules (dimsOf reg a) (dimsOf reg b)) :
    convertWithRules reg rules a b = .error .dimensionality := by
  have hne : ¬ dimsOf reg a ≃ dimsOf reg b := by
    intro h
    apply hun
    rw [dimsOf_eq_of_equiv h]
    exact Reach.refl _
  rw [convertWithRules_known ha hb, findPath_none_of_not_reach hun, mismatch_is_error' reg a b ha hb hne]

theorem rule_unreachable_api (reg : Registry) (rules : List Rule) (a b : Container)
    (ha : allKnown reg a = true) (hb : allKnown reg b = true)
    (hun : ¬ Reach rules (dimsOf reg a) (dimsOf reg b)) :
    conversionFactorR reg rules a b = .error .dimensionality ∧ convertQ reg rules a b = .error .dimensionality := by
  rw [conversionFactorR_eq, convertQ_eq, rule_unreachable reg rules a b ha hb hun]
  exact ⟨rfl, rfl⟩

/-- conversely a conversion between different dimensions only ever succeeds along a rule path: rules are directional,
    a rule D₁ → D₂ alone never converts D₂ → D₁ -/
theorem ok_across_dimensions_needs_path (reg : Registry) (rules : List Rule) (a b : Container) (f : Scale) (y : Syms)
    (hne : ¬ dimsOf reg a ≃ dimsOf reg b) (h : convertWithRules reg rules a b = .ok (f, y)) :
    Reach rules (dimsOf reg a) (dimsOf reg b) := by
  cases hk : (allKnown reg a && allKnown reg b) with
  | false => rw [convertWithRules_unknown hk] at h; cases h
  | true =>
      simp only [Bool.and_eq_true] at hk
      rw [convertWithRules_known hk.1 hk.2] at h
      cases hp : findPath rules (dimsOf reg a) (dimsOf reg b) with
      | some p => exact reach_of_findPath hp
      | none =>
          rw [hp, mismatch_is_error' reg a b hk.1 hk.2 hne] at h
          cases h

/-- a single rule D₁ → D₂ (D₁ ≠ D₂) does not make D₂ → D₁ convertible -/
theorem single_rule_is_directional (reg : Registry) (r : Rule) (a b : Container)
    (ha : allKnown reg a = true) (hb : allKnown reg b = true)
    (hsrc : r.src = dimsOf reg a) (hdst : r.dst = dimsOf reg b) (hne : ¬ dimsOf reg a ≃ dimsOf reg b) :
    convertWithRules reg [r] b a = .error .dimensionality := by
  apply rule_unreachable reg [r] b a hb ha
  intro hreach
  have hne' : dimsOf reg b ≠ dimsOf reg a := fun h => hne (h ▸ Equiv.refl _)
  -- any path from dim b must start with a rule whose source is dim b; the only rule starts at dim a
  rcases reach_start hreach with h | ⟨r', hr', hs'⟩
  · exact hne' h
  · simp only [List.mem_singleton] at hr'
    subst hr'
    exact hne' (hs'.symm.trans hsrc)

/-! ### the path search: complete, shortest; conversion along any path -/

/-- the bounded search finds a path exactly when the target dimension can be reached through enabled rules -/
theorem path_search_complete (rules : List Rule) (s d : Dims) :
    (∃ p, findPath rules s d = some p) ↔ Reach rules s d :=
  ⟨fun ⟨_, hp⟩ => reach_of_findPath hp, findPath_complete⟩

/-- and the path it returns has the least number of hops among all walks of the graph -/
theorem path_search_shortest (rules : List Rule) (s d : Dims) (p : List Dims) (h : findPath rules s d = some p)
    (k : Nat) (q : List Dims) (hq : q ∈ walks rules k s d) : p.length ≤ k ∧ p ∈ walks rules p.length s d := by
  refine ⟨findPath_shortest h k q hq, ?_⟩
  obtain ⟨n, hn⟩ := mem_walks_of_search h
  rw [length_of_mem_walks hn]; exact hn

/-- **any number of hops.** Along the path found, the conversion multiplies by every κ on the way and then by the
    ordinary factor: `scale(a) · ∏ |κᵢ| · scale(unit κᵢ) / scale(b)`, symbols of all κᵢ; it fails only if the rules do
    not lead to the target dimension (or use unknown units). -/
theorem rule_path (reg : Registry) (rules : List Rule) (a b : Container) (p : List Dims)
    (ha : allKnown reg a = true) (hb : allKnown reg b = true)
    (hp : findPath rules (dimsOf reg a) (dimsOf reg b) = some p) (f : Scale) (y : Syms)
    (h : convertWithRules reg rules a b = .ok (f, y)) :
    f ≃ add (sub (toRoot reg a).1 (toRoot reg b).1)
          (add (pathScale (rulesAlong rules (dimsOf reg a) p))
               (toRoot reg (pathUnit (rulesAlong rules (dimsOf reg a) p))).1) ∧
    y ≃ pathSyms (rulesAlong rules (dimsOf reg a) p) := by
  rw [convertWithRules_known ha hb, hp] at h
  simp only at h
  cases hf : factor reg (add a (pathUnit (rulesAlong rules (dimsOf reg a) p))) b with
  | error e => rw [hf] at h; cases h
  | ok g =>
      rw [hf] at h
      simp only [Except.ok.injEq, Prod.mk.injEq] at h
      obtain ⟨rfl, rfl⟩ := h
      have e := factor_with_kappa hf
      refine ⟨?_, norm_equiv _⟩
      intro q
      have := e q
      simp only [get_norm, get_add, get_sub] at this ⊢
      grind

/-- the exact converse of `rule_unreachable`: a DimensionalityError between reachable dimensions can only come from a
    rule that does not produce the target dimension -/
theorem error_between_reachable_dimensions (reg : Registry) (rules : List Rule) (a b : Container)
    (ha : allKnown reg a = true) (hb : allKnown reg b = true)
    (hreach : Reach rules (dimsOf reg a) (dimsOf reg b)) (e : UErr)
    (h : convertWithRules reg rules a b = .error e) :
    ∃ p, findPath rules (dimsOf reg a) (dimsOf reg b) = some p ∧
      factor reg (add a (pathUnit (rulesAlong rules (dimsOf reg a) p))) b = .error e := by
  obtain ⟨p, hp⟩ := findPath_complete hreach
  refine ⟨p, hp, ?_⟩
  rw [convertWithRules_known ha hb, hp] at h
  simp only at h
  cases hf : factor reg (add a (pathUnit (rulesAlong rules (dimsOf reg a) p))) b with
  | error e' => rw [hf] at h; simp only [Except.error.injEq] at h; rw [h]
  | ok g => rw [hf] at h; cases h

/-! ### `convert_variable` -/

/-- `convert_variable` returns the original variable exactly when `get_conversion_factor` returns `1` -/
theorem cv_same_iff (reg : Registry) (rules : List Rule) (a b : Container) (dir : Dir) (kind : VarKind)
    (hasInit : Bool) (n : Nat) :
    convertVariable reg rules a b dir kind hasInit n = .same ↔ conversionFactorR reg rules a b = .ok none := by
  unfold convertVariable
  cases h : conversionFactorR reg rules a b with
  | error e => simp
  | ok o =>
      cases o with
      | none => simp
      | some fy =>
          obtain ⟨f, y⟩ := fy
          simp only
          split <;> simp

/-- it raises a unit error exactly when `get_conversion_factor` does (same error) -/
theorem cv_unit_error_iff (reg : Registry) (rules : List Rule) (a b : Container) (dir : Dir) (kind : VarKind)
    (hasInit : Bool) (n : Nat) (e : UErr) :
    convertVariable reg rules a b dir kind hasInit n = .error (.units e) ↔
      conversionFactorR reg rules a b = .error e := by
  unfold convertVariable
  cases h : conversionFactorR reg rules a b with
  | error e' => simp
  | ok o =>
      cases o with
      | none => simp
      | some fy =>
          obtain ⟨f, y⟩ := fy
          simp only
          split <;> simp

/-- when it converts, the factor placed in EVERY added equation is the one `get_conversion_factor` returned — the
    rule's result for the units actually used —, as `· cf` or `/ cf`, and the initial value is scaled by it -/
theorem cv_uses_rule_factor (reg : Registry) (rules : List Rule) (a b : Container) (dir : Dir) (kind : VarKind)
    (hasInit : Bool) (n : Nat) (fy : Scale × Syms) (initScaled : Bool) (eqs : List EqForm)
    (h : convertVariable reg rules a b dir kind hasInit n = .converted fy initScaled eqs) :
    conversionFactorR reg rules a b = .ok (some fy) ∧ eqs = cvEquations dir kind n ∧
      (∀ e ∈ eqs, e.exponent = 1 ∨ e.exponent = -1) ∧ eqs ≠ [] ∧
      (initScaled = true ↔ (dir = .input ∧ hasInit = true)) := by
  unfold convertVariable at h
  cases hc : conversionFactorR reg rules a b with
  | error e => rw [hc] at h; cases h
  | ok o =>
      rw [hc] at h
      cases o with
      | none => cases h
      | some fy' =>
          obtain ⟨f, y⟩ := fy'
          simp only at h
          split at h
          · cases h
          · simp only [CVOutcome.converted.injEq] at h
            obtain ⟨rfl, rfl, rfl⟩ := h
            refine ⟨rfl, rfl, ?_, ?_, ?_⟩
            · intro e _; cases e <;> simp [EqForm.exponent]
            · cases dir <;> simp [cvEquations]
            · simp

/-- **convert_variable alike (partial).** Whenever `get_conversion_factor` gives a factor different from one,
    `convert_variable` performs the conversion with it — provided the factor is numeric, or the direction is OUTPUT,
    or the variable has no initial value. -/
theorem cv_alike_partial (reg : Registry) (rules : List Rule) (a b : Container) (dir : Dir) (kind : VarKind)
    (hasInit : Bool) (n : Nat) (f : Scale) (y : Syms)
    (hcf : conversionFactorR reg rules a b = .ok (some (f, y)))
    (hex : y = [] ∨ dir = .output ∨ hasInit = false) :
    convertVariable reg rules a b dir kind hasInit n =
      .converted (f, y) (decide (dir = .input) && hasInit) (cvEquations dir kind n) := by
  unfold convertVariable
  rw [hcf]
  simp only
  split
  · rename_i hc
    rcases hex with h | h | h
    · exact absurd h hc.2.2
    · rw [h] at hc; exact absurd hc.1 (by decide)
    · rw [h] at hc; exact absurd hc.2.1 (by decide)
  · rfl

/-- the excluded configuration really fails (known finding `cv-symbolic-factor-initial-value`): symbolic factor,
    INPUT, initial value ⇒ TypeError, although `get_conversion_factor` succeeded -/
theorem cv_symbolic_input_initial_value_refused (reg : Registry) (rules : List Rule) (a b : Container)
    (kind : VarKind) (n : Nat) (f : Scale) (y : Syms)
    (hcf : conversionFactorR reg rules a b = .ok (some (f, y))) (hy : y ≠ []) :
    convertVariable reg rules a b .input kind true n = .error .typeError := by
  unfold convertVariable
  rw [hcf]
  simp [hy]

/-! ### non-vacuity: the chain of the docstring of `add_conversion_rule`
    (uA → uA_per_cm2 by `rhs * Cs / Cm`, uA_per_cm2 → A_per_F by `rhs / Cs`, Cm = 12 pF, Cs = 1.1 uF_per_cm2) -/

def docReg : Registry :=
  [("A_per_F", .derived [] [("ampere", 1), ("farad", -1)]),
   ("uF_per_cm2", .derived [] [("uF", 1), ("cm2", -1)]),
   ("uA_per_cm2", .derived [] [("uA", 1), ("cm2", -1)]),
   ("cm2", .derived (pow10 (-4)) [("meter", 2)]),
   ("pF", .derived (pow10 (-12)) [("farad", 1)]),
   ("uF", .derived (pow10 (-6)) [("farad", 1)]),
   ("pA", .derived (pow10 (-12)) [("ampere", 1)]),
   ("uA", .derived (pow10 (-6)) [("ampere", 1)])] ++ builtinRegistry

def s1_1 : Scale := [(2, -1), (5, -1), (11, 1)]   -- 1.1
def s12 : Scale := [(2, 2), (3, 1)]               -- 12

def docRule₁ : Rule :=
  mkRule docReg [("uA", 1)] [("uA_per_cm2", 1)]
    [⟨false, .num s1_1, [("uF_per_cm2", 1)]⟩, ⟨true, .num s12, [("pF", 1)]⟩]
def docRule₂ : Rule :=
  mkRule docReg [("uA_per_cm2", 1)] [("A_per_F", 1)] [⟨true, .num s1_1, [("uF_per_cm2", 1)]⟩]
def docRules : List Rule := [docRule₂, docRule₁]

def symRule₁ : Rule :=
  mkRule docReg [("uA", 1)] [("uA_per_cm2", 1)]
    [⟨false, .sym "Cs", [("uF_per_cm2", 1)]⟩, ⟨true, .sym "Cm", [("pF", 1)]⟩]
def symRule₂ : Rule :=
  mkRule docReg [("uA_per_cm2", 1)] [("A_per_F", 1)] [⟨true, .sym "Cs", [("uF_per_cm2", 1)]⟩]

/-- 1 pA ↦ 1/12 A/F through both rules; 1 uA/cm² ↦ 1/1.1 A/F through the second (the two printed lines of the
    docstring: 0.0833…, 0.909…) -/
example : convertWithRules docReg docRules [("pA", 1)] [("A_per_F", 1)] = .ok ([(2, -2), (3, -1)], []) := by
  decide +kernel
example : convertWithRules docReg docRules [("uA_per_cm2", 1)] [("A_per_F", 1)] = .ok ([(2, 1), (5, 1), (11, -1)], []) := by
  decide +kernel
/-- through the first rule only, from pA (the rule was written for uA): 1e-6 · 1.1/12 · 1e6 … -/
example : convertWithRules docReg docRules [("pA", 1)] [("uA_per_cm2", 1)] =
    .ok ([(2, -3), (3, -1), (5, -1), (11, 1)], []) := by decide +kernel
/-- symbolic capacitances: the symbols cancel along the chain as in sympy (Cs/Cm · 1/Cs = 1/Cm) -/
example : convertWithRules docReg [symRule₂, symRule₁] [("pA", 1)] [("A_per_F", 1)] = .ok ([], [("Cm", -1)]) := by
  decide +kernel
example : convertWithRules docReg [symRule₂, symRule₁] [("pA", 1)] [("uA_per_cm2", 1)] =
    .ok ([], [("Cm", -1), ("Cs", 1)]) := by decide +kernel
/-- the hypotheses of `rule_unit_independent` / `rule_chain` are met by this instance -/
example : lookupRule docRules (dimsOf docReg [("pA", 1)]) (dimsOf docReg [("uA_per_cm2", 1)]) = some docRule₁ ∧
    allKnown docReg docRule₁.kunit = true ∧
    beq (dimsOf docReg docRule₁.kunit) (sub docRule₁.dst docRule₁.src) = true ∧
    beq (dimsOf docReg [("pA", 1)]) (dimsOf docReg [("uA_per_cm2", 1)]) = false := by decide +kernel
example : lookupRule docRules (dimsOf docReg [("pA", 1)]) (dimsOf docReg [("A_per_F", 1)]) = none ∧
    lookupRule docRules (dimsOf docReg [("pA", 1)]) (dimsOf docReg [("uA_per_cm2", 1)]) = some docRule₁ ∧
    lookupRule docRules (dimsOf docReg [("uA_per_cm2", 1)]) (dimsOf docReg [("A_per_F", 1)]) = some docRule₂ ∧
    (∀ r ∈ docRules, r.src = dimsOf docReg [("pA", 1)] →
      (∃ r' ∈ docRules, r'.src = r.dst ∧ r'.dst = dimsOf docReg [("A_per_F", 1)]) →
      r.dst = dimsOf docReg [("uA_per_cm2", 1)]) := by decide +kernel
/-- same dimension: the ordinary factor, rules or not; reverse direction and unrelated dimensions: still an error -/
example : convertWithRules docReg docRules [("pA", 1)] [("uA", 1)] = .ok ([(2, -6), (5, -6)], []) ∧
    factor docReg [("pA", 1)] [("uA", 1)] = .ok [(2, -6), (5, -6)] := by decide +kernel
example : convertWithRules docReg docRules [("A_per_F", 1)] [("pA", 1)] = .error .dimensionality ∧
    convertWithRules docReg docRules [("pA", 1)] [("volt", 1)] = .error .dimensionality := by decide +kernel
/-- convert_variable with the symbolic chain: OUTPUT converts, INPUT with an initial value is refused -/
example : convertVariable docReg [symRule₂, symRule₁] [("pA", 1)] [("A_per_F", 1)] .output .state true 1 =
      .converted ([], [("Cm", -1)]) false [.newFromOrig] ∧
    convertVariable docReg [symRule₂, symRule₁] [("pA", 1)] [("A_per_F", 1)] .input .state true 1 =
      .error .typeError ∧
    convertVariable docReg docRules [("pA", 1)] [("A_per_F", 1)] .input .state true 1 =
      .converted ([(2, -2), (3, -1)], []) true [.origFromNew, .odeOfNew] := by decide +kernel

/-! ### the defect repaired by the `fix:` commit, on the model of the code as it was -/

def voltRule : Rule := mkRule builtinRegistry [] [("volt", 1)] [⟨false, .num [(5, 1)], [("volt", 1)]⟩]
def perVoltRule : Rule := mkRule builtinRegistry [("volt", 1)] [] [⟨true, .num [(5, 1)], [("volt", 1)]⟩]

/-- before the repair: with a rule dimensionless → volt, `convert(x dimensionless, volt)` raised DimensionalityError
    although pint converts it (×5): the full `convert_special_case_invisible` was false of the code as it was -/
theorem convert_before_fix_source_counterexample :
    convertQ_before builtinRegistry [voltRule] [] [("volt", 1)] = .error .dimensionality ∧
    convertWithRules builtinRegistry [voltRule] [] [("volt", 1)] = .ok ([(5, 1)], []) := by
  decide +kernel

/-- … and with only a rule volt → dimensionless it succeeded, through the inverse of a rule that was registered for
    the other direction (`single_rule_is_directional` was false of the code as it was) -/
theorem convert_before_fix_target_counterexample :
    convertQ_before builtinRegistry [perVoltRule] [] [("volt", 1)] = .ok ([(5, 1)], []) ∧
    convertWithRules builtinRegistry [perVoltRule] [] [("volt", 1)] = .error .dimensionality := by
  decide +kernel

/-- after the repair both agree with pint on these inputs (instances of `convert_special_case_invisible`) -/
example : convertQ builtinRegistry [voltRule] [] [("volt", 1)] = .ok ([(5, 1)], []) ∧
    convertQ builtinRegistry [perVoltRule] [] [("volt", 1)] = .error .dimensionality := by decide +kernel

end Cellml.Props.C19
