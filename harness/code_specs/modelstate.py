"""Code-translator spec (see harness/translate_code.py and harness/code_specs/__init__.py): the editing methods of
cellmlmanip.model.Model, run in the state-and-exception monad `PyM MState` of lean/Cellml/Tie/ModelStateView.lean
(the state survives a raise, so the order validate / mutate is visible). Tie theorems: lean/Cellml/Tie/ModelState.lean.

Every pattern stands for a python leaf: an attribute of the Model object / of a Variable / of a sympy expression, or a
primitive of dict / list (`in`, `.get`, `d[k] = v`, `del d[k]`, `.append`, `.remove`), or a call of another method of
Model that is itself translated in this group (bound to the generated definition of that method)."""

_DICTS = [
    # dict primitives on the two definition maps (keys: Variables; `lhs` expressions are looked up through DictKey)
    ('__A in self._ode_definition_map', '(dictHas {A} (← readSelf).odeDef)'),
    ('__A in self._var_definition_map', '(dictHas {A} (← readSelf).varDef)'),
    ('self._ode_definition_map.get(__A)', '(dictGet {A} (← readSelf).odeDef)'),
    ('self._var_definition_map.get(__A)', '(dictGet {A} (← readSelf).varDef)'),
    # sympy leaves
    ('__A.is_Derivative', '(isDerivative {A})'),
    # `isinstance(lhs.args[0], Variable)`: what is differentiated is a variable (true of every derivative the model's
    # Lhs type can express; the derivative of an EXPRESSION is `Lhs.other` there). Must precede the next pattern.
    ('isinstance(__A.args[0], Variable)', '(derivOfVariable {A})'),
    ('isinstance(__A, Variable)', '(isVariable {A})'),
    ('__A.free_symbols.pop()', '← freeSymbolsPop {A}'),
    ('len(__A.args)', 'shape.nargs'),
    ('__A.args[1][1]', 'shape.count1'),
    # attributes of Variable objects (they live on the heap of the model state)
    ('__A.name', '(nameOfVar (← readSelf) {A})'),
    ('__A._cmeta_id', '(cmetaOf (← readSelf) {A})'),
    ('__A.rdf_identity', '(rdfIdentity (← readSelf) {A})'),
    # other methods of Model translated in this group
    ('self.get_definition(__A)', '← getDefinition {A}'),
    # the name / cmeta registries, the counter, the unit store, the RDF store
    ('__A in self._name_to_variable', '(nameHas (← readSelf) {A})'),
    ('self.has_cmeta_id(__A)', '(hasCmetaIdPy (← readSelf) {A})'),
    ('isinstance(__A, self.units.Unit)', '(isUnitObject {A})'),
    ('self.units.get_unit(__A)', '← getUnit {A}'),
    ('self._variables_added', '(← readSelf).nextOrder'),
    ('self.rdf.triples((__A, None, None))', '(rdfTriples (← readSelf) {A})'),
]

_STMTS = [
    ('self._ode_definition_map[__A] = __B', 'odeSet {A} {B}'),
    ('self._var_definition_map[__A] = __B', 'varSet {A} {B}'),
    ('del self._ode_definition_map[__A]', 'odeDel {A}'),
    ('del self._var_definition_map[__A]', 'varDel {A}'),
    ('self.equations.append(__A)', 'equationsAppend {A}'),
    ('self.equations.remove(__A)', 'equationsRemove {A}'),
    ('self._graph = __A', 'setGraph {A}'),
    ('self._graph_with_sympy_numbers = __A', 'setGraphNum {A}'),
    ('self._invalidate_cache()', 'invalidateCache'),
    ('self._check_duplicate_definitions(__A, __B)', 'checkDuplicateDefinitions {A} {B}'),
    # remove_variable passes `defn` under an `is not None` guard
    ('self.remove_equation(__A)', 'removeEquation (← notNone {A})'),
    ('self._name_to_variable[__K] = __V = Variable(name=__N, units=__U, model=self, initial_value=__I, '
     'public_interface=__P, private_interface=__Q, order_added=__O, cmeta_id=__C)',
     'let {V} ← newVariable {N} {U} {I} {O} {C}\nnameSet {K} {V}'),
    ('self._variables_added += __A', 'variablesAddedIncr {A}'),
    ('self._cmeta_id_to_variable[__A] = __B', 'cmetaSet {A} {B}'),
    ('del self._name_to_variable[__A]', 'nameDel {A}'),
    ('del self._cmeta_id_to_variable[__A]', 'cmetaDel {A}'),
    ('self.rdf.remove(__A)', 'rdfRemove {A}'),
    # the back pointer Variable._model is not part of MState
    ('__A._model = None', 'pure ()'),
]

_F = 'cellmlmanip/model.py'

GROUP = {'name': 'ModelState',
 'imports': ['Cellml.Tie.ModelStateView'],
 'header': 'open Cellml.Tie.PModelState\nopen Model PyM',
 'patterns': _DICTS,
 'stmt_patterns': _STMTS,
 'functions': [
     {'file': _F, 'func': 'Model._invalidate_cache', 'lean_name': 'invalidateCache',
      'signature': ': PyM MState Unit'},
     {'file': _F, 'func': 'Model._check_duplicate_definitions', 'lean_name': 'checkDuplicateDefinitions',
      'signature': '{κ : Type} [DictKey κ] (var : κ) (equation : Eqn) : PyM MState Unit'},
     {'file': _F, 'func': 'Model.add_equation', 'lean_name': 'addEquation',
      'signature': '(shape : DerivShape) (equation : Eqn) (check_duplicates : Bool) : PyM MState Unit'},
     {'file': _F, 'func': 'Model.remove_equation', 'lean_name': 'removeEquation',
      'signature': '(equation : Eqn) : PyM MState Unit'},
     {'file': _F, 'func': 'Model.get_definition', 'lean_name': 'getDefinition',
      'signature': '{κ : Type} [DictKey κ] (variable_ : κ) : PyM MState (Option Eqn)'},
     {'file': _F, 'func': 'Model.is_state', 'lean_name': 'isState',
      'signature': '{κ : Type} [DictKey κ] (variable_ : κ) : PyM MState Bool'},
     {'file': _F, 'func': 'Model.remove_variable', 'lean_name': 'removeVariable',
      'signature': '(variable_ : Nat) : PyM MState Unit'},
     {'file': _F, 'func': 'Model.add_variable', 'lean_name': 'addVariable',
      'signature': '(name : String) (units : UnitArg) (initial_value : Option Rat) (public_interface '
                   'private_interface : Option String) (cmeta_id : Option String) : PyM MState Nat'},
 ]}
