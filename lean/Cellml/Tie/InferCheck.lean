import Cellml.Generated.Code.Infer
import Mathlib.Tactic.SplitIfs

/-! # Tie: `UnitCalculator._is_dimensionless` and `UnitCalculator._check_unit_of_quantities_equal` (generated from
    units.py) = `Infer.isDimless` and the comparison `Infer.sameUnits` of `Infer.finish` (hand model, Expr/Infer.lean;
    the functions `sameUnits_iff_sem`, `isDimless_iff_dims`, `infer_*` of Props/C04.lean speak about) -/

namespace Cellml.Tie.PInfer
open Units Cellml.Gen

/-- `_is_dimensionless(q)` is the model's `isDimless` of the units of `q`, for every registry and quantity
    (it never raises). -/
theorem isDimensionless_tie (v : TravView) (q : Q) :
    Gen.Infer.isDimensionless v q = .ok (_root_.Infer.isDimless v.reg q.2) := by
  unfold Gen.Infer.isDimensionless _root_.Infer.isDimless TravView.dimensionality Py.noDimension
  simp only [pure, Except.pure, BEq.beq, PMap.beq, PMap.isZero, PMap.norm]
  congr

/-- the model's reading of `_check_unit_of_quantities_equal`: every later quantity has units `is_equivalent` to those
    of the first (this is the condition of `Infer.finish`) -/
def checkModel (reg : Registry) : List Q → Bool
  | [] => true
  | q :: rest => rest.all (fun r => _root_.Infer.sameUnits reg q.2 r.2)

/-- `_check_unit_of_quantities_equal(qs)` is `checkModel`, for every registry and list (it never raises). -/
theorem checkUnit_tie (v : TravView) (qs : List Q) :
    Gen.Infer.checkUnitOfQuantitiesEqual v qs = .ok (checkModel v.reg qs) := by
  unfold Gen.Infer.checkUnitOfQuantitiesEqual checkModel
  cases qs with
  | nil => simp [Py.nextOrTrue, pure, Except.pure]
  | cons q rest =>
    simp only [Py.nextOrTrue, pure, Except.pure, Py.unitsOfFirst, TravView.baseUnits, Py.isclose, Py.truthy_bool,
      _root_.Infer.sameUnits, isEquivalent, BEq.beq]
    congr 1
    congr 1
    funext r
    exact Bool.and_comm _ _

/-- `Infer.finish` (the check of `Add` / `Piecewise` in the model) is: the first quantity if the generated check
    accepts the list, `InputArgumentsInvalidUnitsError` otherwise. -/
theorem finish_eq_check (reg : Registry) (q : Q) (rest : List Q) :
    _root_.Infer.finish reg (q :: rest) =
      if checkModel reg (q :: rest) then .ok q else .error .argsInvalidUnits := by
  simp only [_root_.Infer.finish, checkModel]
  congr

end Cellml.Tie.PInfer
