import Cellml.Tie.PrinterMul2
import Cellml.C11.Wf

/-! # The closing induction: the GENERATED printer, with its `print` parameter closed by recursion, prints the model

    Every generated method takes the recursive call `self._print(x)` as a parameter `print`. Here the recursion is
    closed: `dispatch print e` is SymPy's `Printer._print` (the `_print_<Class>` method of the class of `e`, found
    through the MRO; `emptyPrinter` when there is none) over the generated methods, and `gprint n` is `dispatch` iterated
    `n` times (python's recursion depth). `gprint_pr`: for every expression of the model's domain that the model prints,
    `gprint n e` returns `flatten (C11.pr e).doc` as soon as `n` exceeds the height of `e`; by induction on the height,
    one `dispatch_step` per node, using the per-method ties. `genDoprint` is the generated `doprint` over it. -/

set_option linter.unusedSimpArgs false
set_option linter.unusedVariables false

namespace Cellml.Tie.PPrinter2
open C11 Cellml.Gen Cellml.Tie.PPrinter

/-- SymPy's `Printer._print(expr)`: the method `_print_<C>` for the first class `C` in the MRO of `expr` that has one
    (`Integer` before `Rational`, `Piecewise` before `Function`, every relation is a `Relational`, every applied
    function a `Function`, `Half` a `Rational`, `One` an `Integer`, …), else `emptyPrinter`. Trusted (SymPy code). -/
def dispatch (print : E → Except PyErr String) (e : E) : Except PyErr String :=
  match e with
  | .sym _ _ => Printer.printSymbol print e
  | .int _ => Printer.printInteger print e
  | .rat _ _ => Printer.printRational print e
  | .flt _ _ => Printer.printFloatS print e
  | .pi => Printer.printPi print e
  | .e1 => Printer.printExp1 print e
  | .tt => Printer.printBooleanTrue print e
  | .ff => Printer.printBooleanFalse print e
  | .add _ => PrinterAdd.printAdd print e
  | .mul _ => PrinterMul2.printMul print e
  | .pow _ _ => Printer.printPow print e
  | .fn _ _ => Printer.printFunction print e
  | .rel _ _ _ => Printer.printRelational print e
  | .and _ => Printer.printAnd print e
  | .or _ => Printer.printOr print e
  | .pw _ => Printer.printPiecewise print e
  | .deriv _ _ => PrinterMul2.printDerivative print e
  | .other _ | .pair _ _ | .nil | .cons _ _ => Printer.emptyPrinter print e

/-- the generated printer with the recursion closed: at most `n` nested calls of `_print` -/
def gprint : Nat → E → Except PyErr String
  | 0, _ => .error ⟨"RecursionError"⟩
  | n + 1, e => dispatch (gprint n) e

/-- nesting depth of the `_print` calls on `e` -/
def height : E → Nat
  | .add a | .mul a | .and a | .or a | .pw a | .fn _ a => height a + 1
  | .pow b x | .rel _ b x => max (height b) (height x) + 1
  | .pair v c | .cons v c => max (height v) (height c)
  | _ => 0

/-- SymPy's arity invariant that the model does not look at: a product has at least two factors -/
def genOK : E → Bool
  | .mul a => twoPlus a && genOK a
  | .add a | .and a | .or a | .pw a | .fn _ a => genOK a
  | .pow b x | .rel _ b x | .pair b x | .cons b x => genOK b && genOK x
  | _ => true

/-- in every sum inside `e` whose terms the model prints, the model's tree of each term starts with `-` exactly when its
    text does (the domain of `printAdd_tie`); `addOK_of_symOK` in Tie/PrinterSign.lean derives it from: no symbol name
    starts with `-` -/
def AddOK : E → Prop
  | .add a => ((pr a).st = .ok → ∀ x ∈ elems a, MinusOK (pr x).doc) ∧ AddOK a
  | .mul a | .and a | .or a | .pw a | .fn _ a => AddOK a
  | .pow b x | .rel _ b x | .pair b x | .cons b x => AddOK b ∧ AddOK x
  | _ => True

/-! ## lists -/

theorem elems_eq_toList (l : E) : elems l = C11.toList l := by
  induction l <;> simp_all [elems, C11.toList]

theorem properList_eq (l : E) : properList l = proper l := by
  induction l <;> simp_all [properList, proper]

theorem height_elem (l x : E) (h : x ∈ elems l) : height x ≤ height l := by
  induction l with
  | cons a t _ iht =>
    simp only [elems, List.mem_cons] at h
    simp only [height]
    rcases h with rfl | h
    · omega
    · have := iht h; omega
  | _ => simp [elems] at h

theorem genOK_elem (l x : E) (hg : genOK l = true) (h : x ∈ elems l) : genOK x = true := by
  induction l with
  | cons a t _ iht =>
    simp only [elems, List.mem_cons] at h
    simp only [genOK, Bool.and_eq_true] at hg
    rcases h with rfl | h
    · exact hg.1
    · exact iht hg.2 h
  | _ => simp [elems] at h

theorem AddOK_elem (l x : E) (hg : AddOK l) (h : x ∈ elems l) : AddOK x := by
  induction l with
  | cons a t _ iht =>
    simp only [elems, List.mem_cons] at h
    simp only [AddOK] at hg
    rcases h with rfl | h
    · exact hg.1
    · exact iht hg.2 h
  | _ => simp [elems] at h

/-! ## the statement proved for every node -/

/-- `print` returns the model's text for `x`, whenever `x` is in the domain and the model prints it -/
def Pr (print : E → Except PyErr String) (x : E) : Prop :=
  ∀ s, s ≠ Srt.P → wf s x = true → isList x = false → genOK x = true → AddOK x → (pr x).st = .ok →
    print x = .ok (flatten (pr x).doc)

theorem list_Pr (print : E → Except PyErr String) (l : E) (s : Srt) (hs : s ≠ .P)
    (IH : ∀ x, height x ≤ height l → Pr print x) (hl : isList l = true) (hw : wf s l = true)
    (hg : genOK l = true) (ha : AddOK l) (hst : (pr l).st = .ok) :
    ∀ x ∈ elems l, print x = .ok (flatten (pr x).doc) := by
  intro x hx
  have hx' : x ∈ C11.toList l := by rwa [← elems_eq_toList]
  have h1 := wf_list s l hw x hx'
  exact IH x (height_elem l x hx) s hs h1.1 h1.2 (genOK_elem l x hg hx) (AddOK_elem l x ha hx)
    (st_list l (proper_of_wf s l hl hw) hst x hx')

theorem isList_cases (l : E) (h : isList l = true) : l = .nil ∨ ∃ a t, l = .cons a t := by
  cases l <;> simp_all [isList]

/-- `_print_Add`, with the sign condition as `MinusOK` -/
theorem printAdd_pr' (print : E → Except PyErr String) (hd tl : E) (hl : properList tl = true)
    (h : ∀ x ∈ elems (.cons hd tl), print x = .ok (flatten (pr x).doc))
    (hm : ∀ x ∈ elems (.cons hd tl), MinusOK (pr x).doc) :
    PrinterAdd.printAdd print (.add (.cons hd tl)) = .ok (flatten (pr (.add (.cons hd tl))).doc) := by
  have hl' : properList (.cons hd tl) = true := by simpa [properList] using hl
  obtain ⟨h1, h2, _⟩ := pr_items (.cons hd tl) hl'
  have hit : (pr (.cons hd tl)).items = ⟨hd, (pr hd).st, (pr hd).doc, (pr hd).base, (pr hd).items.map Item.one⟩ ::
      (pr tl).items := by simp [pr]
  rw [hit] at h1 h2
  rw [printAdd_tie print (.cons hd tl) _ (pr tl).items h1.symm]
  · simp [pr]
  · intro j hj
    rw [(h2 j hj).1]
    exact h j.e (by rw [← h1]; exact List.mem_map_of_mem hj)
  · intro j hj
    rw [(h2 j hj).1]
    exact hm j.e (by rw [← h1]; exact List.mem_map_of_mem hj)

/-! ## powers and numbers -/

theorem pow_parts (b x : E) (hw : wf .A (.pow b x) = true) (hg : genOK (.pow b x) = true) (ha : AddOK (.pow b x))
    (hst : (pr (.pow b x)).st = .ok) :
    (wf .A b = true ∧ isList b = false ∧ genOK b = true ∧ AddOK b ∧ (pr b).st = .ok) ∧
    (wf .A x = true ∧ isList x = false ∧ genOK x = true ∧ AddOK x ∧ (pr x).st = .ok) := by
  simp only [wf, Bool.and_eq_true, Bool.not_eq_true'] at hw
  simp only [genOK, Bool.and_eq_true] at hg
  simp only [AddOK] at ha
  simp only [pr] at hst
  split_ifs at hst
  rw [join_ok] at hst
  exact ⟨⟨hw.1.2, hw.1.1.1.2, hg.1, ha.1, hst.1⟩, ⟨hw.2, hw.1.1.2, hg.2, ha.2, hst.2⟩⟩

theorem negNum_parts (x : E) (hn : isNegRat x = true) (hw : wf .A x = true) :
    wf .A (negNum x) = true ∧ isList (negNum x) = false ∧ genOK (negNum x) = true ∧ AddOK (negNum x) ∧
    (pr (negNum x)).st = .ok ∧ (pr (negNum x)).doc = numDoc (negNum x) ∧ height (negNum x) = 0 ∧ height x = 0 ∧
    constCompound (negNum x) = false ∧ (pr x).st = .ok := by
  cases x <;> simp_all [isNegRat, negNum, wf, isList, genOK, AddOK, pr, okDoc, numDoc, height, constCompound]

theorem num_Pr (print : E → Except PyErr String) (k : E) (hk : numOK k = true) (h : Pr print k) :
    print k = .ok (flatten (numDoc k)) := by
  cases k <;> simp_all [numOK]
  · rename_i n
    have := h .A (by decide) (by simp [wf]) rfl rfl trivial rfl
    simpa [pr, okDoc, numDoc] using this
  · rename_i p q
    have := h .A (by decide) (by simp [wf, hk]) rfl rfl trivial (by simp [pr, hk])
    simpa [pr] using this
  · rename_i t n
    have := h .A (by decide) (by simp [wf, hk]) rfl rfl trivial (by simp [pr, hk])
    simpa [pr, numDoc] using this

theorem numOK_height (k : E) (hk : numOK k = true) : height k = 0 := by
  cases k <;> simp_all [numOK, height]

theorem mul_items (l : E) : (pr (.mul l)).items = (pr l).items := by
  simp only [pr]; split <;> rfl

theorem items_nil (x : E) (hl : isList x = false) (hm : isMul x = false) : (pr x).items = [] := by
  cases x <;> simp_all [isList, isMul, pr, okDoc]
  · split <;> rfl

theorem mk_one (g : E) : (mk g).one = ⟨g, (pr g).doc, (pr g).base⟩ := rfl

theorem twoPlus_cases (a : E) (h : twoPlus a = true) : ∃ c r t, a = .cons c (.cons r t) := by
  cases a with
  | cons c t => cases t with
    | cons r t' => exact ⟨c, r, t', rfl⟩
    | _ => simp [twoPlus] at h
  | _ => simp [twoPlus] at h

theorem twoPlus_length (l : E) (h : twoPlus l = true) : (elems l).length ≠ 1 := by
  obtain ⟨c, r, t, rfl⟩ := twoPlus_cases l h
  simp [elems]

/-- the factors that reach `mulDoc` -/
inductive Good (N : Nat) (Q : E → Prop) (T : Status → Prop) : Item1 → Prop
  | sub (g : E) (hh : height g < N) (hw : wf .A g = true) (hl : isList g = false) (hg : genOK g = true)
      (ha : Q g) (hst : T (pr g).st) : Good N Q T ⟨g, (pr g).doc, (pr g).base⟩
  | num (k : E) (hk : numOK k = true) : Good N Q T (num1 k)

/-- a property of the status of a list (`= ok`, `≠ unsup`) that its elements inherit -/
theorem st_list_T (T : Status → Prop) (hT : ∀ a b, T (a.join b) → T a ∧ T b) (l : E) (hl : proper l = true)
    (h : T (pr l).st) : ∀ x ∈ C11.toList l, T (pr x).st := by
  induction l with
  | nil => simp [C11.toList]
  | cons a t _ iht =>
      simp only [proper] at hl
      simp only [pr] at h
      have h2 := hT _ _ h
      intro x hx
      simp only [C11.toList, List.mem_cons] at hx
      rcases hx with rfl | hx
      · exact h2.1
      · exact iht hl h2.2 x hx
  | _ => simp [proper] at hl

/-- **the `mul` case of `C11.pr`, unfolded**: on a printed product of the domain the model's `mulItems` answers, and every
    factor it hands to `mulDoc` is a factor of the product, a factor of a factor that is itself a product (both in the
    domain, printed, and lower), or a number made by `_keep_coeff`. `Q` is any predicate inherited by sub-terms, `T` any
    property of the status that the operands of `join` inherit and `unsup` does not have (`= ok`, `≠ unsup`). -/
theorem mul_good (Q : E → Prop) (hQe : ∀ l x, Q l → x ∈ elems l → Q x) (hQm : ∀ l, Q (.mul l) → Q l)
    (T : Status → Prop) (hT : ∀ a b, T (a.join b) → T a ∧ T b) (hTu : ¬ T .unsup)
    (c r1 t : E) (hla : isList (.cons c (.cons r1 t)) = true) (hwa : wf .A (.cons c (.cons r1 t)) = true)
    (hg2 : genOK (.cons c (.cons r1 t)) = true) (ha : Q (.cons c (.cons r1 t)))
    (hst : T (pr (.mul (.cons c (.cons r1 t)))).st) :
    ∃ s' fs, mulItems (mk c :: mk r1 :: (C11.toList t).map mk) = some (s', fs) ∧
      (pr (.mul (.cons c (.cons r1 t)))).doc = mulDoc s' fs ∧
      (pr (.mul (.cons c (.cons r1 t)))).st = (pr (.cons c (.cons r1 t))).st ∧
      (∀ f ∈ fs, Good (height (.mul (.cons c (.cons r1 t)))) Q T f) ∧
      (∀ l, r1 = .mul l → elems l = (mk r1).sub.map (·.e)) ∧
      elems t = ((C11.toList t).map mk).map (·.e) := by
  have hpa := proper_of_wf .A _ hla hwa
  have hdoc : ∃ s' fs, mulItems (pr (.cons c (.cons r1 t))).items = some (s', fs) ∧
      (pr (.mul (.cons c (.cons r1 t)))).doc = mulDoc s' fs ∧
      (pr (.mul (.cons c (.cons r1 t)))).st = (pr (.cons c (.cons r1 t))).st := by
    cases hmi : mulItems (pr (.cons c (.cons r1 t))).items with
    | none =>
      have : (pr (.mul (.cons c (.cons r1 t)))).st = .unsup := by simp only [pr] at hmi ⊢; simp [hmi]
      rw [this] at hst; exact absurd hst hTu
    | some sf =>
      simp only [pr] at hmi
      refine ⟨sf.1, sf.2, rfl, ?_, ?_⟩
      · simp [pr, hmi]
      · simp [pr, hmi]
  obtain ⟨s', fs, hmi, hd, hse⟩ := hdoc
  have hsa : T (pr (.cons c (.cons r1 t))).st := by rw [← hse]; exact hst
  have hitems := items_list _ hpa
  simp only [C11.toList, List.map_cons] at hitems
  rw [hitems] at hmi
  have hN : height (.mul (.cons c (.cons r1 t))) = height (.cons c (.cons r1 t)) + 1 := rfl
  -- every child is in the domain
  have hchild : ∀ g ∈ C11.toList (.cons c (.cons r1 t)), height g ≤ height (.cons c (.cons r1 t)) ∧
      wf .A g = true ∧ isList g = false ∧ genOK g = true ∧ Q g ∧ T (pr g).st := by
    intro g hgm
    have hge : g ∈ elems (.cons c (.cons r1 t)) := by rwa [elems_eq_toList]
    have h1 := wf_list .A _ hwa g hgm
    exact ⟨height_elem _ g hge, h1.1, h1.2, genOK_elem _ g hg2 hge, hQe _ g ha hge,
      st_list_T T hT _ hpa hsa g hgm⟩
  -- the factors of a factor that is itself a product
  have hgrand : ∀ l, wf .A (.mul l) = true → genOK (.mul l) = true → Q (.mul l) → T (pr (.mul l)).st →
      (pr (.mul l)).items = (C11.toList l).map mk ∧ ∀ g ∈ C11.toList l, height g ≤ height l ∧
      wf .A g = true ∧ isList g = false ∧ genOK g = true ∧ Q g ∧ T (pr g).st := by
    intro l hwl hgl hal hsl
    simp only [wf, Bool.and_eq_true] at hwl
    simp only [genOK, Bool.and_eq_true] at hgl
    have hal := hQm l hal
    have hpl := proper_of_wf .A _ hwl.1.2 hwl.2
    have hsl' : T (pr l).st := by
      simp only [pr] at hsl
      split at hsl
      · exact absurd hsl hTu
      · exact hsl
    refine ⟨by rw [mul_items, items_list l hpl], ?_⟩
    intro g hgm
    have hge : g ∈ elems l := by rwa [elems_eq_toList]
    have h1 := wf_list .A _ hwl.2 g hgm
    exact ⟨height_elem _ g hge, h1.1, h1.2, genOK_elem _ g hgl.2 hge, hQe _ g hal hge,
      st_list_T T hT _ hpl hsl' g hgm⟩
  refine ⟨s', fs, hmi, hd, hse, ?_, ?_, ?_⟩
  · intro f hf
    rcases mulItems_mem _ _ _ hmi f hf with ⟨i, hi, rfl⟩ | ⟨i, hi, hfi⟩ | ⟨k, rfl, hk⟩
    · have : ∃ g ∈ C11.toList (.cons c (.cons r1 t)), i = mk g := by
        simp only [C11.toList, List.mem_cons, List.mem_map] at hi ⊢
        rcases hi with rfl | rfl | ⟨g, hg', rfl⟩
        · exact ⟨c, Or.inl rfl, rfl⟩
        · exact ⟨r1, Or.inr (Or.inl rfl), rfl⟩
        · exact ⟨g, Or.inr (Or.inr hg'), rfl⟩
      obtain ⟨g, hgm, rfl⟩ := this
      obtain ⟨h1, h2, h3, h4, h5, h6⟩ := hchild g hgm
      exact Good.sub g (by rw [hN]; omega) h2 h3 h4 h5 h6
    · have : ∃ g ∈ C11.toList (.cons c (.cons r1 t)), i = mk g := by
        simp only [C11.toList, List.mem_cons, List.mem_map] at hi ⊢
        rcases hi with rfl | rfl | ⟨g, hg', rfl⟩
        · exact ⟨c, Or.inl rfl, rfl⟩
        · exact ⟨r1, Or.inr (Or.inl rfl), rfl⟩
        · exact ⟨g, Or.inr (Or.inr hg'), rfl⟩
      obtain ⟨g, hgm, rfl⟩ := this
      obtain ⟨h1, h2, h3, h4, h5, h6⟩ := hchild g hgm
      by_cases hmul : isMul g = true
      · cases g with
        | mul l =>
          obtain ⟨hil, hgl⟩ := hgrand l h2 h4 h5 h6
          simp only [mk, hil, List.map_map, List.mem_map, Function.comp] at hfi
          obtain ⟨g', hg', rfl⟩ := hfi
          obtain ⟨k1, k2, k3, k4, k5, k6⟩ := hgl g' hg'
          have h1' : height l + 1 ≤ height (.cons c (.cons r1 t)) := h1
          exact Good.sub g' (by rw [hN]; omega) k2 k3 k4 k5 k6
        | _ => simp [isMul] at hmul
      · have := items_nil g h3 (by simpa using hmul)
        simp [mk, this] at hfi
    · exact Good.num k hk
  · intro l hl'
    subst hl'
    obtain ⟨_, h2, _, h4, h5, h6⟩ := hchild (.mul l) (by simp [C11.toList])
    obtain ⟨hil, _⟩ := hgrand l h2 h4 h5 h6
    simp [mk, hil, elems_eq_toList, List.map_map, Function.comp_def, Item.one]
  · simp [elems_eq_toList, List.map_map, Function.comp_def, mk]

/-! ## `_print_Piecewise`: the pairs up to the first `True` condition -/

theorem pw_printed (print : E → Except PyErr String) (N : Nat) (IH : ∀ x, height x < N → Pr print x) (l : E)
    (hl : isList l = true) (hw : wf .P l = true) (hg : genOK l = true) (ha : AddOK l) (hh : height l < N)
    (hst : (pwInner (pr l).items).1 = .ok) : PwPrinted print (pr l).items := by
  induction l with
  | nil => simp [pr, okDoc, PwPrinted]
  | cons h t _ iht =>
    simp only [wf, Bool.and_eq_true, Bool.not_eq_true'] at hw
    obtain ⟨⟨⟨hwh, hlh⟩, hlt⟩, hwt⟩ := hw
    simp only [genOK, Bool.and_eq_true] at hg
    simp only [AddOK] at ha
    simp only [height] at hh
    have hit : (pr (.cons h t)).items = ⟨h, (pr h).st, (pr h).doc, (pr h).base, (pr h).items.map Item.one⟩ ::
        (pr t).items := by simp [pr]
    rw [hit] at hst ⊢
    cases h with
    | pair v c =>
      simp only [wf, Bool.and_eq_true, Bool.not_eq_true'] at hwh
      simp only [genOK, Bool.and_eq_true] at hg
      simp only [AddOK] at ha
      simp only [height] at hh
      simp only [pwInner, isTruePair_pair] at hst
      have hpv : (pr (.pair v c)).doc = (pr v).doc := by simp [pr]
      have hpc : (pr (.pair v c)).base = (pr c).doc := by simp [pr]
      have hps : (pr (.pair v c)).st = (pr v).st.join (pr c).st := by simp [pr]
      refine ⟨v, c, rfl, ?_, ?_⟩
      · have hvs : (pr v).st = .ok := by
          by_cases htc : isTrue c = true
          · simp only [htc, if_true, hps] at hst
            exact ((join_ok _ _).mp hst).1
          · simp only [htc, Bool.false_eq_true, if_false, hps] at hst
            exact ((join_ok _ _).mp ((join_ok _ _).mp hst).1).1
        simp only [hpv]
        exact IH v (by omega) .A (by decide) hwh.1.2 hwh.1.1.1.2 hg.1.1 ha.1.1 hvs
      · by_cases htc : isTrue c = true
        · exact Or.inl htc
        · have htc' : isTrue c = false := by simpa using htc
          simp only [htc', Bool.false_eq_true, if_false, hps] at hst
          obtain ⟨h1, h2⟩ := (join_ok _ _).mp hst
          obtain ⟨h3, h4⟩ := (join_ok _ _).mp h1
          refine Or.inr ⟨htc', ?_, iht hlt hwt hg.2 ha.2 (by omega) h2⟩
          simp only [hpc]
          exact IH c (by omega) .B (by decide) hwh.2 hwh.1.1.2 hg.1.2 ha.1.2 h4
    | other w =>
      simp only [pwInner, isTruePair, pr, Bool.false_eq_true, if_false] at hst
      simp [Status.join] at hst
      revert hst; cases (pwInner (pr t).items).1 <;> simp [Status.join]
    | _ => simp_all [wf, isList]
  | _ => simp [isList] at hl

/-! ## one step: SymPy's dispatch over the generated methods, given the model's text for everything below -/

theorem dispatch_step (print : E → Except PyErr String) (e : E) (IH : ∀ x, height x < height e → Pr print x) :
    Pr (dispatch print) e := by
  intro s hs hw hl hg ha hst
  cases e with
  | sym n c => exact printSymbol_tie print n c
  | int n => exact printInteger_tie print n
  | rat p q => exact printRational_tie print p q
  | flt t neg =>
    simp only [wf, Bool.and_eq_true] at hw
    exact printFloat_tie print t neg hw.2
  | pi => exact printPi_tie print .pi
  | e1 => exact printExp1_tie print .e1
  | tt => exact printBooleanTrue_tie print .tt
  | ff => exact printBooleanFalse_tie print .ff
  | deriv x t => exact printDerivative_tie print x t
  | other w => simp [pr] at hst
  | pair v c => simp_all [wf]
  | nil => simp [isList] at hl
  | cons a t => simp [isList] at hl
  | add a =>
    simp only [wf, Bool.and_eq_true] at hw
    obtain ⟨⟨_, hla⟩, hwa⟩ := hw
    simp only [genOK] at hg
    simp only [AddOK] at ha
    have hsa : (pr a).st = .ok ∧ (pr a).items.isEmpty = false := by
      simp only [pr] at hst
      split_ifs at hst with h0
      exact ⟨hst, by simpa using h0⟩
    have hkids := list_Pr print a .A (by decide) (fun x hx => IH x (by simp only [height]; omega)) hla hwa hg ha.2 hsa.1
    rcases isList_cases a hla with rfl | ⟨hd, tl, rfl⟩
    · simp [pr, okDoc] at hsa
    · have hpt : properList tl = true := by
        rw [properList_eq]
        have := proper_of_wf .A _ hla hwa
        simpa [proper] using this
      exact printAdd_pr' print hd tl hpt hkids (ha.1 hsa.1)
  | and a =>
    simp only [wf, Bool.and_eq_true] at hw
    obtain ⟨⟨⟨_, hla⟩, hwa⟩, _⟩ := hw
    simp only [genOK] at hg
    simp only [AddOK] at ha
    have hsa : (pr a).st = .ok := by
      simp only [pr] at hst
      split_ifs at hst
      exact hst
    have hkids := list_Pr print a .B (by decide) (fun x hx => IH x (by simp only [height]; omega)) hla hwa hg ha hsa
    exact printAnd_pr print a (by rw [properList_eq]; exact proper_of_wf .B _ hla hwa) hkids
  | or a =>
    simp only [wf, Bool.and_eq_true] at hw
    obtain ⟨⟨⟨_, hla⟩, hwa⟩, _⟩ := hw
    simp only [genOK] at hg
    simp only [AddOK] at ha
    have hsa : (pr a).st = .ok := by
      simp only [pr] at hst
      split_ifs at hst
      exact hst
    have hkids := list_Pr print a .B (by decide) (fun x hx => IH x (by simp only [height]; omega)) hla hwa hg ha hsa
    exact printOr_pr print a (by rw [properList_eq]; exact proper_of_wf .B _ hla hwa) hkids
  | fn name a =>
    simp only [wf, Bool.and_eq_true] at hw
    obtain ⟨⟨_, hla⟩, hwa⟩ := hw
    simp only [genOK] at hg
    simp only [AddOK] at ha
    have hsa : (pr a).st = .ok ∧ (fnName name).isSome = true := by
      simp only [pr] at hst
      cases hf : fnName name with
      | none => simp only [hf] at hst; rw [join_ok] at hst; exact absurd hst.2 (by decide)
      | some f => simp only [hf] at hst; exact ⟨hst, rfl⟩
    have hkids := list_Pr print a .A (by decide) (fun x hx => IH x (by simp only [height]; omega)) hla hwa hg ha hsa.1
    have := printFunction_pr print name a (by rw [properList_eq]; exact proper_of_wf .A _ hla hwa) hkids
    simpa [hsa.2, dispatch] using this
  | pw ps =>
    simp only [wf, Bool.and_eq_true] at hw
    obtain ⟨⟨_, hlp⟩, hwp⟩ := hw
    simp only [genOK] at hg
    simp only [AddOK] at ha
    have hsp : (pwInner (pr ps).items).1 = .ok := by
      simp only [pr] at hst
      exact hst
    have hpp := proper_of_wf .P _ hlp hwp
    obtain ⟨h1, _, _⟩ := pr_items ps (by rw [properList_eq]; exact hpp)
    have := printPiecewise_tie print ps (pr ps).items h1.symm
      (pw_printed print (height (.pw ps)) IH ps hlp hwp hg ha (by simp only [height]; omega) hsp)
    simpa [pr, dispatch] using this
  | rel r a b =>
    simp only [wf, Bool.and_eq_true, Bool.not_eq_true', Bool.or_eq_true] at hw
    obtain ⟨⟨⟨_, hla⟩, hlb⟩, hwab⟩ := hw
    simp only [genOK, Bool.and_eq_true] at hg
    simp only [AddOK] at ha
    have hsab : (pr a).st = .ok ∧ (pr b).st = .ok := by
      simp only [pr] at hst
      exact (join_ok _ _).mp hst
    have hha : height a < height (.rel r a b) := by simp only [height]; omega
    have hhb : height b < height (.rel r a b) := by simp only [height]; omega
    rcases hwab with ⟨hwa, hwb⟩ | ⟨⟨_, hwa⟩, hwb⟩
    · exact printRelational_pr print r a b (IH a hha .A (by decide) hwa hla hg.1 ha.1 hsab.1)
        (IH b hhb .A (by decide) hwb hlb hg.2 ha.2 hsab.2)
    · exact printRelational_pr print r a b (IH a hha .B (by decide) hwa hla hg.1 ha.1 hsab.1)
        (IH b hhb .B (by decide) hwb hlb hg.2 ha.2 hsab.2)
  | pow b x =>
    have hsA : s = .A := by
      simp only [wf, Bool.and_eq_true, beq_iff_eq] at hw
      exact hw.1.1.1.1
    subst hsA
    obtain ⟨⟨hwb, hlb, hgb, hab, hsb⟩, ⟨hwx, hlx, hgx, hax, hsx⟩⟩ := pow_parts b x hw hg ha hst
    exact printPow_pr print b x (IH b (by simp only [height]; omega) .A (by decide) hwb hlb hgb hab hsb)
      (IH x (by simp only [height]; omega) .A (by decide) hwx hlx hgx hax hsx)
  | mul a =>
    simp only [wf, Bool.and_eq_true] at hw
    obtain ⟨⟨_, hla⟩, hwa⟩ := hw
    simp only [genOK, Bool.and_eq_true] at hg
    simp only [AddOK] at ha
    obtain ⟨c, r1, t, rfl⟩ := twoPlus_cases a hg.1
    obtain ⟨s', fs, hmi, hd, _, hgood, hsubr, htl⟩ := mul_good AddOK AddOK_elem (fun l h => h) (· = .ok)
      (fun a b h => (join_ok a b).mp h) (by decide) c r1 t hla hwa hg.2 ha hst
    have hN : height (.mul (.cons c (.cons r1 t))) = height (.cons c (.cons r1 t)) + 1 := rfl
    have key : ∀ g, height g < height (.mul (.cons c (.cons r1 t))) → wf .A g = true → isList g = false →
        genOK g = true → AddOK g → (pr g).st = .ok → print g = .ok (flatten (pr g).doc) :=
      fun g hh hw' hl' hg' ha' hs' => IH g hh .A (by decide) hw' hl' hg' ha' hs'
    have hnumP : ∀ k, numOK k = true → print k = .ok (flatten (numDoc k)) := fun k hk =>
      num_Pr print k hk (IH k (by rw [numOK_height k hk, hN]; omega))
    have := printMul_tie print c r1 t (mk c) (mk r1) ((C11.toList t).map mk) s' fs rfl rfl htl hsubr hmi
      (by
        intro f hf
        cases hgood f hf with
        | sub g hh hw' hl' hg' ha' hs' => exact key g hh hw' hl' hg' ha' hs'
        | num k hk => exact hnumP k hk)
      (by
        intro f hf b x hfe
        cases hgood f hf with
        | sub g hh hw' hl' hg' ha' hs' =>
          simp only at hfe
          subst hfe
          obtain ⟨⟨hwb, hlb, hgb, hab, hsb⟩, _⟩ := pow_parts b x hw' hg' ha' hs'
          have hb : (pr (.pow b x)).base = (pr b).doc := by simp [pr]
          simp only [hb]
          exact key b (by simp only [height] at hh ⊢; omega) hwb hlb hgb hab hsb
        | num k hk => cases k <;> simp_all [num1, numOK])
      (fun n => hnumP (.int n) rfl)
      (by
        intro f hf b x hfe hneg
        cases hgood f hf with
        | sub g hh hw' hl' hg' ha' hs' =>
          simp only at hfe
          subst hfe
          obtain ⟨⟨hwb, hlb, hgb, hab, hsb⟩, ⟨hwx, _, _, _, _⟩⟩ := pow_parts b x hw' hg' ha' hs'
          obtain ⟨n1, n2, n3, n4, n5, n6, n7, n8, n9, _⟩ := negNum_parts x hneg hwx
          have hb : (pr (.pow b x)).base = (pr b).doc := by simp [pr]
          have := key (.pow b (negNum x)) (by simp only [height, n7, n8] at hh ⊢; omega)
            (by simp [wf, hwb, hlb, n1, n2]) rfl (by simp [genOK, hgb, n3]) ⟨hab, n4⟩
            (by simp [pr, n9, hsb, n5, Status.join])
          simpa [pr, hb, n6] using this
        | num k hk => cases k <;> simp_all [num1, numOK])
      (by
        intro f hf p q hfe
        cases hgood f hf with
        | sub g hh hw' hl' hg' ha' hs' =>
          simp only at hfe
          subst hfe
          simp only [wf, Bool.and_eq_true, decide_eq_true_eq] at hw'
          omega
        | num k hk =>
          simp only [num1] at hfe
          subst hfe
          simp only [numOK, decide_eq_true_eq] at hk
          omega)
      (by
        intro f hf bb x hfe hmul
        cases hgood f hf with
        | sub g hh hw' hl' hg' ha' hs' =>
          simp only at hfe
          subst hfe
          cases bb with
          | mul l =>
            simp only [genOK, Bool.and_eq_true] at hg'
            simpa [argsOf] using twoPlus_length l hg'.1.1
          | _ => simp [isMul] at hmul
        | num k hk => cases k <;> simp_all [num1, numOK])
    simpa [dispatch, hd] using this

/-! ## the closed recursion -/

/-- **the generated printer, closed by recursion, prints the model**: for every expression `e` of the domain
    (`C11.wf`; products have at least two factors; `AddOK`) that the model prints (`(pr e).st = ok`), with recursion depth
    above the height of `e`. -/
theorem gprint_pr (n : Nat) (e : E) (hn : height e < n) : Pr (gprint n) e := by
  induction n generalizing e with
  | zero => omega
  | succ n ih =>
    show Pr (dispatch (gprint n)) e
    exact dispatch_step (gprint n) e (fun x hx => ih x (by omega))

/-- the generated printer: `Printer()._print(e)` -/
def genPrint (e : E) : Except PyErr String := gprint (height e + 1) e

/-- the generated `Printer().doprint(e)`: `optimize` (SymPy, with the table `_optims`) is the model's `rewriteTrig` -/
def genDoprint (e : E) : Except PyErr String :=
  Printer.doprint (fun x => match rewriteTrig x with | some y => .ok y | none => .error ⟨"unmodelled"⟩)
    (fun x => genPrint x) e

/-- **`print_closed`**: the generated `_print`, closed by recursion, returns the model's `printStr` -/
theorem print_closed (e : E) (s : Srt) (hs : s ≠ .P) (hw : wf s e = true) (hl : isList e = false)
    (hg : genOK e = true) (ha : AddOK e) (d : Doc) (h : printDoc e = some d) :
    genPrint e = .ok (flatten d) ∧ printStr e = some (flatten d) := by
  unfold printDoc at h
  split at h
  next hst =>
    simp only [Option.some.injEq] at h; subst h
    refine ⟨gprint_pr _ e (by omega) s hs hw hl hg ha (by simpa using hst), ?_⟩
    simp [printStr, printDoc, hst]
  · cases h

/-- **`doprint_closed`**: the generated `doprint` (rewrite the secondary trigonometric functions, then print) returns the
    model's text of the rewritten expression -/
theorem doprint_closed (e e' : E) (hE : isExpr e = true) (hr : rewriteTrig e = some e') (hw : wf .A e' = true)
    (hl : isList e' = false) (hg : genOK e' = true) (ha : AddOK e') (d : Doc) (h : printDoc e' = some d) :
    genDoprint e = .ok (flatten d) := by
  unfold genDoprint
  rw [doprint_tie _ _ e e' hE hr (by simp [hr])]
  exact (print_closed e' .A (by decide) hw hl hg ha d h).1

end Cellml.Tie.PPrinter2
