import Cellml.Basic.PMap
/-! Decimal text → exact rational (the value Python's `float()` / pint's number parser would round), and
    positive rational → prime-exponent scale. Core Lean only. -/

namespace Decimal

def digitsToNat (cs : List Char) : Option Nat :=
  if cs.isEmpty then none else
  cs.foldl (fun acc c => match acc with
    | none => none
    | some n => if c.isDigit then some (n * 10 + (c.toNat - '0'.toNat)) else none) (some 0)

/-- optional sign then digits -/
def parseInt (s : String) : Option Int :=
  match s.toList with
  | '-' :: r => (fun n => -(n : Int)) <$> digitsToNat r
  | '+' :: r => (fun n => (n : Int)) <$> digitsToNat r
  | r => (fun n => (n : Int)) <$> digitsToNat r

/-- `String.trimAscii` on character lists: drop `Char.isWhitespace` characters at both ends. Same result as
    `s.trimAscii.toString.toList`, but by structural recursion, so `decide` can evaluate it (the library function goes
    through string slices and does not reduce in the kernel). -/
def trimList (cs : List Char) : List Char :=
  ((cs.dropWhile Char.isWhitespace).reverse.dropWhile Char.isWhitespace).reverse

def pow10Rat (k : Int) : Rat :=
  if k ≥ 0 then ((10 ^ k.toNat : Nat) : Rat) else 1 / ((10 ^ (-k).toNat : Nat) : Rat)

/-- `[sign] digits [. digits] [e|E [sign] digits]`, at least one mantissa digit; exact value -/
def parse (s : String) : Option Rat :=
  let cs := trimList s.toList
  let (neg, cs) := match cs with
    | '-' :: r => (true, r)
    | '+' :: r => (false, r)
    | r => (false, r)
  let (mant, ex) := match cs.span (fun c => c != 'e' && c != 'E') with
    | (m, []) => (m, none)
    | (m, _ :: e) => (m, some e)
  let (ip, fp) := match mant.span (· != '.') with
    | (i, []) => (i, [])
    | (i, _ :: f) => (i, f)
  if ip.isEmpty && fp.isEmpty then none else
  if !(ip.all Char.isDigit && fp.all Char.isDigit) then none else
  let digits := ip ++ fp
  match digitsToNat digits with
  | none => none
  | some n =>
    let e10 : Option Int := match ex with
      | none => some 0
      | some e => parseInt (String.ofList e)
    match e10 with
    | none => none
    | some e =>
      let v : Rat := (n : Rat) * pow10Rat (e - fp.length)
      some (if neg then -v else v)

end Decimal

namespace Factor

/-- trial division: exponent of each prime of `n`, smallest first; `fuel` bounds the candidate divisor -/
def go (fuel : Nat) (n d : Nat) (acc : List (Nat × Rat)) : List (Nat × Rat) :=
  match fuel with
  | 0 => if n > 1 then (n, 1) :: acc else acc
  | fuel + 1 =>
    if n ≤ 1 then acc
    else if d * d > n then (n, 1) :: acc
    else if n % d == 0 then
      match acc with
      | (p, e) :: t => if p == d then go fuel (n / d) d ((p, e + 1) :: t) else go fuel (n / d) d ((d, 1) :: acc)
      | [] => go fuel (n / d) d [(d, 1)]
    else go fuel n (d + 1) acc

def nat (n : Nat) : PMap Nat := (go (2000000) n 2 []).reverse

/-- scale of a positive rational; `none` for zero or negative -/
def rat (q : Rat) : Option (PMap Nat) :=
  if q ≤ 0 then none
  else some (PMap.norm (PMap.add (nat q.num.toNat) (PMap.neg (nat q.den))))

end Factor
