import Cellml.C06.Units2

/-! C06: unit consistency, the state case. -/

namespace Model.CV
open Model

theorem convertStateDeriv_unit (s : CState) (v nv : Nat) (cfq : X) (ode : CEqn) (x t : Nat)
    (hlk : s.odeDef.lookup v = some ode) (hl : ode.lhs = .deriv x t) :
    unitOfV (convertStateDeriv s v nv cfq).1 s.vars.length = lhsUnit s ode.lhs := by
  have : (convertStateDeriv s v nv cfq).1.vars = (removeOdeAssign s ode v).1.vars := by
    simp only [convertStateDeriv, hlk, hl]
    exact (addEq_vars _ _ _).1
  unfold unitOfV; rw [this]; exact removeOdeAssign_unit s ode v

/-- `convert_variable(v, units, INPUT)` for a state variable keeps the model unit-consistent -/
theorem units_state (J : UI) {s : CState} (hwf : WF s) (hu : UnitsOK J s) (v : Nat) (hv : v < s.vars.length) (u : U)
    (cf : Rat) (hcf1 : cf ≠ 1) (move : Bool) (hst : hasKey v s.odeDef = true) (hvs : (unitOfV s v).scale ≠ 0)
    (hus : u.scale ≠ 0) : UnitsOK J (convertVariable s v u cf .input move).1 := by
  obtain ⟨ode, hode, t, hlt⟩ := (hwf.inv.hasKey_odeDef v).mp hst
  have htn : t < s.vars.length := by
    have := (eqScoped_iff _ _).mp (hwf.inv.scopedE ode hode)
    exact this.1 t (by simp [hlt, CLhs.vars])
  obtain ⟨s2, hs2, hr, e2, l2, i2, c2, n2⟩ := state_struct hwf v hv u cf move hcf1 ode t hode hlt
  obtain ⟨_, c2', c3, c4⟩ := convertInstance_spec hwf.inv v hv cf u .input move
  obtain ⟨w1, w2⟩ := units_convertInstance_vars s v hv cf u .input move
  -- the ODE of `v` is still there after `_convert_variable_instance`
  have hode1 : ode ∈ (convertInstance s v cf u .input move).1.equations := by
    rw [c2']; simp only [instEqs]
    cases hlk : s.varDef.lookup v with
    | none => exact List.mem_append_left _ hode
    | some oe =>
      obtain ⟨_, hoel⟩ := (hwf.inv.lookup_varDef v oe).mp hlk
      exact List.mem_append_left _ ((List.mem_erase_of_ne (by intro hh; rw [hh, hoel] at hlt; cases hlt)).mpr hode)
  have hlk : (convertInstance s v cf u .input move).1.odeDef.lookup v = some ode :=
    (c4.lookup_odeDef v ode).mpr ⟨hode1, t, hlt⟩
  -- units of the variables of `s2`
  have hext : Ext (convertInstance s v cf u .input move).1 s2 := by rw [hs2]; exact ext_convertStateDeriv _ _ _ _
  have u1 : ∀ i, i < s.vars.length → unitOfV s2 i = unitOfV s i :=
    fun i hi => (unitOfV_of_ext hext (by rw [c3]; omega)).trans (w1 i hi)
  have u2 : unitOfV s2 s.vars.length = u := (unitOfV_of_ext hext (by rw [c3]; omega)).trans w2
  have u3 : unitOfV s2 (s.vars.length + 1) = (unitOfV s v).div (unitOfV s t) := by
    have := convertStateDeriv_unit (convertInstance s v cf u .input move).1 v s.vars.length (cfQ s v u cf) ode v t hlk hlt
    rw [c3, ← hs2] at this
    rw [this, hlt]; simp only [lhsUnit, w1 v hv, w1 t htn]
  have hU2 : UnitsOK J s2 := by
    intro e he
    rw [e2] at he
    rcases mem_stateEqs he with h | h | h | h
    · have hm := List.mem_of_mem_erase h
      exact (consistent_congr J (hwf.inv.scopedE e hm) u1).mpr (hu e hm)
    · rw [h]; simp only [Consistent, unitOf, unitOf_cfQ, lhsUnit, u1 v hv, u2, U.div_div_self _ _ hus]
    · rw [h]
      have hc := (consistent_congr J (hwf.inv.scopedE ode hode) u1).mpr (hu ode hode)
      simp only [Consistent, hlt, lhsUnit, u1 v hv, u1 t htn] at hc
      simp only [Consistent, hc, lhsUnit, u3]
    · rw [h]
      simp only [Consistent, unitOf, unitOf_cfQ, lhsUnit, u2, u3, u1 t htn, U.state_law _ _ _ hvs]
  rw [hr]
  apply units_replaceRefs J i2 c2 n2 _ hU2
  · intro k w hk
    rw [lookup_single] at hk
    by_cases hkk : k = (v, t)
    · rw [if_pos hkk] at hk; cases hk; rw [hkk, u3, u1 v hv, u1 t htn]
    · rw [if_neg hkk] at hk; cases hk
  · intro p hp
    simp only [List.mem_cons, List.not_mem_nil, or_false] at hp
    rw [hp, l2]; omega

end Model.CV
