import Cellml.C12.Window

/-! # C12 — `_generate_piecewise` as a function on values (core Lean only, generic in the number type).

    `Piecewise((f(Vmin) + (V − Vmin)/(Vmax − Vmin)·(f(Vmax) − f(Vmin)), Vmin ≤ V ∧ V ≤ Vmax), (f(V), True))`
    with `f` the wrapped expression read as a function of the voltage — an ARBITRARY function here. -/

namespace C12

section
variable {K : Type} [Add K] [Sub K] [Mul K] [Div K] [LT K] [DecidableLT K] [LE K] [DecidableLE K]

/-- the interpolation coefficient `(V − a)/(b − a)` -/
def coeff (V a b : K) : K := (V - a) / (b - a)

/-- the piecewise for bounds already in order -/
def interp (f : K → K) (V a b : K) : K :=
  if a ≤ V ∧ V ≤ b then f a + coeff V a b * (f b - f a) else f V

/-- `_generate_piecewise(f, V, sp, Vmin, Vmax)` evaluated at `V`: swap, then interpolate inside the range -/
def generate (f : K → K) (V vmin vmax : K) : K :=
  interp f V (lo vmin vmax) (hi vmin vmax)

end
end C12
