#!/bin/bash
# tools/merge_tie.sh <Name>: bring the deliverables of a tie package built in /tmp/tie/<Name> into /verif
set -u
n=$1; src=/tmp/tie/$n; base=$(git -C /verif rev-parse ${BASE:-HEAD})
cd /verif
# new files (specs, views, ties, generated, reports)
rsync -a --ignore-existing $src/harness/code_specs/ harness/code_specs/ --exclude __pycache__
rsync -a --ignore-existing $src/lean/Cellml/Tie/ lean/Cellml/Tie/
rsync -a --ignore-existing $src/lean/Cellml/Generated/Code/ lean/Cellml/Generated/Code/
rsync -a $src/notes/reports/TIE_*.md notes/reports/ 2>/dev/null
# shared files: 3-way merge against the version the copy was made from
for f in harness/translate_code.py lean/Cellml/Tie/Prelude.lean lean/Cellml/Tie/LoaderView.lean; do
  if ! cmp -s $src/$f <(git show $TIE_BASE:$f); then
    git show $TIE_BASE:$f > /tmp/merge-base.$$; cp $src/$f /tmp/merge-theirs.$$
    git merge-file -L ours -L base -L $n $f /tmp/merge-base.$$ /tmp/merge-theirs.$$ && echo "merged $f" || echo "CONFLICT in $f"
    rm -f /tmp/merge-base.$$ /tmp/merge-theirs.$$
  fi
done
# files of ours that the package changed although it should not have
(cd $src; find lean/Cellml harness -type f \( -name '*.lean' -o -name '*.py' \) | grep -v "Generated/Code\|/Tie/\|code_specs\|__pycache__" ) | while read f; do
  if [ -f /verif/$f ] && ! cmp -s $src/$f <(git show $TIE_BASE:$f 2>/dev/null); then echo "NOTE: package changed $f"; fi
done
