/-! S-expressions for the line protocol between the Python harness and the Lean model driver.
    Core Lean only. Atoms are bare tokens; strings are double-quoted with `\"` and `\\` escapes. -/

inductive Sexp where
  | atom (s : String)
  | str  (s : String)
  | list (xs : List Sexp)
deriving Repr, Inhabited, BEq

namespace Sexp

private def escape (s : String) : String :=
  s.foldl (fun acc c => if c == '"' then acc ++ "\\\"" else if c == '\\' then acc ++ "\\\\" else acc.push c) ""

partial def toString : Sexp → String
  | atom s => s
  | str s => "\"" ++ escape s ++ "\""
  | list xs => "(" ++ " ".intercalate (xs.map toString) ++ ")"

instance : ToString Sexp := ⟨Sexp.toString⟩

inductive Tok | lp | rp | a (s : String) | s (s : String)

def readStr (cs : List Char) (cur : String) : String × List Char :=
  match cs with
  | [] => (cur, [])
  | '\\' :: c :: r => readStr r (cur.push c)
  | '"' :: r => (cur, r)
  | c :: r => readStr r (cur.push c)

def readAtom (cs : List Char) (cur : String) : String × List Char :=
  match cs with
  | [] => (cur, [])
  | c :: r => if c == ' ' || c == '(' || c == ')' || c == '\n' || c == '\t' || c == '\r' || c == '"'
              then (cur, c :: r) else readAtom r (cur.push c)

partial def tokenize (cs : List Char) (acc : Array Tok := #[]) : Array Tok :=
  match cs with
  | [] => acc
  | '(' :: r => tokenize r (acc.push .lp)
  | ')' :: r => tokenize r (acc.push .rp)
  | '"' :: r =>
      let (s, r') := readStr r ""
      tokenize r' (acc.push (.s s))
  | c :: r =>
      if c == ' ' || c == '\n' || c == '\t' || c == '\r' then tokenize r acc
      else
        let (s, r') := readAtom (c :: r) ""
        tokenize r' (acc.push (.a s))

/-- parse one expression starting at token index `i`; returns the expression and the next index -/
partial def parseAt (ts : Array Tok) (i : Nat) : Option (Sexp × Nat) :=
  if h : i < ts.size then
    match ts[i] with
    | .a s => some (atom s, i + 1)
    | .s s => some (str s, i + 1)
    | .rp => none
    | .lp =>
        let rec items (j : Nat) (acc : Array Sexp) : Option (Sexp × Nat) :=
          if h : j < ts.size then
            match ts[j] with
            | .rp => some (list acc.toList, j + 1)
            | _ => match parseAt ts j with
                   | some (e, j') => items j' (acc.push e)
                   | none => none
          else none
        items (i + 1) #[]
  else none

def parse (line : String) : Option Sexp :=
  let ts := tokenize line.toList
  match parseAt ts 0 with
  | some (e, _) => some e
  | none => none

def atomOf? : Sexp → Option String
  | atom s => some s
  | str s => some s
  | _ => none

def listOf? : Sexp → Option (List Sexp)
  | list xs => some xs
  | _ => none

def int? (e : Sexp) : Option Int := do
  let s ← atomOf? e
  s.toInt?

def nat? (e : Sexp) : Option Nat := do
  let s ← atomOf? e
  s.toNat?

/-- rational written `p/q` or `p` -/
def rat? (e : Sexp) : Option Rat := do
  let s ← atomOf? e
  match s.splitOn "/" with
  | [p] => (fun (n : Int) => (n : Rat)) <$> p.toInt?
  | [p, q] => do
      let n ← p.toInt?
      let d ← q.toNat?
      if d == 0 then none else some (mkRat n d)
  | _ => none

def ofRat (q : Rat) : Sexp :=
  if q.den == 1 then atom (ToString.toString q.num) else atom (ToString.toString q.num ++ "/" ++ ToString.toString q.den)

def ofInt (n : Int) : Sexp := atom (ToString.toString n)
def ofNat (n : Nat) : Sexp := atom (ToString.toString n)
def ofBool (b : Bool) : Sexp := atom (if b then "true" else "false")

/-- keyword argument lookup in a flat list: `... :key value ...` -/
def kw? (xs : List Sexp) (key : String) : Option Sexp :=
  match xs with
  | atom k :: v :: rest => if k == ":" ++ key then some v else kw? (v :: rest) key
  | _ :: rest => kw? rest key
  | [] => none

end Sexp

/-- Generic line loop for drivers: read a line, answer a line. -/
partial def lineLoop (h : IO.FS.Stream) (out : IO.FS.Stream) (f : Sexp → Sexp) : IO Unit := do
  let line ← h.getLine
  if line.isEmpty then return ()
  let l := line.trimAscii.toString
  if l.isEmpty then
    out.putStrLn ""
  else
    match Sexp.parse l with
    | some e => out.putStrLn (toString (f e))
    | none => out.putStrLn "(bad-line)"
  lineLoop h out f
