import Cellml.C15.Queries
import Cellml.C15.Perm

/-! # What `Load.load` guarantees about the flat model: `Declared` and `OdeOnce` are facts, not assumptions -/

namespace C15
open Load

theorem lookup_isSome_mem_keys {vt : VarTable} {v : VRef} (h : (vt.lookup v).isSome) : v ∈ vt.map (·.1) := by
  rw [List.lookup_isSome_iff] at h
  obtain ⟨p, hp, he⟩ := h
  rw [beq_iff_eq] at he
  exact List.mem_map.mpr ⟨p, hp, he.symm⟩

/-- a connection that gets a direction joins two declared variables -/
theorem direction_declared {par : ParentMap} {vt : VarTable} {c : Conn} {d : VRef × VRef}
    (h : direction par vt c = .ok d) : c.end1 ∈ vt.map (·.1) ∧ c.end2 ∈ vt.map (·.1) := by
  unfold direction at h
  split at h
  · cases h
  · cases h
  · rename_i i1 i2 h1 h2
    exact ⟨lookup_isSome_mem_keys (by rw [h1]; rfl), lookup_isSome_mem_keys (by rw [h2]; rfl)⟩

theorem root_ind (P : VRef → Prop) : ∀ (m : List (VRef × VRef)) (v : VRef),
    (∀ t s, (t, s) ∈ m → P s) → P v → P (root m v)
  | [], _, _, hv => hv
  | (t, s) :: m, v, hm, hv => by
      unfold root
      split
      · exact root_ind P m s (fun t' s' h => hm t' s' (List.mem_cons_of_mem _ h)) (hm t s List.mem_cons_self)
      · exact root_ind P m v (fun t' s' h => hm t' s' (List.mem_cons_of_mem _ h)) hv

/-- both ends of every resolved connection, hence every root of a declared variable, are declared variables -/
theorem rootOf_declared {doc : Doc} {L : Loaded} (hL : prepare doc = .ok L) {v : VRef} (hv : v ∈ L.vt.map (·.1)) :
    rootOf L.st v ∈ L.vt.map (·.1) := by
  obtain ⟨_, _, _, _, hd, hc⟩ := prepare_parts hL
  have inv := connect_inv hc
  unfold rootOf
  rw [inv.wf.resolve_eq_root _ v (Nat.le_refl _)]
  apply root_ind _ _ _ _ hv
  intro t s hm
  obtain ⟨k, _, hk⟩ := (directAll_spec hd).2 (s, t) (inv.map_from t s hm)
  have hdecl := direction_declared hk
  rcases direction_ends hk with ⟨h1, _⟩ | ⟨h1, _⟩
  · exact h1 ▸ hdecl.1
  · exact h1 ▸ hdecl.2

theorem target_declared {doc : Doc} {L : Loaded} (hL : prepare doc = .ok L) {c : ConvEq} (hc : c ∈ L.st.convs) :
    c.target ∈ L.vt.map (·.1) := by
  obtain ⟨_, _, _, _, hd, hcn⟩ := prepare_parts hL
  have inv := connect_inv hcn
  obtain ⟨_, hk, _⟩ := inv.conv_ok c hc
  obtain ⟨p, hp, hpt⟩ := List.mem_map.mp hk
  obtain ⟨t, s⟩ := p
  simp only at hpt
  obtain ⟨k, _, hkd⟩ := (directAll_spec hd).2 (s, t) (inv.map_from t s hp)
  have hdecl := direction_declared hkd
  rw [← hpt]
  rcases direction_ends hkd with ⟨_, h2⟩ | ⟨_, h2⟩
  · exact h2 ▸ hdecl.2
  · exact h2 ▸ hdecl.1

theorem checkIdent_ok {vt : VarTable} {c x : String} (h : checkIdent vt c x = .ok ()) : (c, x) ∈ vt.map (·.1) := by
  unfold checkIdent at h
  split at h
  · rename_i hs; exact lookup_isSome_mem_keys hs
  · cases h

theorem checkLhs_ok {vt : VarTable} {c : String} {l : Lhs String} (h : checkLhs vt c l = .ok ()) :
    (c, l.defines) ∈ vt.map (·.1) := by
  cases l with
  | var a => exact checkIdent_ok h
  | diff x t =>
      simp only [checkLhs] at h
      split at h
      · exact checkIdent_ok h
      · cases h

/-- what `checkEqs` has established when it returns: left-hand sides are declared, and the variables the equations
    define are pairwise different and different from those defined before -/
theorem checkEqs_ok {ust : Units.Store} {vt : VarTable} {st : CState} {c : String} :
    ∀ {es : List (Eqn String String)} {defined defined' : List VRef},
      checkEqs ust vt st c es defined = .ok defined' →
      (∀ e ∈ es, (c, e.lhs.defines) ∈ vt.map (·.1)) ∧
      ((es.map (fun e => (transcribe ust st c e).lhs.defines)).Nodup ∧
        (∀ e ∈ es, (transcribe ust st c e).lhs.defines ∉ defined) ∧
        ∀ v, v ∈ defined' ↔ v ∈ defined ∨ v ∈ es.map (fun e => (transcribe ust st c e).lhs.defines))
  | [], defined, defined', h => by
      simp only [checkEqs, Except.ok.injEq] at h
      subst h
      simp
  | e :: es, defined, defined', h => by
      unfold checkEqs at h
      split at h
      · cases h
      · rename_i hl
        split at h
        · cases h
        · simp only at h
          split at h
          · cases h
          · rename_i hnot
            obtain ⟨ih1, ih2, ih3, ih4⟩ := checkEqs_ok h
            have hnot' : (transcribe ust st c e).lhs.defines ∉ defined := by
              intro hm; exact hnot (List.contains_iff_mem.mpr hm)
            refine ⟨?_, ?_, ?_, ?_⟩
            · intro e' he'
              rcases List.mem_cons.mp he' with rfl | he'
              · exact checkLhs_ok hl
              · exact ih1 e' he'
            · simp only [List.map_cons, List.nodup_cons]
              refine ⟨?_, ih2⟩
              intro hm
              obtain ⟨e', he', heq⟩ := List.mem_map.mp hm
              exact ih3 e' he' (heq ▸ List.mem_cons_self)
            · intro e' he'
              rcases List.mem_cons.mp he' with rfl | he'
              · exact hnot'
              · exact fun hm => ih3 e' he' (List.mem_cons_of_mem _ hm)
            · intro v
              rw [ih4 v]
              simp only [List.mem_cons, List.map_cons]
              constructor
              · rintro ((rfl | h1) | h2)
                · exact Or.inr (Or.inl rfl)
                · exact Or.inl h1
                · exact Or.inr (Or.inr h2)
              · rintro (h1 | rfl | h2)
                · exact Or.inl (Or.inr h1)
                · exact Or.inl (Or.inl rfl)
                · exact Or.inr h2

theorem checkMaths_ok {ust : Units.Store} {vt : VarTable} {st : CState} :
    ∀ {comps : List Comp} {defined defined' : List VRef}, checkMaths ust vt st comps defined = .ok defined' →
      (∀ c ∈ comps, ∀ e ∈ c.eqs, (c.name, e.lhs.defines) ∈ vt.map (·.1)) ∧
      ((mathsOf ust st comps).map (·.lhs.defines)).Nodup ∧
      (∀ e ∈ mathsOf ust st comps, e.lhs.defines ∉ defined) ∧
      ∀ v, v ∈ defined' ↔ v ∈ defined ∨ v ∈ (mathsOf ust st comps).map (·.lhs.defines)
  | [], defined, defined', h => by
      simp only [checkMaths, Except.ok.injEq] at h
      subst h
      simp [mathsOf]
  | c :: cs, defined, defined', h => by
      unfold checkMaths at h
      split at h
      · cases h
      · rename_i d hd
        obtain ⟨a1, a2, a3, a4⟩ := checkEqs_ok hd
        obtain ⟨b1, b2, b3, b4⟩ := checkMaths_ok h
        have hmaths : mathsOf ust st (c :: cs) = c.eqs.map (transcribe ust st c.name) ++ mathsOf ust st cs := by
          simp only [mathsOf, List.flatMap_cons]
        have hmap : (c.eqs.map (transcribe ust st c.name)).map (·.lhs.defines) =
            c.eqs.map (fun e => (transcribe ust st c.name e).lhs.defines) := by
          simp only [List.map_map]; rfl
        refine ⟨?_, ?_, ?_, ?_⟩
        · intro c' hc' e he
          rcases List.mem_cons.mp hc' with rfl | hc'
          · exact a1 e he
          · exact b1 c' hc' e he
        · rw [hmaths, List.map_append, hmap, List.nodup_append]
          refine ⟨a2, b2, ?_⟩
          intro x hx y hy hxy
          obtain ⟨e', he', rfl⟩ := List.mem_map.mp hy
          exact b3 e' he' ((a4 _).mpr (Or.inr (hxy ▸ hx)))
        · intro e he
          rw [hmaths] at he
          rcases List.mem_append.mp he with he | he
          · obtain ⟨e0, he0, rfl⟩ := List.mem_map.mp he
            exact a3 e0 he0
          · exact fun hm => b3 e he ((a4 _).mpr (Or.inl hm))
        · intro v
          rw [b4 v, a4 v, hmaths, List.map_append, hmap, List.mem_append]
          constructor
          · rintro ((h1 | h2) | h3)
            · exact Or.inl h1
            · exact Or.inr (Or.inl h2)
            · exact Or.inr (Or.inr h3)
          · rintro (h1 | h2 | h3)
            · exact Or.inl (Or.inl h1)
            · exact Or.inl (Or.inr h2)
            · exact Or.inr h3

theorem load_parts {doc : Doc} {F : Flat} (h : Load.load doc = .ok F) :
    ∃ L defined, prepare doc = .ok L ∧
      checkMaths L.ust L.vt L.st doc.comps (L.st.convs.map (·.target)) = .ok defined ∧ F = L.flat doc := by
  unfold Load.load at h
  split at h
  · cases h
  · rename_i L hL
    split at h
    · cases h
    · rename_i defined hdef
      split at h
      · cases h
      · simp only [Except.ok.injEq] at h
        exact ⟨L, defined, hL, hdef, h.symm⟩

theorem variables_flat (L : Loaded) (doc : Doc) : variables (L.flat doc) = L.vt.map (·.1) := by
  simp only [variables, Loaded.flat, flatVars, List.map_map]
  rfl

theorem inj_of_nodup_map {α β : Type} (f : α → β) : ∀ {l : List α}, (l.map f).Nodup → ∀ a ∈ l, ∀ b ∈ l, f a = f b → a = b
  | [], _, _, ha, _, _, _ => by cases ha
  | x :: xs, h, a, ha, b, hb, hab => by
      simp only [List.map_cons, List.nodup_cons, List.mem_map, not_exists, not_and] at h
      rcases List.mem_cons.mp ha with rfl | ha' <;> rcases List.mem_cons.mp hb with rfl | hb'
      · rfl
      · exact absurd hab.symm (h.1 b hb')
      · exact absurd hab (h.1 a ha')
      · exact inj_of_nodup_map f h.2 a ha' b hb' hab

/-- in a loaded model every equation defines a declared variable -/
theorem load_defines_declared {doc : Doc} {F : Flat} (h : Load.load doc = .ok F) :
    ∀ e ∈ F.eqs, e.lhs.defines ∈ variables F := by
  obtain ⟨L, defined, hL, hdef, rfl⟩ := load_parts h
  obtain ⟨hlhs, _⟩ := checkMaths_ok hdef
  intro e he
  rw [variables_flat]
  simp only [Loaded.flat, List.mem_append] at he
  rcases he with (he | he) | he
  · obtain ⟨c, hc, rfl⟩ := List.mem_map.mp he
    exact target_declared hL hc
  · obtain ⟨c, hc, e0, he0, rfl⟩ := Cellml.Props.C01.mem_mathsOf.mp he
    have h0 := hlhs c hc e0 he0
    have : (transcribe L.ust L.st c.name e0).lhs.defines = rootOf L.st (c.name, e0.lhs.defines) := by
      unfold transcribe Eqn.map
      cases e0.lhs <;> rfl
    rw [this]
    exact rootOf_declared hL h0
  · unfold constsOf at he
    obtain ⟨⟨v, i⟩, hvi, hsome⟩ := List.mem_filterMap.mp he
    simp only at hsome
    split at hsome
    · cases hsome
    · cases hi : i.init with
      | none => simp [hi] at hsome
      | some q =>
          simp only [hi, Option.map_some, Option.some.injEq] at hsome
          subst hsome
          exact List.mem_map.mpr ⟨(v, i), hvi, rfl⟩

theorem load_declared (cx : Ctx) {doc : Doc} {F : Flat} (h : Load.load doc = .ok F) : Declared cx F := by
  intro e he
  exact List.mem_map.mpr ⟨_, load_defines_declared h e he, rfl⟩

/-- in a loaded model a state has exactly one ODE (`_check_duplicate_definitions`) -/
theorem load_odeOnce (cx : Ctx) {doc : Doc} {F : Flat} (h : Load.load doc = .ok F)
    (hinj : ∀ a ∈ variables F, ∀ b ∈ variables F, cx.num (.var a) = cx.num (.var b) → a = b) : OdeOnce cx F := by
  have hdecl := load_defines_declared h
  obtain ⟨L, defined, hL, hdef, rfl⟩ := load_parts h
  obtain ⟨_, hnd, _⟩ := checkMaths_ok hdef
  have hmaths : ∀ e ∈ (L.flat doc).eqs, e.lhs.isDiff = true → e ∈ mathsOf L.ust L.st doc.comps := by
    intro e he hd
    simp only [Loaded.flat, List.mem_append] at he
    rcases he with (he | he) | he
    · obtain ⟨c, _, rfl⟩ := List.mem_map.mp he
      simp [ConvEq.toEq, Lhs.isDiff] at hd
    · exact he
    · unfold constsOf at he
      obtain ⟨⟨v, i⟩, _, hsome⟩ := List.mem_filterMap.mp he
      simp only at hsome
      split at hsome
      · cases hsome
      · cases hi : i.init with
        | none => simp [hi] at hsome
        | some q =>
            simp only [hi, Option.map_some, Option.some.injEq] at hsome
            subst hsome
            simp [Lhs.isDiff] at hd
  intro e₁ h₁ e₂ h₂ d₁ d₂ hnum
  have hv := hinj _ (hdecl e₁ h₁) _ (hdecl e₂ h₂) hnum
  have := inj_of_nodup_map (fun e : FlatEq => e.lhs.defines) hnd e₁ (hmaths e₁ h₁ d₁) e₂ (hmaths e₂ h₂ d₂) hv
  rw [this]

end C15
