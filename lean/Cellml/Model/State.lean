import Cellml.Model.Graph

/-! # The state of a `cellmlmanip.model.Model` object and its editing operations (model.py 55-87, 92-173, 319-329,
      418-536, 552-736, 891-908, class Variable)

    Core Lean only; shared by C08 (coherence / atomicity), C10 (roles), C13 (annotations), C06 (convert_variable).

    * `heap`: every `Variable` object the model ever created, by identity number (position). Python keeps such objects
      alive while an equation mentions them, also after `remove_variable`; their fields (`name`, `order_added`,
      `cmeta_id`, `initial_value`, and the `type` field written by `graph`) live on the object, not in the model.
    * `live`: `_name_to_variable` (a dict: insertion order), `cmetaMap`: `_cmeta_id_to_variable`,
      `equations`, `varDef` / `odeDef`: `_var_definition_map` / `_ode_definition_map` (dicts: insertion order),
      `graph` / `graphNum`: the two cached graphs, `nextOrder`: `_variables_added`.
    * `step` performs one API call and says whether it returned or raised. The code is modelled as it stands after
      the three `fix:` commits of C08; `addEquationToday` / `addVariableToday` keep the former behaviour for the
      proved counterexamples in `Props/C08.lean`.

    Convention: the calls that take a variable of the model (`remove_variable`, `add_cmeta_id`, `transfer_cmeta_id`,
    `get_definition`) answer `raised notInModel` without touching anything when given an identity number that is not
    in `live` — the Python code has no such check and its behaviour on foreign objects is not modelled. -/

namespace Model

structure Var where
  name : String
  order : Nat                 -- order_added
  cmeta : Option String
  init : Option Rat           -- initial_value
  type : Option VType := none -- the persistent `type` attribute
deriving DecidableEq, Repr, Inhabited

structure MState where
  modelCmeta : Option String := none
  heap : List Var := []
  live : List Nat := []
  cmetaMap : List (String × Nat) := []
  equations : List Eqn := []
  varDef : List (Nat × Eqn) := []
  odeDef : List (Nat × Eqn) := []
  graph : Option Graph := none
  graphNum : Option Graph := none
  nextOrder : Nat := 0
deriving DecidableEq, Repr, Inhabited

inductive Err
  | valueError | keyError | graphError (e : GErr) | notInModel | cmetaFuel
deriving DecidableEq, Repr, Inhabited

inductive Outcome | ok | raised (e : Err)
deriving DecidableEq, Repr, Inhabited

inductive Op
  | addVariable (name : String) (cmeta : Option String) (init : Option Rat)
  | removeVariable (v : Nat)
  | addEquation (e : Eqn)
  | removeEquation (e : Eqn)
  | createQuantity
  | addCmetaId (v : Nat)
  | transferCmetaId (src dst : Nat)
  | qGraph | qGraphNum | qStates | qFree | qDefinition (v : Nat)
deriving DecidableEq, Repr, Inhabited

/-- `Model(name, cmeta_id)` -/
def init (modelCmeta : Option String) : MState := { modelCmeta := modelCmeta }

-- ------------------------------------------------------------------------------------------------ small helpers
def names (s : MState) : List String := s.heap.map (·.name)

def nameOfVar (s : MState) (i : Nat) : String := nameOf (names s) i
def cmetaOf (s : MState) (i : Nat) : Option String := (s.heap[i]?).bind (·.cmeta)
def orderOf (s : MState) (i : Nat) : Nat := ((s.heap[i]?).map (·.order)).getD 0
def typeOf (s : MState) (i : Nat) : Option VType := (s.heap[i]?).bind (·.type)

def isLive (s : MState) (i : Nat) : Bool := s.live.contains i

/-- `del d[k]` on an insertion-ordered dict kept as an association list -/
def eraseKey {α β} [DecidableEq α] (k : α) (l : List (α × β)) : List (α × β) := l.filter (fun p => p.1 ≠ k)

def hasKey {α β} [DecidableEq α] (k : α) (l : List (α × β)) : Bool := l.any (fun p => p.1 = k)

/-- `d[k] = v`: in place when the key exists, at the end otherwise -/
def insertKey {α β} [DecidableEq α] (k : α) (v : β) : List (α × β) → List (α × β)
  | [] => [(k, v)]
  | (k', v') :: rest => if k' = k then (k, v) :: rest else (k', v') :: insertKey k v rest

def setVar (h : List Var) (i : Nat) (f : Var → Var) : List Var :=
  match h[i]? with
  | some v => h.set i (f v)
  | none => h

/-- `_invalidate_cache` -/
def invalidate (s : MState) : MState := { s with graph := none, graphNum := none }

-- ------------------------------------------------------------------------------------------------ queries
/-- `get_definition` -/
def getDefinition (s : MState) (v : Nat) : Option Eqn :=
  match s.odeDef.lookup v with
  | some e => some e
  | none => s.varDef.lookup v

/-- `_ode_definition_map.keys()` -/
def stateKeys (s : MState) : List Nat := s.odeDef.map (·.1)

/-- insert `x` before the first element whose key is greater or equal: `x` came earlier, so on a tie it stays first -/
def insertSorted (key : Nat → Nat) (x : Nat) : List Nat → List Nat
  | [] => [x]
  | y :: ys => if key x ≤ key y then x :: y :: ys else y :: insertSorted key x ys

/-- a stable sort (what `list.sort(key=…)` is), by insertion from the right -/
def sortByKey (key : Nat → Nat) : List Nat → List Nat
  | [] => []
  | x :: xs => insertSorted key x (sortByKey key xs)

/-- `get_state_variables(sort=True)` -/
def getStateVariables (s : MState) : List Nat := sortByKey (orderOf s) (stateKeys s)

/-- `get_free_variable`: the bound variable of the first ODE in dict order -/
def getFreeVariable (s : MState) : Option Nat :=
  match s.odeDef with
  | (_, e) :: _ => (match e.lhs with | .deriv _ t _ => some t | _ => none)
  | [] => none

/-- `has_cmeta_id` -/
def hasCmetaId (s : MState) (c : String) : Bool := s.modelCmeta == some c || hasKey c s.cmetaMap

/-- `get_variable_by_cmeta_id` (`none`: KeyError) -/
def getVariableByCmetaId (s : MState) (c : String) : Option Nat := s.cmetaMap.lookup c

-- ------------------------------------------------------------------------------------------------ graph queries
/-- the variables whose `type` the (repaired) builder resets before it starts -/
def relevant (live : List Nat) (eqs : List Eqn) : List Nat := live ++ eqs.flatMap Eqn.atoms

/-- reset + first loop of `graph`, seen from the objects: every relevant variable ends with the role the equations
    give it (or none) -/
def applyTypes (h : List Var) (rel : List Nat) (tm : List (Nat × VType)) : List Var :=
  h.mapIdx (fun i v => if rel.contains i then { v with type := tyOf tm i } else v)

/-- the `graph` property: `(state afterwards, graph or the error raised)` -/
def queryGraph (s : MState) : MState × Except GErr Graph :=
  match s.graph with
  | some g => (s, .ok g)
  | none =>
    let h := applyTypes s.heap (relevant s.live s.equations) (typeMap s.equations)
    match buildGraph (names s) s.equations with
    | .ok g => ({ s with heap := h, graph := some g }, .ok g)
    | .error e => ({ s with heap := h }, .error e)

/-- the `graph_with_sympy_numbers` property -/
def queryGraphNum (s : MState) : MState × Except GErr Graph :=
  match s.graphNum with
  | some g => (s, .ok g)
  | none =>
    match queryGraph s with
    | (s', .ok g) => ({ s' with graphNum := some (numGraph g) }, .ok (numGraph g))
    | (s', .error e) => (s', .error e)

-- ------------------------------------------------------------------------------------------------ edits
/-- the cmeta id asked for is in use (`cmeta_id is not None and self.has_cmeta_id(cmeta_id)`) -/
def cmetaTaken (s : MState) : Option String → Bool
  | some c => hasCmetaId s c
  | none => false

/-- `if cmeta_id is not None: self._cmeta_id_to_variable[cmeta_id] = var` -/
def registerCmeta (c : Option String) (id : Nat) (cm : List (String × Nat)) : List (String × Nat) :=
  match c with
  | some c => insertKey c id cm
  | none => cm

/-- `add_variable` (units are not modelled here) -/
def addVariable (s : MState) (name : String) (cmeta : Option String) (init : Option Rat) : MState × Outcome :=
  if s.live.any (fun i => nameOfVar s i == name) then (s, .raised .valueError)
  else if cmetaTaken s cmeta then (s, .raised .valueError)
  else
    let id := s.heap.length
    let s1 := { s with heap := s.heap ++ [⟨name, s.nextOrder, cmeta, init, none⟩], live := s.live ++ [id],
                       nextOrder := s.nextOrder + 1,
                       cmetaMap := registerCmeta cmeta id s.cmetaMap }
    (invalidate s1, .ok)

/-- `add_variable` before the fix: `order_added = len(_name_to_variable)` -/
def addVariableToday (s : MState) (name : String) (cmeta : Option String) (init : Option Rat) : MState × Outcome :=
  if s.live.any (fun i => nameOfVar s i == name) then (s, .raised .valueError)
  else if cmetaTaken s cmeta then (s, .raised .valueError)
  else
    let id := s.heap.length
    let s1 := { s with heap := s.heap ++ [⟨name, s.live.length, cmeta, init, none⟩], live := s.live ++ [id],
                       cmetaMap := registerCmeta cmeta id s.cmetaMap }
    (invalidate s1, .ok)

/-- `_check_duplicate_definitions` -/
def isDefined (s : MState) (v : Nat) : Bool := hasKey v s.odeDef || hasKey v s.varDef

/-- `add_equation` (repaired: validate, then append). `check` is the `check_duplicates` argument. -/
def addEquationCore (s : MState) (e : Eqn) (check : Bool) : MState × Outcome :=
  match e.lhs with
  | .deriv st _ order =>
      if order > 1 then (s, .raised .valueError)
      else if check && isDefined s st then (s, .raised .valueError)
      else (invalidate { s with odeDef := insertKey st e s.odeDef, equations := s.equations ++ [e] }, .ok)
  | .var v =>
      if check && isDefined s v then (s, .raised .valueError)
      else (invalidate { s with varDef := insertKey v e s.varDef, equations := s.equations ++ [e] }, .ok)
  | .other => (s, .raised .valueError)

/-- `add_equation` as it was before the fix: the equation is appended before the checks that may raise -/
def addEquationToday (s : MState) (e : Eqn) (check : Bool) : MState × Outcome :=
  match e.lhs with
  | .deriv st _ order =>
      if order > 1 then (s, .raised .valueError)
      else
        let s1 := { s with equations := s.equations ++ [e] }
        if check && isDefined s st then (s1, .raised .valueError)
        else (invalidate { s1 with odeDef := insertKey st e s.odeDef }, .ok)
  | .var v =>
      let s1 := { s with equations := s.equations ++ [e] }
      if check && isDefined s v then (s1, .raised .valueError)
      else (invalidate { s1 with varDef := insertKey v e s.varDef }, .ok)
  | .other => ({ s with equations := s.equations ++ [e] }, .raised .valueError)

/-- `remove_equation` -/
def removeEquation (s : MState) (e : Eqn) : MState × Outcome :=
  if !s.equations.contains e then (s, .raised .keyError)
  else
    let s1 := { s with equations := s.equations.erase e }
    match e.lhs with
    | .deriv st _ _ =>
        if hasKey st s.odeDef then (invalidate { s1 with odeDef := eraseKey st s.odeDef }, .ok)
        else (s1, .raised .keyError)          -- `del` on a missing key: after the list was changed
    | .var v =>
        if hasKey v s.varDef then (invalidate { s1 with varDef := eraseKey v s.varDef }, .ok)
        else (s1, .raised .keyError)
    | .other => (s1, .raised .keyError)

/-- second half of `remove_variable`: delete the name entry and the cmeta entry, invalidate the caches -/
def unregister (s1 : MState) (v : Nat) : MState × Outcome :=
  let s2 := { s1 with live := s1.live.erase v }
  match cmetaOf s1 v with
  | some c =>
      if hasKey c s2.cmetaMap then (invalidate { s2 with cmetaMap := eraseKey c s2.cmetaMap }, .ok)
      else (s2, .raised .keyError)        -- `del` on a missing key: after the name was deleted
  | none => (invalidate s2, .ok)

/-- `remove_variable` (annotations in the RDF store: see C13) -/
def removeVariable (s : MState) (v : Nat) : MState × Outcome :=
  if !isLive s v then (s, .raised .notInModel)
  else
    let r := match getDefinition s v with
      | some e => removeEquation s e
      | none => (s, .ok)
    match r with
    | (s1, .raised x) => (s1, .raised x)
    | (s1, .ok) => unregister s1 v

/-- the `while self.has_cmeta_id(cmeta_id): cmeta_id += '_'` loop, on fuel -/
def freeCmeta (s : MState) (c : String) : Nat → Option String
  | 0 => if hasCmetaId s c then none else some c
  | fuel + 1 => if hasCmetaId s c then freeCmeta s (c ++ "_") fuel else some c

/-- `add_cmeta_id` (`get_display_name` without annotations: the name with `$` replaced) -/
def addCmetaId (s : MState) (v : Nat) : MState × Outcome :=
  if !isLive s v then (s, .raised .notInModel)
  else match cmetaOf s v with
    | some _ => (s, .ok)
    | none =>
      match freeCmeta s ((nameOfVar s v).replace "$" "__") (s.cmetaMap.length + 1) with
      | none => (s, .raised .cmetaFuel)   -- cannot happen (more candidates than ids in use); kept as a total answer
      | some c => ({ s with heap := setVar s.heap v (fun x => { x with cmeta := some c }),
                            cmetaMap := insertKey c v s.cmetaMap }, .ok)

/-- `transfer_cmeta_id` -/
def transferCmetaId (s : MState) (src dst : Nat) : MState × Outcome :=
  if !isLive s src || !isLive s dst then (s, .raised .notInModel)
  else match cmetaOf s src with
    | none => (s, .raised .valueError)
    | some c =>
      match cmetaOf s dst with
      | some _ => (s, .raised .valueError)
      | none =>
        let h1 := setVar s.heap dst (fun x => { x with cmeta := some c })
        let h2 := setVar h1 src (fun x => { x with cmeta := none })
        ({ s with heap := h2, cmetaMap := insertKey c dst s.cmetaMap }, .ok)

def ofGraphResult : MState × Except GErr Graph → MState × Outcome
  | (s, .ok _) => (s, .ok)
  | (s, .error e) => (s, .raised (.graphError e))

/-- one API call -/
def step (s : MState) : Op → MState × Outcome
  | .addVariable n c i => addVariable s n c i
  | .removeVariable v => removeVariable s v
  | .addEquation e => addEquationCore s e true
  | .removeEquation e => removeEquation s e
  | .createQuantity => (s, .ok)
  | .addCmetaId v => addCmetaId s v
  | .transferCmetaId a b => transferCmetaId s a b
  | .qGraph => ofGraphResult (queryGraph s)
  | .qGraphNum => ofGraphResult (queryGraphNum s)
  | .qStates => (s, .ok)
  | .qFree => (s, match getFreeVariable s with | some _ => .ok | none => .raised .valueError)
  | .qDefinition v => if isLive s v then (s, .ok) else (s, .raised .notInModel)

/-- a history of API calls on a new model -/
def run (modelCmeta : Option String) (ops : List Op) : MState := ops.foldl (fun s op => (step s op).1) (init modelCmeta)

end Model
