import Cellml.Tie.UnitsView
import Cellml.Tie.InferView

/-! # What `UnitStore.add_conversion_rule`, `UnitStore.evaluate_units` and the nested `_is_equal` (units.py) see

    The generated code (`Cellml/Generated/Code/ConvRule.lean`) refers to pint leaves: the constructor
    `pint.Context(name)`, `Context.add_transformation(src, dst, func)`, `registry.enable_contexts(ctx)`,
    `registry.get_base_units`, and to the calculator object of the store (`self._calculator.traverse`). The pattern
    table of harness/code_specs/convrule.py binds each to one accessor below, written after pint 0.18
    (`pint/context.py`, `pint/registry.py: ContextRegistry.enable_contexts`) over the mini-pint of the hand models.
    Which unit is the source and which the target of the transformation, which context is enabled, in which order
    this happens and what is returned is NOT here: it comes from the source text. Core Lean only. -/

namespace Cellml.Tie.PConvRule
open Units
open Cellml.Tie.PUnits

/-- The python function object `rule` (`lambda ureg, rhs: rhs * Cs / Cm`). `add_conversion_rule` never calls it: it
    only hands it to pint, which calls it at conversion time. As in the hand model (`Units.RFactor`) a rule is the
    list of factors of its linear body. -/
abbrev RuleFn := List RFactor

/-- `str(rule)`: `<function <lambda> at 0x…>` - free text, only used inside the name of the context -/
instance : PyStr RuleFn := ⟨fun _ => "<function>"⟩

/-- a `pint.Context`: its name and the dict `funcs : (src, dst) ↦ func` in insertion order. Keys are
    `UnitsContainer`s (`to_units_container` of what was passed). -/
structure ContextObj where
  name  : String
  funcs : List ((UnitObj × UnitObj) × RuleFn)

/-- `pint.Context(name)`: no transformation yet -/
def pintContext (name : String) : ContextObj := ⟨name, []⟩

/-- python `d[k] = v` on a dict kept as an association list in insertion order (`==` on the keys) -/
def dictSet (d : List ((UnitObj × UnitObj) × RuleFn)) (k : UnitObj × UnitObj) (v : RuleFn) :
    List ((UnitObj × UnitObj) × RuleFn) :=
  if d.any (fun p => p.1.1 == k.1 && p.1.2 == k.2) then
    d.map (fun p => if p.1.1 == k.1 && p.1.2 == k.2 then (p.1, v) else p)
  else d ++ [(k, v)]

/-- `context.add_transformation(src, dst, func)`: `self.funcs[(src, dst)] = func` -/
def ContextObj.addTransformation (c : ContextObj) (src dst : UnitObj) (f : RuleFn) : ContextObj :=
  { c with funcs := dictSet c.funcs (src, dst) f }

/-- the transformation pint keeps for one entry of an enabled context: the key is rewritten to dimensionalities
    (`_get_dimensionality(src)`, `_get_dimensionality(dst)`); the function is kept as it is (as the quantity κ it
    multiplies by, in the normal form the hand model keeps). Nothing is rescaled to the units of the key. -/
def ruleOfFn (s d : Dims) (f : RuleFn) : Rule :=
  match kappa f with
  | (k, y, u) => { src := s, dst := d, kscale := PMap.norm k, ksyms := PMap.norm y, kunit := PMap.norm u }

/-- `registry.enable_contexts(ctx)` for a context object that has not been enabled before: every key is rewritten to
    dimensionalities (`UndefinedUnitError` for a unit name the registry does not know - a unit of another registry -
    raised before anything is changed); the context goes IN FRONT of the active chain (`ContextChain.insert_contexts`:
    newest map first). Two keys of the context that fall on the same pair of dimensionalities: the later entry
    overwrites the earlier one (hence `reverse`: first match wins in `Units.lookupRule`). -/
def pintEnableContexts (r : RegObj) (c : ContextObj) : Except PyErr RegObj :=
  if c.funcs.all (fun p => allKnown r.defs p.1.1.c && allKnown r.defs p.1.2.c) then
    .ok { r with rules := (c.funcs.reverse.map (fun p => ruleOfFn (pintDims r p.1.1) (pintDims r p.1.2) p.2)) ++ r.rules }
  else .error ⟨"UndefinedUnitError"⟩

/-! ### `evaluate_units` -/

/-- a `UnitStore` as `evaluate_units` sees it: `self._calculator`, the `UnitCalculator` bound to the store; its
    `traverse` method is the generated `Cellml.Gen.Infer.traverse` closed over its recursive calls (the tie
    `Cellml.Tie.PInfer.traverse_tie` shows the hand model is that fixpoint). -/
structure CalcStore where
  /-- `self._calculator.traverse` -/
  traverse : PInfer.Obj → Except PyErr PInfer.Q

/-- `quantity.units` of a pint quantity as `traverse` returns it (a pair magnitude × container) -/
def qUnits (q : PInfer.Q) : Container := q.2

/-! ### `_is_equal` -/

/-- what the nested `_is_equal` sees of the calculator: `self._registry` -/
abbrev CalcView := PInfer.TravView

end Cellml.Tie.PConvRule
