import Cellml.Generated.Code.RolesValue
import Cellml.Tie.RolesQueries
import Mathlib.Tactic.SplitIfs

/-! # Tie: `Model._get_value`, its nested `expand_derivatives` and `Model.get_value` (generated from the source)
      = `expand`, `getValueAux`, `getValue` of the hand model `Model/Roles.lean` -/

namespace Cellml.Tie.PRoles
open Model Cellml.Gen

-- ================================================================================================ expand_derivatives
/-- what one pass of the loop of `expand_derivatives` computes for a derivative -/
def replFor (M : RModel) (rec : Expr → Except PyErr Expr) (d : Node) : Except PyErr Expr :=
  if ((odeGet M (nodeArg0 d)).isNone || eqLhsNode (odeGet M (nodeArg0 d)) != some d) = true then
    .error ⟨"ValueError"⟩
  else match optEqRhs M (odeGet M (nodeArg0 d)) with
    | .error err => .error err
    | .ok v => rec v

/-- the loop of `expand_derivatives` -/
def buildRepl (g : Node → Except PyErr Expr) : List Node → List (Node × Expr) → Except PyErr (List (Node × Expr))
  | [], r => .ok r
  | d :: ds, r =>
    match g d with
    | .error x => .error x
    | .ok v => buildRepl g ds (Py.setAssoc d v r)

theorem forIn_eq_buildRepl (body : Node → List (Node × Expr) → Except PyErr (ForInStep (List (Node × Expr))))
    (g : Node → Except PyErr Expr)
    (hb : ∀ d s, body d s = match g d with
      | .error x => .error x
      | .ok v => .ok (.yield (Py.setAssoc d v s))) :
    ∀ (ds : List Node) (r : List (Node × Expr)), forIn ds r body = buildRepl g ds r := by
  intro ds
  induction ds with
  | nil => intro r; rfl
  | cons d ds ih =>
    intro r
    rw [List.forIn_cons, hb]
    simp only [buildRepl]
    cases g d with
    | error x => rfl
    | ok v => simp only [bind, Except.bind]; exact ih _

theorem expand_shape (M : RModel) (rec : Expr → Except PyErr Expr) (e : Expr) :
    RolesValue.expandDerivatives M rec e =
      if (derivAtoms e).isEmpty then .ok e
      else match buildRepl (replFor M rec) (derivAtoms e) [] with
        | .error err => .error err
        | .ok r => .ok (xreplaceDerivs e r) := by
  unfold RolesValue.expandDerivatives
  simp only [bind, Except.bind, pure, Except.pure, throw, throwThe, MonadExceptOf.throw, Py.truthy_list]
  rw [forIn_eq_buildRepl (g := replFor M rec)]
  · simp only [Py.emptyDict, Bool.not_not]
    split_ifs
    · rfl
    · cases buildRepl (replFor M rec) (derivAtoms e) [] <;> rfl
  · intro d s
    unfold replFor
    split_ifs
    · rfl
    · cases optEqRhs M (odeGet M (nodeArg0 d)) with
      | error err => rfl
      | ok v => simp only []; cases rec v <;> rfl

-- ------------------------------------------------------------------------------------------------ loop = `bindD`
/-- the exception of the first derivative (in iteration order) for which the loop raises -/
def firstErr (g : Node → Except PyErr Expr) : List Node → Option PyErr
  | [] => none
  | d :: ds => match g d with
    | .error x => some x
    | .ok _ => firstErr g ds

/-- the dictionary holds, for each of the derivatives, what the loop computes for it -/
def Agrees (g : Node → Except PyErr Expr) (r : List (Node × Expr)) (ds : List Node) : Prop :=
  ∀ d ∈ ds, ∃ x, g d = .ok x ∧ r.lookup d = some x

theorem firstErr_append (g : Node → Except PyErr Expr) (a b : List Node) :
    firstErr g (a ++ b) = match firstErr g a with | some x => some x | none => firstErr g b := by
  induction a with
  | nil => rfl
  | cons d ds ih =>
    simp only [List.cons_append, firstErr]
    cases g d <;> simp [ih]

theorem lookup_setAssoc {κ ν} [DecidableEq κ] (k : κ) (v : ν) (l : List (κ × ν)) (k' : κ) :
    (Py.setAssoc k v l).lookup k' = if k' = k then some v else l.lookup k' := by
  induction l with
  | nil =>
    by_cases h : k' = k
    · subst h; simp [Py.setAssoc]
    · have hb : (k' == k) = false := by simpa using h
      simp [Py.setAssoc, List.lookup, hb, h]
  | cons p rest ih =>
    obtain ⟨a, b⟩ := p
    by_cases h1 : a = k
    · subst h1
      by_cases h : k' = a
      · subst h; simp [Py.setAssoc]
      · have hb : (k' == a) = false := by simpa using h
        simp [Py.setAssoc, List.lookup, hb, h]
    · by_cases h2 : k' = a
      · subst h2
        have : ¬ k' = k := h1
        simp [Py.setAssoc, List.lookup, h1]
      · have hb : (k' == a) = false := by simpa using h2
        simp [Py.setAssoc, List.lookup, h1, hb, ih]

theorem agrees_setAssoc {g : Node → Except PyErr Expr} {r : List (Node × Expr)} {ds : List Node} {d : Node} {v : Expr}
    (hd : g d = .ok v) (h : Agrees g r ds) : Agrees g (Py.setAssoc d v r) ds := by
  intro d' hd'
  obtain ⟨x, hx, hl⟩ := h d' hd'
  refine ⟨x, hx, ?_⟩
  rw [lookup_setAssoc]
  by_cases he : d' = d
  · subst he; rw [hd] at hx; cases hx; simp
  · simp [he, hl]

theorem buildRepl_spec (g : Node → Except PyErr Expr) : ∀ (ds : List Node) (r : List (Node × Expr)),
    (∀ x, firstErr g ds = some x → buildRepl g ds r = .error x) ∧
    (firstErr g ds = none → ∃ r', buildRepl g ds r = .ok r' ∧ Agrees g r' ds ∧
        ∀ ds0, Agrees g r ds0 → Agrees g r' ds0) := by
  intro ds
  induction ds with
  | nil => intro r; exact ⟨fun x h => (by cases h), fun _ => ⟨r, rfl, fun d hd => (by cases hd), fun _ h => h⟩⟩
  | cons d ds ih =>
    intro r
    simp only [firstErr, buildRepl]
    cases hd : g d with
    | error x => exact ⟨fun y hy => (by cases hy; rfl), fun h => (by cases h)⟩
    | ok v =>
      simp only []
      obtain ⟨ih1, ih2⟩ := ih (Py.setAssoc d v r)
      refine ⟨ih1, fun hn => ?_⟩
      obtain ⟨r', hr', ha, hp⟩ := ih2 hn
      refine ⟨r', hr', ?_, fun ds0 h0 => hp ds0 (agrees_setAssoc hd h0)⟩
      intro d' hd'
      rcases List.mem_cons.mp hd' with rfl | hmem
      · have : Agrees g (Py.setAssoc d' v r) [d'] := by
          intro d'' h''
          rw [List.mem_singleton.mp h'']
          exact ⟨v, hd, by rw [lookup_setAssoc]; simp⟩
        exact hp [d'] this d' (List.mem_singleton.mpr rfl)
      · exact ha d' hmem

theorem derivAtoms_bin (op : BinOp) (a b : Expr) : derivAtoms (.bin op a b) = derivAtoms a ++ derivAtoms b := by
  simp [derivAtoms, Expr.nodes]

theorem derivAtoms_opq (id : String) (args : List Expr) :
    derivAtoms (.opq id args) = args.flatMap derivAtoms := by
  simp only [derivAtoms, Expr.nodes, Expr.nodesL_eq, List.filter_flatMap]
  rfl

theorem xreplaceDerivsL_eq (es : List Expr) (r : List (Node × Expr)) :
    xreplaceDerivsL es r = es.map (fun a => xreplaceDerivs a r) := by
  induction es with
  | nil => rfl
  | cons a as ih => simp [xreplaceDerivsL, ih]

theorem agrees_append {g : Node → Except PyErr Expr} {r : List (Node × Expr)} {a b : List Node}
    (h : Agrees g r (a ++ b)) : Agrees g r a ∧ Agrees g r b :=
  ⟨fun d hd => h d (List.mem_append_left _ hd), fun d hd => h d (List.mem_append_right _ hd)⟩

/-- what `bindD_spec` says of one expression -/
def BindSpec (cls : VErr → String) (f : Nat → Nat → Except VErr Expr) (g : Node → Except PyErr Expr) (e : Expr) : Prop :=
  (∀ x, firstErr g (derivAtoms e) = some x → errClass cls (e.bindD f) = .error x) ∧
  (firstErr g (derivAtoms e) = none → (∃ e', e.bindD f = .ok e') ∧
      ∀ r, Agrees g r (derivAtoms e) → errClass cls (e.bindD f) = .ok (xreplaceDerivs e r))

/-- … and of the argument places of an opaque term -/
theorem bindDL_spec (cls : VErr → String) (f : Nat → Nat → Except VErr Expr) (g : Node → Except PyErr Expr) :
    ∀ (es : List Expr), (∀ a ∈ es, BindSpec cls f g a) →
    (∀ x, firstErr g (es.flatMap derivAtoms) = some x → errClass cls (Expr.bindDL f es) = .error x) ∧
    (firstErr g (es.flatMap derivAtoms) = none → (∃ es', Expr.bindDL f es = .ok es') ∧
        ∀ r, Agrees g r (es.flatMap derivAtoms) → errClass cls (Expr.bindDL f es) = .ok (xreplaceDerivsL es r))
  | [], _ => ⟨fun x h => (by cases h), fun _ => ⟨⟨[], rfl⟩, fun r _ => rfl⟩⟩
  | a :: as, h => by
    obtain ⟨a1, a2⟩ := h a (List.mem_cons_self ..)
    obtain ⟨b1, b2⟩ := bindDL_spec cls f g as (fun x hx => h x (List.mem_cons_of_mem _ hx))
    simp only [List.flatMap_cons, firstErr_append, Expr.bindDL]
    cases hfa : firstErr g (derivAtoms a) with
    | some xa =>
      have := a1 xa hfa
      simp only []
      refine ⟨fun x hx => ?_, fun hn => by cases hn⟩
      cases hx
      cases ha : a.bindD f with
      | error y => rw [ha] at this; simpa [errClass] using this
      | ok a' => rw [ha] at this; cases this
    | none =>
      obtain ⟨⟨a', ha'⟩, hra⟩ := a2 hfa
      simp only [ha']
      constructor
      · intro x hx
        have := b1 x hx
        cases hb : Expr.bindDL f as with
        | error y => rw [hb] at this; simpa [errClass] using this
        | ok b' => rw [hb] at this; cases this
      · intro hn
        obtain ⟨⟨b', hb'⟩, hrb⟩ := b2 hn
        refine ⟨⟨_, by rw [hb']⟩, fun r hag => ?_⟩
        obtain ⟨hga, hgb⟩ := agrees_append hag
        have e1 := hra r hga
        have e2 := hrb r hgb
        rw [ha'] at e1
        rw [hb'] at e2 ⊢
        simp only [errClass, xreplaceDerivsL] at e1 e2 ⊢
        cases e1; cases e2; rfl

/-- `Expr.bindD f` is what the loop + `xreplace` of `expand_derivatives` compute, when `g` is what the loop computes
    for one derivative (opaque terms included: both reach into the argument places) -/
theorem bindD_spec (cls : VErr → String) (f : Nat → Nat → Except VErr Expr) (g : Node → Except PyErr Expr)
    (hfg : ∀ s t, g (.deriv s t) = errClass cls (f s t)) : ∀ (e : Expr), BindSpec cls f g e := by
  intro e
  unfold BindSpec
  induction e with
  | num q => exact ⟨fun x h => (by cases h), fun _ => ⟨⟨_, rfl⟩, fun r _ => rfl⟩⟩
  | var v => exact ⟨fun x h => (by cases h), fun _ => ⟨⟨_, rfl⟩, fun r _ => rfl⟩⟩
  | opq id args ih =>
    obtain ⟨l1, l2⟩ := bindDL_spec cls f g args ih
    simp only [derivAtoms_opq, Expr.bindD]
    constructor
    · intro x hx
      have := l1 x hx
      cases ha : Expr.bindDL f args with
      | error y => rw [ha] at this; simpa [errClass] using this
      | ok a' => rw [ha] at this; cases this
    · intro hn
      obtain ⟨⟨a', ha'⟩, hr⟩ := l2 hn
      refine ⟨⟨_, by rw [ha']⟩, fun r hag => ?_⟩
      have := hr r hag
      rw [ha'] at this ⊢
      simp only [errClass, xreplaceDerivs] at this ⊢
      cases this; rfl
  | deriv s t =>
    have hda : derivAtoms (.deriv s t) = [.deriv s t] := rfl
    simp only [hda, firstErr, Expr.bindD, hfg]
    cases hf : f s t with
    | error x => exact ⟨fun y hy => (by cases hy; rfl), fun h => (by cases h)⟩
    | ok v =>
      refine ⟨fun y hy => (by cases hy), fun _ => ⟨⟨v, rfl⟩, fun r hr => ?_⟩⟩
      obtain ⟨x, hx, hl⟩ := hr (.deriv s t) (List.mem_singleton.mpr rfl)
      rw [hfg, hf] at hx
      cases hx
      simp [xreplaceDerivs, hl, errClass]
  | pow a n ih =>
    obtain ⟨ih1, ih2⟩ := ih
    have hda : derivAtoms (.pow a n) = derivAtoms a := by simp [derivAtoms, Expr.nodes]
    simp only [hda, Expr.bindD]
    constructor
    · intro x hx
      have := ih1 x hx
      cases ha : a.bindD f with
      | error y => rw [ha] at this; simpa [errClass] using this
      | ok a' => rw [ha] at this; cases this
    · intro hn
      obtain ⟨⟨a', ha'⟩, hr⟩ := ih2 hn
      refine ⟨⟨_, by rw [ha']⟩, fun r hag => ?_⟩
      have := hr r hag
      rw [ha'] at this ⊢
      simp only [errClass, xreplaceDerivs] at this ⊢
      cases this; rfl
  | bin op a b iha ihb =>
    obtain ⟨a1, a2⟩ := iha
    obtain ⟨b1, b2⟩ := ihb
    simp only [derivAtoms_bin, firstErr_append, Expr.bindD]
    cases hfa : firstErr g (derivAtoms a) with
    | some xa =>
      have := a1 xa hfa
      simp only []
      refine ⟨fun x hx => ?_, fun hn => by cases hn⟩
      cases hx
      cases ha : a.bindD f with
      | error y => rw [ha] at this; simpa [errClass] using this
      | ok a' => rw [ha] at this; cases this
    | none =>
      obtain ⟨⟨a', ha'⟩, hra⟩ := a2 hfa
      simp only [ha']
      constructor
      · intro x hx
        have := b1 x hx
        cases hb : b.bindD f with
        | error y => rw [hb] at this; simpa [errClass] using this
        | ok b' => rw [hb] at this; cases this
      · intro hn
        obtain ⟨⟨b', hb'⟩, hrb⟩ := b2 hn
        refine ⟨⟨_, by rw [hb']⟩, fun r hag => ?_⟩
        obtain ⟨hga, hgb⟩ := agrees_append hag
        have e1 := hra r hga
        have e2 := hrb r hgb
        rw [ha'] at e1
        rw [hb'] at e2 ⊢
        simp only [errClass, xreplaceDerivs] at e1 e2 ⊢
        cases e1; cases e2; rfl

theorem map_eq_self {α} (f : α → α) (l : List α) (h : ∀ a ∈ l, f a = a) : l.map f = l := by
  induction l with
  | nil => rfl
  | cons a as ih =>
    rw [List.map_cons, h a (List.mem_cons_self ..), ih (fun x hx => h x (List.mem_cons_of_mem _ hx))]

theorem xreplaceDerivs_nil (e : Expr) : xreplaceDerivs e [] = e := by
  induction e with
  | num _ => simp [xreplaceDerivs]
  | var _ => simp [xreplaceDerivs]
  | deriv _ _ => simp [xreplaceDerivs]
  | opq id args ih => simp only [xreplaceDerivs, xreplaceDerivsL_eq, map_eq_self _ args ih]
  | pow a n ih => simp [xreplaceDerivs, ih]
  | bin op a b iha ihb => simp [xreplaceDerivs, iha, ihb]

/-- what the loop of `expand_derivatives` computes for `Derivative(s, t)` when the recursive call is the model's
    `expand` with fuel `F` = what `expand … (F+1)` hands to `bindD` -/
theorem replFor_expand (M : RModel) (F : Nat) (s t : Nat) :
    replFor M (fun e' => errClass verrClass (expand M F e')) (.deriv s t) =
      errClass verrClass (match odeRhs M s t with
        | none => .error .noDefinition
        | some r => expand M F r) := by
  unfold replFor odeRhs odeGet eqLhsNode optEqRhs nodeArg0
  cases hl : M.st.odeDef.lookup s with
  | none => simp [errClass, verrClass]
  | some e =>
    by_cases hd : lhsNode e.lhs = some (.deriv s t)
    · simp [hd]
    · simp [hd, errClass, verrClass]

/-- **`expand_derivatives` = `expand`**: for every model, every fuel and every arithmetic tree, the function generated
    from the nested `expand_derivatives` of `_get_value`, with its recursive call bound to `expand M F`, computes
    `expand M (F+1)` — the hand model is the fixpoint of the generated functional (value and exception class).
    No hypothesis on `e`: uninterpreted applications are expanded in their argument places by both. -/
theorem expandDerivatives_tie (M : RModel) (F : Nat) (e : Expr) :
    RolesValue.expandDerivatives M (fun e' => errClass verrClass (expand M F e')) e
      = errClass verrClass (expand M (F + 1) e) := by
  rw [expand_shape]
  have hexp : expand M (F + 1) e = e.bindD (fun s t => match odeRhs M s t with
      | none => .error .noDefinition
      | some r => expand M F r) := rfl
  rw [hexp]
  obtain ⟨s1, s2⟩ := bindD_spec verrClass _ _ (replFor_expand M F) e
  obtain ⟨l1, l2⟩ := buildRepl_spec (replFor M (fun e' => errClass verrClass (expand M F e'))) (derivAtoms e) []
  cases hfe : firstErr (replFor M (fun e' => errClass verrClass (expand M F e'))) (derivAtoms e) with
  | some x =>
    rw [s1 x hfe, l1 x hfe]
    have : (derivAtoms e).isEmpty = false := by
      cases hda : derivAtoms e with
      | nil => rw [hda] at hfe; cases hfe
      | cons _ _ => rfl
    simp [this]
  | none =>
    obtain ⟨r', hr', hag, _⟩ := l2 hfe
    obtain ⟨_, s3⟩ := s2 hfe
    rw [hr', s3 r' hag]
    split_ifs with hemp
    · have hnil : derivAtoms e = [] := List.isEmpty_iff.mp hemp
      have := s3 [] (by rw [hnil]; intro d hd; cases hd)
      rw [s3 r' hag, xreplaceDerivs_nil] at this
      exact this.symm ▸ rfl
    · rfl

-- ================================================================================================ _get_value
/-- the model's memo as the python dictionary -/
def encL (m : Memo) : List (Nat × PyVal) := m.map (fun p => (p.1, some p.2))
def enc (m : Memo) : PyMemo := some (encL m)

/-- the numeric entries of a python dictionary as a memo of the model -/
def dec : PyMemo → Memo
  | some l => l.filterMap (fun p => p.2.map (fun q => (p.1, q)))
  | none => []

/-- a function of the model (`getValueAux M F f`) as the recursive call `self._get_value(dep, evaluated)` sees it:
    value and the dictionary as the call leaves it; exception class -/
def recOf (g : Nat → Memo → Except VErr (Rat × Memo)) : Nat → PyMemo → Except PyErr (Rat × PyMemo) :=
  fun d pm => match g d (dec pm) with
    | .ok (q, m') => .ok (q, enc m')
    | .error e => .error ⟨verrClass e⟩

theorem dec_enc (m : Memo) : dec (enc m) = m := by
  simp only [dec, enc, encL]
  induction m with
  | nil => rfl
  | cons p rest ih => simp [ih]

theorem keys_enc (m : Memo) (d : Nat) : Py.isIn d (Py.keys (enc m)) = hasKey d m := by
  simp only [Py.isIn, Py.keys, enc, encL, hasKey]
  induction m with
  | nil => rfl
  | cons p rest ih =>
    simp only [List.map_cons, List.contains_cons, List.any_cons, ih]
    by_cases h : p.1 = d
    · simp [h]
    · have : (d == p.1) = false := by simpa using fun hh : d = p.1 => h hh.symm
      simp [h, this]

theorem setItem_enc (m : Memo) (d : Nat) (q : Rat) : Py.setItem (enc m) d (pyFloatVal q) = enc (insertKey d q m) := by
  simp only [Py.setItem, enc, encL, pyFloatVal, Option.map_some]
  congr 1
  induction m with
  | nil => rfl
  | cons p rest ih =>
    obtain ⟨a, b⟩ := p
    by_cases h : a = d <;> simp [Py.setAssoc, insertKey, h, ih]

theorem isIn_odeKeys (M : RModel) (v : Nat) : Py.isIn v (odeKeys M) = isState M v := by
  simp only [Py.isIn, odeKeys, stateKeys, isState, hasKey]
  induction M.st.odeDef with
  | nil => rfl
  | cons p rest ih =>
    simp only [List.map_cons, List.contains_cons, List.any_cons, ih]
    by_cases h : p.1 = v
    · simp [h]
    · have : (v == p.1) = false := by simpa using fun hh : v = p.1 => h hh.symm
      simp [h, this]

/-- the loop `for dep in deps: if dep not in evaluated: evaluated[dep] = self._get_value(dep, evaluated)` = `evalDeps` -/
theorem forIn_eq_evalDeps (body : Nat → PyMemo → Except PyErr (ForInStep PyMemo))
    (g : Nat → Memo → Except VErr (Rat × Memo))
    (hb : ∀ d m, body d (enc m) = if hasKey d m then .ok (.yield (enc m)) else match g d m with
      | .error e => .error ⟨verrClass e⟩
      | .ok (q, m') => .ok (.yield (enc (insertKey d q m')))) :
    ∀ (deps : List Nat) (m : Memo), forIn deps (enc m) body = match evalDeps g deps m with
      | .ok m' => .ok (enc m')
      | .error e => .error ⟨verrClass e⟩ := by
  intro deps
  induction deps with
  | nil => intro m; rfl
  | cons d ds ih =>
    intro m
    rw [List.forIn_cons, hb]
    simp only [evalDeps]
    by_cases hk : hasKey d m = true
    · simp only [hk, if_true, bind, Except.bind]; exact ih m
    · simp only [hk, Bool.false_eq_true, if_false]
      cases hg : g d m with
      | error e => rfl
      | ok p => obtain ⟨q, m'⟩ := p; simp only [bind, Except.bind]; exact ih _

-- ------------------------------------------------------------------------------------------------ xreplace + float
mutual
  /-- the numbers of the memo substituted for the variables -/
  def substNum (m : Memo) : Expr → Expr
    | .var v => match m.lookup v with
      | some q => .num q
      | none => .var v
    | .bin op a b => .bin op (substNum m a) (substNum m b)
    | .pow a n => .pow (substNum m a) n
    | .opq id args => .opq id (substNumL m args)
    | .num q => .num q
    | .deriv s t => .deriv s t
  def substNumL (m : Memo) : List Expr → List Expr
    | [] => []
    | a :: as => substNum m a :: substNumL m as
end

theorem lookup_encL (m : Memo) (v : Nat) : (encL m).lookup v = (m.lookup v).map some := by
  induction m with
  | nil => rfl
  | cons p rest ih =>
    obtain ⟨a, b⟩ := p
    simp only [encL, List.map_cons, List.lookup] at ih ⊢
    cases v == a <;> simp [ih]

theorem substValsL_enc (m : Memo) : ∀ (es : List Expr), (∀ a ∈ es, substVals (encL m) a = some (substNum m a)) →
    substValsL (encL m) es = some (substNumL m es)
  | [], _ => rfl
  | a :: as, h => by
    simp only [substValsL, substNumL, h a (List.mem_cons_self ..),
      substValsL_enc m as (fun x hx => h x (List.mem_cons_of_mem _ hx))]

theorem substVals_enc (m : Memo) (e : Expr) : substVals (encL m) e = some (substNum m e) := by
  induction e with
  | num _ => simp [substVals, substNum]
  | deriv _ _ => simp [substVals, substNum]
  | opq id args ih => simp [substVals, substNum, substValsL_enc m args ih]
  | var v =>
    simp only [substVals, substNum, lookup_encL]
    cases m.lookup v <;> rfl
  | pow a n ih => simp [substVals, substNum, ih]
  | bin op a b iha ihb => simp [substVals, substNum, iha, ihb]

theorem evalEL_substNum (fn : Interp) (m : Memo) : ∀ (es : List Expr),
    (∀ a ∈ es, evalE fn [] (substNum m a) = evalE fn m a) → evalEL fn [] (substNumL m es) = evalEL fn m es
  | [], _ => rfl
  | a :: as, h => by
    simp only [substNumL, evalEL, h a (List.mem_cons_self ..),
      evalEL_substNum fn m as (fun x hx => h x (List.mem_cons_of_mem _ hx))]

theorem evalE_substNum (fn : Interp) (m : Memo) (e : Expr) : evalE fn [] (substNum m e) = evalE fn m e := by
  induction e with
  | num _ => simp [substNum, evalE]
  | deriv _ _ => simp [substNum, evalE]
  | opq id args ih => simp only [substNum, evalE, evalEL_substNum fn m args ih]
  | var v =>
    simp only [substNum, evalE]
    cases m.lookup v <;> rfl
  | pow a n ih => simp only [substNum, evalE, ih]
  | bin op a b iha ihb => simp only [substNum, evalE, iha, ihb]

theorem vars_bin (op : BinOp) (a b : Expr) : (Expr.bin op a b).vars = a.vars ++ b.vars := by
  simp [Expr.vars, Expr.nodes]

theorem vars_opq_nil {id : String} {args : List Expr} (h : (Expr.opq id args).vars = []) : ∀ a ∈ args, a.vars = [] := by
  intro a ha
  simp only [Expr.vars, Expr.nodes, Expr.nodesL_eq, List.flatMap_eq_nil_iff, List.mem_flatMap] at h ⊢
  intro n hn
  exact h n ⟨a, ha, hn⟩

theorem substNumL_eq (m : Memo) (es : List Expr) : substNumL m es = es.map (substNum m) := by
  induction es with
  | nil => rfl
  | cons a as ih => simp [substNumL, ih]

theorem substNum_of_no_vars (m : Memo) (e : Expr) : e.vars = [] → substNum m e = e := by
  induction e with
  | num _ => intro _; simp [substNum]
  | deriv _ _ => intro _; simp [substNum]
  | opq id args ih =>
    intro h
    simp only [substNum, substNumL_eq, map_eq_self _ args (fun a ha => ih a ha (vars_opq_nil h a ha))]
  | var v => intro h; simp [Expr.vars, Expr.nodes, Node.atoms] at h
  | pow a n ih =>
    intro h
    have : a.vars = [] := by simpa [Expr.vars, Expr.nodes] using h
    simp [substNum, ih this]
  | bin op a b iha ihb =>
    intro h
    rw [vars_bin, List.append_eq_nil_iff] at h
    simp [substNum, iha h.1, ihb h.2]

/-- `float(expr.xreplace(evaluated))` = `evalE` -/
theorem xreplace_float (fn : Interp) (m : Memo) (e : Expr) :
    (match xreplaceMemo e (enc m) with
      | .error err => .error err
      | .ok e' => floatExpr fn e') = errClass verrClass (evalE fn m e) := by
  simp only [xreplaceMemo, enc, substVals_enc, floatExpr, evalE_substNum]

/-- `float(expr)` of a tree without variables = `evalE` with any memo -/
theorem float_no_vars (fn : Interp) (m : Memo) (e : Expr) (h : e.vars = []) :
    floatExpr fn e = errClass verrClass (evalE fn m e) := by
  rw [← evalE_substNum fn m e, substNum_of_no_vars m e h]; rfl

theorem freeVar_of_empty (M : RModel) (h : (odeKeys M).isEmpty = true) : freeVar M = none := by
  unfold odeKeys stateKeys at h
  unfold freeVar Model.getFreeVariable
  cases hd : M.st.odeDef with
  | nil => rfl
  | cons p rest => rw [hd] at h; simp at h

theorem xreplaceMemo_enc (m : Memo) (e : Expr) : xreplaceMemo e (enc m) = .ok (substNum m e) := by
  simp [xreplaceMemo, enc, substVals_enc]

theorem floatExpr_substNum (fn : Interp) (m : Memo) (e : Expr) :
    floatExpr fn (substNum m e) = errClass verrClass (evalE fn m e) := by
  simp [floatExpr, evalE_substNum]

/-- **`_get_value` = `getValueAux`** (one level of the recursion): for every model, fuels, variable and dictionary,
    the function generated from `Model._get_value` — its nested `expand_derivatives` bound to `expand M F`
    (`expandDerivatives_tie`), its recursive call bound to the model one level down — returns what
    `getValueAux M F (f+1)` returns: the value, the dictionary as the call leaves it, the exception class.
    `odeLhsOk`: see `getFreeVariable_tie`. -/
theorem getValueRec_tie (fn : Interp) (M : RModel) (F f v : Nat) (m : Memo) (hl : odeLhsOk M = true) :
    RolesValue.getValueRec M fn (fun e => errClass verrClass (expand M F e)) (recOf (getValueAux fn M F f)) v (enc m)
      = recOf (getValueAux fn M F (f + 1)) v (enc m) := by
  unfold RolesValue.getValueRec
  simp only [bind, Except.bind, pure, Except.pure, throw, throwThe, MonadExceptOf.throw, Py.truthy_list, tryCatch,
    tryCatchThe, MonadExceptOf.tryCatch, Except.tryCatch, EarlyReturnT.return, EarlyReturn.runK, ExceptT.pure,
    ExceptT.run, ExceptT.mk]
  rw [isIn_odeKeys, getFreeVariable_tie M hl]
  simp only [recOf, dec_enc, getValueAux]
  by_cases hs : isState M v = true
  · simp only [hs, if_true, initialValue]
    cases initOf M.st v <;> simp [floatVal, verrClass]
  · simp only [hs, Bool.false_eq_true, if_false]
    unfold varDefItem varRhs
    cases hv : M.st.varDef.lookup v with
    | none =>
      simp only [Option.map_none]
      by_cases he : (odeKeys M).isEmpty = true
      · simp [he, freeVar_of_empty M he, verrClass]
      · simp only [he]
        cases hf : freeVar M with
        | none => simp [optErr, verrClass]
        | some t =>
          by_cases ht : v = t
          · subst ht; simp [optErr, Py.is_, enc]
          · have : ¬ t = v := fun h => ht h.symm
            simp [optErr, Py.is_, ht, this, verrClass]
    | some eq =>
      simp only [Option.map_some, eqRhs]
      cases hx : expand M F (M.rhs eq.tok) with
      | error e => simp [errClass]
      | ok r' =>
        simp only [errClass, varAtoms]
        have hnone : Option.isNone (enc m) = false := rfl
        simp only [hnone, Bool.false_eq_true, if_false]
        by_cases hd : r'.vars.isEmpty = true
        · have hnil := List.isEmpty_iff.mp hd
          simp only [hnil, evalDeps]
          rw [float_no_vars fn m r' hnil]
          cases evalE fn m r' <;> simp [errClass]
        · simp only [hd, Bool.not_false, if_true]
          rw [forIn_eq_evalDeps (g := getValueAux fn M F f)]
          · cases hdeps : evalDeps (getValueAux fn M F f) r'.vars m with
            | error e => simp
            | ok m' =>
              simp only [xreplaceMemo_enc, floatExpr_substNum]
              cases evalE fn m' r' <;> simp [errClass]
          · intro d m0
            rw [keys_enc, dec_enc]
            by_cases hk : hasKey d m0 = true
            · simp [hk]
            · simp only [hk, Bool.not_false, if_true, Bool.false_eq_true, if_false]
              cases getValueAux fn M F f d m0 with
              | error e => rfl
              | ok p => obtain ⟨q, m'⟩ := p; simp only [setItem_enc]
-- ------------------------------------------------------------------------------------------------ the first call (`evaluated=None`)
theorem setAssoc_fresh {κ ν} [DecidableEq κ] (k : κ) (v : ν) (l : List (κ × ν)) (h : k ∉ l.map (·.1)) :
    Py.setAssoc k v l = l ++ [(k, v)] := by
  induction l with
  | nil => rfl
  | cons p rest ih =>
    obtain ⟨a, b⟩ := p
    simp only [List.map_cons, List.mem_cons, not_or] at h
    have : ¬ a = k := fun hh => h.1 hh.symm
    simp [Py.setAssoc, this, ih h.2]

theorem dictOf_foldl {κ ν} [DecidableEq κ] (l : List (κ × ν)) : ∀ (acc : List (κ × ν)),
    (l.map (·.1)).Nodup → (∀ k ∈ l.map (·.1), k ∉ acc.map (·.1)) →
    l.foldl (fun d p => Py.setAssoc p.1 p.2 d) acc = acc ++ l := by
  induction l with
  | nil => intro acc _ _; simp
  | cons p rest ih =>
    intro acc hnd hdis
    simp only [List.map_cons, List.nodup_cons] at hnd
    simp only [List.foldl_cons]
    rw [setAssoc_fresh _ _ _ (hdis p.1 (by simp)), ih _ hnd.2]
    · simp
    · intro k hk
      simp only [List.map_append, List.map_cons, List.map_nil, List.mem_append, List.mem_singleton, not_or]
      exact ⟨hdis k (by simp [hk]), fun hh => hnd.1 (hh ▸ hk)⟩

theorem dictOf_nodup {κ ν} [DecidableEq κ] (l : List (κ × ν)) (h : (l.map (·.1)).Nodup) : Py.dictOf l = l := by
  unfold Py.dictOf
  rw [dictOf_foldl l [] h (by simp)]
  rfl

theorem initDict_eq (init : Nat → Option Rat) (L : List (Nat × Eqn)) (h : ∀ s ∈ L.map (·.1), (init s).isSome = true) :
    (L.map (·.1)).map (fun x => (x, init x)) = encL (L.filterMap (fun p => (init p.1).map (fun q => (p.1, q)))) := by
  induction L with
  | nil => rfl
  | cons p rest ih =>
    have h1 := h p.1 (by simp)
    have h2 := ih (fun s hs => h s (by simp only [List.map_cons, List.mem_cons]; exact Or.inr hs))
    cases hi : init p.1 with
    | none => rw [hi] at h1; cases h1
    | some q =>
      simp only [List.map_cons, List.filterMap_cons, hi, Option.map_some, encL] at h2 ⊢
      rw [h2]

/-- the dictionary `_get_value` creates when it is called without one = `memo0` -/
theorem memo_init (M : RModel) (hinit : ∀ s ∈ stateKeys M.st, (initOf M.st s).isSome = true)
    (hnd : (stateKeys M.st).Nodup) :
    (some (Py.dictOf ((odeKeys M).map (fun x => (x, initialValue M x)))) : PyMemo) =
      enc (M.st.odeDef.filterMap (fun p => (initOf M.st p.1).map (fun q => (p.1, q)))) := by
  unfold odeKeys stateKeys initialValue enc at *
  rw [dictOf_nodup _ (by
    have e : ∀ ks : List Nat, List.map (fun x : Nat × Option Rat => x.fst)
        (List.map (fun x => (x, initOf M.st x)) ks) = ks := by
      intro ks
      induction ks with
      | nil => rfl
      | cons a t ih => simp only [List.map_cons, ih]
    rw [e]; exact hnd)]
  rw [initDict_eq (initOf M.st) M.st.odeDef hinit]


theorem freeVar_some_of_nonempty (M : RModel) (hl : odeLhsOk M = true) (he : ¬ (odeKeys M).isEmpty = true) :
    ∃ t, freeVar M = some t := by
  unfold odeKeys stateKeys at he
  unfold odeLhsOk at hl
  unfold freeVar Model.getFreeVariable
  cases hd : M.st.odeDef with
  | nil => rw [hd] at he; simp at he
  | cons p rest =>
    obtain ⟨k, e⟩ := p
    rw [hd] at hl
    cases hlhs : e.lhs with
    | deriv s t o => exact ⟨t, by simp only [hlhs]⟩
    | var x => simp [hlhs] at hl
    | other => simp [hlhs] at hl

theorem getValueRec_none (fn : Interp) (M : RModel) (ex : Expr → Except PyErr Expr) (rec : Nat → PyMemo → Except PyErr (Rat × PyMemo))
    (v : Nat) (hl : odeLhsOk M = true)
    (hinit : ∀ s ∈ stateKeys M.st, (initOf M.st s).isSome = true) (hnd : (stateKeys M.st).Nodup) :
    (RolesValue.getValueRec M fn ex rec v none).map (·.1) =
      (RolesValue.getValueRec M fn ex rec v (enc (memo0 M))).map (·.1) := by
  unfold RolesValue.getValueRec
  simp only [bind, Except.bind, pure, Except.pure, throw, throwThe, MonadExceptOf.throw, Py.truthy_list, tryCatch,
    tryCatchThe, MonadExceptOf.tryCatch, Except.tryCatch, EarlyReturnT.return, EarlyReturn.runK, ExceptT.pure,
    ExceptT.run, ExceptT.mk]
  rw [getFreeVariable_tie M hl]
  by_cases hs : Py.isIn v (odeKeys M) = true
  · simp only [hs, if_true]
    cases floatVal (initialValue M v) <;> rfl
  · simp only [hs, Bool.false_eq_true, if_false]
    cases hv : varDefItem M v with
    | error e =>
      simp only []
      by_cases hk : (e.cls == "KeyError") = true
      · simp only [hk, if_true]
        by_cases he : (odeKeys M).isEmpty = true
        · simp [he, Except.map]
        · simp only [he]
          cases hf : freeVar M with
          | none => simp [optErr, Except.map]
          | some t => by_cases ht : Py.is_ v t = true <;> simp [optErr, ht, Except.map]
      · simp [hk, Except.map]
    | ok eq =>
      simp only []
      cases hx : ex (eqRhs M eq) with
      | error e => simp [Except.map]
      | ok r' =>
        simp only []
        by_cases hd : (varAtoms r').isEmpty = true
        · simp only [hd, Bool.not_true, Bool.false_eq_true, if_false]
          cases floatExpr fn r' <;> rfl
        · simp only [hd, Bool.not_false, if_true]
          have hnone : Option.isNone (enc (memo0 M)) = false := rfl
          simp only [hnone, Bool.false_eq_true, if_false, Option.isNone_none, if_true]
          rw [memo_init M hinit hnd]
          by_cases he : (odeKeys M).isEmpty = true
          · have hm : memo0 M = List.filterMap (fun p => Option.map (fun q => (p.fst, q)) (initOf M.st p.fst))
                M.st.odeDef := by
              unfold memo0; simp only [freeVar_of_empty M he]
            simp only [he, Bool.not_true, Bool.false_eq_true, if_false, hm]
          · obtain ⟨t, ht⟩ := freeVar_some_of_nonempty M hl he
            have hz : ((0 : PyVal)) = pyFloatVal 0 := by
              show some ((0 : Nat) : Rat) = some (0 : Rat)
              rfl
            have hm : memo0 M = insertKey t 0 (List.filterMap (fun p => Option.map (fun q => (p.fst, q))
                (initOf M.st p.fst)) M.st.odeDef) := by
              unfold memo0; simp only [ht]
            simp only [he, Bool.not_false, if_true, ht, optErr, hz, setItem_enc, hm]

theorem getValueRec_congr_ex (fn : Interp) (M : RModel) (ex1 ex2 : Expr → Except PyErr Expr)
    (rec : Nat → PyMemo → Except PyErr (Rat × PyMemo)) (v : Nat) (pm : PyMemo)
    (h : ∀ eq, varDefItem M v = .ok eq → ex1 (eqRhs M eq) = ex2 (eqRhs M eq)) :
    RolesValue.getValueRec M fn ex1 rec v pm = RolesValue.getValueRec M fn ex2 rec v pm := by
  unfold RolesValue.getValueRec
  simp only [bind, Except.bind, pure, Except.pure, throw, throwThe, MonadExceptOf.throw, Py.truthy_list, tryCatch,
    tryCatchThe, MonadExceptOf.tryCatch, Except.tryCatch, EarlyReturnT.return, EarlyReturn.runK, ExceptT.pure,
    ExceptT.run, ExceptT.mk]
  cases hv : varDefItem M v with
  | ok eq => simp only [h eq hv]
  | error e =>
    simp only []
    by_cases h1 : Py.isIn v (odeKeys M) = true
    · simp only [h1, if_true]
    · simp only [h1]
      by_cases hk : (e.cls == "KeyError") = true
      · simp only [hk, if_true]
        by_cases he : (!(odeKeys M).isEmpty) = true
        · simp only [he, if_true]
          cases Roles.getFreeVariable M with
          | error x => rfl
          | ok t => simp only []; by_cases ht : Py.is_ v t = true <;> simp only [ht] <;> rfl
        · simp only [he]; rfl
      · simp only [hk]; rfl

/-- `_get_value` with BOTH of its inner functions generated from the source: the nested `expand_derivatives` is the
    generated `expandDerivatives` (recursive call: `expand M F`), the recursive `_get_value` call is the model one level
    down. For every interpretation `fn` of the opaque terms and every right-hand side. -/
theorem getValueRec_full_tie (fn : Interp) (M : RModel) (F f v : Nat) (m : Memo) (hl : odeLhsOk M = true) :
    RolesValue.getValueRec M fn (RolesValue.expandDerivatives M (fun e' => errClass verrClass (expand M F e')))
        (recOf (getValueAux fn M (F + 1) f)) v (enc m)
      = recOf (getValueAux fn M (F + 1) (f + 1)) v (enc m) := by
  rw [← getValueRec_tie fn M (F + 1) f v m hl]
  apply getValueRec_congr_ex
  intro eq _
  apply expandDerivatives_tie

/-- **`get_value` = `getValue`**: the generated `get_value`, calling the generated `_get_value` (whose inner calls are
    the model with `|variables| + 1` / `|variables|` levels of fuel), returns what `getValue M v` returns, exception
    class included. Domain: `odeLhsOk` (see `getFreeVariable_tie`); every state has an initial value (the model leaves
    a state without one out of `memo0` where python stores `None`: see the report); the keys of the ODE map are distinct
    (a python dict). -/
theorem getValue_tie (fn : Interp) (M : RModel) (v : Nat) (hl : odeLhsOk M = true)
    (hinit : ∀ s ∈ stateKeys M.st, (initOf M.st s).isSome = true) (hnd : (stateKeys M.st).Nodup) :
    RolesValue.getValue M
        (RolesValue.getValueRec M fn (fun e => errClass verrClass (expand M (M.st.live.length + 1) e))
          (recOf (getValueAux fn M (M.st.live.length + 1) M.st.live.length))) v
      = errClass verrClass (Model.getValue fn M v) := by
  have h := getValueRec_none fn M (fun e => errClass verrClass (expand M (M.st.live.length + 1) e))
    (recOf (getValueAux fn M (M.st.live.length + 1) M.st.live.length)) v hl hinit hnd
  rw [getValueRec_tie fn M _ _ v (memo0 M) hl] at h
  unfold RolesValue.getValue
  simp only [bind, Except.bind, pure, Except.pure]
  unfold Model.getValue getValueFuel
  simp only [recOf, dec_enc] at h
  cases hg : RolesValue.getValueRec M fn (fun e => errClass verrClass (expand M (M.st.live.length + 1) e))
      (recOf (getValueAux fn M (M.st.live.length + 1) M.st.live.length)) v none with
  | error e =>
    rw [hg] at h
    cases ha : getValueAux fn M (M.st.live.length + 1) (M.st.live.length + 1) v (memo0 M) with
    | error e' => rw [ha] at h; simp only [Except.map] at h; cases h; rfl
    | ok p => rw [ha] at h; simp only [Except.map] at h; cases h
  | ok p =>
    rw [hg] at h
    cases ha : getValueAux fn M (M.st.live.length + 1) (M.st.live.length + 1) v (memo0 M) with
    | error e' => rw [ha] at h; simp only [Except.map] at h; cases h
    | ok p' =>
      rw [ha] at h
      simp only [Except.map] at h
      obtain ⟨q, m'⟩ := p'
      simp only [Except.ok.injEq] at h
      simp only [h, errClass]
end Cellml.Tie.PRoles
