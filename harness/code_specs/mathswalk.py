"""Code-translator spec (see harness/translate_code.py and harness/code_specs/__init__.py).

Parser._add_maths as a whole: the loop over the components, `findall(<math>)`, the `if math_elements:` guard, the prefix,
the construction `Transpiler(symbol_generator=…, number_generator=…)` with the closure `symbol_generator` (GENERATED:
group LoaderSym) and the lambda `number_generator` (translated here: `create_quantity(x, get_unit(y))`), the loop over
the `<math>` elements, `parse_tree`, and `self.model.add_equation(expr)` for every transpiled equation — bound to the
GENERATED `Model.add_equation` (group ModelState) run on the model object the stage threads.
Tie: lean/Cellml/Tie/MathsWalk.lean (= Load.checkMaths / Load.mathsOf + the refusals C17.badEqErr models)."""

GROUP = {'name': 'MathsWalk',
 'imports': ['Cellml.Tie.MathsWalkView'],
 'header': 'open Load\nopen Cellml.Tie.PMathsWalk',
 'functions': [{'file': 'cellmlmanip/parser.py',
                'func': 'Parser._add_maths',
                'lean_name': 'addMaths',
                'fn_class': 'mathswalk:MathsFn',
                # the Model object `self.model` that add_equation mutates is threaded as `st`
                'params': ['self', 'component_variables', 'connected_variable_mapping', 'st'],
                'state': ['st'],
                'returns': 'st',
                # the closure is translated on its own (group LoaderSym) and reaches this function through the pattern
                # of the `Transpiler(...)` call, applied to the names the closure captures
                'skip_defs': ['symbol_generator'],
                'signature': '(self : MathsView) (component_variables : List (MCompElem × (VRef → Option VRef))) '
                             '(connected_variable_mapping : VMap) (st : MathsSt) : Except PyErr MathsSt',
                'patterns': [
                    # lxml leaves
                    ("__A.findall(with_ns(XmlNs.MATHML, 'math'))", '({A}).maths'),
                    ("__A.get('name') + SYMPY_SYMBOL_DELIMITER", '(CompPrefix.mk ({A}).name)'),
                    # the constructor: keyword NAMES are pinned by the pattern; the first argument must be the name of
                    # the nested def, which is the generated closure over the three names it captures
                    ('Transpiler(symbol_generator=symbol_generator, number_generator=__N)',
                     '(mkTranspiler (Cellml.Gen.LoaderSym.symbolGenerator prefix_ variable_to_symbol '
                     'connected_variable_mapping (whileBound connected_variable_mapping)) {N})'),
                    # the two leaves of the lambda `number_generator`
                    ('self.model.units.get_unit(__A)', '← self.getUnit {A}'),
                    ('self.model.create_quantity(__A, __B)', '(createQuantity {A} {B})'),
                    ('__T.parse_tree(__M)', '← parseTree {T} {M}')],
                'stmt_patterns': [
                    # the generated `Model.add_equation` (default `check_duplicates=True`) on the threaded model
                    ('self.model.add_equation(__A)', 'st ← addEquation st {A}')]}]}
