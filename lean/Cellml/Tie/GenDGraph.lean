import Cellml.Tie.Graph
import Cellml.Props.C09

/-! # The three generated graph functions composed (`Model.graph` → `Model.graph_with_sympy_numbers` →
    `Model.get_equations_for`), and the transfer lemmas from the hand model `C09.getEquationsFor`

    `genEquationsFor m vars recurse strip` is the definition GENERATED from `Model.get_equations_for`
    (`Gen.GraphEqs.getEquationsFor`) run on a view of the model in which `self.graph` is the definition GENERATED from
    the `Model.graph` property (`Gen.GraphBuild.graph`, empty cache, any earlier `Variable.type` values) and
    `self.graph_with_sympy_numbers` is the definition GENERATED from that property (`Gen.GraphNum.graphWithSympyNumbers`,
    empty cache) reading the generated `self.graph`. No hand-model function occurs in it; what remains of the model are
    the leaf bindings of `Tie/GraphView.lean` (networkx, sympy, attribute reads).

    `genEquationsFor_tie`: it equals the hand model `C09.getEquationsFor` (result lists related by `eqnOf`, exception
    classes by `errName`), for ALL arguments, with no domain hypothesis. (It used to carry `NumOK` for `strip = true`:
    the hand model pruned the in-edges of every equation, the code only of equations that hold a `Quantity`,
    `if subs_dict:`. The model now has the same guard, `C09.Eqn.hasQ`, and the hypothesis is gone.) -/

namespace Cellml.Tie.GenD
open C09 Cellml.Gen Cellml.Tie Cellml.Tie.PGraph

/-- what the three python functions read of a `Model` object (the arguments of the views of `Tie/GraphView.lean`);
    which right-hand sides contain `Quantity` objects (`equation.rhs.atoms(Quantity)`) is the field `hasQ` of each
    equation -/
structure PyModel where
  /-- `str` of a node (the sort key) -/
  key : Node → String
  /-- `self.equations` -/
  eqs : List Eqn
  /-- `self._name_to_variable.values()` (the graph does not depend on it: `graph_independent`) -/
  vars : List Node := []
  /-- `isinstance(equation.rhs, Quantity)` (the graph does not depend on it) -/
  rq : Eqn → Bool := fun _ => false
  /-- the `Variable.type` attributes left by earlier builds (the graph does not depend on them) -/
  ty0 : TyMap := []

/-- `self.graph`, as generated from the source of the property, called with an empty cache -/
def genGraph (m : PyModel) : Except PyErr Graph :=
  (GraphBuild.graph (buildView m.key m.eqs m.vars m.rq) none m.ty0).map (·.1)

/-- `self.graph_with_sympy_numbers`, as generated from the source of the property, called with an empty cache; its
    `self.graph.copy()` is the generated `self.graph` -/
def genGraphNum (m : PyModel) : Except PyErr Graph :=
  (GraphNum.graphWithSympyNumbers (numView m.eqs (genGraph m)) none).map (·.1)

/-- the `Model` as `get_equations_for` sees it, both graph properties being the generated ones -/
def genEqsView (m : PyModel) : EqsView where
  graph := genGraph m
  graphNum := genGraphNum m
  key := m.key
  equationOf := eqnOf m.eqs

/-- **`Model.get_equations_for` as generated, over the generated graph properties** -/
def genEquationsFor (m : PyModel) (vars : List Node) (recurse strip : Bool) : Except PyErr (List (Option Eqn)) :=
  GraphEqs.getEquationsFor (genEqsView m) vars recurse strip

/-- the left-hand sides of the equations python returned (`eq.lhs for eq in result`) -/
def lhsList (res : List (Option Eqn)) : List Node := res.map fun o => (theEqn o).lhs

-- ------------------------------------------------------------------------------------------------ the closed tie
theorem genGraph_eq (m : PyModel) (recurse : Bool) : genGraph m = (eqsView m.key m.eqs recurse).graph :=
  graph_feeds_eqsView m.key m.eqs m.vars m.rq m.ty0 recurse

theorem genGraphNum_eq (m : PyModel) (recurse : Bool) :
    genGraphNum m = (eqsView m.key m.eqs recurse).graphNum := by
  unfold genGraphNum
  rw [genGraph_eq m recurse]
  cases hb : buildGraph m.key m.eqs with
  | ok g =>
    have h1 : (eqsView m.key m.eqs recurse).graph = .ok g := by simp [eqsView, hb, errClass]
    rw [h1]
    exact graphNum_feeds_eqsView m.key m.eqs g recurse hb
  | error x =>
    have h1 : (eqsView m.key m.eqs recurse).graph = .error ⟨errName recurse x⟩ := by simp [eqsView, hb, errClass]
    rw [h1, graphNum_error]
    simp [eqsView, hb, errClass, Except.map]

/-- `get_equations_for` reads `self.graph_with_sympy_numbers` only when `strip_units` is set -/
theorem getEquationsFor_congr (V W : EqsView) (vars : List Node) (recurse strip : Bool)
    (hg : strip = false → V.graph = W.graph) (hn : strip = true → V.graphNum = W.graphNum) (hk : V.key = W.key)
    (he : V.equationOf = W.equationOf) :
    GraphEqs.getEquationsFor V vars recurse strip = GraphEqs.getEquationsFor W vars recurse strip := by
  unfold GraphEqs.getEquationsFor
  cases strip
  · simp only [Py.truthy_bool, Bool.false_eq_true, if_false, hg rfl, hk, he]
  · simp only [Py.truthy_bool, if_true, hn rfl, hk, he]

/-- **Closed tie**: the composition of the three generated definitions is the hand model `C09.getEquationsFor` -/
theorem genEquationsFor_tie (m : PyModel) (vars : List Node) (recurse strip : Bool) :
    genEquationsFor m vars recurse strip
      = errClass (errName recurse) ((getEquationsFor m.key m.eqs vars recurse strip).map (·.map (eqnOf m.eqs))) := by
  rw [← getEquationsFor_tie]
  apply getEquationsFor_congr
  · intro _; exact genGraph_eq m recurse
  · intro _; exact genGraphNum_eq m recurse
  · rfl
  · rfl

-- ------------------------------------------------------------------------------------------------ transfer lemmas
theorem lhsList_map_eqnOf (eqs : List Eqn) (r : List Node) (h : ∀ v ∈ r, hasEq eqs v = true) :
    lhsList (r.map (eqnOf eqs)) = r := by
  induction r with
  | nil => rfl
  | cons v r ih =>
    have hv := h v (List.mem_cons_self ..)
    rw [hasEq_eq_isSome] at hv
    obtain ⟨e, he⟩ := Option.isSome_iff_exists.mp hv
    have ih' := ih (fun w hw => h w (List.mem_cons_of_mem _ hw))
    simp only [lhsList, List.map_cons, List.map_map] at ih' ⊢
    rw [ih', he, theEqn_some, eqnOf_lhs he]

theorem model_res_hasEq {key : Node → String} {eqs : List Eqn} {vars : List Node} {recurse strip : Bool} {r : List Node}
    (h : getEquationsFor key eqs vars recurse strip = .ok r) : ∀ v ∈ r, hasEq eqs v = true :=
  fun v hv => (((Cellml.Props.C09.eqsfor_exact key eqs vars recurse strip r h).2 v).mp hv).1

/-- python returned `res` ⇒ the hand model returns the left-hand sides of `res`, and `res` is the list of the
    `equation` attributes of those nodes -/
theorem gen_ok {m : PyModel} {vars : List Node} {recurse strip : Bool}
    {res : List (Option Eqn)} (h : genEquationsFor m vars recurse strip = .ok res) :
    getEquationsFor m.key m.eqs vars recurse strip = .ok (lhsList res) ∧ res = (lhsList res).map (eqnOf m.eqs) := by
  rw [genEquationsFor_tie m vars recurse strip] at h
  cases hm : getEquationsFor m.key m.eqs vars recurse strip with
  | error x => rw [hm] at h; simp [errClass, Except.map] at h
  | ok r =>
    rw [hm] at h
    simp only [errClass, Except.map, Except.ok.injEq] at h
    subst h
    rw [lhsList_map_eqnOf m.eqs r (model_res_hasEq hm)]
    exact ⟨rfl, rfl⟩

/-- the hand model returns `r` ⇒ python returns the equations of `r` -/
theorem gen_of_ok {m : PyModel} {vars : List Node} {recurse strip : Bool}
    {r : List Node} (h : getEquationsFor m.key m.eqs vars recurse strip = .ok r) :
    genEquationsFor m vars recurse strip = .ok (r.map (eqnOf m.eqs)) := by
  rw [genEquationsFor_tie m vars recurse strip, h]
  rfl

/-- the hand model fails ⇒ python raises the class `errName` gives -/
theorem gen_of_error {m : PyModel} {vars : List Node} {recurse strip : Bool}
    {x : Err} (h : getEquationsFor m.key m.eqs vars recurse strip = .error x) :
    genEquationsFor m vars recurse strip = .error ⟨errName recurse x⟩ := by
  rw [genEquationsFor_tie m vars recurse strip, h]
  rfl

/-- every entry python returns is an equation of the model, filed under its own left-hand side -/
theorem gen_entries {m : PyModel} {vars : List Node} {recurse strip : Bool}
    {res : List (Option Eqn)} (h : genEquationsFor m vars recurse strip = .ok res) :
    ∀ o ∈ res, ∃ e ∈ m.eqs, o = some e ∧ eqnOf m.eqs e.lhs = some e := by
  obtain ⟨hm, hres⟩ := gen_ok h
  intro o ho
  rw [hres] at ho
  obtain ⟨v, hv, rfl⟩ := List.mem_map.mp ho
  have := model_res_hasEq hm v hv
  rw [hasEq_eq_isSome] at this
  obtain ⟨e, he⟩ := Option.isSome_iff_exists.mp this
  refine ⟨e, List.mem_of_find?_eq_some he, he, ?_⟩
  rw [eqnOf_lhs he]; exact he

-- ------------------------------------------------------------------------------------------------ the networkx leaf
/-- the leaf binding of `nx.lexicographical_topological_sort` returns exactly when the model sort does -/
theorem nxLexTopo_ok_iff (key : Node → String) (g : Graph) (l : List Node) :
    nxLexTopo key g = .ok l ↔ lexTopo key g = .ok l := by
  unfold nxLexTopo
  cases h : lexTopo key g <;> simp

/-- … and raises `NetworkXUnfeasible` exactly when the model sort fails -/
theorem nxLexTopo_error_iff (key : Node → String) (g : Graph) :
    nxLexTopo key g = .error ⟨"NetworkXUnfeasible"⟩ ↔ ∃ x, lexTopo key g = .error x := by
  unfold nxLexTopo
  cases h : lexTopo key g <;> simp

end Cellml.Tie.GenD
