import Cellml.Tie.RolesValue

/-! # Tie (Roles, closed form): the recursion of `Model._get_value` / `expand_derivatives` CLOSED over the generated bodies

    `Tie/RolesValue.lean` ties one level of each open recursion (`expandDerivatives_tie`, `getValueRec_tie`). Here the
    recursion is closed: python's call stack is a depth counter, a call at depth 0 raises `RecursionError`, a call at
    depth `n+1` runs the GENERATED body with the recursive call bound to depth `n`:

    * `genExpand M F`        = `F` levels of the generated `expand_derivatives`,
    * `genGetValueRec fn M F f` = `f` levels of the generated `_get_value` whose nested function is `genExpand M F`,
    * `genGetValueFuel M F`  = the generated `get_value` calling `genGetValueRec M (F+1) F`.

    `genGetValueFuel_eq`: this is the hand model's `getValueFuel M F` (value and exception class) — the function
    `Props/C10.lean` is about — on the stated domain. No model function occurs in the definitions of this file's `gen…`. -/

namespace Cellml.Tie.PRolesClosed
open Model Cellml.Gen Cellml.Tie Cellml.Tie.PRoles

-- ================================================================================================ expand_derivatives
/-- the hand model's `expand` with python's convention for the bottom of the stack: at depth 0 the CALL raises
    (`expand M 0` still looks at the expression and raises only if it meets a derivative) -/
def expandP (M : RModel) : Nat → Expr → Except VErr Expr
  | 0, _ => .error .fuel
  | F + 1, e => e.bindD (fun s t =>
      match odeRhs M s t with
      | none => .error .noDefinition
      | some r => expandP M F r)

/-- `F` levels of the generated `expand_derivatives`; depth 0: `RecursionError` -/
def genExpand (M : RModel) : Nat → Expr → Except PyErr Expr
  | 0 => fun _ => .error ⟨"RecursionError"⟩
  | F + 1 => RolesValue.expandDerivatives M (genExpand M F)

theorem replFor_fix (M : RModel) (rec : Expr → Except PyErr Expr) (X : Expr → Except VErr Expr)
    (hX : ∀ tok, rec (M.rhs tok) = errClass verrClass (X (M.rhs tok))) (s t : Nat) :
    replFor M rec (.deriv s t) =
      errClass verrClass (match odeRhs M s t with
        | none => .error .noDefinition
        | some r => X r) := by
  unfold replFor odeRhs odeGet eqLhsNode optEqRhs nodeArg0
  cases hl : M.st.odeDef.lookup s with
  | none => simp [errClass, verrClass]
  | some e =>
    by_cases hd : lhsNode e.lhs = some (.deriv s t)
    · simp [hd, hX]
    · simp [hd, errClass, verrClass]

/-- the generated `expand_derivatives` with ANY recursive call that agrees with `X` on the right-hand sides of the model
    computes one `bindD` level over `X` (generalises `expandDerivatives_tie`) -/
theorem expandDerivatives_fix (M : RModel) (rec : Expr → Except PyErr Expr) (X : Expr → Except VErr Expr)
    (hX : ∀ tok, rec (M.rhs tok) = errClass verrClass (X (M.rhs tok))) (e : Expr) :
    RolesValue.expandDerivatives M rec e
      = errClass verrClass (e.bindD (fun s t => match odeRhs M s t with
          | none => .error .noDefinition
          | some r => X r)) := by
  rw [expand_shape]
  obtain ⟨s1, s2⟩ := bindD_spec verrClass _ _ (replFor_fix M rec X hX) e
  obtain ⟨l1, l2⟩ := buildRepl_spec (replFor M rec) (derivAtoms e) []
  cases hfe : firstErr (replFor M rec) (derivAtoms e) with
  | some x =>
    rw [s1 x hfe, l1 x hfe]
    have : (derivAtoms e).isEmpty = false := by
      cases hda : derivAtoms e with
      | nil => rw [hda] at hfe; cases hfe
      | cons _ _ => rfl
    simp [this]
  | none =>
    obtain ⟨r', hr', hag, _⟩ := l2 hfe
    obtain ⟨_, s3⟩ := s2 hfe
    rw [hr', s3 r' hag]
    split_ifs with hemp
    · have hnil : derivAtoms e = [] := List.isEmpty_iff.mp hemp
      have := s3 [] (by rw [hnil]; intro d hd; cases hd)
      rw [s3 r' hag, xreplaceDerivs_nil] at this
      exact this.symm ▸ rfl
    · rfl

/-- **the closed generated `expand_derivatives` = `expandP`** at every depth, on every expression -/
theorem genExpand_eq (M : RModel) :
    ∀ (F : Nat) (e : Expr), genExpand M F e = errClass verrClass (expandP M F e)
  | 0, _ => rfl
  | F + 1, e => by
    show RolesValue.expandDerivatives M (genExpand M F) e = _
    rw [expandDerivatives_fix M (genExpand M F) (expandP M F) (fun tok => genExpand_eq M F _) e]
    rfl

/-- two `bindD`s agree when the functions agree wherever the second does not run out of fuel, and the second result is
    not `fuel` (`bindD` returns the FIRST error in traversal order) -/
theorem bindDL_congr (f f' : Nat → Nat → Except VErr Expr) : ∀ (es : List Expr),
    (∀ a ∈ es, a.bindD f' ≠ .error .fuel → a.bindD f = a.bindD f') →
    Expr.bindDL f' es ≠ .error .fuel → Expr.bindDL f es = Expr.bindDL f' es
  | [], _, _ => rfl
  | a :: as, ih, h => by
    have iha := ih a (List.mem_cons_self ..)
    have ihb := bindDL_congr f f' as (fun x hx => ih x (List.mem_cons_of_mem _ hx))
    simp only [Expr.bindDL] at h ⊢
    cases ha : a.bindD f' with
    | error x =>
      rw [ha] at h
      have hx : x ≠ .fuel := fun hx => h (by rw [hx])
      rw [iha (by rw [ha]; intro hc; injection hc with hc; exact hx hc), ha]
    | ok a' =>
      rw [ha] at h
      rw [iha (by rw [ha]; intro hc; cases hc), ha]
      cases hb : Expr.bindDL f' as with
      | error y =>
        rw [hb] at h
        have hy : y ≠ .fuel := fun hy => h (by rw [hy])
        rw [ihb (by rw [hb]; intro hc; injection hc with hc; exact hy hc), hb]
      | ok b' => rw [ihb (by rw [hb]; intro hc; cases hc), hb]

theorem bindD_congr (f f' : Nat → Nat → Except VErr Expr)
    (hff : ∀ s t, f' s t ≠ .error .fuel → f s t = f' s t) :
    ∀ e : Expr, e.bindD f' ≠ .error .fuel → e.bindD f = e.bindD f' := by
  intro e
  induction e with
  | num q => intro _; rfl
  | var v => intro _; rfl
  | opq id args ih =>
    intro h
    simp only [Expr.bindD] at h ⊢
    have hl := bindDL_congr f f' args ih
    cases ha : Expr.bindDL f' args with
    | error x =>
      rw [ha] at h
      have hx : x ≠ .fuel := fun hx => h (by rw [hx])
      rw [hl (by rw [ha]; intro hc; injection hc with hc; exact hx hc), ha]
    | ok a' => rw [hl (by rw [ha]; intro hc; cases hc), ha]
  | deriv s t => intro h; exact hff s t h
  | pow a n iha =>
    intro h
    simp only [Expr.bindD] at h ⊢
    cases ha : a.bindD f' with
    | error x =>
      rw [ha] at h
      have hx : x ≠ .fuel := fun hx => h (by rw [hx])
      rw [iha (by rw [ha]; intro hc; injection hc with hc; exact hx hc), ha]
    | ok a' => rw [iha (by rw [ha]; intro hc; cases hc), ha]
  | bin op a b iha ihb =>
    intro h
    simp only [Expr.bindD] at h ⊢
    cases ha : a.bindD f' with
    | error x =>
      rw [ha] at h
      have hx : x ≠ .fuel := fun hx => h (by rw [hx])
      rw [iha (by rw [ha]; intro hc; injection hc with hc; exact hx hc), ha]
    | ok a' =>
      rw [ha] at h
      rw [iha (by rw [ha]; intro hc; cases hc), ha]
      cases hb : b.bindD f' with
      | error y =>
        rw [hb] at h
        have hy : y ≠ .fuel := fun hy => h (by rw [hy])
        rw [ihb (by rw [hb]; intro hc; injection hc with hc; exact hy hc), hb]
      | ok b' => rw [ihb (by rw [hb]; intro hc; cases hc), hb]

/-- where the hand model's `expand` does not run out of fuel, one more level of `expandP` computes the same -/
theorem expandP_eq_expand (M : RModel) : ∀ (F : Nat) (e : Expr), expand M F e ≠ .error .fuel →
    expandP M (F + 1) e = expand M F e
  | 0, e, h => by
    show e.bindD _ = e.bindD _
    exact bindD_congr _ _ (fun s t hst => absurd rfl hst) e h
  | F + 1, e, h => by
    show e.bindD _ = e.bindD _
    refine bindD_congr _ _ (fun s t hst => ?_) e h
    cases ho : odeRhs M s t with
    | none => rfl
    | some r =>
      simp only [ho] at hst ⊢
      exact expandP_eq_expand M F r hst

/-- **the closed generated `expand_derivatives`, one level deeper, = the hand model's `expand`** wherever `expand` does
    not answer `fuel` (there python raises `ValueError` or `RecursionError`, depending on which derivative it meets
    first — the hand model says `fuel` for both) -/
theorem genExpand_eq_expand (M : RModel) (F : Nat) (e : Expr) (hnf : expand M F e ≠ .error .fuel) :
    genExpand M (F + 1) e = errClass verrClass (expand M F e) := by
  rw [genExpand_eq M (F + 1) e, expandP_eq_expand M F e hnf]

-- ================================================================================================ _get_value
/-- `getValueRec_tie` with the recursive call any function that agrees with the hand model one level down on the
    dictionaries the loop passes (`enc m`) -/
theorem getValueRec_tie_rec (fn : Interp) (M : RModel) (F f v : Nat) (m : Memo) (hl : odeLhsOk M = true)
    (rec : Nat → PyMemo → Except PyErr (Rat × PyMemo))
    (hrec : ∀ d m0, rec d (enc m0) = recOf (getValueAux fn M F f) d (enc m0)) :
    RolesValue.getValueRec M fn (fun e => errClass verrClass (expand M F e)) rec v (enc m)
      = recOf (getValueAux fn M F (f + 1)) v (enc m) := by
  unfold RolesValue.getValueRec
  simp only [bind, Except.bind, pure, Except.pure, throw, throwThe, MonadExceptOf.throw, Py.truthy_list, tryCatch,
    tryCatchThe, MonadExceptOf.tryCatch, Except.tryCatch, EarlyReturnT.return, EarlyReturn.runK, ExceptT.pure,
    ExceptT.run, ExceptT.mk]
  rw [isIn_odeKeys, getFreeVariable_tie M hl]
  simp only [recOf, dec_enc, getValueAux]
  by_cases hs : isState M v = true
  · simp only [hs, if_true, initialValue]
    cases initOf M.st v <;> simp [floatVal, verrClass]
  · simp only [hs, Bool.false_eq_true, if_false]
    unfold varDefItem varRhs
    cases hv : M.st.varDef.lookup v with
    | none =>
      simp only [Option.map_none]
      by_cases he : (odeKeys M).isEmpty = true
      · simp [he, freeVar_of_empty M he, verrClass]
      · simp only [he]
        cases hf : freeVar M with
        | none => simp [optErr, verrClass]
        | some t =>
          by_cases ht : v = t
          · subst ht; simp [optErr, Py.is_, enc]
          · have : ¬ t = v := fun h => ht h.symm
            simp [optErr, Py.is_, ht, this, verrClass]
    | some eq =>
      simp only [Option.map_some, eqRhs]
      cases hx : expand M F (M.rhs eq.tok) with
      | error e => simp [errClass]
      | ok r' =>
        simp only [errClass, varAtoms]
        have hnone : Option.isNone (enc m) = false := rfl
        simp only [hnone, Bool.false_eq_true, if_false]
        by_cases hd : r'.vars.isEmpty = true
        · have hnil := List.isEmpty_iff.mp hd
          simp only [hnil, evalDeps]
          rw [float_no_vars fn m r' hnil]
          cases evalE fn m r' <;> simp [errClass]
        · simp only [hd, Bool.not_false, if_true]
          rw [forIn_eq_evalDeps (g := getValueAux fn M F f)]
          · cases hdeps : evalDeps (getValueAux fn M F f) r'.vars m with
            | error e => simp
            | ok m' =>
              simp only [xreplaceMemo_enc, floatExpr_substNum]
              cases evalE fn m' r' <;> simp [errClass]
          · intro d m0
            rw [keys_enc]
            by_cases hk : hasKey d m0 = true
            · simp [hk]
            · simp only [hk, Bool.not_false, if_true, Bool.false_eq_true, if_false]
              rw [hrec]
              simp only [recOf, dec_enc]
              cases getValueAux fn M F f d m0 with
              | error e => rfl
              | ok p => obtain ⟨q, m'⟩ := p; simp only [setItem_enc]

/-- `f` levels of the generated `_get_value`, its nested `expand_derivatives` being `F` levels of the generated one;
    depth 0: `RecursionError` -/
def genGetValueRec (fn : Interp) (M : RModel) (F : Nat) : Nat → Nat → PyMemo → Except PyErr (Rat × PyMemo)
  | 0 => fun _ _ => .error ⟨"RecursionError"⟩
  | f + 1 => RolesValue.getValueRec M fn (genExpand M F) (genGetValueRec fn M F f)

/-- the expansions `_get_value` asks for do not run out of fuel at depth `F` (true on well-formed models for
    `F > |variables|`: `Props/C10Gen.lean`) -/
def ExpandsWithin (M : RModel) (F : Nat) : Prop :=
  ∀ v eq, M.st.varDef.lookup v = some eq → expand M F (M.rhs eq.tok) ≠ .error .fuel

/-- **the closed generated `_get_value` = the hand model's `getValueAux`** at every depth, for every variable and
    dictionary: value, dictionary left behind, exception class -/
theorem genGetValueRec_eq (fn : Interp) (M : RModel) (F : Nat) (hl : odeLhsOk M = true) (hnf : ExpandsWithin M F) :
    ∀ (f v : Nat) (m : Memo), genGetValueRec fn M (F + 1) f v (enc m) = recOf (getValueAux fn M F f) v (enc m)
  | 0, _, _ => rfl
  | f + 1, v, m => by
    show RolesValue.getValueRec M fn (genExpand M (F + 1)) (genGetValueRec fn M (F + 1) f) v (enc m) = _
    rw [getValueRec_congr_ex fn M (genExpand M (F + 1)) (fun e => errClass verrClass (expand M F e)) _ v (enc m)]
    · exact getValueRec_tie_rec fn M F f v m hl _ (fun d m0 => genGetValueRec_eq fn M F hl hnf f d m0)
    · intro eq heq
      have hlk : M.st.varDef.lookup v = some eq := by
        unfold varDefItem at heq
        cases hlk : M.st.varDef.lookup v with
        | none => rw [hlk] at heq; cases heq
        | some e => rw [hlk] at heq; cases heq; rfl
      exact genExpand_eq_expand M F _ (hnf v eq hlk)

/-- the generated `get_value` over the closed generated `_get_value`, with `F` levels of stack -/
def genGetValueFuel (fn : Interp) (M : RModel) (F : Nat) (v : Nat) : Except PyErr Rat :=
  RolesValue.getValue M (genGetValueRec fn M (F + 1) F) v

/-- **the closed generated `get_value` = the hand model's `getValueFuel`** (value and exception class). Domain:
    `odeLhsOk` (from C08's invariant); every state has an initial value and the ODE-map keys are distinct (as
    `getValue_tie`); the expansions stay within the fuel. For every interpretation `fn` of the opaque terms and every
    right-hand side (no `opqFree` any more). -/
theorem genGetValueFuel_eq (fn : Interp) (M : RModel) (F v : Nat) (hl : odeLhsOk M = true)
    (hinit : ∀ s ∈ stateKeys M.st, (initOf M.st s).isSome = true) (hnd : (stateKeys M.st).Nodup)
    (hnf : ExpandsWithin M F) :
    genGetValueFuel fn M F v = errClass verrClass (getValueFuel fn M F v) := by
  cases F with
  | zero => rfl
  | succ F' =>
    have h := getValueRec_none fn M (genExpand M (F' + 2)) (genGetValueRec fn M (F' + 2) F') v hl hinit hnd
    have h2 := genGetValueRec_eq fn M (F' + 1) hl hnf (F' + 1) v (memo0 M)
    have h2' : RolesValue.getValueRec M fn (genExpand M (F' + 2)) (genGetValueRec fn M (F' + 2) F') v (enc (memo0 M))
        = recOf (getValueAux fn M (F' + 1) (F' + 1)) v (enc (memo0 M)) := h2
    rw [h2'] at h
    unfold genGetValueFuel RolesValue.getValue
    simp only [bind, Except.bind, pure, Except.pure]
    unfold getValueFuel
    simp only [recOf, dec_enc] at h
    have hunf : genGetValueRec fn M (F' + 1 + 1) (F' + 1) v none
        = RolesValue.getValueRec M fn (genExpand M (F' + 2)) (genGetValueRec fn M (F' + 2) F') v none := rfl
    rw [hunf]
    cases hg : RolesValue.getValueRec M fn (genExpand M (F' + 2)) (genGetValueRec fn M (F' + 2) F') v none with
    | error e =>
      rw [hg] at h
      cases ha : getValueAux fn M (F' + 1) (F' + 1) v (memo0 M) with
      | error e' => rw [ha] at h; simp only [Except.map] at h; cases h; rfl
      | ok p => rw [ha] at h; simp only [Except.map] at h; cases h
    | ok p =>
      rw [hg] at h
      cases ha : getValueAux fn M (F' + 1) (F' + 1) v (memo0 M) with
      | error e' => rw [ha] at h; simp only [Except.map] at h; cases h
      | ok p' =>
        rw [ha] at h
        simp only [Except.map] at h
        obtain ⟨q, m'⟩ := p'
        simp only [Except.ok.injEq] at h
        simp only [h, errClass]

end Cellml.Tie.PRolesClosed
