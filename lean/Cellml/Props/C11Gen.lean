import Cellml.Props.C11
import Cellml.Tie.PrinterSign
import Cellml.Tie.PrinterReject

/-! # C11 for the GENERATED printer

  `Props/C11.lean` states the headline theorems about the hand-written model `C11.pr` / `printDoc`. Here they are stated
  about `genPrint` / `genDoprint` (`Tie/PrinterClosed.lean`): the Lean definitions that `harness/translate_code.py`
  writes from the source text of every method of `cellmlmanip/printer.py` on each run, closed over SymPy's dispatch
  `Printer._print`. The bridge is `print_closed` (the closing induction over the per-method ties) and `addOK_of_symOK`.

  Domain: `C11.wf` (as in Props/C11.lean), plus `genDom`: every product has at least two factors (SymPy's constructor
  never builds another one; the model does not look) and no symbol name starts with `-` (`Symbol('-x')` in a sum is
  the one input on which the code and the model differ, notes/reports/TIE_Printer.md). -/

namespace Cellml.Props.C11Gen
open _root_.C11 Cellml.Tie Cellml.Tie.PPrinter Cellml.Tie.PPrinter2

/-- the extra domain conditions of the generated printer -/
def genDom (e : E) : Bool := genOK e && symOK e

/-- the bridge: on the domain, the generated printer returns the text of the model's tree -/
theorem gen_print_model (e : E) (s : Srt) (hs : s ≠ .P) (hl : isList e = false) (hw : wf s e = true)
    (hd : genDom e = true) (d : Doc) (h : printDoc e = some d) : genPrint e = .ok (flatten d) := by
  simp only [genDom, Bool.and_eq_true] at hd
  exact (print_closed e s hs hw hl hd.1 (addOK_of_symOK e s hw hd.1 hd.2) d h).1

/-- **print_groups** for the generated printer: whatever the model prints for an expression of the domain, the code
    generated from printer.py returns a string `flatten d` that Python parses to exactly the tree `d` the printer
    built: no operand regroups, no sign moves, no comparison chains. -/
theorem gen_print_groups (e : E) (s : Srt) (hs : s ≠ .P) (hl : isList e = false) (hw : wf s e = true)
    (hd : genDom e = true) (d : Doc) (h : printDoc e = some d) :
    genPrint e = .ok (flatten d) ∧ PyOK d = true :=
  ⟨gen_print_model e s hs hl hw hd d h, Cellml.Props.C11.print_groups e s hl hw d h⟩

/-- **print_means** (numbers) for the generated printer: the string it returns is the text of a tree that evaluates
    to the value of the expression, for every assignment of the symbols and every interpretation of the functions. -/
theorem gen_print_means {K : Type} [Field K] (S : Sem K) (hL : Laws S) (e : E) (hl : isList e = false)
    (hw : wf .A e = true) (hd : genDom e = true) (d : Doc) (h : printDoc e = some d) :
    genPrint e = .ok (flatten d) ∧ PyOK d = true ∧ (evD S d).num = (ev S e).num :=
  ⟨gen_print_model e .A (by decide) hl hw hd d h, Cellml.Props.C11.print_groups e .A hl hw d h,
    Cellml.Props.C11.print_means S hL e hl hw d h⟩

/-- **print_means** (truth values) for the generated printer -/
theorem gen_print_means_bool {K : Type} [Field K] (S : Sem K) (hL : Laws S) (e : E) (hl : isList e = false)
    (hw : wf .B e = true) (hd : genDom e = true) (d : Doc) (h : printDoc e = some d) :
    genPrint e = .ok (flatten d) ∧ PyOK d = true ∧ (evD S d).bool = (ev S e).bool ∧ (evD S d).num = (ev S e).num :=
  ⟨gen_print_model e .B (by decide) hl hw hd d h, Cellml.Props.C11.print_groups e .B hl hw d h,
    Cellml.Props.C11.print_means_bool S hL e hl hw d h⟩

/-- **doprint_means** for the generated `doprint`: rewriting the secondary trigonometric functions, then printing -/
theorem gen_doprint_means {K : Type} [Field K] (S : Sem K) (hL : Laws S) (hT : TrigDefs S) (e e' : E)
    (hE : isExpr e = true) (hr : rewriteTrig e = some e') (hl : isList e' = false) (hw : wf .A e' = true)
    (hd : genDom e' = true) (d : Doc) (h : printDoc e' = some d) :
    genDoprint e = .ok (flatten d) ∧ PyOK d = true ∧ (evD S d).num = (ev S e).num := by
  simp only [genDom, Bool.and_eq_true] at hd
  exact ⟨doprint_closed e e' hE hr hw hl hd.1 (addOK_of_symOK e' .A hw hd.1 hd.2) d h,
    Cellml.Props.C11.print_groups e' .A hl hw d h, Cellml.Props.C11.doprint_means S hL hT e e' hr hl hw d h⟩

/-- **print_groups**, read from the generated printer's side: whatever string the generated printer RETURNS for an
    expression of the domain inside the modelled fragment of SymPy (`(pr e).st ≠ unsup`: no empty sum, no `Rational`
    with denominator 1, no held exponent that evaluates to a constant, no coefficient arithmetic beyond integers in
    `_keep_coeff`), is the text of the tree the model built, and Python parses it to exactly that tree. -/
theorem gen_print_returns (e : E) (s : Srt) (hs : s ≠ .P) (hl : isList e = false) (hw : wf s e = true)
    (hd : genDom e = true) (hnu : (pr e).st ≠ .unsup) (str : String) (h : genPrint e = .ok str) :
    ∃ d, printDoc e = some d ∧ str = flatten d ∧ PyOK d = true := by
  simp only [genDom, Bool.and_eq_true] at hd
  obtain ⟨d, h1, h2⟩ := print_returns e s hs hw hl hd.1 (addOK_of_symOK e s hw hd.1 hd.2) hnu str h
  exact ⟨d, h1, h2, Cellml.Props.C11.print_groups e s hl hw d h1⟩

/-- **print_rejects** for the generated printer: an expression of the domain containing, anywhere the printer looks, a
    construct without a `_print_` method (`Not`, `nan`, `oo`, matrices, `Max`, …) or a function outside the name
    table makes the generated `_print` raise `ValueError` (python evaluates the operands in order; the first failing
    one raises) — and the model prints nothing. (`(pr e).st ≠ unsup`: the rest of what the printer looks at is inside
    the modelled fragment of SymPy, so that the code's behaviour on it is known.) -/
theorem gen_print_rejects (e : E) (s : Srt) (hs : s ≠ .P) (hl : isList e = false) (hw : wf s e = true)
    (hd : genDom e = true) (h : bad false e = true) (hnu : (pr e).st ≠ .unsup) :
    genPrint e = .error ⟨"ValueError"⟩ ∧ printDoc e = none := by
  simp only [genDom, Bool.and_eq_true] at hd
  have hno := (bad_rejects e false h).1
  have hv : (pr e).st = .verr := by
    rcases st_cases _ hnu with h1 | h1
    · exact absurd h1 hno
    · exact h1
  exact ⟨print_rejected e s hs hw hl hd.1 (addOK_of_symOK e s hw hd.1 hd.2) hv,
    Cellml.Props.C11.print_rejects e h⟩

/-- the same, from the model's verdict: where the model answers ValueError, the generated printer raises it -/
theorem gen_print_rejects_verr (e : E) (s : Srt) (hs : s ≠ .P) (hl : isList e = false) (hw : wf s e = true)
    (hd : genDom e = true) (hv : (pr e).st = .verr) : genPrint e = .error ⟨"ValueError"⟩ := by
  simp only [genDom, Bool.and_eq_true] at hd
  exact print_rejected e s hs hw hl hd.1 (addOK_of_symOK e s hw hd.1 hd.2) hv

/-! ## non-vacuity: the generated printer run on the concrete expressions of Props/C11.lean (kernel evaluation of the
    definitions generated from printer.py) -/

open Cellml.Props.C11 in
example : genDom sample = true ∧ wf .A sample = true := by decide +kernel
open Cellml.Props.C11 in
example : genPrint sample = .ok "x - (y + 1 / math.sqrt(x**y))" := by decide +kernel
open Cellml.Props.C11 in
/-- the three repaired families, printed by the generated code -/
example : genPrint (.pow (.pow x y) z) = .ok "(x**y)**z" := by decide +kernel
open Cellml.Props.C11 in
example : genPrint (.add (lst [x, .mul (lst [.int (-1), .add (lst [y, z])])])) = .ok "x - (y + z)" := by decide +kernel
open Cellml.Props.C11 in
example : genPrint (.mul (lst [z, .pow (.pow x (.int (-1))) (.int (-1))])) = .ok "z / (1 / x)" := by decide +kernel
open Cellml.Props.C11 in
example : genPrint (.mul (lst [.int (-2), x, .pow (.mul (lst [y, y])) (.int (-1))])) = .ok "-2 * x / (y * y)" := by
  decide +kernel
open Cellml.Props.C11 in
example : genPrint cond = .ok "x < y and (x == z or y >= 2)" := by decide +kernel
open Cellml.Props.C11 in
example : genDoprint (.mul (lst [y, .fn "sec" (lst [x])])) = .ok "y / math.cos(x)" := by decide +kernel
open Cellml.Props.C11 in
example : genPrint (.add (lst [x, .fn "gamma" (lst [y])])) = .error ⟨"ValueError"⟩ ∧
    bad false (.add (lst [x, .fn "gamma" (lst [y])])) = true ∧
    (pr (.add (lst [x, .fn "gamma" (lst [y])]))).st = .verr := by decide +kernel
open Cellml.Props.C11 in
/-- a Piecewise is read up to its first `True` condition only -/
example : genPrint (.pw (.cons (.pair x .tt) (.cons (.pair (.other "Matrix") (.other "Not")) .nil))) = .ok "(x)" := by
  decide +kernel
open Cellml.Props.C11 in
/-- the input on which code and model differ (outside `genDom`): the generated code does what python does -/
example : genPrint (.add (lst [y, .sym "-x" true])) = .ok "y - x" ∧
    printStr (.add (lst [y, .sym "-x" true])) = some "y + -x" ∧ genDom (.add (lst [y, .sym "-x" true])) = false := by
  decide +kernel

end Cellml.Props.C11Gen
