import Cellml.Props.C14
import Cellml.Tie.Transpile
import Cellml.Tie.NumPipe

set_option linter.unusedSimpArgs false
set_option linter.unusedVariables false

/-! # C14 — the headline theorems of `Props/C14.lean`, stated about the code GENERATED from `_cn_handler`

    The only python function of the C14 pipeline that is under a source tie is `Transpiler._cn_handler`
    (`Gen.Transpile.cnHandlerText`, read with `cnViewC14`: a python float is its binary64 bit pattern, the leaf
    `float(text)` is `C14.decToBitsL`, `int(text)` is `C14.parseIntL`, `'%d'` is `C14.renderInt`, the number
    generator stores the float object). `genCn n` is that generated definition on the lxml element `n`.

    * `round_nearest_gen`      — what the generated handler returns for a plain `<cn>` is a nearest double of the exact
                                 value of the text, within half a unit, even on ties (all three parts of `round_nearest`,
                                 instantiated where the generated code can reach them: at decimal literals `m·10^k`);
    * `enotation_single_gen`   — the generated handler on `m<sep/>e` is ONE rounding of `mantissa × 10^z`;
    * `pipeline_id_partial_gen`— `genPipeline` (= `C14.pipeline` with the two `<cn>` sources read by the generated
                                 handler) is the identity on every finite literal except `-0.0`;
    * `widen_narrow_id_gen`    — every finite non-zero double the generated handler returns survives
                                 `float(q.evalf(FLOAT_PRECISION))`; the hypothesis `b < 2^64` of the original is PROVED
                                 from "the generated handler returned `b`" (`genCn_lt`).

    No tie used here carries a domain hypothesis. Sections 2-5 (second wave) have generated code for the FIRST stage only.
    Section 6 (`Tie/NumPipe.lean`) composes the generated definitions of ALL stages in the order the code runs them —
    `_cn_handler` / `Variable.__init__` + `transform_constants`, `create_quantity` (`Quantity.__new__`, `__init__`),
    `Quantity.__float__`, `_get_value`, `graph_with_sympy_numbers` (`_eval_evalf` at the generated `FLOAT_PRECISION`),
    `_print_Float` / `_print_float` — into `genObserve`, proves `genObserve = C14.pipeline` for EVERY source and every
    reading of the leaves without a model (`genObserve_eq`), and restates `pipeline_id_partial`, `widen_narrow_id`,
    `enotation_single`, `generated_code_bits` over it (`…_whole`). -/

namespace Cellml.Props.C14Gen
open _root_.C14 Cellml.Tie Cellml.Tie.PTranspile Cellml.Gen

/-- the definition generated from `Transpiler._cn_handler`, C14 reading, on an lxml `<cn>` element -/
abbrev genCn (n : CnNode) : Except PyErr Nat := Transpile.cnHandlerText cnViewC14 n

theorem optToExcept_ok {α} (cls : String) (o : Option α) (a : α) : optToExcept cls o = .ok a ↔ o = some a := by
  cases o <;> simp [optToExcept]

theorem parseDecL_strip (cs : List Char) : parseDecL (strip cs) = parseDecL cs := by
  unfold parseDecL; rw [strip14_strip]

/-! ## 2. `round_nearest` -/

/-- **round_nearest (generated code).** For every plain `<cn>` whose text is a finite decimal literal `±m·10^k`
    (blanks around it allowed; any children, any units) and whose rounding does not overflow, the generated
    `_cn_handler` returns a bit pattern `b` with the sign of the text whose magnitude is the ONE rounding
    `ratToBits (m·10^k)` and is (a) at least as close to `m·10^k` as every finite double, (b) within half a unit of the
    spacing, (c) even in the last bit on an exact tie. -/
theorem round_nearest_gen (t : List Char) (kids : List (Bool × Option String)) (u : Option String)
    (neg : Bool) (m : Nat) (k : Int) (hp : parseDecL t = some (neg, m, k))
    (hfin : ratToBits (Cellml.Props.C14.decNum m k) (Cellml.Props.C14.decDen k) < infBits) :
    let num := Cellml.Props.C14.decNum m k
    let den := Cellml.Props.C14.decDen k
    ∃ b, genCn ⟨none, some (String.ofList t), kids, u⟩ = .ok b ∧ magOf b = ratToBits num den ∧ isNeg b = neg ∧
      (∀ c, c < infBits →
        dist (num * 2 ^ 1074) (scaledOfBits (magOf b) * den) ≤ dist (num * 2 ^ 1074) (scaledOfBits c * den)) ∧
      2 * dist (num * 2 ^ 1074) (scaledOfBits (magOf b) * den) ≤ den * 2 ^ spacing (num * 2 ^ 1074) den ∧
      (2 * ((num * 2 ^ 1074) % (den * 2 ^ spacing (num * 2 ^ 1074) den)) = den * 2 ^ spacing (num * 2 ^ 1074) den →
        magOf b % 2 = 0) := by
  intro num den
  have hfin' : decMag m k < infBits := by rw [Cellml.Props.C14.decMag_eq]; exact hfin
  obtain ⟨b, hb, hmag, hneg, hnear⟩ :=
    Cellml.Props.C14.round_nearest_text (strip t) neg m k (by rw [parseDecL_strip]; exact hp) hfin'
  have hmag' : magOf b = ratToBits num den := by rw [hmag, Cellml.Props.C14.decMag_eq]
  have hrn := Cellml.Props.C14.round_nearest num den (Cellml.Props.C14.decDen_pos k) hfin
  refine ⟨b, ?_, hmag', hneg, hnear, ?_, ?_⟩
  · unfold genCn; rw [cnHandlerText_plain_tie, optToExcept_ok]
    simpa [cnPlain, String.toList_ofList] using hb
  · rw [hmag']; exact hrn.2.1
  · rw [hmag']; exact hrn.2.2

/-- non-vacuity: `<cn> 0.1 </cn>` -/
example : genCn ⟨none, some " 0.1 ", [], none⟩ = .ok 0x3FB999999999999A := by
  unfold genCn; rw [cnHandlerText_plain_tie, optToExcept_ok]; decide +kernel

/-! ## 5. `enotation_single` -/

/-- **enotation_single (generated code).** For every mantissa and every exponent text python's `int()` reads as `z`,
    the generated `_cn_handler` on `<cn type="e-notation">mant<sep/>expo</cn>` returns the double nearest to the EXACT
    product `mantissa × 10^z`: one `decMag`, i.e. one rounding. The format string `'%se%d'` and the single `float(…)`
    are in the generated text. -/
theorem enotation_single_gen (m : Mantissa) (mant expo : List Char) (z : Int) (u : Option String)
    (hm : strip mant = m.chars) (he : parseIntL expo = some z) :
    genCn ⟨some "e-notation", some (String.ofList mant), [(true, some (String.ofList expo))], u⟩ =
      .ok (withSign m.sign.neg (decMag m.digits (z - (m.fp.length : Int)))) := by
  unfold genCn; rw [cnHandlerText_enotation_tie, optToExcept_ok]
  simpa [String.toList_ofList] using Cellml.Props.C14.enotation_single m mant expo z hm he

/-- the concrete instance of `Props/C14.lean` (`-12.5<sep/>+07`) on the generated code -/
example : genCn ⟨some "e-notation", some " -12.5 ", [(true, some " +07 ")], none⟩ = .ok 0xC19DCD6500000000 := by
  unfold genCn; rw [cnHandlerText_enotation_tie, optToExcept_ok]; decide +kernel

/-- **contrast** on the generated code: `0.14<sep/>1` is `1.4`, not the twice-rounded product -/
theorem two_step_differs_gen :
    genCn ⟨some "e-notation", some "0.14", [(true, some "1")], none⟩ = .ok 0x3FF6666666666666 ∧
    twoStep "0.14".toList 1 = some 0x3FF6666666666667 := by
  refine ⟨?_, Cellml.Props.C14.two_step_differs.2⟩
  unfold genCn; rw [cnHandlerText_enotation_tie, optToExcept_ok]; exact Cellml.Props.C14.two_step_differs.1

/-! ## 4. `pipeline_id` -/

/-- `C14.sourceBits` with the two `<cn>` sources read by the GENERATED `_cn_handler` on the element of the literal
    (`cnNodeOf`); `initial_value` does not go through the transpiler (`float(initial_value)` in model.py — model) -/
def genSourceBits (s : Source) : Option Nat :=
  match cnNodeOf s with
  | some n => (genCn n).toOption
  | none => sourceBits s

/-- `C14.pipeline` over `genSourceBits` -/
def genPipeline (s : Source) : Option Observed :=
  (genSourceBits s).map fun b =>
    { quantity := quantityValue b, getValue := getValue (quantityValue b), stripped := strippedValue (quantityValue b) }

theorem genSourceBits_eq (s : Source) : genSourceBits s = sourceBits s := by
  unfold genSourceBits
  cases hn : cnNodeOf s with
  | none => rfl
  | some n =>
    simp only [genCn, cn_sourceBits_tie s n hn]
    cases sourceBits s <;> rfl

theorem genPipeline_eq (s : Source) : genPipeline s = pipeline s := by
  unfold genPipeline pipeline; rw [genSourceBits_eq]

/-- every source is ONE call of the text → double conversion on ONE text -/
theorem source_is_one_parse_gen (s : Source) : genSourceBits s = (sourceText s).bind decToBitsL := by
  rw [genSourceBits_eq]; exact Cellml.Props.C14.source_is_one_parse s

/-- **pipeline_id (generated code; `_partial` as the original: all literals except those whose nearest double is
    `-0.0`).** For every way of writing a number whose nearest double `b` — as returned by the generated `_cn_handler`
    for the two `<cn>` forms — is finite and not the negative zero, every stage returns `b`. -/
theorem pipeline_id_partial_gen (s : Source) (b : Nat) (h : genSourceBits s = some b)
    (hfin : isFiniteBits b = true) (hnz : b ≠ signBit) :
    genPipeline s = some { quantity := b, getValue := b, stripped := b } := by
  rw [genPipeline_eq]
  exact Cellml.Props.C14.pipeline_id_partial s b (by rw [← genSourceBits_eq]; exact h) hfin hnz

/-- the same, said directly of the element: whatever finite `b ≠ -0.0` the generated handler returns on the element of
    a `<cn>` literal is what `Quantity`, `get_value` and the unit-stripped equation hold -/
theorem pipeline_id_partial_cn_gen (s : Source) (n : CnNode) (hn : cnNodeOf s = some n) (b : Nat)
    (h : genCn n = .ok b) (hfin : isFiniteBits b = true) (hnz : b ≠ signBit) :
    pipeline s = some { quantity := b, getValue := b, stripped := b } := by
  refine Cellml.Props.C14.pipeline_id_partial s b ?_ hfin hnz
  have := cn_sourceBits_tie s n hn
  unfold genCn at h
  rw [h] at this
  exact ((optToExcept_ok _ _ _).1 this.symm)

/-- the excluded case is real on the generated code too (known finding `negative-zero-sign-lost`) -/
theorem pipeline_negzero_sign_lost_gen :
    genCn ⟨none, some "-0.0", [], none⟩ = .ok signBit ∧
    genPipeline (.plain "-0.0".toList) = some { quantity := signBit, getValue := signBit, stripped := 0 } := by
  refine ⟨?_, ?_⟩
  · unfold genCn; rw [cnHandlerText_plain_tie, optToExcept_ok]; exact Cellml.Props.C14.pipeline_negzero_sign_lost.1
  · rw [genPipeline_eq]; exact Cellml.Props.C14.pipeline_negzero_sign_lost.2

/-! ## 3. `widen_narrow_id` -/

theorem bind_ok {α β} (x : Except PyErr α) (f : α → Except PyErr β) (b : β) (h : x.bind f = .ok b) :
    ∃ a, x = .ok a ∧ f a = .ok b := by
  cases x with
  | error e => simp [Except.bind] at h
  | ok a => exact ⟨a, rfl, h⟩

/-- for EVERY reading of the leaves (`self`): whatever the generated `_cn_handler` returns is the number generator
    applied to a result of the leaf `float(…)` — every returning path of the source goes through one `float` call -/
theorem cnHandlerText_float {F R : Type} (self : CnView F R) (n : CnNode) (r : R)
    (h : Transpile.cnHandlerText self n = .ok r) :
    ∃ s f, self.float s = .ok f ∧ self.numberGenerator f n.units = .ok r := by
  unfold Transpile.cnHandlerText at h
  simp only [bind, pure, Except.pure, throw, throwThe, MonadExceptOf.throw] at h
  obtain ⟨f, hf, hg⟩ := bind_ok _ _ _ h
  have : ∃ s, self.float s = .ok f := by
    split at hf
    · obtain ⟨a, _, hf⟩ := bind_ok _ _ _ hf
      split at hf
      · obtain ⟨b, _, hf⟩ := bind_ok _ _ _ hf
        split at hf
        · obtain ⟨m, _, hf⟩ := bind_ok _ _ _ hf
          obtain ⟨c, _, hf⟩ := bind_ok _ _ _ hf
          obtain ⟨t, _, hf⟩ := bind_ok _ _ _ hf
          obtain ⟨e, _, hf⟩ := bind_ok _ _ _ hf
          exact ⟨_, hf⟩
        · cases hf
      · cases hf
    · obtain ⟨s, _, hf⟩ := bind_ok _ _ _ hf
      exact ⟨s, hf⟩
  obtain ⟨s, hs⟩ := this
  exact ⟨s, f, hs, hg⟩

/-- whatever the generated `_cn_handler` returns, on ANY element, is a 64-bit pattern -/
theorem genCn_lt (n : CnNode) (b : Nat) (h : genCn n = .ok b) : b < 2 ^ 64 := by
  obtain ⟨s, f, hs, hg⟩ := cnHandlerText_float cnViewC14 n b h
  have hs' : optToExcept "ValueError" (decToBitsL s.toList) = .ok f := hs
  have hg' : (Except.ok (quantityValue f) : Except PyErr Nat) = .ok b := hg
  injection hg' with hg'
  rw [optToExcept_ok] at hs'
  rw [← hg']
  exact Cellml.Props.C14.decToBitsL_lt _ f hs'

/-- **widen_narrow_id (generated code).** Every finite non-zero double `b` the generated `_cn_handler` returns — on any
    element — is unchanged by `float(quantity.evalf(FLOAT_PRECISION))` (generated constant `Gen.floatPrecision`). The
    original's hypothesis `b < 2^64` is not assumed: it follows from `b` being a result of the generated code. -/
theorem widen_narrow_id_gen (n : CnNode) (b : Nat) (h : genCn n = .ok b) (hfin : isFiniteBits b = true)
    (hnz : magOf b ≠ 0) : strippedValue b = b :=
  Cellml.Props.C14.widen_narrow_id b (genCn_lt n b h) hfin hnz

/-! ## 6. the WHOLE pipeline, every stage by generated code -/

section Whole
open Cellml.Tie.PNumPipe Cellml.Gen.NumPipe

/-- **loading**: the model after a document whose only number is the literal `s` has been loaded, every step that
    touches the number by generated code.
    * `initial_value="t"`: `Variable.__init__` (its `float(initial_value)`), then `transform_constants`
      (`create_quantity(var.initial_value, var.units)`, the equation `x = q`);
    * `<cn>`: `_cn_handler` (`genCn`), then the parser's number generator `create_quantity(number, get_unit(units))`;
      `add_equation(Eq(x, q))` records the definition (leaf).
    `u` is the Unit object of the literal, `v` any reading of the model-less leaves. -/
def genLoad (v : PView) (u : String) (s : Source) : Except PyErr NModel :=
  match s with
  | .initial t =>
    (variableInit { id := 0 } (some "x") (some (.unit u)) none (some (.str (String.ofList t))) none none (some 0)
      none).bind fun x => transformConstants v { vars := [x] }
  | s =>
    (match cnNodeOf s with
      | some n => genCn n
      | none => .error ⟨"unreachable"⟩).bind fun b =>
    (createQuantity v (.flt b) (.unit u)).bind fun q =>
    .ok { vars := [{ id := 0 }], defs := [(0, ⟨0, [.qty q]⟩)] }

/-- `Model.graph` (leaf; tied for C09): one node per defining equation -/
def graphOf (m : NModel) : NGraph := ⟨m.defs.map fun p => (p.1, some ⟨p.1, p.2⟩), []⟩

/-- **observing** variable 0 of a loaded model, in the order the code runs: `float(quantity)` (generated
    `Quantity.__float__`), `get_value` (generated `get_value` / `_get_value` / `expand_derivatives`),
    the unit-stripped equation (generated `graph_with_sympy_numbers`: `_eval_evalf` at the generated `FLOAT_PRECISION`)
    read back with `float()` as the generated `_print_Float` does -/
def genObserveModel (m : NModel) : Except PyErr Observed :=
  (varDefItem m 0).bind fun rhs =>
  (floatExpr quantityFloat rhs).bind fun quantity =>
  (NumPipe.getValue m (getValueRec m (expandDerivatives m .ok) fun _ _ => .error ⟨"outside: recursive call"⟩) 0).bind
    fun gv =>
  (graphWithSympyNumbers { m with graph := .ok (graphOf m) } none).bind fun gc =>
  (nodeEquation gc.1 0).bind fun eq =>
  (floatExpr quantityFloat (theEq eq).rhs).bind fun stripped =>
  .ok { quantity := quantity, getValue := gv, stripped := stripped }

/-- the composed generated pipeline -/
def genObserve (v : PView) (u : String) (s : Source) : Except PyErr Observed :=
  (genLoad v u s).bind genObserveModel

/-- a model whose variable 0 is defined by a Quantity holding the double `b` is observed as the model stages say -/
theorem genObserveModel_eq (m : NModel) (q : QObj) (b : Nat) (hd : m.defs = [(0, ⟨0, [.qty q]⟩)]) (ho : m.odes = [])
    (hq : q._value = some (.flt b)) :
    genObserveModel m = .ok { quantity := quantityValue b, getValue := C14.getValue (quantityValue b),
                              stripped := strippedValue (quantityValue b) } := by
  have hvd : varDefItem m 0 = .ok ⟨0, [.qty q]⟩ := by simp [varDefItem, hd]
  have hok : (0 : Nat) ∉ odeKeys m := by simp [odeKeys, ho]
  have hgv := (getValue_tie m .ok (fun _ _ => .error ⟨"outside: recursive call"⟩) 0 b).2 q hok hvd hq
  obtain ⟨sn, hgn, _, hfl⟩ := graphNum_single { m with graph := .ok (graphOf m) } 0 q b
    (by simp [graphOf, hd, graph1]) hq
  unfold genObserveModel
  rw [hvd]
  simp only [Except.bind, floatExpr, quantityFloat_tie q b hq, hgv, hgn, nodeEquation, List.find?_cons,
    beq_self_eq_true, theEq, Option.getD_some, hfl]

theorem genLoad_eq (v : PView) (u : String) (s : Source) :
    (∀ b, sourceBits s = some b → ∃ m q, genLoad v u s = .ok m ∧ m.defs = [(0, ⟨0, [.qty q]⟩)] ∧ m.odes = [] ∧
      q._value = some (.flt b)) ∧
    (sourceBits s = none → genLoad v u s = .error ⟨"ValueError"⟩) := by
  cases s with
  | initial t =>
    constructor
    · intro b hb
      have hb' : initialValue t = some b := hb
      simp only [genLoad]
      rw [variableInit_tie]
      simp only [pyFloat, String.toList_ofList]
      have : decToBitsL t = some b := hb'
      simp only [this, Except.bind, someFlt]
      exact transformConstants_single v _ b u rfl rfl
    · intro hb
      have : decToBitsL t = none := hb
      simp only [genLoad]
      rw [variableInit_tie]
      simp only [pyFloat, String.toList_ofList, this, Except.bind]
  | plain t =>
    constructor
    · intro b hb
      unfold genLoad
      simp only [cnNodeOf, genCn, cn_sourceBits_tie (.plain t) _ rfl, hb, optToExcept, Except.bind]
      obtain ⟨q, hq⟩ := createQuantity_unit_ok v (.flt b) u
      rw [hq]
      exact ⟨_, q, rfl, rfl, rfl, createQuantity_value _ _ _ _ hq⟩
    · intro hb
      unfold genLoad
      simp only [cnNodeOf, genCn, cn_sourceBits_tie (.plain t) _ rfl, hb, optToExcept, Except.bind]
  | enotation mt e =>
    constructor
    · intro b hb
      unfold genLoad
      simp only [cnNodeOf, genCn, cn_sourceBits_tie (.enotation mt e) _ rfl, hb, optToExcept, Except.bind]
      obtain ⟨q, hq⟩ := createQuantity_unit_ok v (.flt b) u
      rw [hq]
      exact ⟨_, q, rfl, rfl, rfl, createQuantity_value _ _ _ _ hq⟩
    · intro hb
      unfold genLoad
      simp only [cnNodeOf, genCn, cn_sourceBits_tie (.enotation mt e) _ rfl, hb, optToExcept, Except.bind]

/-- **the generated stages, composed in the order the code runs them, ARE `C14.pipeline`** — for every way of writing a
    number (also texts that are no number: ValueError), every Unit, every reading of `'{:g}'`, `repr`, the Dummy counter
    and the unit look-up. No domain hypothesis. -/
theorem genObserve_eq (v : PView) (u : String) (s : Source) :
    genObserve v u s = optToExcept "ValueError" (pipeline s) := by
  unfold genObserve pipeline
  cases hb : sourceBits s with
  | none => rw [(genLoad_eq v u s).2 hb]; rfl
  | some b =>
    obtain ⟨m, q, hm, hd, ho, hq⟩ := (genLoad_eq v u s).1 b hb
    rw [hm]
    simp only [Except.bind, genObserveModel_eq m q b hd ho hq, Option.map_some, optToExcept, quantityValue]

/-- **pipeline_id_partial (whole generated pipeline; `_partial` as the original: every literal except those whose
    nearest double is `-0.0`).** If the generated pipeline observes anything of a literal whose nearest double `b` is
    finite and not the negative zero, then `float(quantity)`, `get_value` and the unit-stripped equation all hold `b`. -/
theorem pipeline_id_partial_whole (v : PView) (u : String) (s : Source) (b : Nat) (h : sourceBits s = some b)
    (hfin : isFiniteBits b = true) (hnz : b ≠ signBit) :
    genObserve v u s = .ok { quantity := b, getValue := b, stripped := b } := by
  rw [genObserve_eq, Cellml.Props.C14.pipeline_id_partial s b h hfin hnz]; rfl

/-- the same with the hypothesis on the generated code only: whatever the generated pipeline returns for a literal is
    three times the same finite double, unless that double is `-0.0` -/
theorem pipeline_id_partial_whole' (v : PView) (u : String) (s : Source) (o : Observed)
    (h : genObserve v u s = .ok o) (hfin : isFiniteBits o.quantity = true) (hnz : o.quantity ≠ signBit) :
    o.getValue = o.quantity ∧ o.stripped = o.quantity := by
  rw [genObserve_eq] at h
  cases hb : sourceBits s with
  | none => simp [pipeline, hb, optToExcept] at h
  | some b =>
    have hq := Cellml.Props.C14.pipeline_quantity_id s b hb
    obtain ⟨o', ho', hq1, hq2⟩ := hq
    rw [ho'] at h
    simp only [optToExcept, Except.ok.injEq] at h
    subst h
    rw [hq1] at hfin hnz
    have := Cellml.Props.C14.pipeline_id_partial s b hb hfin hnz
    rw [ho'] at this
    simp only [Option.some.injEq] at this
    subst this
    exact ⟨rfl, rfl⟩

/-- the excluded case is real on the whole generated pipeline (known finding `negative-zero-sign-lost`) -/
theorem pipeline_negzero_sign_lost_whole (v : PView) (u : String) :
    genObserve v u (.plain "-0.0".toList) = .ok { quantity := signBit, getValue := signBit, stripped := 0 } := by
  rw [genObserve_eq, Cellml.Props.C14.pipeline_negzero_sign_lost.2]; rfl

/-- **widen_narrow_id (whole generated pipeline).** The stage `float(q.evalf(FLOAT_PRECISION))` as the generated code
    runs it — `create_quantity` makes `q` from a double `b`, `graph_with_sympy_numbers` calls `evalf` on it with the
    generated `FLOAT_PRECISION`, which calls the generated `_eval_evalf`, `_print_Float` takes `float()` — returns `b`,
    bit for bit, for every finite non-zero double. -/
theorem widen_narrow_id_whole (v : PView) (u : UArg) (b : Nat) (hb : b < 2 ^ 64) (hfin : isFiniteBits b = true)
    (hnz : magOf b ≠ 0) (q : QObj) (hq : createQuantity v (.flt b) u = .ok q) :
    ∃ s, sympyEvalf (quantityEvalEvalf q) Cellml.Gen.floatPrecision = .ok s ∧ floatOfSNum s = b ∧
      printFloatS v s = .ok (v.reprF b) := by
  obtain ⟨s, hs, hfl⟩ := stripped_tie q b (createQuantity_value _ _ _ _ hq)
  have : floatOfSNum s = b := by
    rw [hfl]; exact Cellml.Props.C14.widen_narrow_id b hb hfin hnz
  exact ⟨s, hs, this, by rw [printFloatS_tie, this]⟩

/-- **enotation_single (whole generated pipeline).** For `m<sep/>e` the Quantity, `get_value` and the stripped equation
    all hold ONE rounding of `mantissa × 10^z` (when it is finite and not `-0.0`). -/
theorem enotation_single_whole (v : PView) (u : String) (m : Mantissa) (mant expo : List Char) (z : Int)
    (hm : strip mant = m.chars) (he : parseIntL expo = some z)
    (hfin : isFiniteBits (withSign m.sign.neg (decMag m.digits (z - (m.fp.length : Int)))) = true)
    (hnz : withSign m.sign.neg (decMag m.digits (z - (m.fp.length : Int))) ≠ signBit) :
    let b := withSign m.sign.neg (decMag m.digits (z - (m.fp.length : Int)))
    genObserve v u (.enotation mant expo) = .ok { quantity := b, getValue := b, stripped := b } := by
  intro b
  exact pipeline_id_partial_whole v u _ b (Cellml.Props.C14.enotation_single m mant expo z hm he) hfin hnz

/-- **generated_code_bits (whole generated pipeline).** The text the generated printer (`_print_Float` →
    `_print_float`) emits for the stripped number of a literal denotes the double of the source text, for every reading
    of `str(float)` that `float()` reads back (`ReprOK`; `repr` is one). -/
theorem generated_code_bits_whole (v : PView) (hv : ReprOK v) (u : String) (s : Source) (b : Nat)
    (h : sourceBits s = some b) (hfin : isFiniteBits b = true) (hnz : b ≠ signBit) :
    ∃ o text, genObserve v u s = .ok o ∧ printFloat v o.stripped = .ok text ∧
      decToBitsL text.toList = sourceBits s := by
  refine ⟨_, v.reprF b, pipeline_id_partial_whole v u s b h hfin hnz, rfl, ?_⟩
  rw [h]
  exact hv b hfin (Cellml.Props.C14.sourceBits_lt s b h)

/-- non-vacuity of `ReprOK` is a fact about CPython's `repr` (the leaf); of the rest: `<cn> 0.1 </cn>` -/
example (v : PView) : genObserve v "mV" (.plain " 0.1 ".toList)
    = .ok { quantity := 0x3FB999999999999A, getValue := 0x3FB999999999999A, stripped := 0x3FB999999999999A } := by
  rw [genObserve_eq]; decide +kernel

example (v : PView) : genObserve v "mV" (.initial "4.9e-324".toList) = .ok { quantity := 1, getValue := 1, stripped := 1 } := by
  rw [genObserve_eq]; decide +kernel

example (v : PView) : genObserve v "mV" (.plain "1e".toList) = .error ⟨"ValueError"⟩ := by
  rw [genObserve_eq]; decide +kernel

end Whole

end Cellml.Props.C14Gen
