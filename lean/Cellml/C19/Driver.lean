import Cellml.Basic.Sexp
/-! Channel C19 of the model driver (stub: not built yet). -/
namespace C19
def handle (_args : List Sexp) : Sexp := .atom "not-implemented"
end C19
