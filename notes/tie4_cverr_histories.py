"""Concrete histories (public API only unless said otherwise) in which `Model.convert_variable` RAISES, with the state
the model is left in. Run: CELLML_REPO=/repo PYTHONPATH=/repo /venv/bin/python notes/tie4_cverr_histories.py"""
import sympy
from cellmlmanip.model import Model, DataDirectionFlow as D


def snap(m):
    return {'vars': [(v.name, v.initial_value, v._cmeta_id) for v in m.variables()],
            'eqs': [str(e) for e in m.equations],
            'odes': sorted(str(k) for k in m._ode_definition_map),
            'defs': sorted(str(k) for k in m._var_definition_map)}


def show(title, m, call):
    before = snap(m)
    try:
        call()
        out = 'returned'
    except Exception as e:      # noqa
        out = type(e).__name__ + ': ' + str(e)[:70]
    after = snap(m)
    print('==', title)
    print('   outcome :', out)
    print('   atomic  :', before == after)
    if before != after:
        for k in before:
            if before[k] != after[k]:
                print('   %-5s before: %s' % (k, before[k]))
                print('   %-5s after : %s' % (k, after[k]))
    return out, before == after


def two_free():
    m = Model('m')
    s = m.units.get_unit('second')
    ms = m.units.add_unit('ms', 'second / 1000')
    mV = m.units.add_unit('mV', 'volt / 1000')
    t = m.add_variable('t', s)
    tau = m.add_variable('tau', s)
    x = m.add_variable('x', mV, initial_value=1.0)
    y = m.add_variable('y', mV, initial_value=2.0)
    m.add_equation(sympy.Eq(sympy.Derivative(x, t), m.create_quantity(1.0, mV / s)))
    m.add_equation(sympy.Eq(sympy.Derivative(y, tau), m.create_quantity(1.0, mV / s)))
    return m, t, ms


# H1: two ODEs with different bound variables (add_equation accepts that); convert the free variable (= bound variable
#     of the FIRST ode): the loop converts dx/dt, then the assert on dy/dtau fails
m, t, ms = two_free()
show('H1 two bound variables, convert_variable(t, ms, INPUT)', m, lambda: m.convert_variable(t, ms, D.INPUT))

# H2: the same model, OUTPUT: no loop, returns
m, t, ms = two_free()
show('H2 two bound variables, convert_variable(t, ms, OUTPUT)', m, lambda: m.convert_variable(t, ms, D.OUTPUT))

# H3: incompatible units: DimensionalityError before anything is touched
m, t, ms = two_free()
show('H3 convert_variable(t, mV, INPUT)', m, lambda: m.convert_variable(t, m.units.get_unit('mV'), D.INPUT))

# H4: a variable of another model: first assert
m, t, ms = two_free()
m2 = Model('n')
ghost = m2.add_variable('ghost', m2.units.get_unit('second'))
show('H4 variable not in the model', m, lambda: m.convert_variable(ghost, ms, D.INPUT))

# H5 (private state poked, TIE2_GenD): equations list cleared, definition maps left
m, t, ms = two_free()
m.equations.clear()
x = m.get_variable_by_name('x')
show('H5 m.equations.clear(); convert_variable(x, volt, INPUT)', m,
     lambda: m.convert_variable(x, m.units.get_unit('volt'), D.INPUT))

# ---- the four mutating calls `convert_variable` is made of: class and state left behind when THEY raise
# (the leaves of the stopping hand model `Model.CVE.addVariable / addEq / removeEq / transferCmeta`)
m, t, ms = two_free()
x = m.get_variable_by_name('x')
show('P1 add_variable of an existing name', m, lambda: m.add_variable('x', ms))
show('P2 add_equation of a second definition (check_duplicates=True)', m,
     lambda: m.add_equation(sympy.Eq(x, m.create_quantity(1.0, x.units))))
show('P3 remove_equation of an equation that is not in the model', m,
     lambda: m.remove_equation(sympy.Eq(x, m.create_quantity(1.0, x.units))))
show('P4 transfer_cmeta_id without a cmeta id', m, lambda: m.transfer_cmeta_id(x, t))
# private state poked: the equation is in the list but not filed in its dict -> the list has already lost it
ode = m.equations[0]
del m._ode_definition_map[x]
show('P5 (poked) remove_equation of an equation in the list that is not filed', m, lambda: m.remove_equation(ode))
