import Cellml.C11.SemMain3
import Cellml.C11.Rewrite

/-! C11 — the rewriting of the secondary trigonometric functions preserves the meaning, given their definitions. -/
namespace C11
set_option linter.unusedSimpArgs false
variable {K : Type} [Field K] (S : Sem K)

/-- the definitions of the secondary functions: sec = 1/cos, …; asec(v) = acos(1/v), … -/
structure TrigDefs (S : Sem K) : Prop where
  recip_def : ∀ f g, extraTrig f = some ("recip", g) → ∀ v, S.symFn f [v] = S.powK (S.symFn g [v]) (-1)
  ofRecip_def : ∀ f g, extraTrig f = some ("ofRecip", g) → ∀ v, S.symFn f [v] = S.symFn g [S.powK v (-1)]

theorem m1_cast : (((-1 : Int)) : K) = -1 := by push_cast; rfl

theorem recipE_sem (hL : Laws S) (a r : E) (h : recipE a = some r) : (ev S r).num = S.powK (ev S a).num (-1) := by
  unfold recipE at h
  split at h
  next b =>
    split at h
    · simp at h; subst h
      simp only [ev, m1_cast, hL.pow_neg, hL.pow_one, inv_inv]
    · simp at h
  all_goals first | (simp at h; done) | (simp at h; subst h; simp only [ev, m1_cast])

theorem rewriteFn_sem (hL : Laws S) (hT : TrigDefs S) (name : String) (args e' : E)
    (h : rewriteFn name args = some e') : (ev S e').num = (ev S (.fn name args)).num := by
  unfold rewriteFn at h
  split at h
  next k g a hk =>
    split at h
    next hr =>
      simp at h; subst h
      have hk' : k = "recip" := by simpa using hr
      subst hk'
      simp only [ev, m1_cast, hT.recip_def name g hk]
    next hr =>
      split at h
      next ho =>
        have hk' : k = "ofRecip" := by simpa using ho
        subst hk'
        simp only [Option.map_eq_some_iff] at h
        obtain ⟨r, hr', rfl⟩ := h
        simp only [ev, hT.ofRecip_def name g hk, recipE_sem S hL a r hr']
      · simp at h
  · simp at h
  · simp at h; subst h; rfl

def Veq (a b : V K) : Prop := a.num = b.num ∧ a.bool = b.bool ∧ a.nums = b.nums ∧ a.bools = b.bools

theorem rewriteFn_kind (name : String) (args e' : E) (h : rewriteFn name args = some e') :
    (∃ b x, e' = .pow b x) ∨ (∃ n a, e' = .fn n a) := by
  unfold rewriteFn at h
  split at h
  · split at h
    · simp at h; subst h; exact Or.inl ⟨_, _, rfl⟩
    · split at h
      · simp only [Option.map_eq_some_iff] at h
        obtain ⟨r, _, rfl⟩ := h; exact Or.inr ⟨_, _, rfl⟩
      · simp at h
  · simp at h
  · simp at h; subst h; exact Or.inr ⟨_, _, rfl⟩

/-- **rewriting preserves meaning**: with sec = 1/cos, …, asec(v) = acos(1/v), … the tree handed to the printer means
    what the original expression means -/
theorem rewriteTrig_sem (hL : Laws S) (hT : TrigDefs S) (e : E) :
    ∀ e', rewriteTrig e = some e' → Veq (ev S e') (ev S e) := by
  induction e with
  | add a ih =>
      intro e' h; simp only [rewriteTrig, Option.map_eq_some_iff] at h
      obtain ⟨a', ha, rfl⟩ := h; have := ih a' ha
      exact ⟨by simp only [ev, this.2.2.1], rfl, rfl, rfl⟩
  | mul a ih =>
      intro e' h; simp only [rewriteTrig, Option.map_eq_some_iff] at h
      obtain ⟨a', ha, rfl⟩ := h; have := ih a' ha
      exact ⟨by simp only [ev, this.2.2.1], rfl, rfl, rfl⟩
  | and a ih =>
      intro e' h; simp only [rewriteTrig, Option.map_eq_some_iff] at h
      obtain ⟨a', ha, rfl⟩ := h; have := ih a' ha
      exact ⟨by simp only [ev, this.2.2.2], by simp only [ev, this.2.2.2], rfl, rfl⟩
  | or a ih =>
      intro e' h; simp only [rewriteTrig, Option.map_eq_some_iff] at h
      obtain ⟨a', ha, rfl⟩ := h; have := ih a' ha
      exact ⟨by simp only [ev, this.2.2.2], by simp only [ev, this.2.2.2], rfl, rfl⟩
  | pw a ih =>
      intro e' h; simp only [rewriteTrig, Option.map_eq_some_iff] at h
      obtain ⟨a', ha, rfl⟩ := h; have := ih a' ha
      exact ⟨by simp only [ev, this.2.2.1, this.2.2.2], rfl, rfl, rfl⟩
  | pow b x ihb ihx =>
      intro e' h
      simp only [rewriteTrig, Option.bind_eq_bind, Option.bind_eq_some_iff, Option.pure_def, Option.some.injEq] at h
      obtain ⟨b', hb, x', hx, rfl⟩ := h
      exact ⟨by simp only [ev, (ihb b' hb).1, (ihx x' hx).1], rfl, rfl, rfl⟩
  | rel r b x ihb ihx =>
      intro e' h
      simp only [rewriteTrig, Option.bind_eq_bind, Option.bind_eq_some_iff, Option.pure_def, Option.some.injEq] at h
      obtain ⟨b', hb, x', hx, rfl⟩ := h
      exact ⟨by simp only [ev, (ihb b' hb).1, (ihx x' hx).1], by simp only [ev, (ihb b' hb).1, (ihx x' hx).1],
        rfl, rfl⟩
  | pair b x ihb ihx =>
      intro e' h
      simp only [rewriteTrig, Option.bind_eq_bind, Option.bind_eq_some_iff, Option.pure_def, Option.some.injEq] at h
      obtain ⟨b', hb, x', hx, rfl⟩ := h
      exact ⟨by simp only [ev, (ihb b' hb).1], by simp only [ev, (ihx x' hx).2.1], rfl, rfl⟩
  | cons b x ihb ihx =>
      intro e' h
      simp only [rewriteTrig, Option.bind_eq_bind, Option.bind_eq_some_iff, Option.pure_def, Option.some.injEq] at h
      obtain ⟨b', hb, x', hx, rfl⟩ := h
      exact ⟨rfl, rfl, by simp only [ev, (ihb b' hb).1, (ihx x' hx).2.2.1],
        by simp only [ev, (ihb b' hb).2.1, (ihx x' hx).2.2.2]⟩
  | fn name args ih =>
      intro e' h
      simp only [rewriteTrig, Option.bind_eq_bind, Option.bind_eq_some_iff] at h
      obtain ⟨args', ha, h⟩ := h
      · have h1 := rewriteFn_sem S hL hT name args' e' h
        have h2 : (ev S (.fn name args')).num = (ev S (.fn name args)).num := by
          simp only [ev, (ih args' ha).2.2.1]
        refine ⟨h1.trans h2, ?_, ?_, ?_⟩ <;>
          (rcases rewriteFn_kind name args' e' h with ⟨b, x, rfl⟩ | ⟨n, a, rfl⟩ <;> rfl)
  | _ => intro e' h; simp [rewriteTrig] at h; subst h; exact ⟨rfl, rfl, rfl, rfl⟩

end C11
