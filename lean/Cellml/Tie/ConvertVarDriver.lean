import Cellml.Tie.ConvertVarHelpers

/-! # Tie: the driver `Model.convert_variable` (generated from model.py) = `Model.CV.convertVariable` -/

namespace Cellml.Tie.CV
open Model Model.CV Cellml.Gen Cellml.Tie

-- ================================================================================================ generic steps
/-- `if c: g` followed by the rest `K`, against a model that computes `if c then m' else s1` and goes on with `F`;
    `P` is what is known of the value the rest starts from -/
theorem tied_optionalG {β γ : Type} {rb : β → Bool} {rc : γ → Bool} (P : β → Prop) (c : Bool) (g : Except PyErr β)
    (m' s1 : β) (K : β → Except PyErr γ) (F : β → γ) (hg : c = true → TiedG rb g m')
    (hF : ∀ b : β, rb b = true → rc (F b) = true) (hP1 : c = true → P m') (hP2 : P s1)
    (hK : ∀ b : β, P b → rb b = false → TiedG rc (K b) (F b)) (hs1 : rb s1 = false) :
    TiedG rc (if c = true then g >>= K else K s1) (F (if c = true then m' else s1)) := by
  cases c with
  | false => simpa using hK s1 hP2 hs1
  | true =>
    simp only [if_true]
    exact TiedG.bind (hg rfl) (hF _) (hK _ (hP1 rfl))

theorem tied_bind_eq {β γ : Type} {rc : γ → Bool} {g : Except PyErr β} {a : β} {k : β → Except PyErr γ} {M : γ}
    (hg : g = .ok a) (hk : TiedG rc (k a) M) : TiedG rc (g >>= k) M := by
  subst hg; exact hk

/-- a python `for` over `l` whose body, on the elements of `l`, is tied to one step of the model's `foldl` -/
theorem tiedG_forIn_mem {σ α : Type} (rd : σ → Bool) (step : σ → α → σ) (body : α → σ → Except PyErr (ForInStep σ))
    (hst : ∀ s a, rd s = true → rd (step s a) = true) :
    ∀ (l : List α) (s : σ), (∀ a ∈ l, ∀ s, rd s = false →
        TiedG (fun r : ForInStep σ => rd r.value) (body a s) (.yield (step s a))) →
      rd s = false → TiedG rd (forIn l s body) (l.foldl step s)
  | [], s, _, h => ⟨rfl, h⟩
  | a :: l, s, hbody, h => by
    rw [List.forIn_cons, List.foldl_cons]
    refine TiedG.bind (hbody a (List.mem_cons_self ..) s h) (fun h' => foldl_sticky rd step hst l _ h') fun h' => ?_
    exact tiedG_forIn_mem rd step body hst l _ (fun a ha => hbody a (List.mem_cons_of_mem _ ha)) h'

-- ================================================================================================ ODEs have a derivative on the left
/-- every entry of `_ode_definition_map` has a derivative on the left (what `add_equation` files there) -/
def DerivOdes (s : CState) : Prop := ∀ p ∈ s.odeDef, ∃ x t, p.2.lhs = CLhs.deriv x t

theorem mem_insertKey_imp {α β : Type} [DecidableEq α] (k : α) (v : β) (l : List (α × β)) (p : α × β)
    (h : p ∈ insertKey k v l) : p = (k, v) ∨ p ∈ l := by
  induction l with
  | nil => simp only [insertKey, List.mem_singleton] at h; exact Or.inl h
  | cons q l ih =>
    obtain ⟨k', v'⟩ := q
    simp only [insertKey] at h
    split at h
    · rcases List.mem_cons.mp h with h | h
      · exact Or.inl h
      · exact Or.inr (List.mem_cons_of_mem _ h)
    · rcases List.mem_cons.mp h with h | h
      · exact Or.inr (h ▸ List.mem_cons_self ..)
      · rcases ih h with h | h
        · exact Or.inl h
        · exact Or.inr (List.mem_cons_of_mem _ h)

theorem DerivOdes.congr {s s' : CState} (h : DerivOdes s) (e : s'.odeDef = s.odeDef) : DerivOdes s' := by
  intro p hp; rw [e] at hp; exact h p hp

theorem DerivOdes.addEq {s : CState} (h : DerivOdes s) (e : CEqn) (c : Bool) : DerivOdes (addEq s e c) := by
  unfold CV.addEq
  split
  · rename_i x t hl
    split
    · exact h.congr rfl
    · intro p hp
      rcases mem_insertKey_imp _ _ _ _ hp with rfl | hp
      · exact ⟨x, t, hl⟩
      · exact h p hp
  · split
    · exact h.congr rfl
    · exact h.congr rfl

theorem DerivOdes.removeEq {s : CState} (h : DerivOdes s) (e : CEqn) : DerivOdes (removeEq s e) := by
  unfold CV.removeEq
  split
  · split
    · split
      · intro p hp
        exact h p ((mem_eraseKey _ _ _).mp hp).1
      · exact h.congr rfl
    · split
      · exact h.congr rfl
      · exact h.congr rfl
  · exact h.congr rfl

theorem DerivOdes.addVariable {s : CState} (h : DerivOdes s) (n : String) (u : U) (i : Option Rat) :
    DerivOdes (CV.addVariable s n u i).1 := by
  unfold CV.addVariable; split <;> exact h.congr rfl

theorem DerivOdes.transferCmeta {s : CState} (h : DerivOdes s) (a b : Nat) : DerivOdes (transferCmeta s a b) := by
  unfold CV.transferCmeta
  split
  · exact h.congr rfl
  · split <;> exact h.congr rfl

theorem DerivOdes.instInput {s2 : CState} (h : DerivOdes s2) (v nv : Nat) (cfq : X) :
    DerivOdes (instInput s2 v nv cfq) := by
  have h3 : DerivOdes (match s2.varDef.lookup v with
      | some oe => CV.addEq (CV.removeEq s2 oe) ⟨.var nv, .mul oe.rhs cfq⟩ true
      | none => s2) := by
    split
    · exact (h.removeEq _).addEq _ _
    · exact h
  unfold CV.instInput
  show DerivOdes (CV.addEq _ _ _)
  refine DerivOdes.addEq ?_ _ _
  intro p hp
  exact h3 p hp

theorem DerivOdes.convertInstance {s : CState} (h : DerivOdes s) (v : Nat) (cf : Rat) (u : U) (dir : Dir) (move : Bool) :
    DerivOdes (convertInstance s v cf u dir move).1 := by
  unfold CV.convertInstance
  have h1 := h.addVariable (freshName s (nameOfV s v ++ "_converted")) u (newInit s v cf dir)
  have h2 : DerivOdes (if ((cmetaOfV (CV.addVariable s (freshName s (nameOfV s v ++ "_converted")) u (newInit s v cf dir)).1 v).isSome
      && move) = true then CV.transferCmeta (CV.addVariable s (freshName s (nameOfV s v ++ "_converted")) u (newInit s v cf dir)).1 v
        (CV.addVariable s (freshName s (nameOfV s v ++ "_converted")) u (newInit s v cf dir)).2
      else (CV.addVariable s (freshName s (nameOfV s v ++ "_converted")) u (newInit s v cf dir)).1) := by
    split
    · exact h1.transferCmeta _ _
    · exact h1
  cases dir with
  | output => exact h2.addEq _ _
  | input =>
    exact h2.instInput _ _ _

theorem DerivOdes.removeOdeAssign {s : CState} (h : DerivOdes s) (ode : CEqn) (x : Nat) :
    DerivOdes (removeOdeAssign s ode x).1 := by
  unfold CV.removeOdeAssign
  exact ((h.addVariable _ _ _).removeEq _).addEq _ _

theorem DerivOdes.convertStateDeriv {s : CState} (h : DerivOdes s) (v nv : Nat) (cfq : X) :
    DerivOdes (convertStateDeriv s v nv cfq).1 := by
  unfold CV.convertStateDeriv
  split
  · split
    · exact (h.removeOdeAssign _ _).addEq _ _
    · exact h
  · exact h.congr rfl

-- ================================================================================================ sorted(items, key=order_added)
theorem map_fst_pyInsert {β : Type} (x : Nat × β) (l : List (Nat × β)) :
    (pyInsert (fun p : Nat × β => p.1) x l).map (·.1) = insertSorted id x.1 (l.map (·.1)) := by
  induction l with
  | nil => rfl
  | cons y ys ih =>
    simp only [pyInsert, List.map_cons, insertSorted, id]
    split
    · rfl
    · simp only [List.map_cons, ih]

theorem map_fst_pySorted {β : Type} (l : List (Nat × β)) :
    (pySorted (fun p : Nat × β => p.1) l).map (·.1) = sortByKey id (l.map (·.1)) := by
  induction l with
  | nil => rfl
  | cons x xs ih => simp only [pySorted, List.map_cons, sortByKey, map_fst_pyInsert, ih]

theorem mem_pyInsert {α : Type} (key : α → Nat) (x : α) (l : List α) (p : α) (h : p ∈ pyInsert key x l) :
    p = x ∨ p ∈ l := by
  induction l with
  | nil => simp only [pyInsert, List.mem_singleton] at h; exact Or.inl h
  | cons y ys ih =>
    simp only [pyInsert] at h
    split at h
    · rcases List.mem_cons.mp h with h | h
      · exact Or.inl h
      · exact Or.inr h
    · rcases List.mem_cons.mp h with h | h
      · exact Or.inr (h ▸ List.mem_cons_self ..)
      · rcases ih h with h | h
        · exact Or.inl h
        · exact Or.inr (List.mem_cons_of_mem _ h)

theorem mem_pySorted {α : Type} (key : α → Nat) (l : List α) (p : α) (h : p ∈ pySorted key l) : p ∈ l := by
  induction l with
  | nil => exact h
  | cons x xs ih =>
    rcases mem_pyInsert key x _ p h with h | h
    · exact h ▸ List.mem_cons_self ..
    · exact List.mem_cons_of_mem _ (ih h)

theorem map_snd_eq_filterMap_lookup {β : Type} (l m : List (Nat × β)) (h : ∀ p ∈ m, l.lookup p.1 = some p.2) :
    m.map (·.2) = (m.map (·.1)).filterMap (fun x => l.lookup x) := by
  induction m with
  | nil => rfl
  | cons p m ih =>
    simp only [List.map_cons, List.filterMap_cons, h p (List.mem_cons_self ..)]
    rw [ih (fun q hq => h q (List.mem_cons_of_mem _ hq))]

/-- python's `sorted(self._ode_definition_map.items(), key=lambda v_eq: v_eq[0].order_added)`, read for its equations,
    is the hand model's `sortedOdes` (the keys of a dict are distinct) -/
theorem sortedOdes_eq (s : CState) (hk : (s.odeDef.map (·.1)).Nodup) :
    sortedOdes s = (pySorted (fun v_eq : Nat × CEqn => orderAdded s v_eq.1) (odeItems s)).map (·.2) := by
  unfold sortedOdes odeItems orderAdded
  rw [← map_fst_pySorted]
  refine (map_snd_eq_filterMap_lookup _ _ fun p hp => ?_).symm
  have hm := mem_pySorted _ _ _ hp
  exact (lookup_eq_some_iff _ _ _ (fun a b ha hb => functional_of_keys_nodup _ hk _ _ _ ha hb)).mpr hm

-- ================================================================================================ the keys of a dict are distinct
def KeysNodup (s : CState) : Prop := (s.odeDef.map (·.1)).Nodup

theorem KeysNodup.congr {s s' : CState} (h : KeysNodup s) (e : s'.odeDef = s.odeDef) : KeysNodup s' := by
  unfold KeysNodup; rw [e]; exact h

theorem nodup_keys_insertKey {β : Type} (k : Nat) (v : β) (l : List (Nat × β)) (h : (l.map (·.1)).Nodup) :
    ((insertKey k v l).map (·.1)).Nodup := by
  cases hk : hasKey k l with
  | true => rw [keys_insertKey_of_hasKey _ _ _ hk]; exact h
  | false =>
    rw [insertKey_of_not_hasKey _ _ _ hk, List.map_append]
    refine List.nodup_append.mpr ⟨h, by simp, ?_⟩
    intro a ha b hb
    simp only [List.map_cons, List.map_nil, List.mem_singleton] at hb
    subst hb
    intro hab; subst hab
    have := (hasKey_iff_mem_keys a l).mpr ha
    rw [hk] at this; cases this

theorem KeysNodup.addEq {s : CState} (h : KeysNodup s) (e : CEqn) (c : Bool) : KeysNodup (addEq s e c) := by
  unfold CV.addEq
  split
  · split
    · exact h.congr rfl
    · exact nodup_keys_insertKey _ _ _ h
  · split <;> exact h.congr rfl

theorem KeysNodup.removeEq {s : CState} (h : KeysNodup s) (e : CEqn) : KeysNodup (removeEq s e) := by
  unfold CV.removeEq
  split
  · split
    · split
      · exact List.Nodup.sublist (keys_eraseKey_sublist _ _) h
      · exact h.congr rfl
    · split <;> exact h.congr rfl
  · exact h.congr rfl

theorem KeysNodup.addVariable {s : CState} (h : KeysNodup s) (n : String) (u : U) (i : Option Rat) :
    KeysNodup (CV.addVariable s n u i).1 := by
  unfold CV.addVariable; split <;> exact h.congr rfl

theorem KeysNodup.transferCmeta {s : CState} (h : KeysNodup s) (a b : Nat) : KeysNodup (transferCmeta s a b) := by
  unfold CV.transferCmeta
  split
  · exact h.congr rfl
  · split <;> exact h.congr rfl

theorem KeysNodup.instInput {s2 : CState} (h : KeysNodup s2) (v nv : Nat) (cfq : X) :
    KeysNodup (instInput s2 v nv cfq) := by
  have h3 : KeysNodup (match s2.varDef.lookup v with
      | some oe => CV.addEq (CV.removeEq s2 oe) ⟨.var nv, .mul oe.rhs cfq⟩ true
      | none => s2) := by
    split
    · exact (h.removeEq _).addEq _ _
    · exact h
  unfold CV.instInput
  show KeysNodup (CV.addEq _ _ _)
  refine KeysNodup.addEq ?_ _ _
  exact h3

theorem KeysNodup.convertInstance {s : CState} (h : KeysNodup s) (v : Nat) (cf : Rat) (u : U) (dir : Dir) (move : Bool) :
    KeysNodup (convertInstance s v cf u dir move).1 := by
  unfold CV.convertInstance
  have h1 := h.addVariable (freshName s (nameOfV s v ++ "_converted")) u (newInit s v cf dir)
  have h2 : KeysNodup (if ((cmetaOfV (CV.addVariable s (freshName s (nameOfV s v ++ "_converted")) u (newInit s v cf dir)).1 v).isSome
      && move) = true then CV.transferCmeta (CV.addVariable s (freshName s (nameOfV s v ++ "_converted")) u (newInit s v cf dir)).1 v
        (CV.addVariable s (freshName s (nameOfV s v ++ "_converted")) u (newInit s v cf dir)).2
      else (CV.addVariable s (freshName s (nameOfV s v ++ "_converted")) u (newInit s v cf dir)).1) := by
    split
    · exact h1.transferCmeta _ _
    · exact h1
  cases dir with
  | output => exact h2.addEq _ _
  | input => exact h2.instInput _ _ _

theorem KeysNodup.removeOdeAssign {s : CState} (h : KeysNodup s) (ode : CEqn) (x : Nat) :
    KeysNodup (removeOdeAssign s ode x).1 := by
  unfold CV.removeOdeAssign
  exact ((h.addVariable _ _ _).removeEq _).addEq _ _

theorem KeysNodup.convertStateDeriv {s : CState} (h : KeysNodup s) (v nv : Nat) (cfq : X) :
    KeysNodup (convertStateDeriv s v nv cfq).1 := by
  unfold CV.convertStateDeriv
  split
  · split
    · exact (h.removeOdeAssign _ _).addEq _ _
    · exact h
  · exact h.congr rfl

-- ================================================================================================ the phases of the model
theorem freeStep_sticky (v nv : Nat) (cfq : X) (acc : CState × Rep) (ode : CEqn) (h : acc.1.raised = true) :
    (freeStep v nv cfq acc ode).1.raised = true := by
  unfold freeStep
  split
  · split
    · exact convertFreeDeriv_sticky _ _ _ _ h
    · rfl
  · exact h

theorem freePhase_sticky (c : Bool) (acc : CState × Rep) (v nv : Nat) (cfq : X) (h : acc.1.raised = true) :
    (freePhase c acc v nv cfq).1.raised = true := by
  unfold freePhase
  split
  · exact foldl_sticky (fun a : CState × Rep => a.1.raised) _ (fun a e ha => freeStep_sticky v nv cfq a e ha) _ _ h
  · exact h

theorem replacePhase_sticky (acc : CState × Rep) (h : acc.1.raised = true) : (replacePhase acc).raised = true := by
  unfold replacePhase
  split
  · exact h
  · exact replaceRefs_sticky _ _ h

/-- `{}.update(d)` for the dict `_convert_state_variable_deriv` answers is that dict -/
theorem dictUpdate_nil_convertStateDeriv (s : CState) (v nv : Nat) (cfq : X) :
    dictUpdate [] (convertStateDeriv s v nv cfq).2 = (convertStateDeriv s v nv cfq).2 := by
  unfold CV.convertStateDeriv
  split
  · split <;> rfl
  · rfl

theorem nameOfV_mem (s : CState) (v : Nat) (hv : v < s.vars.length) : nameOfV s v ∈ names s := by
  unfold CV.nameOfV CV.names
  rw [List.getElem?_eq_getElem hv]
  exact List.mem_map.mpr ⟨_, List.getElem_mem hv, rfl⟩

theorem num_beq_one (cf : Rat) : ((CfVal.num cf) == (1 : CfVal)) = decide (cf = 1) := by
  by_cases h : cf = 1
  · subst h; simp; rfl
  · simp only [h, decide_false]
    exact beq_eq_false_iff_ne.mpr (fun hh => h (CfVal.num.inj hh))

-- ================================================================================================ convert_variable
theorem ok_bind {β γ : Type} (a : β) (k : β → Except PyErr γ) : (Except.ok a >>= k) = k a := rfl

/-- the model's result for a factor other than 1, phase by phase -/
theorem convertVariable_ne_one (s : CState) (v : Nat) (u : U) (cf : Rat) (dir : Dir) (move : Bool) (h : cf ≠ 1) :
    ((convertVariable s v u cf dir move).1, (convertVariable s v u cf dir move).2.1) =
      match dir with
      | .output => convertInstance s v cf u .output move
      | .input =>
        (fun acc : CState × Rep =>
          (replacePhase (freePhase (getFree s == some v) (acc.1, dictUpdate [] acc.2) v
            (convertInstance s v cf u .input move).2 (.lit cf (u.div (unitOfV s v)))),
           (convertInstance s v cf u .input move).2))
          (if hasKey v s.odeDef = true then
            convertStateDeriv (convertInstance s v cf u .input move).1 v (convertInstance s v cf u .input move).2
              (.lit cf (u.div (unitOfV s v)))
           else ((convertInstance s v cf u .input move).1, [])) := by
  unfold CV.convertVariable
  simp only [if_neg h]
  cases dir with
  | output => rfl
  | input =>
    simp only [statePhase]
    split
    · simp only [dictUpdate_nil_convertStateDeriv]
    · rfl

/-- `if derivative_replacements: self._replace_references_to_derivatives(derivative_replacements)`, then `return` -/
theorem replacePhase_tie (b : CState × Rep) (nv : Nat) (hb : b.1.raised = false) :
    Tied (if Py.truthy b.2 = true then do
          let st ← ConvertVar.replaceReferencesToDerivatives b.1 b.2
          pure (st, nv)
        else pure (b.1, nv))
      (replacePhase b, nv) := by
  unfold replacePhase
  cases hb2 : b.2 with
  | nil => exact ⟨rfl, hb⟩
  | cons p r =>
    simp only [Py.truthy_list, List.isEmpty_cons, Bool.not_false, if_true, Bool.false_eq_true, if_false]
    refine TiedG.bind (replaceRefs_tie _ _ hb) (fun h => h) fun h => ?_
    exact ⟨rfl, h⟩

/-- the loop over the ODEs in model order (the body as generated) is the hand model's `foldl` of `freeStep` -/
theorem freeLoop_tie (acc : CState × Rep) (v nv : Nat) (cfq : X) (hD : DerivOdes acc.1) (hK : KeysNodup acc.1)
    (h : acc.1.raised = false) :
    TiedG (fun r : CState × Rep => r.1.raised)
      (forIn (pySorted (fun v_eq => orderAdded acc.1 v_eq.1) (odeItems acc.1)) acc fun x __s => do
        let __do_lift ← odeBoundVar x.snd
        if (!__do_lift == v) = true then do
          throw { cls := "AssertionError" }
          let __x ← ConvertVar.convertFreeVariableDeriv __s.fst x.snd nv cfq
          pure (ForInStep.yield (__x.fst, dictUpdate __s.snd __x.snd))
        else do
          let __x ← ConvertVar.convertFreeVariableDeriv __s.fst x.snd nv cfq
          pure (ForInStep.yield (__x.fst, dictUpdate __s.snd __x.snd)))
      ((sortedOdes acc.1).foldl (freeStep v nv cfq) acc) := by
  have e : (sortedOdes acc.1).foldl (freeStep v nv cfq) acc =
      (pySorted (fun v_eq => orderAdded acc.1 v_eq.1) (odeItems acc.1)).foldl
        (fun a (p : Nat × CEqn) => freeStep v nv cfq a p.2) acc := by
    rw [sortedOdes_eq _ hK, List.foldl_map]
  rw [e]
  refine tiedG_forIn_mem (fun r : CState × Rep => r.1.raised) _ _ (fun a p ha => freeStep_sticky v nv cfq a p.2 ha) _ _
    (fun p hp st hst => ?_) h
  obtain ⟨x, t, hl⟩ := hD _ (mem_pySorted _ _ _ hp)
  simp only [odeBoundVar, hl, derivArg1, ok_bind, freeStep]
  by_cases htv : t = v
  · subst htv
    simp only [beq_self_eq_true, Bool.not_true, Bool.false_eq_true, if_false, if_true]
    refine TiedG.bind (convertFreeDeriv_tie _ _ _ _ x t hl) (fun h => h) fun h => ?_
    exact ⟨rfl, h⟩
  · have : (t == v) = false := beq_eq_false_iff_ne.mpr htv
    simp only [this, Bool.not_false, if_true, if_neg htv]
    exact ⟨rfl, by decide⟩

theorem convertVariable_tie (view : CVView) (s : CState) (v : Nat) (u : U) (dir : Dir) (move : Bool) (cf : Rat)
    (hs : s.raised = false) (hv : v < s.vars.length) (hd : DerivOdes s) (hk : KeysNodup s)
    (hcf : view.getConversionFactor (unitOfV s v) u = .ok cf) :
    Tied (ConvertVar.convertVariable view s v u dir move)
      ((convertVariable s v u cf dir move).1, (convertVariable s v u cf dir move).2.1) := by
  unfold ConvertVar.convertVariable
  have hin : Py.isIn (nameOfV s v) (CV.names s) = true := by
    simpa [Py.isIn] using nameOfV_mem s v hv
  have hget : view.getCf (unitOfV s v) u = .ok (.num cf) := by simp [CVView.getCf, hcf]
  simp only [hin, hget, Bool.not_true, Bool.false_eq_true, if_false, ok_bind, num_beq_one]
  by_cases h1 : cf = 1
  · subst h1
    simp only [decide_true, if_true]
    exact ⟨by simp [CV.convertVariable], by simpa [CV.convertVariable] using hs⟩
  · simp only [h1, decide_false, Bool.false_eq_true, if_false]
    rw [convertVariable_ne_one s v u cf dir move h1]
    rw [if_pos (show Py.truthy (CfVal.num cf).isNumber = true from rfl)]
    have hq : (createQuantity (CfVal.num cf) (u / unitOfV s v)).toX = X.lit cf (u.div (unitOfV s v)) := rfl
    simp only [hq]
    refine tied_bind_eq (a := getFree s) ?_ ?_
    · cases hf : getFree s <;>
        simp [getFreeVariableM, hf, tryCatch, tryCatchThe, MonadExceptOf.tryCatch, Except.tryCatch, pure] <;> rfl
    · cases dir with
      | output =>
        refine TiedG.bind (convertInstance_tie s v cf u .output move) (fun h => h) fun h => ?_
        exact ⟨rfl, h⟩
      | input =>
        have hF : ∀ b : CState × Rep, b.1.raised = true →
            (replacePhase (freePhase (getFree s == some v) (b.1, dictUpdate [] b.2) v
              (convertInstance s v cf u .input move).2 (X.lit cf (u.div (unitOfV s v))))).raised = true :=
          fun b hb => replacePhase_sticky _ (freePhase_sticky _ _ _ _ _ hb)
        refine TiedG.bind (convertInstance_tie s v cf u .input move) (fun h => ?_) fun hci => ?_
        · refine hF _ ?_
          split
          · exact convertStateDeriv_sticky _ _ _ _ h
          · exact h
        · simp only [show (Dir.input == Dir.output) = false from rfl, Bool.false_eq_true, if_false]
          have hc : Py.isIn v (stateVariables s) = hasKey v s.odeDef := contains_keys_eq_hasKey v s.odeDef
          have hc2 : (some v == getFree s) = (getFree s == some v) := BEq.comm
          rw [hc, hc2]
          have hDci := hd.convertInstance v cf u .input move
          have hKci := hk.convertInstance v cf u .input move
          refine tied_optionalG (rb := fun r : CState × Rep => r.1.raised)
            (fun acc : CState × Rep => DerivOdes acc.1 ∧ KeysNodup acc.1) _ _ _
            ((convertInstance s v cf u .input move).1, []) _
            (fun acc : CState × Rep =>
              (replacePhase (freePhase (getFree s == some v) (acc.1, dictUpdate [] acc.2) v
                (convertInstance s v cf u .input move).2 (X.lit cf (u.div (unitOfV s v)))),
               (convertInstance s v cf u .input move).2))
            (fun _ => convertStateDeriv_tie _ _ _ _ (fun e he => hDci _ (mem_of_lookup _ _ _ he)))
            hF (fun _ => ⟨hDci.convertStateDeriv _ _ _, hKci.convertStateDeriv _ _ _⟩) ⟨hDci, hKci⟩
            (fun b hDb hb => ?_) hci
          unfold freePhase
          refine tied_optionalG (rb := fun r : CState × Rep => r.1.raised) (fun _ => True) _ _ _
            (b.1, dictUpdate [] b.2) _
            (fun acc : CState × Rep => (replacePhase acc, (convertInstance s v cf u .input move).2))
            (fun _ => freeLoop_tie (b.1, dictUpdate [] b.2) v _ _ hDb.1 hDb.2 hb)
            (fun b2 hb2 => replacePhase_sticky _ hb2) (fun _ => trivial) trivial
            (fun b2 _ hb2 => replacePhase_tie b2 _ hb2) hb

/-- the units module refuses the conversion (`DimensionalityError`, …): `convert_variable` raises the same exception
    and has not touched the model (the hand model takes the factor as an input, so this case is outside it) -/
theorem convertVariable_cf_error (view : CVView) (s : CState) (v : Nat) (u : U) (dir : Dir) (move : Bool) (e : PyErr)
    (hv : v < s.vars.length) (hcf : view.getConversionFactor (unitOfV s v) u = .error e) :
    ConvertVar.convertVariable view s v u dir move = .error e := by
  unfold ConvertVar.convertVariable
  have hin : Py.isIn (nameOfV s v) (CV.names s) = true := by
    simpa [Py.isIn] using nameOfV_mem s v hv
  have hget : view.getCf (unitOfV s v) u = .error e := by simp [CVView.getCf, hcf]
  simp only [hin, hget, Bool.not_true, Bool.false_eq_true, if_false]
  rfl

/-- a variable whose name is not in `_name_to_variable`: python's first `assert` fails. The hand model has no such
    check (its theorems assume `v < s.vars.length`), so this case is outside it. -/
theorem convertVariable_not_in_model (view : CVView) (s : CState) (v : Nat) (u : U) (dir : Dir) (move : Bool)
    (hv : nameOfV s v ∉ CV.names s) :
    ConvertVar.convertVariable view s v u dir move = .error ⟨"AssertionError"⟩ := by
  unfold ConvertVar.convertVariable
  have hin : Py.isIn (nameOfV s v) (CV.names s) = false := by
    simpa [Py.isIn] using hv
  simp only [hin, Bool.not_false, if_true]
  rfl

/-- the hypotheses of `convertVariable_tie` follow from the invariant `Inv0` the C06 theorems work with -/
theorem derivOdes_of_inv0 {s : CState} (h : Inv0 s) : DerivOdes s := by
  intro p hp
  obtain ⟨_, t, ht⟩ := (h.od p.1 p.2).mp hp
  exact ⟨p.1, t, ht⟩

theorem convertVariable_tie_inv0 (view : CVView) (s : CState) (v : Nat) (u : U) (dir : Dir) (move : Bool) (cf : Rat)
    (h : Inv0 s) (hv : v < s.vars.length) (hcf : view.getConversionFactor (unitOfV s v) u = .ok cf) :
    Tied (ConvertVar.convertVariable view s v u dir move)
      ((convertVariable s v u cf dir move).1, (convertVariable s v u cf dir move).2.1) :=
  convertVariable_tie view s v u dir move cf h.notRaised hv (derivOdes_of_inv0 h) h.odKeys hcf

end Cellml.Tie.CV
