#!/venv/bin/python
"""Regenerate MANIFEST.json from the MANIFEST dict of each harness/props/cXX.py (a property is claimed iff its
module defines MANIFEST). Run after adding or changing a check."""
import importlib
import json
import os
import sys

ROOT = os.path.dirname(os.path.dirname(os.path.abspath(__file__)))
sys.path.insert(0, os.path.join(ROOT, 'harness'))

import tie_texts

NA_REASON = {}   # property id -> reason, for properties deliberately not claimed
# checks the integrator has run green on the unchanged tree (seeds 0-2) and reviewed
CLAIMED = ['C%02d' % i for i in range(1, 20)]

checks, na = [], []
for i in range(1, 20):
    pid = 'C%02d' % i
    try:
        mod = importlib.import_module('props.' + pid.lower())
        m = getattr(mod, 'MANIFEST', None)
    except ModuleNotFoundError:
        m = None
    if not m or pid not in CLAIMED:
        na.append({'property_id': pid, 'reason': NA_REASON.get(
            pid, 'not claimed yet: its Lean model, theorems and correspondence check are still under construction '
                 '(DESIGN.md section 3 describes the planned check)')})
        continue
    checks.append({
        'property_id': pid,
        'quick_cmd': './check %s --tier quick' % pid,
        'thorough_cmd': './check %s --tier thorough' % pid,
        'evidence_file': 'evidence/%s.json' % pid,
        'replay_cmd_template': './check %s --replay {path}' % pid,
        'engine': 'lean4-proof+correspondence',
        'level_claimed': {'category': 'proof', 'text': m['text'] + (tie_texts.COMMON + tie_texts.TIE[pid] if pid in tie_texts.TIE else ''), 'design_ref': m.get('design_ref', 'DESIGN.md section 3, ' + pid)},
        'level_note': m['note'],
        'technique': m['technique'] + (' + source tie: python function bodies re-translated into Lean on every run and proved equal to the model functions' if pid in tie_texts.TIE else ''),
    })

manifest = {
    'version': 1,
    'setup_cmd': './setup.sh',
    'hooks': {
        'guard': 'CELLMLMANIP_VERIF',
        'enable': 'no instrumentation is needed: every observation point is public API of the installed working tree '
                  '(/venv has /repo installed in editable mode, so checks always execute /repo\'s current sources)',
        'baseline_off_cmd': 'cd /repo && /venv/bin/python -m pytest -ra -q -p no:cacheprovider --timeout=900 '
                            '--continue-on-collection-errors',
        'source_commits': [],
        'add_only': True,
    },
    'engines': [{
        'name': 'lean4-proof+correspondence', 'path': 'lean/ + harness/',
        'serves_properties': [c['property_id'] for c in checks],
        'kind_free_text': 'Lean 4 theorems about hand-written executable models (lean/Cellml), tables regenerated from '
                          '/repo source text on every run (harness/translate_tables.py), function bodies of the modelled code re-translated '
                          'into Lean on every run (harness/translate_code.py) and proved equal to the model functions '
                          '(lean/Cellml/Tie), models also tied to the code by a '
                          'seeded differential correspondence check through a compiled model driver; property oracles '
                          'on the implementation search for failing inputs',
    }],
    'checks': checks,
    'not_applicable': na,
    'notes': 'Exit codes: 0 held (KNOWN-FINDING lines for findings/<id>.json entries), 1 VIOLATION, 2 infrastructure '
             'failure of the check itself. VERIF_SEED seeds every random choice.',
}
json.dump(manifest, open(os.path.join(ROOT, 'MANIFEST.json'), 'w'), indent=1)
print('claimed:', [c['property_id'] for c in checks])
