import Cellml.Tie.Loader
import Cellml.Tie.GenBUnitDefs

/-! # Closed GENERATED stages of `Parser.parse`, part A: `_add_units`, `_add_components`, `transform_constants`

    `Tie/LoaderParse.lean` runs the generated `Parser.parse` over the stage functions of the hand model
    (`parseView fd`). Here three of those stage functions are replaced by the code generated from the python source of
    the stage itself, run on the XML of the document, and each replacement is proved equal to the stage it replaces:

    * `genUnitsStage`  — `_add_units`: the closed generated loop `PGenB.genAddUnits` (set-up pass + `while` over the
      generated test and body); `genUnitsStage_eq`. The exception is passed on AS RAISED: where `C17.loadFull` coarsens
      pint's `UndefinedUnitError` / a definition pint cannot read to `Unsupported`, the generated stage keeps the class
      of C03's model (`unitsClass`).
    * `genCompsStage`  — `_add_components`: `Gen.LoaderComps.addComponents` on the `<component>` elements of the
      document (`compElems fd`: `Doc.comps` with a `<reaction>` child where `FaultDoc.reactions` says so);
      `genCompsStage_eq` (= `C17.reactionErr`, then `Load.checkComps`; `firstIdx_spec`).
    * `genConstsStage` — `transform_constants`: `Gen.LoaderConsts.transformConstants`; `genConstsStage_eq` on variable
      tables with distinct identities, and `checkComps_nodup`: a successful `_add_components` leaves such a table
      (the lemma that was missing: `checkComps ⇒ Nodup`). -/

namespace Cellml.Tie.LoaderClose
open Load Cellml.Gen Cellml.Tie

/-! ## exception classes of the component stage; distinct identities -/

theorem checkVars_err_class (ust : Units.Store) (cname : String) : ∀ (vars : List VarDecl) (acc : List VRef × List String)
    (e : Err), checkVars ust cname vars acc = .error e → C17.className e = e.className
  | [], _, _, h => by cases h
  | d :: r, (names, ids), e, h => by
    simp only [checkVars] at h
    split at h
    · cases h; rfl
    · split at h
      · cases h; rfl
      · split at h
        · split at h
          · cases h; rfl
          · exact checkVars_err_class ust cname r _ e h
        · exact checkVars_err_class ust cname r _ e h

theorem checkComps_err_class (ust : Units.Store) : ∀ (comps : List Comp) (seen : List String)
    (acc : List VRef × List String) (e : Err), checkComps ust comps seen acc = .error e → C17.className e = e.className
  | [], _, _, _, h => by cases h
  | c :: r, seen, acc, e, h => by
    simp only [checkComps] at h
    split at h
    · cases h; rfl
    · split at h
      · rename_i e' he
        cases h
        exact checkVars_err_class ust c.name c.vars acc _ he
      · exact checkComps_err_class ust r _ _ e h

/-- `_add_variables` of one component: the names it has registered, and they stay distinct -/
theorem checkVars_names (ust : Units.Store) (cname : String) : ∀ (vars : List VarDecl) (names : List VRef)
    (ids : List String) (acc' : List VRef × List String), checkVars ust cname vars (names, ids) = .ok acc' →
    acc'.1 = (vars.map (fun d => (cname, d.name))).reverse ++ names ∧ (names.Nodup → acc'.1.Nodup)
  | [], names, ids, acc', h => by
    simp only [checkVars, Except.ok.injEq] at h
    subst h
    exact ⟨by simp, fun h => h⟩
  | d :: r, names, ids, acc', h => by
    simp only [checkVars] at h
    split at h
    · cases h
    · split at h
      · cases h
      · rename_i hn
        have hn' : (cname, d.name) ∉ names := by simpa using hn
        split at h
        · split at h
          · cases h
          · obtain ⟨h1, h2⟩ := checkVars_names ust cname r _ _ acc' h
            exact ⟨by rw [h1]; simp, fun hnd => h2 (List.nodup_cons.mpr ⟨hn', hnd⟩)⟩
        · obtain ⟨h1, h2⟩ := checkVars_names ust cname r _ _ acc' h
          exact ⟨by rw [h1]; simp, fun hnd => h2 (List.nodup_cons.mpr ⟨hn', hnd⟩)⟩

/-- the identities of all variables of the document, in file order -/
def flatNames (comps : List Comp) : List VRef := comps.flatMap (fun c => c.vars.map (fun d => (c.name, d.name)))

theorem varTable_keys (ust : Units.Store) (comps : List Comp) : (varTable ust comps).map (·.1) = flatNames comps := by
  unfold varTable flatNames
  induction comps with
  | nil => rfl
  | cons c r ih =>
    simp only [List.flatMap_cons, List.map_append, ih, List.map_map]
    congr 1

theorem checkComps_names (ust : Units.Store) : ∀ (comps : List Comp) (seen : List String) (names : List VRef)
    (ids : List String) (acc' : List VRef × List String), checkComps ust comps seen (names, ids) = .ok acc' →
    acc'.1 = (flatNames comps).reverse ++ names ∧ (names.Nodup → acc'.1.Nodup)
  | [], seen, names, ids, acc', h => by
    simp only [checkComps, Except.ok.injEq] at h
    subst h
    exact ⟨by simp [flatNames], fun h => h⟩
  | c :: r, seen, names, ids, acc', h => by
    simp only [checkComps] at h
    split at h
    · cases h
    · split at h
      · cases h
      · rename_i acc1 hv
        obtain ⟨n1, i1⟩ := acc1
        obtain ⟨h1, h2⟩ := checkVars_names ust c.name c.vars names ids _ hv
        obtain ⟨h3, h4⟩ := checkComps_names ust r _ n1 i1 acc' h
        simp only at h1
        exact ⟨by rw [h3, h1]; simp [flatNames], fun hnd => h4 (h2 hnd)⟩

/-- **`checkComps ⇒ Nodup`**: after a successful `_add_components` (`Model.add_variable` has refused every second
    variable of the same name) the identities of the variable table are pairwise distinct — the domain hypothesis `hnd`
    of `transformConstants_tie` holds wherever `Parser.parse` calls `transform_constants` -/
theorem checkComps_nodup {ust : Units.Store} {comps : List Comp} {ids : List String} {acc' : List VRef × List String}
    (h : checkComps ust comps [] ([], ids) = .ok acc') : ((varTable ust comps).map (·.1)).Nodup := by
  obtain ⟨h1, h2⟩ := checkComps_names ust comps [] [] ids acc' h
  have := h2 List.nodup_nil
  rw [h1, List.append_nil] at this
  rw [varTable_keys]
  exact (List.reverse_perm _).nodup_iff.mp this

/-! ## `_add_units` -/

/-- the exception class the generated `_add_units` raises for an error of the work list (C03's classes) -/
abbrev unitsClass : Units.AddErr → String := PUnitDefs.addErrClass

/-- the stage `self._add_units(model_xml)`: the closed generated function on the `<units>` children of `<model>`, on
    the fresh unit store of the model just created (`Model.__init__`) -/
def genUnitsStage (d : C17.FaultDoc) (st : ParseState) : Except PyErr ParseState :=
  match PGenB.genAddUnits 0 d.udefs with
  | .error e => .error e
  | .ok u => .ok { st with units := some u }

theorem genUnitsStage_eq (d : C17.FaultDoc) (st : ParseState) :
    genUnitsStage d st = match Units.addUnits 0 d.udefs with
      | .error e => .error ⟨unitsClass e⟩
      | .ok u => .ok { st with units := some u } := by
  unfold genUnitsStage
  rw [PGenB.genAddUnits_eq]
  cases Units.addUnits 0 d.udefs <;> rfl

/-! ## `_add_components` -/

/-- the `<component>` elements: `Doc.comps` in file order, the `i`-th with a `<reaction>` child iff `i` is listed -/
def compElemsFrom (reactions : List Nat) : Nat → List Comp → List CompElem
  | _, [] => []
  | i, c :: cs => ⟨c, if reactions.contains i then [()] else []⟩ :: compElemsFrom reactions (i + 1) cs

def compElems (fd : C17.FaultDoc) : List CompElem := compElemsFrom fd.reactions 0 fd.doc.comps

theorem compElemsFrom_comps (r : List Nat) : ∀ (cs : List Comp) (i : Nat), (compElemsFrom r i cs).map (·.comp) = cs
  | [], _ => rfl
  | c :: cs, i => by simp [compElemsFrom, compElemsFrom_comps r cs (i + 1)]

theorem compElemsFrom_none (r : List Nat) : ∀ (cs : List Comp) (i : Nat),
    (∀ k, i ≤ k → k < i + cs.length → r.contains k = false) → ∀ e ∈ compElemsFrom r i cs, e.reactions = []
  | [], _, _, e, he => by cases he
  | c :: cs, i, h, e, he => by
    simp only [compElemsFrom, List.mem_cons] at he
    rcases he with rfl | he
    · have hc : r.contains i = false := h i (Nat.le_refl _) (by simp)
      simp only [hc]; rfl
    · exact compElemsFrom_none r cs (i + 1) (fun k h1 h2 => h k (by omega) (by simp only [List.length_cons]; omega)) e he

theorem compElemsFrom_first (r : List Nat) : ∀ (cs : List Comp) (i k : Nat), i ≤ k → k < i + cs.length →
    r.contains k = true → (∀ j, i ≤ j → j < k → r.contains j = false) →
    ∃ pre e post, compElemsFrom r i cs = pre ++ e :: post ∧ (∀ x ∈ pre, x.reactions = []) ∧ e.reactions ≠ [] ∧
      (pre ++ [e]).map (·.comp) = cs.take (k - i + 1)
  | [], i, k, h1, h2, _, _ => by simp at h2; omega
  | c :: cs, i, k, h1, h2, hk, hmin => by
    by_cases hik : i = k
    · subst hik
      refine ⟨[], ⟨c, if r.contains i then [()] else []⟩, compElemsFrom r (i + 1) cs, rfl, by simp, ?_, ?_⟩
      · simp only [hk, if_true]; exact List.cons_ne_nil _ _
      · simp
    · have hlt : i < k := by omega
      obtain ⟨pre, e, post, h3, h4, h5, h6⟩ := compElemsFrom_first r cs (i + 1) k (by omega)
        (by simp only [List.length_cons] at h2; omega) hk (fun j hj1 hj2 => hmin j (by omega) hj2)
      refine ⟨⟨c, if r.contains i then [()] else []⟩ :: pre, e, post, by simp [compElemsFrom, h3], ?_, h5, ?_⟩
      · intro x hx
        simp only [List.mem_cons] at hx
        rcases hx with rfl | hx
        · have hc : r.contains i = false := hmin i (Nat.le_refl _) hlt
          simp only [hc]; rfl
        · exact h4 x hx
      · have : k - i + 1 = (k - (i + 1) + 1) + 1 := by omega
        rw [this, List.take_succ_cons, ← h6]
        simp

/-- `C17.firstIdx`: the smallest listed index below the bound -/
theorem foldl_min_spec : ∀ (l : List Nat) (acc : Option Nat),
    (l.foldl (fun acc i => match acc with | none => some i | some j => some (min i j)) acc = none ↔ acc = none ∧ l = []) ∧
    (∀ m, l.foldl (fun acc i => match acc with | none => some i | some j => some (min i j)) acc = some m →
      (m ∈ l ∨ acc = some m) ∧ (∀ j ∈ l, m ≤ j) ∧ (∀ a, acc = some a → m ≤ a))
  | [], acc => by
    refine ⟨by simp, ?_⟩
    intro m h
    simp only [List.foldl_nil] at h
    subst h
    exact ⟨Or.inr rfl, by simp, fun a ha => by cases ha; exact Nat.le_refl _⟩
  | i :: l, acc => by
    simp only [List.foldl_cons]
    obtain ⟨ih1, ih2⟩ := foldl_min_spec l (match acc with | none => some i | some j => some (min i j))
    constructor
    · rw [ih1]
      cases acc <;> simp
    · intro m h
      obtain ⟨h1, h2, h3⟩ := ih2 m h
      cases acc with
      | none =>
        simp only at h1 h3
        have := h3 i rfl
        refine ⟨Or.inl ?_, ?_, by simp⟩
        · rcases h1 with h1 | h1
          · exact List.mem_cons_of_mem _ h1
          · cases h1; exact List.mem_cons_self
        · intro j hj
          simp only [List.mem_cons] at hj
          rcases hj with rfl | hj
          · exact this
          · exact h2 j hj
      | some a =>
        simp only at h1 h3
        have := h3 (min i a) rfl
        refine ⟨?_, ?_, ?_⟩
        · rcases h1 with h1 | h1
          · exact Or.inl (List.mem_cons_of_mem _ h1)
          · simp only [Option.some.injEq] at h1
            by_cases hia : i ≤ a
            · left; rw [← h1, Nat.min_eq_left hia]; exact List.mem_cons_self
            · right; rw [← h1, Nat.min_eq_right (by omega)]
        · intro j hj
          simp only [List.mem_cons] at hj
          rcases hj with rfl | hj
          · exact Nat.le_trans this (Nat.min_le_left _ _)
          · exact h2 j hj
        · intro a' ha'
          cases ha'
          exact Nat.le_trans this (Nat.min_le_right _ _)

theorem firstIdx_none {l : List Nat} {b : Nat} (h : C17.firstIdx l b = none) : ∀ k, k < b → l.contains k = false := by
  unfold C17.firstIdx at h
  have := ((foldl_min_spec _ none).1.mp h).2
  intro k hk
  cases hc : l.contains k with
  | false => rfl
  | true =>
    have hm : k ∈ l.filter (· < b) := by
      simp only [List.mem_filter, decide_eq_true_eq]
      exact ⟨by simpa using hc, hk⟩
    rw [this] at hm
    cases hm

theorem firstIdx_some {l : List Nat} {b m : Nat} (h : C17.firstIdx l b = some m) :
    m < b ∧ l.contains m = true ∧ ∀ j, j < m → l.contains j = false := by
  unfold C17.firstIdx at h
  obtain ⟨h1, h2, _⟩ := (foldl_min_spec _ none).2 m h
  have hm : m ∈ l.filter (· < b) := by
    rcases h1 with h1 | h1
    · exact h1
    · cases h1
  simp only [List.mem_filter, decide_eq_true_eq] at hm
  refine ⟨hm.2, by simpa using hm.1, ?_⟩
  intro j hj
  cases hc : l.contains j with
  | false => rfl
  | true =>
    have : j ∈ l.filter (· < b) := by
      simp only [List.mem_filter, decide_eq_true_eq]
      exact ⟨by simpa using hc, by omega⟩
    have := h2 j this
    omega

/-- the generated `_add_components` for ANY list of `<component>` elements (reactions or not): `compsSpec` -/
theorem addComponents_spec (ust : Units.Store) (elems : List CompElem) (st : CompsState) :
    LoaderComps.addComponents ⟨ust⟩ ⟨elems⟩ st =
      match compsSpec ust elems st.components st.acc with
      | .error e => .error ⟨e.className⟩
      | .ok acc' => .ok (elems.map (fun e => (e, symsOf e)),
          ⟨(elems.map (·.comp.name)).reverse ++ st.components, acc', st.vt ++ varTable ust (elems.map (·.comp))⟩) := by
  unfold LoaderComps.addComponents
  simp only []
  rw [ac_loop ust elems st []]
  cases compsSpec ust elems st.components st.acc <;> simp [bind, Except.bind, pure, Except.pure]

/-- the stage `component_variables = self._add_components(model_xml)`: the generated function on the `<component>`
    elements, from the parser state `Parser.__init__` / `Model.__init__` leave (`self.components = {}`, no variables,
    the cmeta id of `<model>` registered) -/
def genCompsStage (d : C17.FaultDoc) (st : ParseState) : Except PyErr ParseState :=
  match st.units with
  | none => notReady
  | some (_, ust) =>
    match LoaderComps.addComponents ⟨ust⟩ ⟨compElems d⟩ ⟨[], ([], d.doc.cmeta.toList), []⟩ with
    | .error e => .error e
    | .ok _ => .ok st

theorem genCompsStage_eq (fd : C17.FaultDoc) : genCompsStage = (parseView fd).addComponents := by
  funext d st
  simp only [genCompsStage, parseView]
  cases st.units with
  | none => rfl
  | some u =>
    obtain ⟨reg, ust⟩ := u
    simp only
    rw [addComponents_spec]
    simp only
    unfold C17.reactionErr
    cases hf : C17.firstIdx d.reactions d.doc.comps.length with
    | none =>
      have hnone := firstIdx_none hf
      have hno : ∀ e ∈ compElems d, e.reactions = [] :=
        compElemsFrom_none _ _ 0 (fun k _ hk => hnone k (by omega))
      rw [compsSpec_noReaction ust _ _ _ hno]
      simp only [compElems, compElemsFrom_comps]
      cases hc : checkComps ust d.doc.comps [] ([], d.doc.cmeta.toList) with
      | error e => simp [stageErr, checkComps_err_class ust _ _ _ _ hc]
      | ok acc => rfl
    | some k =>
      obtain ⟨hk1, hk2, hk3⟩ := firstIdx_some hf
      obtain ⟨pre, e, post, h1, h2, h3, h4⟩ := compElemsFrom_first d.reactions d.doc.comps 0 k (Nat.zero_le _)
        (by omega) hk2 (fun j _ hj => hk3 j hj)
      obtain ⟨c, hc, hcls⟩ := compsSpec_reaction ust pre e post [] ([], d.doc.cmeta.toList) h2 h3
      simp only [compElems, h1, hc]
      rw [h4] at hcls
      simp only [Nat.sub_zero] at hcls
      cases hcc : checkComps ust (d.doc.comps.take (k + 1)) [] ([], d.doc.cmeta.toList) with
      | error x =>
        rw [hcc] at hcls
        simp only at hcls
        simp only [stageErr, hcls, checkComps_err_class ust _ _ _ _ hcc]
      | ok acc =>
        rw [hcc] at hcls
        simp only at hcls
        simp only [stageErr, hcls]
        rfl

/-! ## `transform_constants` -/

/-- the finished model as `transform_constants` leaves it: the equations of `Loaded.flat` with the constant equations
    the GENERATED function appended (`tc.added`), the initial values it cleared (`tc.cleared`) set to `None` -/
def flatOf (L : Loaded) (doc : Doc) (tc : TCState) : Flat :=
  { reg := L.reg
    vars := L.vt.map (fun (v, i) => ⟨v, i.units, if tc.cleared.contains v then none else i.init, cmetaOf L.st v⟩)
    eqs := L.st.convs.map ConvEq.toEq ++ L.maths doc ++ tc.added }

/-- the stage `self.transform_constants()`: the generated function on the model's variables and state variables,
    from the definitions `_add_maths` has recorded -/
def genConstsStage (fd : C17.FaultDoc) (st : ParseState) : Except PyErr ParseState :=
  match st.loaded, st.defined with
  | some L, some defined =>
    match LoaderConsts.transformConstants (constsView (L.states fd.doc) L.vt) ⟨defined, [], []⟩ with
    | .error e => .error e
    | .ok tc => .ok { st with flat := some (flatOf L fd.doc tc) }
  | _, _ => notReady

theorem checkConstants_err_class (states defined : List VRef) : ∀ (vt : VarTable) (e : Err),
    checkConstants states defined vt = .error e → C17.className e = e.className
  | [], _, h => by cases h
  | (v, i) :: r, e, h => by
    simp only [checkConstants] at h
    split at h
    · split at h
      · cases h; rfl
      · exact checkConstants_err_class states defined r e h
    · split at h
      · cases h; rfl
      · exact checkConstants_err_class states defined r e h

/-- on a parser state whose variable table has distinct identities the generated stage is the model's stage -/
theorem genConstsStage_eq (fd : C17.FaultDoc) (st : ParseState) (L : Loaded) (defined : List VRef)
    (hL : st.loaded = some L) (hd : st.defined = some defined) (hnd : (L.vt.map (·.1)).Nodup) :
    genConstsStage fd st = (parseView fd).transformConstants st := by
  simp only [genConstsStage, parseView, hL, hd]
  rw [transformConstants_tie _ _ _ hnd]
  cases hc : checkConstants (L.states fd.doc) defined L.vt with
  | error e => simp [stageErr, checkConstants_err_class _ _ _ _ hc]
  | ok u =>
    simp only [List.nil_append]
    congr 3
    unfold flatOf Loaded.flat flatVars
    congr 1
    apply List.map_congr_left
    rintro ⟨v, i⟩ hm
    simp only
    rw [transformConstants_inits _ _ v i hm]

end Cellml.Tie.LoaderClose
