"""Code-translator spec: `remove_fixable_singularities` of _singularity_fixes.py (C12 `C12.traverse` / `C12.step`; the
re-unit step: C18 `creatorRef .fixed _ .singQuantity`).

State threaded through the statement patterns: `eqs` (`Model.equations`), `unprocessed_eqs` (the dict, as an
association list with the dict operations `envSet` / `envGet` / `envPop`), `created` (the units hung on the quantities
re-created by `Model.create_quantity`). `order` is the sorted graph: one entry per node, its equation or `None`."""

GROUP = {'name': 'SingTrav',
 'imports': ['Cellml.Tie.SingView'],
 'header': 'open Cellml.Tie.Sing C12 C12.Expr',
 'functions': [{'file': 'cellmlmanip/_singularity_fixes.py',
                'func': 'remove_fixable_singularities',
                'lean_name': 'removeFixableSingularities',
                'signature': '(sid : Nat) (vUnits : C18.UnitArg) (order : List (Option Eqn)) '
                             '(rs : Expr → Except PyErr (Bool × Expr)) (modifiable_parameters : List String) '
                             '(eqs0 : List Eqn) : Except PyErr (List Eqn × Env × List C18.UnitRef)',
                'params': ['model', 'V', 'modifiable_parameters', 'U_offset', 'exp_function'],
                'predeclare': [('eqs', 'List Eqn', 'eqs0'), ('created', 'List C18.UnitRef', '[]'),
                               ('unprocessed_eqs', 'Env', '[]')],
                'mutable': ['changed', 'new_ex'],
                'final_return': '(eqs, unprocessed_eqs, created)',
                'patterns': [('nx.lexicographical_topological_sort(model.graph, key=str)', 'order'),
                             ("model.graph.nodes[variable]['equation']", 'variable_'),
                             ('isinstance(eq.rhs, Piecewise)', '(Expr.isPiecewise (eqRhs eq))'),
                             ('eq.rhs.xreplace(unprocessed_eqs)', '(Expr.subst unprocessed_eqs (eqRhs eq))'),
                             ('unprocessed_eqs[eq.lhs]', '(envGet unprocessed_eqs (eqLhs eq))'),
                             ('_remove_singularities(__A, V, U_offset=U_offset, exp_function=exp_function)',
                              '← rs {A}'),
                             ('q is ONE', '(q).isONE'),
                             ('model.units.get_unit(__A)', '(storeUnit {A})'),
                             ('V.units', 'vUnits'),
                             ('eq.lhs', '(eqLhs eq)')],
                'stmt_patterns': [('unprocessed_eqs = {}', 'unprocessed_eqs := []'),
                                  ('unprocessed_eqs[eq.lhs] = __A',
                                   'unprocessed_eqs := envSet unprocessed_eqs (eqLhs eq) {A}'),
                                  ('new_ex = new_ex.xreplace({q: model.create_quantity(q._value, __U) '
                                   'for q in new_ex.atoms(Quantity) if isinstance(q.units, str)})',
                                   'let (reunited__, created__) ← reunit sid (fun q => {U}) new_ex created\n'
                                   'new_ex := reunited__\ncreated := created__'),
                                  ('model.remove_equation(eq)', 'eqs := removeEq eqs (eqLhs eq)'),
                                  ('model.add_equation(Eq(eq.lhs, __A))', 'eqs := eqs ++ [⟨eqLhs eq, {A}⟩]'),
                                  ('unprocessed_eqs.pop(eq.lhs)',
                                   'unprocessed_eqs := envPop unprocessed_eqs (eqLhs eq)')]}]}
