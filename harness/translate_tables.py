#!/venv/bin/python
"""Translator (T): re-extract every *table* of /repo's working tree from the source TEXT (python `ast`,
no import of cellmlmanip, so a broken module still translates) and write lean/Cellml/Generated/Tables.lean.

Theorems in Cellml/Props/*.lean quantify over these generated definitions, so a semantic edit of a table
breaks a proof obligation; a reorder or reformat of a table does not (sets are emitted sorted, dicts in
source order which the theorems do not depend on).
"""
import ast
import os
import re
import sys
from decimal import Decimal
from fractions import Fraction

REPO = os.environ.get('CELLML_REPO', '/repo')
HERE = os.path.dirname(os.path.abspath(__file__))
OUT = os.path.join(HERE, '..', 'lean', 'Cellml', 'Generated', 'Tables.lean')


def lean_str(s):
    out = '"'
    for ch in s:
        if ch == '"':
            out += '\\"'
        elif ch == '\\':
            out += '\\\\'
        elif ch == '\n':
            out += '\\n'
        else:
            out += ch
    return out + '"'


def lean_list(items):
    return '[' + ', '.join(items) + ']'


def read(path):
    with open(os.path.join(REPO, path)) as f:
        return f.read()


def find_assign(tree, name, cls=None):
    """Find the value node of a module-level (or class-level, if cls) assignment `name = ...`."""
    body = tree.body
    if cls is not None:
        for node in tree.body:
            if isinstance(node, ast.ClassDef) and node.name == cls:
                body = node.body
                break
        else:
            return None
    for node in body:
        if isinstance(node, ast.Assign):
            for t in node.targets:
                if isinstance(t, ast.Name) and t.id == name:
                    return node.value
    return None


def power_of_ten(text):
    """Exact decimal value of a numeric literal's source text as a power of ten, else None."""
    try:
        q = Fraction(Decimal(text.replace('_', '')))
    except Exception:
        return None
    if q <= 0:
        return None
    k = 0
    while q >= 10 and k < 400:
        q /= 10
        k += 1
    while q < 1 and k > -400:
        q *= 10
        k -= 1
    return k if q == 1 else None


def dotted(node):
    """`sympy.acos` -> 'acos'; Name -> its id."""
    if isinstance(node, ast.Attribute):
        return node.attr
    if isinstance(node, ast.Name):
        return node.id
    return '?' + ast.dump(node)[:40]


def str_elems(node):
    if isinstance(node, (ast.Set, ast.List, ast.Tuple)):
        return [e.value for e in node.elts if isinstance(e, ast.Constant) and isinstance(e.value, str)]
    return []


def extra_trig_entry(src, k, v):
    """sympy.sec(W): (1 / sympy.cos(W))  -> ('sec', 'recip', 'cos');
       sympy.asec(W): sympy.acos(1 / W)  -> ('asec', 'ofRecip', 'acos')."""
    def is_w(n):
        return isinstance(n, ast.Name) and n.id == 'W'

    def is_one(n):
        return isinstance(n, ast.Constant) and n.value == 1

    key = '?'
    if isinstance(k, ast.Call) and len(k.args) == 1 and is_w(k.args[0]):
        key = dotted(k.func)
    kind, tgt = 'unknown', ast.get_source_segment(src, v) or '?'
    if isinstance(v, ast.BinOp) and isinstance(v.op, ast.Div) and is_one(v.left) and isinstance(v.right, ast.Call) \
            and len(v.right.args) == 1 and is_w(v.right.args[0]):
        kind, tgt = 'recip', dotted(v.right.func)
    elif isinstance(v, ast.Call) and len(v.args) == 1 and isinstance(v.args[0], ast.BinOp) \
            and isinstance(v.args[0].op, ast.Div) and is_one(v.args[0].left) and is_w(v.args[0].right):
        kind, tgt = 'ofRecip', dotted(v.func)
    return key, kind, tgt


def parse_units_txt(text):
    """pint definition file -> list of (name, aliases, ('base', dim or '') | ('expr', factors) | ('raw', text)).
    factors: list of ('num', mantissa:int, exp10:int, power:int) | ('unit', name, power:int)."""
    out = []
    in_block = False
    for line in text.splitlines():
        line = line.split('#')[0].strip()
        if not line:
            continue
        if line.startswith('@end'):
            in_block = False
            continue
        if line.startswith('@'):
            in_block = True
            continue
        if in_block:
            continue
        parts = [p.strip() for p in line.split('=')]
        name, definition, aliases = parts[0], parts[1], parts[2:]
        m = re.fullmatch(r'\[(\w*)\]', definition)
        if m:
            out.append((name, aliases, ('base', m.group(1))))
            continue
        toks = re.findall(r'\*\*|[*/]|[A-Za-z_]\w*|[-+]?\d+(?:\.\d+)?(?:[eE][-+]?\d+)?', definition)
        if ''.join(toks) != definition.replace(' ', ''):
            out.append((name, aliases, ('raw', definition)))
            continue
        factors, sign, i, ok = [], 1, 0, True
        while i < len(toks):
            t = toks[i]
            if t == '*':
                sign = 1
                i += 1
                continue
            if t == '/':
                sign = -1
                i += 1
                continue
            power = 1
            if i + 2 < len(toks) + 0 and i + 1 < len(toks) and toks[i + 1] == '**':
                try:
                    power = int(toks[i + 2])
                except Exception:
                    ok = False
                    break
                nxt = i + 3
            else:
                nxt = i + 1
            if re.match(r'[A-Za-z_]', t):
                factors.append(('unit', t, sign * power))
            else:
                try:
                    q = Fraction(Decimal(t))
                except Exception:
                    ok = False
                    break
                e10 = 0
                while q.denominator != 1 and e10 > -400:
                    q *= 10
                    e10 -= 1
                while q != 0 and q % 10 == 0:
                    q /= 10
                    e10 += 1
                if q.denominator != 1:
                    ok = False
                    break
                factors.append(('num', int(q), e10, sign * power))
            # a factor after '/' only divides that one factor; pint is left-associative so the next '*' resets
            i = nxt
        out.append((name, aliases, ('expr', factors) if ok else ('raw', definition)))
    return out


def main():
    parser_src = read('cellmlmanip/parser.py')
    units_src = read('cellmlmanip/units.py')
    printer_src = read('cellmlmanip/printer.py')
    model_src = read('cellmlmanip/model.py')
    ptree, utree, prtree, mtree = (ast.parse(s) for s in (parser_src, units_src, printer_src, model_src))

    L = []
    L.append('/-! GENERATED by harness/translate_tables.py from the source text of /repo — do not edit.\n'
             '    Tables of the implementation, as data. Theorems about them live in Cellml/Props. -/\n')
    L.append('namespace Cellml.Gen\n')

    # UNIT_PREFIXES
    node = find_assign(ptree, 'UNIT_PREFIXES')
    items = []
    if isinstance(node, ast.Dict):
        for k, v in zip(node.keys, node.values):
            text = ast.get_source_segment(parser_src, v) or ''
            p = power_of_ten(text) if isinstance(v, ast.Constant) else None
            items.append('(%s, %s)' % (lean_str(k.value), 'none' if p is None else 'some (%d)' % p))
    L.append('/-- parser.py UNIT_PREFIXES: name ↦ power of ten (none: the literal is not an exact power of ten) -/')
    L.append('def unitPrefixes : List (String × Option Int) := %s\n' % lean_list(items))

    # operator table
    node = find_assign(ptree, '_SIMPLE_MATHML_TO_SYMPY_CLASSES')
    items = []
    if isinstance(node, ast.Dict):
        for k, v in zip(node.keys, node.values):
            items.append('(%s, %s)' % (lean_str(k.value), lean_str(dotted(v))))
    L.append('/-- parser.py _SIMPLE_MATHML_TO_SYMPY_CLASSES: MathML tag ↦ SymPy class name -/')
    L.append('def mathmlOps : List (String × String) := %s\n' % lean_list(items))

    node = find_assign(ptree, 'MATHML_NARY_RELATIONS')
    L.append('def naryRelations : List String := %s\n' % lean_list([lean_str(s) for s in sorted(str_elems(node))]))

    # handler keys: dict literal assigned to self.handlers inside Transpiler.__init__
    keys = []
    for n in ast.walk(ptree):
        if isinstance(n, ast.Assign) and any(isinstance(t, ast.Attribute) and t.attr == 'handlers' for t in n.targets) \
                and isinstance(n.value, ast.Dict):
            keys = [(k.value, dotted(v)) for k, v in zip(n.value.keys, n.value.values)]
    L.append('/-- Transpiler.handlers: tag ↦ handler method name -/')
    L.append('def handlerKeys : List (String × String) := %s\n'
             % lean_list(['(%s, %s)' % (lean_str(a), lean_str(b)) for a, b in keys]))

    # printer tables
    for attr, lname in (('_function_names', 'printerFunctionNames'), ('_literal_names', 'printerLiteralNames')):
        node = find_assign(prtree, attr, cls='Printer')
        items = []
        if isinstance(node, ast.Dict):
            for k, v in zip(node.keys, node.values):
                items.append('(%s, %s)' % (lean_str(k.value), lean_str(v.value)))
        L.append('def %s : List (String × String) := %s\n' % (lname, lean_list(items)))
    node = find_assign(prtree, '_extra_trig', cls='Printer')
    items = []
    if isinstance(node, ast.Dict):
        for k, v in zip(node.keys, node.values):
            a, b, c = extra_trig_entry(printer_src, k, v)
            items.append('(%s, %s, %s)' % (lean_str(a), lean_str(b), lean_str(c)))
    L.append('/-- Printer._extra_trig: (f, "recip", g) means f(W) ↦ 1/g(W); (f, "ofRecip", g) means f(W) ↦ g(1/W) -/')
    L.append('def printerExtraTrig : List (String × String × String) := %s\n' % lean_list(items))

    # units.py sets and regexes
    for name, lname in (('_CELLML_UNITS', 'cellmlUnits'), ('_UNSUPPORTED_UNITS', 'unsupportedUnits'),
                        ('_TRIG_FUNCTIONS', 'trigFunctions')):
        node = find_assign(utree, name)
        L.append('def %s : List String := %s\n' % (lname, lean_list([lean_str(s) for s in sorted(str_elems(node))])))
    for name, lname in (('_WORD', 'wordRegex'), ('_STORE_PREFIX', 'storePrefixRegex')):
        node = find_assign(utree, name)
        pat = '?'
        if isinstance(node, ast.Call) and node.args and isinstance(node.args[0], ast.Constant):
            pat = node.args[0].value
        L.append('def %s : String := %s\n' % (lname, lean_str(pat)))

    # model.py constants
    node = find_assign(mtree, 'FLOAT_PRECISION')
    L.append('def floatPrecision : Nat := %d\n' % (node.value if isinstance(node, ast.Constant) and
                                                   isinstance(node.value, int) and node.value >= 0 else 0))
    node = find_assign(mtree, 'SYMPY_SYMBOL_DELIMITER')
    L.append('def symbolDelimiter : String := %s\n' % lean_str(node.value if isinstance(node, ast.Constant) else '?'))

    # built-in units file
    L.append('inductive BFactor where\n  | num (mantissa : Nat) (exp10 : Int) (power : Int)\n'
             '  | unit (name : String) (power : Int)\nderiving Repr, DecidableEq\n')
    L.append('inductive BDef where\n  | base (dim : String)\n  | expr (fs : List BFactor)\n  | raw (text : String)\n'
             'deriving Repr, DecidableEq\n')
    items = []
    for name, aliases, d in parse_units_txt(read('cellmlmanip/data/cellml_units.txt')):
        if d[0] == 'base':
            dd = '.base %s' % lean_str(d[1])
        elif d[0] == 'raw':
            dd = '.raw %s' % lean_str(d[1])
        else:
            fs = []
            for f in d[1]:
                if f[0] == 'num':
                    fs.append('.num %d (%d) (%d)' % (f[1], f[2], f[3]))
                else:
                    fs.append('.unit %s (%d)' % (lean_str(f[1]), f[2]))
            dd = '.expr %s' % lean_list(fs)
        items.append('(%s, %s, %s)' % (lean_str(name), lean_list([lean_str(a) for a in aliases]), dd))
    L.append('/-- data/cellml_units.txt: (name, aliases, definition) -/')
    L.append('def builtinUnits : List (String × List String × BDef) := [\n  %s]\n' % ',\n  '.join(items))

    # schema prefix enumeration (cellml_1_0.rng) — names allowed by the schema for the prefix attribute
    rng = read('cellmlmanip/data/cellml_1_0.rng')
    prefixes = []
    m = re.search(r'<define name="prefixes?[^"]*">(.*?)</define>', rng, re.S)
    block = m.group(1) if m else rng
    for v in re.findall(r'<value>([a-z]+)</value>', block):
        if v in ('yotta', 'zetta', 'exa', 'peta', 'tera', 'giga', 'mega', 'kilo', 'hecto', 'deka', 'deca', 'deci',
                 'centi', 'milli', 'micro', 'nano', 'pico', 'femto', 'atto', 'zepto', 'yocto') and v not in prefixes:
            prefixes.append(v)
    L.append('/-- prefix names enumerated by data/cellml_1_0.rng -/')
    L.append('def schemaPrefixes : List String := %s\n' % lean_list([lean_str(s) for s in sorted(prefixes)]))

    # the `ident` pattern of the schema (names of units, components, variables)
    m = re.search(r'<define name="ident">.*?<param name="pattern">([^<]*)</param>', rng, re.S)
    L.append('/-- the pattern of `ident` in data/cellml_1_0.rng ("?" when it cannot be found) -/')
    L.append('def identPattern : String := %s\n' % lean_str(m.group(1) if m else '?'))

    L.append('end Cellml.Gen\n')
    text = '\n'.join(L)
    os.makedirs(os.path.dirname(OUT), exist_ok=True)
    old = None
    if os.path.exists(OUT):
        with open(OUT) as f:
            old = f.read()
    if old != text:
        with open(OUT, 'w') as f:
            f.write(text)
    return 0


if __name__ == '__main__':
    sys.exit(main())
