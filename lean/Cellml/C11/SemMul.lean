import Cellml.C11.SemNum

/-! C11 — `print_means`, part 3: `_print_Mul` computes the product. -/
namespace C11
set_option linter.unusedSimpArgs false
variable {K : Type} [Field K] (S : Sem K)

def Sem1 (f : Item1) : Prop :=
  (evD S f.doc).num = (ev S f.e).num ∧ ∀ b x, f.e = .pow b x → (evD S f.base).num = (ev S b).num

def SemD (j : Item1) : Prop := (evD S j.doc).num = (ev S j.e).num

def vals (l : List Item1) : List K := l.map (fun j => (ev S j.e).num)

theorem prodK_append (l1 l2 : List K) : prodK (l1 ++ l2) = prodK l1 * prodK l2 := by
  induction l1 with
  | nil => simp [prodK]
  | cons a l ih => simp only [List.cons_append, prodK, ih]; ring

theorem vals_append (l1 l2 : List Item1) : vals S (l1 ++ l2) = vals S l1 ++ vals S l2 := by
  simp [vals]

theorem isNegNum_of_isNegRat (x : E) (h : isNegRat x = true) : isNegNum x = true := by
  cases x <;> simp [isNegRat] at h <;> simpa [isNegNum] using h

theorem semD_num1 (hL : Laws S) (e : E) (hw : wf .A e = true) (hn : isNum e = true) : SemD S (num1 e) :=
  numDoc_num S hL e hw hn

theorem classify_sem (hL : Laws S) (f : Item1) (hg : Good1 f) (hs : Sem1 S f) :
    (∀ j ∈ (classify f).1, SemD S j) ∧ (∀ j ∈ (classify f).2.1, SemD S j) ∧
      (ev S f.e).num = prodK (vals S (classify f).1) * (prodK (vals S (classify f).2.1))⁻¹ := by
  obtain ⟨hw, _, _, _, _⟩ := hg
  obtain ⟨hdoc, hbase⟩ := hs
  have self : SemD S f := hdoc
  unfold classify
  split
  next b x he =>
    have hb := hbase b x he
    rw [he] at hw
    simp only [wf, Bool.and_eq_true] at hw
    split
    next hneg =>
      simp only [Bool.and_eq_true] at hneg
      split
      next hx1 =>
        have hx2 : x = .int (-1) := by simpa using hx1
        refine ⟨by simp, ?_, ?_⟩
        · intro j hj; simp at hj; subst hj; exact hb
        · subst hx2
          simp only [he, vals, List.map_nil, List.map_cons, prodK, ev]
          have : ((-1 : Int) : K) = -1 := by push_cast; rfl
          rw [this, hL.pow_neg, hL.pow_one]; ring
      next hx1 =>
        have hwn := wf_negNum x hw.2 hneg.2
        have hnum := numDoc_num S hL _ hwn.1 hwn.2
        have hneg' := negNum_num S hL x hw.2 (isNegNum_of_isNegRat x hneg.2)
        refine ⟨by simp, ?_, ?_⟩
        · intro j hj; simp at hj; subst hj
          show (evD S (powDoc b (negNum x) f.base (numDoc (negNum x)))).num = _
          rw [powDoc_num S hL b (negNum x) f.base _ hnum, hb]; rfl
        · simp only [he, vals, List.map_nil, List.map_cons, prodK, ev]
          rw [hneg', hL.pow_neg]; ring
    next => exact ⟨by intro j hj; simp at hj; subst hj; exact self, by simp, by simp [vals, prodK]⟩
  next n he =>
    refine ⟨?_, by simp, ?_⟩
    · intro j hj
      split at hj
      · simp at hj
      · simp at hj; subst hj; exact semD_num1 S hL _ (by simp [wf]) rfl
    · split
      next h1 =>
        have : n = 1 := by simpa using h1
        subst this; simp [he, vals, prodK, ev]
      · simp [he, vals, prodK, num1, ev]
  next p q he =>
    rw [he] at hw
    refine ⟨?_, ?_, ?_⟩
    · intro j hj
      split at hj
      · simp at hj
      · simp at hj; subst hj; exact semD_num1 S hL _ (by simp [wf]) rfl
    · intro j hj; simp at hj; subst hj; exact semD_num1 S hL _ (by simp [wf]) rfl
    · split
      next h1 =>
        have : p = 1 := by simpa using h1
        subst this; simp [he, vals, prodK, num1, ev]
      · simp [he, vals, prodK, num1, ev]; ring
  next => exact ⟨by intro j hj; simp at hj; subst hj; exact self, by simp, by simp [vals, prodK]⟩

theorem partition_sem (hL : Laws S) (fs : List Item1) (hg : ∀ f ∈ fs, Good1 f) (hs : ∀ f ∈ fs, Sem1 S f) :
    (∀ j ∈ (partition fs).1, SemD S j) ∧ (∀ j ∈ (partition fs).2.1, SemD S j) ∧
      prodK (vals S fs) = prodK (vals S (partition fs).1) * (prodK (vals S (partition fs).2.1))⁻¹ := by
  induction fs with
  | nil => simp [partition, vals, prodK]
  | cons f fs ih =>
      have hc := classify_sem S hL f (hg f (by simp)) (hs f (by simp))
      have ht := ih (fun g hg' => hg g (by simp [hg'])) (fun g hg' => hs g (by simp [hg']))
      simp only [partition]
      refine ⟨?_, ?_, ?_⟩
      · intro j hj; simp only [List.mem_append] at hj
        rcases hj with hj | hj
        · exact hc.1 j hj
        · exact ht.1 j hj
      · intro j hj; simp only [List.mem_append] at hj
        rcases hj with hj | hj
        · exact hc.2.1 j hj
        · exact ht.2.1 j hj
      · have e1 : vals S (f :: fs) = (ev S f.e).num :: vals S fs := rfl
        rw [e1, prodK, hc.2.2, ht.2.2, vals_append, vals_append, prodK_append, prodK_append, mul_inv]
        ring

def dnum (d : Doc) : K := (evD S d).num

theorem wrapFirst_vals (m : E) (is : List Item1) : ∀ ds : List Doc,
    (wrapFirst m is ds).map (dnum S) = ds.map (dnum S) := by
  induction is with
  | nil => intro ds; cases ds <;> rfl
  | cons i is ih =>
      intro ds
      cases ds with
      | nil => rfl
      | cons d ds =>
          simp only [wrapFirst]
          split
          · simp [dnum]
          · simp only [List.map_cons, ih]

theorem denStrs_vals (b : List Item1) (marks : List E) :
    (denStrs b marks).map (dnum S) = b.map (fun j => dnum S j.doc) := by
  have hfold : ∀ (ms : List E) (ds : List Doc),
      (ms.foldl (fun acc m => wrapFirst m b acc) ds).map (dnum S) = ds.map (dnum S) := by
    intro ms; induction ms with
    | nil => intro ds; rfl
    | cons m ms ih => intro ds; simp only [List.foldl_cons, ih, wrapFirst_vals]
  unfold denStrs
  split
  · simp [dnum, evD_bracket]
  · rw [hfold]; simp [dnum, evD_bracket, Function.comp]

theorem assemble_num (hL : Laws S) (num : Doc) (ds : List Doc) :
    (evD S (assemble num ds)).num = (evD S num).num * (prodK (ds.map (dnum S)))⁻¹ := by
  unfold assemble
  split
  · simp [prodK]
  · simp [prodK, dnum]; ring
  · simp only [evD_div_num, evD_paren, prodChain_num S hL, div_eq_mul_inv]; rfl

theorem mulDoc_num (hL : Laws S) (sign : Bool) (fs : List Item1) (hg : ∀ f ∈ fs, Good1 f)
    (hs : ∀ f ∈ fs, Sem1 S f) :
    (evD S (mulDoc sign fs)).num = (if sign then -1 else 1) * prodK (vals S fs) := by
  have hp := partition_sem S hL fs hg hs
  unfold mulDoc
  generalize partition fs = pt at hp
  obtain ⟨a, b, marks⟩ := pt
  simp only at hp ⊢
  rw [assemble_num S hL, denStrs_vals, hp.2.2]
  have hb : b.map (fun j => dnum S j.doc) = vals S b := by
    simp only [vals]; apply List.map_congr_left; intro j hj; exact hp.2.1 j hj
  have ha : prodK ((if a.isEmpty = true then [num1 (.int 1)] else a).map
      (fun i => (evD S (bracket i.e i.doc 50)).num)) = prodK (vals S a) := by
    cases a with
    | nil => simp [vals, prodK, num1, numDoc, intDoc, natDoc, evD_bracket, evD]; exact one_atom S hL
    | cons x xs =>
        simp only [List.isEmpty_cons, Bool.false_eq_true, if_false, vals]
        congr 1; apply List.map_congr_left; intro j hj
        rw [evD_bracket]; exact hp.1 j hj
  rw [hb]
  split
  · rw [negFirst_num, prodChain_num S hL, List.map_map]
    rw [show ((fun d => (evD S d).num) ∘ fun i : Item1 => bracket i.e i.doc 50) =
      (fun i : Item1 => (evD S (bracket i.e i.doc 50)).num) from rfl, ha]; ring
  · rw [prodChain_num S hL, List.map_map]
    rw [show ((fun d => (evD S d).num) ∘ fun i : Item1 => bracket i.e i.doc 50) =
      (fun i : Item1 => (evD S (bracket i.e i.doc 50)).num) from rfl, ha]; ring

end C11
