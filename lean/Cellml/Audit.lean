import Lean
/-! `#audit_module M`: for every theorem declared in module `M`, print the axioms it depends on.
    Used by the harness on every run (the check fails unless each set ⊆ {propext, Classical.choice, Quot.sound}). -/
open Lean Elab Command

elab "#audit_module " id:ident : command => do
  let env ← getEnv
  let modName := id.getId
  let some idx := env.getModuleIdx? modName | throwError "unknown module {modName}"
  let consts := env.header.moduleData[idx.toNat]!.constNames
  let mut n : Nat := 0
  for c in consts do
    match env.find? c with
    | some (.thmInfo _) =>
        if c.isInternalDetail then continue
        let axs ← liftCoreM (collectAxioms c)
        n := n + 1
        logInfo m!"AUDIT {c} :: {axs.toList}"
    | _ => pure ()
  logInfo m!"AUDIT-COUNT {modName} {n}"
