import Cellml.Model.Cmeta

/-! # The remaining annotation / RDF functions of cellmlmanip that the C13 hand model (Cmeta.lean) has no function for
      (model.py `get_rdf_annotations`, `get_rdf_value`, `has_ontology_annotation`, `add_rdf`, `Variable._set_cmeta_id`,
      `Variable.rdf_identity`; parser.py `_add_rdf`)

    Core Lean only. Built on `Model.AState` (`rdf`: the triples; a subject is the cmeta id `c` it names, standing for
    the node `URIRef('#' + c)`). `get_ontology_terms_by_variable` and `rdf.add` already have model functions
    (`Model.termsOf`, `Model.addRdf`); the tie theorems of Tie/RdfQ.lean use those. -/

namespace Model.RdfQ
open Model

/-- the subject node of a triple of the hand model: `URIRef('#' + id)` -/
def subjNode (t : Triple) : RNode := .uri ("#" ++ t.subj)

/-- the predicate node of a triple -/
def predNode (t : Triple) : RNode := .uri t.pred

/-- one position of an rdflib triple pattern: `None` is the wildcard, a node matches itself -/
def patMatches (pat : Option RNode) (n : RNode) : Bool :=
  match pat with
  | none => true
  | some x => n == x

/-- `get_rdf_annotations(subject, predicate, object_)` after `create_rdf_node` has made every argument a node or `None`:
    the matching triples (in the order of the triple list; rdflib's order is unspecified) -/
def annotations (a : AState) (s p o : Option RNode) : List Triple :=
  a.rdf.filter (fun t => patMatches s (subjNode t) && patMatches p (predNode t) && patMatches o t.obj)

/-- python `str.strip()` on the characters, for the white space `Char.isWhitespace` knows (space, \t, \n, \r; python
    strips a few more code points) -/
def stripChars (l : List Char) : List Char :=
  ((l.dropWhile Char.isWhitespace).reverse.dropWhile Char.isWhitespace).reverse

def strip (s : String) : String := String.ofList (stripChars s.toList)

inductive VErr | assertionError
deriving DecidableEq, Repr, Inhabited

/-- `get_rdf_value(subject, predicate)`: exactly one matching triple, whose object is a literal: its stripped text;
    anything else fails an `assert` -/
def rdfValue (a : AState) (s p : Option RNode) : Except VErr String :=
  match annotations a s p none with
  | [t] =>
    (match t.obj with
     | .lit x => .ok (strip x)
     | .uri _ => .error .assertionError)
  | _ => .error .assertionError

/-- `has_ontology_annotation(variable, namespace_uri)` -/
def hasAnnotation (a : AState) (v : Nat) (ns : Option String) : Bool := !(termsOf a v ns).isEmpty

/-- the two annotation attributes of a `Variable` object -/
structure VarObj where
  _cmeta_id : Option String := none
  _rdf_identity : Option RNode := none
deriving DecidableEq, Repr, Inhabited

/-- `Variable._set_cmeta_id(c)`: the rdf identity follows the id -/
def setCmetaId (_v : VarObj) (c : Option String) : VarObj :=
  { _cmeta_id := c, _rdf_identity := c.map (fun c => .uri ("#" ++ c)) }

/-- the `Variable` object the hand model's state stands for (`heap[v].cmeta`; the rdf identity is not stored) -/
def varObjOf (a : AState) (v : Nat) : VarObj := setCmetaId {} (cmetaOf a.m v)

/-- `Model.add_rdf(rdf)` of a document that parses to the triples `ts` (in document order): every triple goes into the
    graph, which is a set -/
def addRdfDoc (a : AState) (ts : List Triple) : AState := ts.foldl addRdf a

/-- an XML element as `Parser._add_rdf` sees it: its qualified tag, what rdflib parses its serialisation to when it is
    an `<rdf:RDF>` block (`none`: the parser raises), its children -/
inductive Elem
  | mk (tag : String) (parsed : Option (List Triple)) (children : List Elem)
deriving Repr, Inhabited

def Elem.tag : Elem → String | .mk t _ _ => t
def Elem.parsed : Elem → Option (List Triple) | .mk _ p _ => p

mutual
/-- `element.iter()`: the element and its descendants in document order -/
def Elem.descendants : Elem → List Elem
  | .mk t p cs => .mk t p cs :: Elem.descendantsL cs
def Elem.descendantsL : List Elem → List Elem
  | [] => []
  | e :: r => e.descendants ++ Elem.descendantsL r
end

/-- `{http://www.w3.org/1999/02/22-rdf-syntax-ns#}RDF` -/
def rdfTag : String := "{http://www.w3.org/1999/02/22-rdf-syntax-ns#}RDF"

/-- `Parser._add_rdf(element)`: every `<rdf:RDF>` block under (or at) the element, in document order, is added; the
    first block that does not parse ends it (`false`) with the blocks before it added -/
def parserAddRdf (a : AState) (e : Elem) : AState × Bool :=
  ((e.descendants.filter (fun x => x.tag == rdfTag)).foldl
    (fun (acc : AState × Bool) x =>
      if acc.2 then
        match x.parsed with
        | some ts => (addRdfDoc acc.1 ts, true)
        | none => (acc.1, false)
      else acc) (a, true))

end Model.RdfQ
