import Cellml.Basic.Sexp
/-! Channel C06 of the model driver (stub: not built yet). -/
namespace C06
def handle (_args : List Sexp) : Sexp := .atom "not-implemented"
end C06
