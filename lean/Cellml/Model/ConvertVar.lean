import Cellml.Model.State

/-! # `Model.convert_variable` and its helpers (model.py `convert_variable`, `_convert_variable_instance`,
      `_convert_state_variable_deriv`, `_convert_free_variable_deriv`, `_remove_ode_and_assign_rhs_to_new_variable`,
      `_replace_references_to_derivatives`, `get_unique_name`, and the parts of `add_variable`, `add_equation`,
      `remove_equation`, `transfer_cmeta_id` they use)

    Core Lean only. The state is the C08 state (`Model/State.lean`) specialised to what `convert_variable` touches and
    enriched with what the property needs: variables carry a *unit* (scale and dimension exponents), right-hand sides
    are expressions `X` (so that a model can be evaluated), and no variable is ever removed, so the identity number of a
    variable is its position in `vars` (which is also its `order_added`). `insertKey` / `eraseKey` / `hasKey` /
    `sortByKey` are the ones of `Model/State.lean`.

    A call that would raise in Python (`ValueError` of `add_variable` / `add_equation(check_duplicates=True)` /
    `transfer_cmeta_id`, `KeyError` of `remove_equation`, the `assert` on the free variable) sets `raised` and leaves
    the state as that call leaves it; `Props/C06.lean` shows that this never happens from a model that satisfies the
    C08 invariant. The conversion factor `cf` is an input: it is `UnitStore.get_conversion_factor`, the subject of C07. -/

namespace Model.CV
open Model

-- ------------------------------------------------------------------------------------------------ units
/-- exponents of the (at most eight) base units of a registry -/
structure Dim where
  d0 : Int := 0
  d1 : Int := 0
  d2 : Int := 0
  d3 : Int := 0
  d4 : Int := 0
  d5 : Int := 0
  d6 : Int := 0
  d7 : Int := 0
deriving DecidableEq, Repr, Inhabited

def Dim.add (a b : Dim) : Dim :=
  ⟨a.d0 + b.d0, a.d1 + b.d1, a.d2 + b.d2, a.d3 + b.d3, a.d4 + b.d4, a.d5 + b.d5, a.d6 + b.d6, a.d7 + b.d7⟩
def Dim.sub (a b : Dim) : Dim :=
  ⟨a.d0 - b.d0, a.d1 - b.d1, a.d2 - b.d2, a.d3 - b.d3, a.d4 - b.d4, a.d5 - b.d5, a.d6 - b.d6, a.d7 - b.d7⟩

/-- a unit up to `is_equivalent`: scale to the base units and dimension -/
structure U where
  scale : Rat := 1
  dim : Dim := {}
deriving DecidableEq, Repr, Inhabited

def U.mul (a b : U) : U := ⟨a.scale * b.scale, a.dim.add b.dim⟩
def U.div (a b : U) : U := ⟨a.scale / b.scale, a.dim.sub b.dim⟩

-- ------------------------------------------------------------------------------------------------ expressions
/-- right-hand sides: variables, derivative atoms `d x / d t`, numbers with units (`Quantity`), arithmetic, and
    uninterpreted unary / binary function symbols for everything else -/
inductive X
  | var (v : Nat)
  | deriv (x t : Nat)
  | lit (q : Rat) (u : U)
  | add (a b : X)
  | sub (a b : X)
  | mul (a b : X)
  | div (a b : X)
  | fn1 (f : String) (a : X)
  | fn2 (f : String) (a b : X)
deriving DecidableEq, Repr, Inhabited

/-- plain evaluation over any carrier with the four operations; `lit` injects the rationals, `F1` / `F2` interpret
    the function symbols, `sv` / `sd` give the values of variables and derivative atoms -/
def X.eval {K : Type} [Add K] [Sub K] [Mul K] [Div K] (lit : Rat → K) (F1 : String → K → K)
    (F2 : String → K → K → K) (sv : Nat → K) (sd : Nat → Nat → K) : X → K
  | .var v => sv v
  | .deriv x t => sd x t
  | .lit q _ => lit q
  | .add a b => a.eval lit F1 F2 sv sd + b.eval lit F1 F2 sv sd
  | .sub a b => a.eval lit F1 F2 sv sd - b.eval lit F1 F2 sv sd
  | .mul a b => a.eval lit F1 F2 sv sd * b.eval lit F1 F2 sv sd
  | .div a b => a.eval lit F1 F2 sv sd / b.eval lit F1 F2 sv sd
  | .fn1 f a => F1 f (a.eval lit F1 F2 sv sd)
  | .fn2 f a b => F2 f (a.eval lit F1 F2 sv sd) (b.eval lit F1 F2 sv sd)

/-- `expr.atoms(sympy.Derivative)` -/
def X.derivs : X → List (Nat × Nat)
  | .var _ => []
  | .deriv x t => [(x, t)]
  | .lit _ _ => []
  | .add a b | .sub a b | .mul a b | .div a b | .fn2 _ a b => a.derivs ++ b.derivs
  | .fn1 _ a => a.derivs

/-- the variables an expression mentions, inside derivative atoms too (`expr.atoms(Variable)`) -/
def X.vars : X → List Nat
  | .var v => [v]
  | .deriv x t => [x, t]
  | .lit _ _ => []
  | .add a b | .sub a b | .mul a b | .div a b | .fn2 _ a b => a.vars ++ b.vars
  | .fn1 _ a => a.vars

/-- a dict from derivative atoms to the variables that replace them -/
abbrev Rep := List ((Nat × Nat) × Nat)

/-- `expr.xreplace(map)` for a map from derivatives to variables -/
def X.subst (rep : Rep) : X → X
  | .var v => .var v
  | .deriv x t => match rep.lookup (x, t) with | some w => .var w | none => .deriv x t
  | .lit q u => .lit q u
  | .add a b => .add (a.subst rep) (b.subst rep)
  | .sub a b => .sub (a.subst rep) (b.subst rep)
  | .mul a b => .mul (a.subst rep) (b.subst rep)
  | .div a b => .div (a.subst rep) (b.subst rep)
  | .fn1 f a => .fn1 f (a.subst rep)
  | .fn2 f a b => .fn2 f (a.subst rep) (b.subst rep)

-- ------------------------------------------------------------------------------------------------ state
structure CVar where
  name : String
  unit : U
  init : Option Rat
  cmeta : Option String
deriving DecidableEq, Repr, Inhabited

/-- left-hand sides `add_equation` accepts: a variable or a first-order derivative -/
inductive CLhs | var (v : Nat) | deriv (x t : Nat)
deriving DecidableEq, Repr, Inhabited

structure CEqn where
  lhs : CLhs
  rhs : X
deriving DecidableEq, Repr, Inhabited

structure CState where
  vars : List CVar := []                    -- `_name_to_variable`; position = identity = `order_added`
  cmetaMap : List (String × Nat) := []      -- `_cmeta_id_to_variable`
  equations : List CEqn := []
  varDef : List (Nat × CEqn) := []          -- `_var_definition_map`
  odeDef : List (Nat × CEqn) := []          -- `_ode_definition_map`
  raised : Bool := false                    -- some call made so far would have raised in Python
deriving DecidableEq, Repr, Inhabited

inductive Dir | input | output
deriving DecidableEq, Repr, Inhabited

def names (s : CState) : List String := s.vars.map (·.name)
def nameOfV (s : CState) (v : Nat) : String := ((s.vars[v]?).map (·.name)).getD ""
def unitOfV (s : CState) (v : Nat) : U := ((s.vars[v]?).map (·.unit)).getD {}
def initOfV (s : CState) (v : Nat) : Option Rat := (s.vars[v]?).bind (·.init)
def cmetaOfV (s : CState) (v : Nat) : Option String := (s.vars[v]?).bind (·.cmeta)

def setV (vs : List CVar) (i : Nat) (f : CVar → CVar) : List CVar :=
  match vs[i]? with
  | some v => vs.set i (f v)
  | none => vs

-- ------------------------------------------------------------------------------------------------ units of expressions
/-- the units the uninterpreted function symbols give their results (`none`: rejected) -/
structure UI where
  FU1 : String → U → Option U
  FU2 : String → U → U → Option U

/-- `units.evaluate_units` on right-hand sides: sums need equal units, products and quotients combine them -/
def unitOf (J : UI) (s : CState) : X → Option U
  | .var v => some (unitOfV s v)
  | .deriv x t => some ((unitOfV s x).div (unitOfV s t))
  | .lit _ u => some u
  | .add a b | .sub a b =>
      match unitOf J s a, unitOf J s b with
      | some ua, some ub => if ua = ub then some ua else none
      | _, _ => none
  | .mul a b =>
      match unitOf J s a, unitOf J s b with
      | some ua, some ub => some (ua.mul ub)
      | _, _ => none
  | .div a b =>
      match unitOf J s a, unitOf J s b with
      | some ua, some ub => some (ua.div ub)
      | _, _ => none
  | .fn1 f a => (unitOf J s a).bind (J.FU1 f)
  | .fn2 f a b =>
      match unitOf J s a, unitOf J s b with
      | some ua, some ub => J.FU2 f ua ub
      | _, _ => none

-- ------------------------------------------------------------------------------------------------ the calls used
/-- `get_unique_name`: append `_a` while the name is in use. On fuel; `names.length` tries are enough, because the
    candidates get longer and longer (`Props/C06.lean`, `convert_var_names_fresh`). -/
def uniqueName (names : List String) : Nat → String → String
  | 0, b => b
  | fuel + 1, b => if b ∈ names then uniqueName names fuel (b ++ "_a") else b

def freshName (s : CState) (base : String) : String := uniqueName (names s) (names s).length base

/-- `add_variable(name, units, initial_value)` without a cmeta id; answers the new variable -/
def addVariable (s : CState) (name : String) (u : U) (init : Option Rat) : CState × Nat :=
  if name ∈ names s then ({ s with raised := true }, s.vars.length)            -- ValueError
  else ({ s with vars := s.vars ++ [⟨name, u, init, none⟩] }, s.vars.length)

/-- `transfer_cmeta_id` -/
def transferCmeta (s : CState) (src dst : Nat) : CState :=
  match cmetaOfV s src with
  | none => { s with raised := true }                                          -- ValueError
  | some c =>
    match cmetaOfV s dst with
    | some _ => { s with raised := true }                                      -- ValueError
    | none =>
      { s with vars := setV (setV s.vars dst (fun x => { x with cmeta := some c })) src
                            (fun x => { x with cmeta := none }),
               cmetaMap := insertKey c dst s.cmetaMap }

/-- `_check_duplicate_definitions` -/
def isDefined (s : CState) (v : Nat) : Bool := hasKey v s.odeDef || hasKey v s.varDef

/-- `add_equation(eq, check_duplicates=check)` (validate, then append; the caches are not modelled here) -/
def addEq (s : CState) (e : CEqn) (check : Bool) : CState :=
  match e.lhs with
  | .deriv x _ =>
      if check && isDefined s x then { s with raised := true }                 -- ValueError
      else { s with odeDef := insertKey x e s.odeDef, equations := s.equations ++ [e] }
  | .var v =>
      if check && isDefined s v then { s with raised := true }                 -- ValueError
      else { s with varDef := insertKey v e s.varDef, equations := s.equations ++ [e] }

/-- `remove_equation` -/
def removeEq (s : CState) (e : CEqn) : CState :=
  if e ∈ s.equations then
    let s1 := { s with equations := s.equations.erase e }
    match e.lhs with
    | .deriv x _ =>
        if hasKey x s.odeDef then { s1 with odeDef := eraseKey x s.odeDef } else { s1 with raised := true }
    | .var v =>
        if hasKey v s.varDef then { s1 with varDef := eraseKey v s.varDef } else { s1 with raised := true }
  else { s with raised := true }                                               -- KeyError

/-- `get_free_variable`: the bound variable of the first ODE in dict order -/
def getFree (s : CState) : Option Nat :=
  match s.odeDef with
  | (_, e) :: _ => (match e.lhs with | .deriv _ t => some t | .var _ => none)
  | [] => none

/-- `units.evaluate_units(lhs)` of a left-hand side -/
def lhsUnit (s : CState) : CLhs → U
  | .var v => unitOfV s v
  | .deriv x t => (unitOfV s x).div (unitOfV s t)

def substLhs (rep : Rep) : CLhs → CLhs
  | .var v => .var v
  | .deriv x t => match rep.lookup (x, t) with | some w => .var w | none => .deriv x t

/-- `equation.xreplace(map)` -/
def substEq (rep : Rep) (e : CEqn) : CEqn := ⟨substLhs rep e.lhs, e.rhs.subst rep⟩

/-- `not derivatives_to_replace.isdisjoint(equation.rhs.atoms(sympy.Derivative))` -/
def mentions (rep : Rep) (e : CEqn) : Bool := e.rhs.derivs.any (fun d => hasKey d rep)

-- ------------------------------------------------------------------------------------------------ the helpers
/-- `_replace_references_to_derivatives`: over a copy of the list; an equation that mentions a replaced derivative
    is removed and its rewritten form appended -/
def replaceRefs (s : CState) (rep : Rep) : CState :=
  s.equations.foldl (fun st e => if mentions rep e then addEq (removeEq st e) (substEq rep e) true else st) s

/-- `_remove_ode_and_assign_rhs_to_new_variable`: answers the variable that now holds the right-hand side -/
def removeOdeAssign (s : CState) (ode : CEqn) (x : Nat) : CState × Nat :=
  let (s1, w) := addVariable s (freshName s (nameOfV s x ++ "_orig_deriv")) (lhsUnit s ode.lhs) none
  (addEq (removeEq s1 ode) ⟨.var w, ode.rhs⟩ true, w)

/-- `_convert_free_variable_deriv`: answers the entry for the replacement map -/
def convertFreeDeriv (s : CState) (ode : CEqn) (newT : Nat) (cfq : X) : CState × Rep :=
  match ode.lhs with
  | .deriv x t =>
      let (s1, w) := removeOdeAssign s ode x
      (addEq s1 ⟨.deriv x newT, .div (.var w) cfq⟩ true, [((x, t), w)])
  | .var _ => (s, [])                                                          -- not in `_ode_definition_map`

/-- `_convert_state_variable_deriv` -/
def convertStateDeriv (s : CState) (v nv : Nat) (cfq : X) : CState × Rep :=
  match s.odeDef.lookup v with
  | some ode =>
    (match ode.lhs with
     | .deriv x t =>
        let (s1, w) := removeOdeAssign s ode v
        (addEq s1 ⟨.deriv nv t, .mul (.var w) cfq⟩ true, [((x, t), w)])
     | .var _ => (s, []))
  | none => ({ s with raised := true }, [])                                    -- KeyError

/-- `_convert_variable_instance`, the INPUT branch after the new variable `nv` exists: replace the definition of `v`
    (if it has one) by a definition of `nv`, drop the initial value of `v`, define `v` from `nv` -/
def instInput (s2 : CState) (v nv : Nat) (cfq : X) : CState :=
  let s3 := match s2.varDef.lookup v with
    | some oe => addEq (removeEq s2 oe) ⟨.var nv, .mul oe.rhs cfq⟩ true
    | none => s2
  let s4 := { s3 with vars := setV s3.vars v (fun x => { x with init := none }) }
  addEq s4 ⟨.var v, .div (.var nv) cfq⟩ (!hasKey v s4.odeDef)

/-- `_convert_variable_instance`, the OUTPUT branch -/
def instOutput (s2 : CState) (v nv : Nat) (cfq : X) : CState :=
  addEq s2 ⟨.var nv, .mul (.var v) cfq⟩ true

/-- the initial value of the new variable -/
def newInit (s : CState) (v : Nat) (cf : Rat) : Dir → Option Rat
  | .input => (initOfV s v).map (· * cf)
  | .output => none

/-- `_convert_variable_instance` -/
def convertInstance (s : CState) (v : Nat) (cf : Rat) (u : U) (dir : Dir) (move : Bool) : CState × Nat :=
  let cfq : X := .lit cf (u.div (unitOfV s v))
  let (s1, nv) := addVariable s (freshName s (nameOfV s v ++ "_converted")) u (newInit s v cf dir)
  let s2 := if (cmetaOfV s1 v).isSome && move then transferCmeta s1 v nv else s1
  match dir with
  | .input => (instInput s2 v nv cfq, nv)
  | .output => (instOutput s2 v nv cfq, nv)

/-- the ODEs `sorted(self._ode_definition_map.items(), key=order_added)` -/
def sortedOdes (s : CState) : List CEqn :=
  (sortByKey id (s.odeDef.map (·.1))).filterMap (fun x => s.odeDef.lookup x)

/-- one turn of the loop over the ODEs in `convert_variable` -/
def freeStep (v nv : Nat) (cfq : X) (acc : CState × Rep) (ode : CEqn) : CState × Rep :=
  match ode.lhs with
  | .deriv _ t =>
      if t = v then
        let (st, r) := convertFreeDeriv acc.1 ode nv cfq
        (st, r.foldl (fun m p => insertKey p.1 p.2 m) acc.2)
      else ({ acc.1 with raised := true }, acc.2)                              -- AssertionError
  | .var _ => acc

/-- `if original_variable in state_symbols: …_convert_state_variable_deriv…` -/
def statePhase (isState : Bool) (s1 : CState) (v nv : Nat) (cfq : X) : CState × Rep :=
  if isState then convertStateDeriv s1 v nv cfq else (s1, [])

/-- `if original_variable == free_symbol: for … in sorted(odes): …_convert_free_variable_deriv…` -/
def freePhase (isFree : Bool) (acc : CState × Rep) (v nv : Nat) (cfq : X) : CState × Rep :=
  if isFree then (sortedOdes acc.1).foldl (freeStep v nv cfq) acc else acc

/-- `if derivative_replacements: self._replace_references_to_derivatives(derivative_replacements)` -/
def replacePhase (acc : CState × Rep) : CState :=
  if acc.2.isEmpty then acc.1 else replaceRefs acc.1 acc.2

/-- `convert_variable(v, units, direction, move_annotations)` with `cf = get_conversion_factor(v.units, units)`:
    answers the state, the variable returned, and the derivative replacement map that was applied -/
def convertVariable (s : CState) (v : Nat) (u : U) (cf : Rat) (dir : Dir) (move : Bool) : CState × Nat × Rep :=
  if cf = 1 then (s, v, [])
  else
    let cfq : X := .lit cf (u.div (unitOfV s v))
    let isState := hasKey v s.odeDef                    -- `original_variable in state_symbols`, read early
    let free := getFree s
    let ci := convertInstance s v cf u dir move
    match dir with
    | .output => (ci.1, ci.2, [])
    | .input =>
        let a := statePhase isState ci.1 v ci.2 cfq
        let b := freePhase (free == some v) a v ci.2 cfq
        (replacePhase b, ci.2, b.2)

end Model.CV
