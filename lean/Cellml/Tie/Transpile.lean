import Cellml.Generated.Code.Transpile
import Mathlib.Tactic.SplitIfs

set_option linter.unusedSimpArgs false

/-! # Tie: the callbacks and handlers of `cellmlmanip.parser.Transpiler` (generated from the source) = the hand model
    `C02.callWrapped` / `C02.diffCb` / `C02.callRel` / `C02.assemble` / `C02.cnHandler` (the functions `C02.transpile`
    is made of, which the theorems of `Props/C02.lean` are about) and `C14.cnPlain` / `C14.cnENotation`. -/

namespace Cellml.Tie.PTranspile
open C02 Cellml.Gen

/-! ## `_is_bool` -/

theorem isBool_tie (e : Sy) : Transpile.isBool e = .ok (isBoolConst e) := by
  unfold Transpile.isBool isBoolConst pyIsInstance pyClassOf
  cases e <;> simp [pure, Except.pure]
  all_goals split_ifs <;> simp_all

/-! ## the closures of the explicit handlers: python's binding of the operands to the parameters of the `def`
    (`…_params`: required, all, defaults — read from the source), then the generated body -/

theorem wrapped_params :
    Transpile.wrappedMinus_params = (1, 2, ["None"]) ∧ Transpile.wrappedDivide_params = (2, 2, []) ∧
    Transpile.wrappedPower_params = (2, 2, []) ∧ Transpile.wrappedRoot_params = (1, 2, ["None"]) ∧
    Transpile.wrappedLog_params = (1, 2, ["None"]) ∧ Transpile.wrappedDiff_params = (2, 3, ["False"]) :=
  ⟨rfl, rfl, rfl, rfl, rfl, rfl⟩

theorem wrappedMinus_tie (l : List Sy) :
    syE (callWrapped "_minus_handler" (Sy.ofList l)) =
      match l with
      | [a] => Transpile.wrappedMinus a none
      | [a, b] => Transpile.wrappedMinus a (some b)
      | _ => .error ⟨"TypeError"⟩ := by
  unfold Transpile.wrappedMinus
  match l with
  | [] => simp [callWrapped, Sy.ofList, errClass, syErrName]
  | [a] => simp [callWrapped, Sy.ofList, pyNeg, bind, Except.bind, pure, Except.pure]
  | [a, b] =>
    simp [callWrapped, Sy.ofList, pySub, withOperand, bind, Except.bind, pure, Except.pure]
  | _ :: _ :: _ :: _ => simp [callWrapped, Sy.ofList, errClass, syErrName]

theorem wrappedDivide_tie (l : List Sy) :
    syE (callWrapped "_divide_handler" (Sy.ofList l)) =
      match l with
      | [a, b] => Transpile.wrappedDivide a b
      | _ => .error ⟨"TypeError"⟩ := by
  unfold Transpile.wrappedDivide
  match l with
  | [] => simp [callWrapped, Sy.ofList, errClass, syErrName]
  | [a] => simp [callWrapped, Sy.ofList, errClass, syErrName]
  | [a, b] => simp [callWrapped, Sy.ofList, pyDiv, bind, Except.bind, pure, Except.pure]
  | _ :: _ :: _ :: _ => simp [callWrapped, Sy.ofList, errClass, syErrName]

theorem wrappedPower_tie (l : List Sy) :
    syE (callWrapped "_power_handler" (Sy.ofList l)) =
      match l with
      | [a, b] => Transpile.wrappedPower a b
      | _ => .error ⟨"TypeError"⟩ := by
  unfold Transpile.wrappedPower
  match l with
  | [] => simp [callWrapped, Sy.ofList, errClass, syErrName]
  | [a] => simp [callWrapped, Sy.ofList, errClass, syErrName]
  | [a, b] => simp [callWrapped, Sy.ofList, pyPow, bind, Except.bind, pure, Except.pure]
  | _ :: _ :: _ :: _ => simp [callWrapped, Sy.ofList, errClass, syErrName]

theorem wrappedRoot_tie (l : List Sy) :
    syE (callWrapped "_root_handler" (Sy.ofList l)) =
      match l with
      | [a] => Transpile.wrappedRoot a none
      | [a, b] => Transpile.wrappedRoot a (some b)
      | _ => .error ⟨"TypeError"⟩ := by
  unfold Transpile.wrappedRoot
  match l with
  | [] => simp [callWrapped, Sy.ofList, errClass, syErrName]
  | [a] => simp [callWrapped, Sy.ofList, sympyRoot, withOperand, bind, Except.bind, pure, Except.pure, OfNat.ofNat]
  | [a, b] => simp [callWrapped, Sy.ofList, sympyRoot, withOperand, bind, Except.bind, pure, Except.pure]
  | _ :: _ :: _ :: _ => simp [callWrapped, Sy.ofList, errClass, syErrName]

theorem wrappedLog_tie (l : List Sy) :
    syE (callWrapped "_log_handler" (Sy.ofList l)) =
      match l with
      | [a] => Transpile.wrappedLog a none
      | [a, b] => Transpile.wrappedLog a (some b)
      | _ => .error ⟨"TypeError"⟩ := by
  unfold Transpile.wrappedLog
  match l with
  | [] => simp [callWrapped, Sy.ofList, errClass, syErrName]
  | [a] => simp [callWrapped, Sy.ofList, sympyLog, withOperand, bind, Except.bind, pure, Except.pure, OfNat.ofNat]
  | [a, b] => simp [callWrapped, Sy.ofList, sympyLog, withOperand, bind, Except.bind, pure, Except.pure]
  | _ :: _ :: _ :: _ => simp [callWrapped, Sy.ofList, errClass, syErrName]

/-! ### `_wrapped_diff` -/

theorem chain2 (xs : Sy) (h : (properChain xs && xs.len == 2) = true) : ∃ v d, xs = .cons v (.cons d .nil) := by
  cases xs <;> simp [properChain, Sy.len] at h
  rename_i a t
  cases t <;> simp [properChain, Sy.len] at h
  rename_i b t
  cases t <;> simp [properChain, Sy.len] at h
  · exact ⟨a, b, rfl⟩

theorem wrappedDiff_body_tie (x y : Sy) (ev : Option Sy) :
    Transpile.wrappedDiff x y ev = syE (diffCb x y ev) := by
  unfold Transpile.wrappedDiff diffCb
  by_cases hb : (isBoolConst x || isBoolConst y) = true
  · simp only [Bool.or_eq_true] at hb
    rcases hb with hb | hb <;> simp [hb, bind, Except.bind, throw, throwThe, MonadExceptOf.throw, errClass, syErrName]
  · simp only [Bool.or_eq_true, not_or, Bool.not_eq_true] at hb
    simp only [hb.1, hb.2, Py.truthy_bool, Bool.or_self, Bool.false_eq_true, if_false]
    cases x with
    | pylist xs =>
      by_cases h2 : (properChain xs && xs.len == 2) = true
      · obtain ⟨v, d, rfl⟩ := chain2 xs h2
        simp [pyIsInstance, pyClassOf, properChain, Sy.length, Sy.len, PyItem.item, Sy.toList, bind, Except.bind, pure, Except.pure]
        cases d <;> simp [pyIntOf, sympyDerivativeN, tryCatch, tryCatchThe, MonadExceptOf.tryCatch, Except.tryCatch, errClass, syErrName, throw, throwThe, MonadExceptOf.throw]
      · have hc : (pyIsInstance (Sy.pylist xs) ["list"] && ((Sy.pylist xs).length == 2)) = false := by
          simp only [pyIsInstance, pyClassOf, Sy.length, Py.truthy_bool]
          cases hp : properChain xs <;> simp_all
        simp only [hc, Bool.false_eq_true, if_false]
        split
        · rename_i heq
          cases heq
          simp [properChain, Sy.len] at h2
        · simp [sympyDerivative, bind, Except.bind, pure, Except.pure]
    | _ => simp [pyIsInstance, pyClassOf, sympyDerivative, bind, Except.bind, pure, Except.pure, Sy.length]

theorem wrappedDiff_tie (l : List Sy) :
    syE (callWrapped "_diff_handler" (Sy.ofList l)) =
      match l with
      | [x, y] => Transpile.wrappedDiff x y none
      | [x, y, f] => Transpile.wrappedDiff x y (some f)
      | _ => .error ⟨"TypeError"⟩ := by
  match l with
  | [] => simp [callWrapped, Sy.ofList, errClass, syErrName]
  | [a] => simp [callWrapped, Sy.ofList, errClass, syErrName]
  | [a, b] => simp [callWrapped, Sy.ofList, wrappedDiff_body_tie]
  | [a, b, f] => simp [callWrapped, Sy.ofList, wrappedDiff_body_tie]
  | _ :: _ :: _ :: _ :: _ => simp [callWrapped, Sy.ofList, errClass, syErrName]

/-! ## `_get_nary_relation_callback` : `_wrapper_relational(*expressions)` = `C02.callRel` -/

theorem ofList_len (l : List Sy) : (Sy.ofList l).len = l.length := by
  induction l with
  | nil => rfl
  | cons a r ih => simp [Sy.ofList, Sy.len, ih]

theorem ofList_any (p : Sy → Bool) (l : List Sy) : Sy.any p (Sy.ofList l) = l.any p := by
  induction l with
  | nil => rfl
  | cons a r ih => simp [Sy.ofList, Sy.any, ih]

theorem ofList_all (p : Sy → Bool) (l : List Sy) : Sy.all p (Sy.ofList l) = l.all p := by
  induction l with
  | nil => rfl
  | cons a r ih => simp [Sy.ofList, Sy.all, ih]

theorem toList_ofList (l : List Sy) : (Sy.ofList l).toList = l := by
  induction l with
  | nil => rfl
  | cons a r ih => simp [Sy.ofList, Sy.toList, ih]

theorem isDerivative_eq : (fun e => pyIsInstance e ["Derivative"]) = isDerivative := by
  funext e
  cases e <;> simp [pyIsInstance, pyClassOf, isDerivative]
  · split_ifs <;> simp
  · rename_i h _
    by_cases h1 : h = "Derivative" <;> by_cases h2 : h = "DerivativeEval" <;> simp [h1, h2]
  · split_ifs <;> simp

theorem pairs_loop (c : String) : ∀ (l acc : List Sy),
    (forIn (l.dropLast.zip (List.drop 1 l)) acc (fun x s =>
        (sympyClassCall c [x.fst, x.snd]).bind fun v => Except.pure (ForInStep.yield (s ++ [v]))) :
          Except PyErr (List Sy))
      = (match pairs c (Sy.ofList l) with
        | .error e => .error ⟨syErrName e⟩
        | .ok ps => .ok (acc ++ ps.toList)) ∧ (∀ ps, pairs c (Sy.ofList l) = .ok ps → Sy.ofList ps.toList = ps)
  | [], acc => by simp [Sy.ofList, pairs, Sy.toList, pure, Except.pure]
  | [a], acc => by simp [Sy.ofList, pairs, Sy.toList, pure, Except.pure]
  | a :: b :: rest, acc => by
    have ih := pairs_loop c (b :: rest)
    simp only [List.dropLast_cons_cons, List.drop_one, List.tail_cons, List.zip_cons_cons, List.forIn_cons,
      Sy.ofList, pairs, sympyClassCall, bind, Except.bind, Except.pure] at ih ⊢
    cases h : callClass c (.cons a (.cons b .nil)) with
    | error e => simp [syE, errClass]
    | ok r =>
      simp only [show syE (Except.ok r : Except C02.Err Sy) = Except.ok r from rfl]
      have ih' := ih (acc ++ [r])
      rw [ih'.1]
      cases h2 : pairs c (Sy.cons b (Sy.ofList rest)) with
      | error e => simp
      | ok rs =>
        simp [Sy.toList, Sy.ofList, ih'.2 rs h2]

theorem isIneq_eq (c : String) : Py.isIn c ["Ge", "Le", "Gt", "Lt"] = isIneqClass c := by
  simp [Py.isIn, isIneqClass]

theorem isEq_eq (c : String) : Py.isIn c ["Eq", "Ne"] = isEqClass c := by
  simp [Py.isIn, isEqClass]

theorem wrapperRelational_tie (c : String) (l : List Sy) :
    Transpile.wrapperRelational c l = syE (callRel c (Sy.ofList l)) := by
  unfold Transpile.wrapperRelational callRel
  simp only [bind, pure]
  rw [(pairs_loop c l []).1]
  simp only [bind, Except.bind, pure, Except.pure, throw, throwThe, MonadExceptOf.throw, Py.truthy_bool,
    ofList_len, ofList_any, ofList_all, isIneq_eq, isEq_eq, isDerivative_eq]
  by_cases h2 : l.length > 2
  · simp only [h2, decide_true, if_true]
    have hp := (pairs_loop c l []).2
    cases hps : pairs c (Sy.ofList l) with
    | error e => simp [syE, errClass]
    | ok ps => simp [syE, errClass, sympyAndOf, hp ps hps]
  · simp only [h2, decide_false, Bool.false_eq_true, if_false]
    match l, h2 with
    | [], _ => simp [PyItem.item, sympyClassCall, Sy.ofList, syE, errClass, syErrName]
    | [a], _ =>
      cases h1 : isIneqClass c <;> cases h3 : isBoolConst a <;>
        simp [PyItem.item, h1, h3, sympyClassCall, Sy.ofList, syE, errClass, syErrName]
    | [a, b], _ =>
      cases h1 : isIneqClass c <;> cases h2 : isEqClass c <;> cases h3 : isBoolConst a <;> cases h4 : isBoolConst b <;>
        cases h5 : isDerivative a <;> cases h6 : isDerivative b <;>
        simp [PyItem.item, h1, h2, h3, h4, h5, h6, sympyClassCall, Sy.ofList, syE, errClass, syErrName]
    | _ :: _ :: _ :: _, h => exact absurd (by simp) h

/-! ## the container handlers: `result = self.transpile(node)`, then what `C02.assemble` does with the list -/

/-- what a container handler does in the model: transpile the children, then `assemble` -/
def modelContainer (m : String) (self : TView) (node : Mml) : Except PyErr Sy :=
  (self.transpile node).bind fun l => syE (assemble m (Sy.ofList l))

theorem applyHandler_tie (self : TView) (node : Mml) :
    Transpile.applyHandler self node = modelContainer "_apply_handler" self node := by
  unfold Transpile.applyHandler modelContainer
  cases self.transpile node with
  | error e => simp [bind, Except.bind]
  | ok l =>
    match l with
    | [] => simp [bind, Except.bind, pure, Except.pure, PyItem.item, assemble, Sy.ofList, syE, errClass, syErrName]
    | [f] => simp [bind, Except.bind, pure, Except.pure, PyItem.item, assemble, Sy.ofList, syE, errClass, syErrName]
    | f :: a :: r =>
      simp [bind, Except.bind, pure, Except.pure, PyItem.item, assemble, Sy.ofList, syE, errClass, syErrName, pyCall]

theorem piecewiseHandler_tie (self : TView) (node : Mml) :
    Transpile.piecewiseHandler self node = modelContainer "_piecewise_handler" self node := by
  unfold Transpile.piecewiseHandler modelContainer
  cases self.transpile node with
  | error e => simp [bind, Except.bind]
  | ok l => simp [bind, Except.bind, pure, Except.pure, sympyPiecewise]

theorem pieceHandler_tie (self : TView) (node : Mml) :
    Transpile.pieceHandler self node = modelContainer "_piece_handler" self node := by
  unfold Transpile.pieceHandler modelContainer
  cases self.transpile node with
  | error e => simp [bind, Except.bind]
  | ok l =>
    match l with
    | [] => simp [bind, Except.bind, pure, Except.pure, throw, throwThe, MonadExceptOf.throw, PyItem.item, assemble, Sy.ofList, syE, errClass, syErrName]
    | [f] => simp [bind, Except.bind, pure, Except.pure, throw, throwThe, MonadExceptOf.throw, PyItem.item, assemble, Sy.ofList, syE, errClass, syErrName]
    | [f, a] => simp [bind, Except.bind, pure, Except.pure, throw, throwThe, MonadExceptOf.throw, PyItem.item, assemble, Sy.ofList, syE, errClass, syErrName]
    | f :: a :: b :: r => simp [bind, Except.bind, pure, Except.pure, throw, throwThe, MonadExceptOf.throw, PyItem.item, assemble, Sy.ofList, syE, errClass, syErrName]

theorem otherwiseHandler_tie (self : TView) (node : Mml) :
    Transpile.otherwiseHandler self node = modelContainer "_otherwise_handler" self node := by
  unfold Transpile.otherwiseHandler modelContainer
  cases self.transpile node with
  | error e => simp [bind, Except.bind]
  | ok l =>
    match l with
    | [] => simp [bind, Except.bind, pure, Except.pure, throw, throwThe, MonadExceptOf.throw, PyItem.item, assemble, Sy.ofList, syE, errClass, syErrName]
    | [f] => simp [bind, Except.bind, pure, Except.pure, throw, throwThe, MonadExceptOf.throw, PyItem.item, assemble, Sy.ofList, syE, errClass, syErrName, pyTrue]
    | f :: a :: r => simp [bind, Except.bind, pure, Except.pure, throw, throwThe, MonadExceptOf.throw, PyItem.item, assemble, Sy.ofList, syE, errClass, syErrName]

theorem degreeHandler_tie (self : TView) (node : Mml) :
    Transpile.degreeHandler self node = modelContainer "_degree_handler" self node := by
  unfold Transpile.degreeHandler modelContainer
  cases self.transpile node with
  | error e => simp [bind, Except.bind]
  | ok l =>
    match l with
    | [] => simp [bind, Except.bind, pure, Except.pure, throw, throwThe, MonadExceptOf.throw, PyItem.item, assemble, Sy.ofList, syE, errClass, syErrName]
    | [f] => simp [bind, Except.bind, pure, Except.pure, throw, throwThe, MonadExceptOf.throw, PyItem.item, assemble, Sy.ofList, syE, errClass, syErrName]
    | f :: a :: r => simp [bind, Except.bind, pure, Except.pure, throw, throwThe, MonadExceptOf.throw, PyItem.item, assemble, Sy.ofList, syE, errClass, syErrName]

theorem bvarHandler_tie (self : TView) (node : Mml) :
    Transpile.bvarHandler self node = modelContainer "_bvar_handler" self node := by
  unfold Transpile.bvarHandler modelContainer
  cases self.transpile node with
  | error e => simp [bind, Except.bind]
  | ok l =>
    match l with
    | [] => simp [bind, Except.bind, pure, Except.pure, throw, throwThe, MonadExceptOf.throw, PyItem.item, assemble, Sy.ofList, syE, errClass, syErrName]
    | [f] => simp [bind, Except.bind, pure, Except.pure, throw, throwThe, MonadExceptOf.throw, PyItem.item, assemble, Sy.ofList, syE, errClass, syErrName]
    | [f, a] => simp [bind, Except.bind, pure, Except.pure, throw, throwThe, MonadExceptOf.throw, PyItem.item, assemble, Sy.ofList, syE, errClass, syErrName, pyListOf]
    | f :: a :: b :: r => simp [bind, Except.bind, pure, Except.pure, throw, throwThe, MonadExceptOf.throw, PyItem.item, assemble, Sy.ofList, syE, errClass, syErrName]

theorem logbaseHandler_tie (self : TView) (node : Mml) :
    Transpile.logbaseHandler self node = modelContainer "_logbase_handler" self node := by
  unfold Transpile.logbaseHandler modelContainer
  cases self.transpile node with
  | error e => simp [bind, Except.bind]
  | ok l =>
    match l with
    | [] => simp [bind, Except.bind, pure, Except.pure, PyItem.item, assemble, Sy.ofList, syE, errClass, syErrName]
    | f :: r => simp [bind, Except.bind, pure, Except.pure, PyItem.item, assemble, Sy.ofList, syE, errClass, syErrName]


/-! ## from the generated handlers to `C02.transpile` -/

theorem transpile_ofList_proper : ∀ (ks : List Mml) (r : Sy), C02.transpile (Mml.ofList ks) = .ok r →
    Sy.ofList r.toList = r
  | [], r, h => by simp [Mml.ofList, C02.transpile] at h; subst h; rfl
  | k :: ks, r, h => by
    simp only [Mml.ofList, C02.transpile] at h
    cases hk : C02.transpile k with
    | error e => simp [hk] at h
    | ok a =>
      cases hks : C02.transpile (Mml.ofList ks) with
      | error e => simp [hk, hks] at h
      | ok rs =>
        simp [hk, hks] at h
        subst h
        simp [Sy.toList, Sy.ofList, transpile_ofList_proper ks rs hks]

theorem container_model (tag m : String) (ks : List Mml) (h : handlerOf tag = some m)
    (h1 : (m == "_simple_operator_handler") = false) (h2 : m ∉ wrappedHandlers) (h3 : (m == "transpile") = false) :
    syE (C02.transpile (.el tag (Mml.ofList ks))) = modelContainer m modelTView (.el tag (Mml.ofList ks)) := by
  simp only [C02.transpile, h, h1, h2, h3, modelContainer, modelTView, if_false, Bool.false_eq_true]
  cases hr : C02.transpile (Mml.ofList ks) with
  | error e => simp [syE, errClass, Except.map, Except.bind]
  | ok r => simp [syE, errClass, Except.map, Except.bind, transpile_ofList_proper ks r hr]

/-- **The container elements.** For every element whose handler (GENERATED table `handlerKeys`) is one of the seven
    container methods and every list of children: the model's `transpile` of the element is the definition generated
    from that method, run on the model's own view (children transpiled left to right by `C02.transpile`). -/
theorem transpile_container_tie (tag m : String) (ks : List Mml) (h : handlerOf tag = some m) :
    let node := Mml.el tag (Mml.ofList ks)
    (m = "_apply_handler" → syE (C02.transpile node) = Transpile.applyHandler modelTView node) ∧
    (m = "_piecewise_handler" → syE (C02.transpile node) = Transpile.piecewiseHandler modelTView node) ∧
    (m = "_piece_handler" → syE (C02.transpile node) = Transpile.pieceHandler modelTView node) ∧
    (m = "_otherwise_handler" → syE (C02.transpile node) = Transpile.otherwiseHandler modelTView node) ∧
    (m = "_degree_handler" → syE (C02.transpile node) = Transpile.degreeHandler modelTView node) ∧
    (m = "_bvar_handler" → syE (C02.transpile node) = Transpile.bvarHandler modelTView node) ∧
    (m = "_logbase_handler" → syE (C02.transpile node) = Transpile.logbaseHandler modelTView node) := by
  intro node
  refine ⟨?_, ?_, ?_, ?_, ?_, ?_, ?_⟩ <;> intro hm <;> subst hm
  · rw [applyHandler_tie]; exact container_model _ _ ks h (by decide) (by decide) (by decide)
  · rw [piecewiseHandler_tie]; exact container_model _ _ ks h (by decide) (by decide) (by decide)
  · rw [pieceHandler_tie]; exact container_model _ _ ks h (by decide) (by decide) (by decide)
  · rw [otherwiseHandler_tie]; exact container_model _ _ ks h (by decide) (by decide) (by decide)
  · rw [degreeHandler_tie]; exact container_model _ _ ks h (by decide) (by decide) (by decide)
  · rw [bvarHandler_tie]; exact container_model _ _ ks h (by decide) (by decide) (by decide)
  · rw [logbaseHandler_tie]; exact container_model _ _ ks h (by decide) (by decide) (by decide)

/-! ## python's call `result[0](*result[1:])` (`pyCall` = `C02.call`): by the kind of the callee, the generated
    callbacks -/

/-- **`call`.** What `_apply_handler` calls, for every callee and every operand list: a SymPy class (leaf: the model's
    table of SymPy's constructors), the relation wrapper (generated `_wrapper_relational`), one of the six closures
    (generated `_wrapped_*`, operands bound to its parameters as python does), anything else. -/
theorem call_tie (f : Sy) (l : List Sy) :
    pyCall f l =
      match f with
      | .cls c => sympyClassCall c l
      | .rel c => Transpile.wrapperRelational c l
      | .wrapped m =>
        if m = "_minus_handler" then
          (match l with
            | [a] => Transpile.wrappedMinus a none
            | [a, b] => Transpile.wrappedMinus a (some b)
            | _ => .error ⟨"TypeError"⟩)
        else if m = "_divide_handler" then
          (match l with
            | [a, b] => Transpile.wrappedDivide a b
            | _ => .error ⟨"TypeError"⟩)
        else if m = "_power_handler" then
          (match l with
            | [a, b] => Transpile.wrappedPower a b
            | _ => .error ⟨"TypeError"⟩)
        else if m = "_root_handler" then
          (match l with
            | [a] => Transpile.wrappedRoot a none
            | [a, b] => Transpile.wrappedRoot a (some b)
            | _ => .error ⟨"TypeError"⟩)
        else if m = "_log_handler" then
          (match l with
            | [a] => Transpile.wrappedLog a none
            | [a, b] => Transpile.wrappedLog a (some b)
            | _ => .error ⟨"TypeError"⟩)
        else if m = "_diff_handler" then
          (match l with
            | [x, y] => Transpile.wrappedDiff x y none
            | [x, y, e] => Transpile.wrappedDiff x y (some e)
            | _ => .error ⟨"TypeError"⟩)
        else syE (callWrapped m (Sy.ofList l))
      | .nil | .cons _ _ => .error ⟨syErrName (.outside "list in operator position")⟩
      | _ => .error ⟨"TypeError"⟩ := by
  unfold pyCall
  cases f <;> simp only [call, sympyClassCall, wrapperRelational_tie] <;> try rfl
  rename_i m
  split_ifs with h1 h2 h3 h4 h5 h6
  · subst h1; exact wrappedMinus_tie l
  · subst h2; exact wrappedDivide_tie l
  · subst h3; exact wrappedPower_tie l
  · subst h4; exact wrappedRoot_tie l
  · subst h5; exact wrappedLog_tie l
  · subst h6; exact wrappedDiff_tie l
  · rfl


/-! ## `_cn_handler` -/

theorem dropWhile_head_not {α} (p : α → Bool) : ∀ (cs : List α) (x : α) (r : List α), cs.dropWhile p = x :: r → p x = false
  | [], x, r, h => by simp at h
  | c :: cs, x, r, h => by
    rw [List.dropWhile_cons] at h
    split at h
    · exact dropWhile_head_not p cs x r h
    · rename_i hc; cases h; simpa using hc

theorem dropWhile_idem {α} (p : α → Bool) : ∀ (l : List α), (l.dropWhile p).dropWhile p = l.dropWhile p
  | [] => rfl
  | c :: cs => by
    rw [List.dropWhile_cons]
    split
    · exact dropWhile_idem p cs
    · rename_i hc; rw [List.dropWhile_cons, if_neg hc]

theorem strip_strip (cs : List Char) : C02.strip (C02.strip cs) = C02.strip cs := by
  unfold C02.strip
  cases ha : cs.dropWhile isWs with
  | nil => simp
  | cons x r =>
    have hx := dropWhile_head_not isWs cs x r ha
    have hb : List.dropWhile isWs ((List.dropWhile isWs (x :: r).reverse).reverse) =
        (List.dropWhile isWs (x :: r).reverse).reverse := by
      rw [List.reverse_cons, List.dropWhile_append]
      split
      · simp [hx]
      · simp [hx]
    rw [hb, List.reverse_reverse, dropWhile_idem]

theorem pyFloat_strip (cs : List Char) : pyFloat (C02.strip cs) = pyFloat cs := by
  unfold pyFloat; rw [strip_strip]
theorem pyInt_strip (cs : List Char) : pyInt (C02.strip cs) = pyInt cs := by
  unfold pyInt; rw [strip_strip]
theorem pyFloatExp_strip (cs : List Char) (k : Int) : pyFloatExp (C02.strip cs) k = pyFloatExp cs k := by
  unfold pyFloatExp; rw [strip_strip]

/-- **`_cn_handler` = `C02.cnHandler`** (with the default number generator), for every `<cn>`: attribute, text,
    children, units. `float(text.strip())` is the model's `pyFloat text`: `float` strips again (`strip_strip`). -/
theorem cnHandler_tie (ty text : Option String) (kids : List (Bool × Option String)) (u : Option String) :
    Transpile.cnHandler cnViewC02 ⟨ty, text, kids, u⟩ = syE (C02.cnHandler ty text kids) := by
  unfold Transpile.cnHandler C02.cnHandler
  cases ty with
  | none =>
    cases text with
    | none => simp [bind, Except.bind, pure, Except.pure, cnViewC02, syE, errClass, syErrName]
    | some s =>
      simp [bind, Except.bind, pure, Except.pure, cnViewC02, syE, errClass, syErrName, String.toList_ofList, pyFloat_strip]
      cases pyFloat s.toList <;> simp [optToExcept]
  | some t =>
    by_cases ht : t = "e-notation"
    · subst ht
      match kids with
      | [] => simp [bind, Except.bind, pure, Except.pure, cnViewC02, pyAttrib, CnNode.length, throw, throwThe, MonadExceptOf.throw, syE, errClass, syErrName]
      | [(false, tail)] =>
        simp [bind, Except.bind, pure, Except.pure, cnViewC02, pyAttrib, CnNode.length, pyChild, childTag, mathmlSepTag, throw, throwThe, MonadExceptOf.throw, syE, errClass, syErrName]
      | [(true, tail)] =>
        cases text with
        | none => simp [bind, Except.bind, pure, Except.pure, cnViewC02, pyAttrib, CnNode.length, pyChild, childTag, mathmlSepTag, throw, throwThe, MonadExceptOf.throw, syE, errClass, syErrName]
        | some m =>
          cases tail with
          | none => simp [bind, Except.bind, pure, Except.pure, cnViewC02, pyAttrib, CnNode.length, pyChild, childTag, childTail, mathmlSepTag, throw, throwThe, MonadExceptOf.throw, syE, errClass, syErrName]
          | some k =>
            simp [bind, Except.bind, pure, Except.pure, cnViewC02, pyAttrib, CnNode.length, pyChild, childTag, childTail, mathmlSepTag, throw, throwThe, MonadExceptOf.throw, syE, errClass, syErrName,
              String.toList_ofList, pyInt_strip, pyFloatExp_strip]
            cases pyInt k.toList with
            | none => simp [optToExcept]
            | some e => simp only [optToExcept]; cases hh : pyFloatExp m.toList e <;> simp [hh]
      | _ :: _ :: _ => simp [bind, Except.bind, pure, Except.pure, cnViewC02, pyAttrib, CnNode.length, throw, throwThe, MonadExceptOf.throw, syE, errClass, syErrName]
    · simp [bind, Except.bind, pure, Except.pure, cnViewC02, pyAttrib, ht, throw, throwThe, MonadExceptOf.throw, syE, errClass, syErrName]

/-! ## `_cn_handler` and C14: one parse of `mantissa + "e" + exponent` -/

theorem dropWs_eq : ∀ cs, C14.dropWs cs = cs.dropWhile C14.isWs
  | [] => rfl
  | c :: r => by
    rw [C14.dropWs, List.dropWhile_cons]
    split <;> simp_all [dropWs_eq r]

theorem strip14_strip (cs : List Char) : C14.strip (C14.strip cs) = C14.strip cs := by
  unfold C14.strip
  simp only [dropWs_eq]
  cases ha : cs.dropWhile C14.isWs with
  | nil => simp
  | cons x r =>
    have hx := dropWhile_head_not C14.isWs cs x r ha
    have hb : List.dropWhile C14.isWs ((List.dropWhile C14.isWs (x :: r).reverse).reverse) =
        (List.dropWhile C14.isWs (x :: r).reverse).reverse := by
      rw [List.reverse_cons, List.dropWhile_append]
      split
      · simp [hx]
      · simp [hx]
    rw [hb, List.reverse_reverse, dropWhile_idem]

theorem fmt_se_d (a b : String) : (Py.fmt "%se%d" [a, b]).toList = a.toList ++ 'e' :: b.toList := by
  have h : "%se%d".toList = ['%', 's', 'e', '%', 'd'] := by decide
  simp [Py.fmt, h, Py.fmtAux, String.toList_ofList]

/-- **`_cn_handler`, plain `<cn>` = `C14.cnPlain`**: `float(node.text.strip())` -/
theorem cnHandlerText_plain_tie (t : String) (kids : List (Bool × Option String)) (u : Option String) :
    Transpile.cnHandlerText cnViewC14 ⟨none, some t, kids, u⟩ = optToExcept "ValueError" (C14.cnPlain t.toList) := by
  unfold Transpile.cnHandlerText C14.cnPlain
  simp [bind, Except.bind, pure, Except.pure, cnViewC14, String.toList_ofList, C14.quantityValue]
  cases C14.decToBitsL (C14.strip t.toList) <;> simp [optToExcept]

/-- **`_cn_handler`, `<cn type="e-notation">m<sep/>e</cn>` = `C14.cnENotation`**: the exponent is read by `int`, written
    back by `'%d'`, appended to the stripped mantissa after an `e` by the format string of the SOURCE, and the text is
    parsed by `float` exactly once -/
theorem cnHandlerText_enotation_tie (m e : String) (u : Option String) :
    Transpile.cnHandlerText cnViewC14 ⟨some "e-notation", some m, [(true, some e)], u⟩ =
      optToExcept "ValueError" (C14.cnENotation m.toList e.toList) := by
  unfold Transpile.cnHandlerText C14.cnENotation
  have hp : C14.parseIntL (C14.strip e.toList) = C14.parseIntL e.toList := by
    unfold C14.parseIntL; rw [strip14_strip]
  simp [bind, Except.bind, pure, Except.pure, cnViewC14, pyAttrib, CnNode.length, pyChild, childTag, childTail, mathmlSepTag, String.toList_ofList, hp]
  cases hz : C14.parseIntL e.toList with
  | none => simp [optToExcept]
  | some z =>
    simp [optToExcept, fmt_se_d, PyStr.str, String.toList_ofList, C14.enotationText, C14.quantityValue]
    cases C14.decToBitsL (C14.strip m.toList ++ 'e' :: C14.renderInt z) <;> simp

/-- the lxml element of a literal written as a `<cn>` (C14's `Source`; `initial_value` attributes do not go through
    the transpiler) -/
def cnNodeOf : C14.Source → Option CnNode
  | .plain t => some ⟨none, some (String.ofList t), [], none⟩
  | .enotation m e => some ⟨some "e-notation", some (String.ofList m), [(true, some (String.ofList e))], none⟩
  | .initial _ => none

/-- **C14.** The bits `C14.sourceBits` (and with it `C14.pipeline`, `source_is_one_parse`, `enotation_single`) assigns
    to a `<cn>` literal are what the generated `_cn_handler` returns on its element -/
theorem cn_sourceBits_tie (s : C14.Source) (n : CnNode) (h : cnNodeOf s = some n) :
    Transpile.cnHandlerText cnViewC14 n = optToExcept "ValueError" (C14.sourceBits s) := by
  cases s with
  | plain t => cases h; simpa [String.toList_ofList, C14.sourceBits] using cnHandlerText_plain_tie (String.ofList t) [] none
  | enotation m e =>
    cases h; simpa [String.toList_ofList, C14.sourceBits] using cnHandlerText_enotation_tie (String.ofList m) (String.ofList e) none
  | initial t => cases h

/-! ## dispatch: `_simple_operator_handler`, and the loop of `Transpiler.transpile` over the children -/

/-- **`_simple_operator_handler` = `C02.simpleOperator`** (tables `mathmlOps`, `naryRelations` GENERATED) -/
theorem simpleOperatorHandler_tie (tag : String) (kids : Mml) :
    Transpile.simpleOperatorHandler (.el tag kids) = syE (simpleOperator tag) := by
  unfold Transpile.simpleOperatorHandler simpleOperator operatorTableGet
  simp only [mmlTag, bind, Except.bind, pure, Except.pure, Py.isIn]
  cases Cellml.Gen.mathmlOps.lookup tag with
  | none => simp [syE, errClass]
  | some c =>
    by_cases hn : tag ∈ Cellml.Gen.naryRelations <;> by_cases hc : c ∈ sympyConstants <;>
      simp [hn, hc, naryRelationCallback, syE, errClass]

theorem mml_toList_ofList (ks : List Mml) : (Mml.ofList ks).toList = ks := by
  induction ks with
  | nil => rfl
  | cons k r ih => simp [Mml.ofList, Mml.toList, ih]

theorem handlerOf_ci : (handlerOf "ci").isSome = true := by decide +kernel
theorem handlerOf_cn : (handlerOf "cn").isSome = true := by decide +kernel

theorem unknown_child (k : Mml) (hk : isElement k = true) (h : (handlerOf (mmlTag k)).isSome = false) :
    C02.transpile k = .error .value := by
  cases k <;> simp [isElement] at hk
  · simp [mmlTag, handlerOf_ci] at h
  · simp [mmlTag, handlerOf_cn] at h
  · rename_i tag kids
    simp only [mmlTag] at h
    cases hh : handlerOf tag with
    | none => simp [C02.transpile, hh]
    | some m => simp [hh] at h

theorem children_loop : ∀ (ks : List Mml) (acc : List Sy), (∀ k ∈ ks, isElement k = true) →
    (forIn ks acc (fun child_element r =>
        if Py.truthy (modelDView.hasHandler (mmlTag child_element)) = true then
          (modelDView.runHandler (mmlTag child_element) child_element).bind fun v =>
            Except.pure (ForInStep.yield (r ++ [v]))
        else (throw (PyErr.mk "ValueError") : Except PyErr PUnit).bind fun _ => Except.pure (ForInStep.yield r)) :
          Except PyErr (List Sy))
      = match C02.transpile (Mml.ofList ks) with
        | .error e => .error ⟨syErrName e⟩
        | .ok r => .ok (acc ++ r.toList)
  | [], acc, _ => by simp [Mml.ofList, C02.transpile, Sy.toList, pure, Except.pure]
  | k :: ks, acc, hall => by
    have hk := hall k (by simp)
    have hks : ∀ x ∈ ks, isElement x = true := fun x hx => hall x (by simp [hx])
    simp only [List.forIn_cons, Mml.ofList, C02.transpile, modelDView, Py.truthy_bool]
    by_cases hh : (handlerOf (mmlTag k)).isSome = true
    · simp only [hh, if_true]
      cases ht : C02.transpile k with
      | error e => simp [syE, errClass, bind, Except.bind]
      | ok a =>
        have ih := children_loop ks (acc ++ [a]) hks
        simp only [modelDView, Py.truthy_bool] at ih
        have e1 : syE (Except.ok a : Except C02.Err Sy) = Except.ok a := rfl
        rw [e1]
        show (forIn ks (acc ++ [a]) _ : Except PyErr (List Sy)) = _
        rw [ih]
        cases C02.transpile (Mml.ofList ks) <;> simp [Sy.toList]
    · have hf : (handlerOf (mmlTag k)).isSome = false := by simpa using hh
      simp [hf, unknown_child k hk hf, bind, Except.bind, throw, throwThe, MonadExceptOf.throw, syErrName]

/-- **`Transpiler.transpile` = the list level of `C02.transpile`.** For every element and every list of child elements
    (`ci`, `cn`, `el` — not the `nil`/`cons` cells of the encoding): the loop generated from the source — look the
    child's tag up in `self.handlers`, run the handler, append; ValueError for a tag without handler — returns the
    list `C02.transpile (Mml.ofList ks)` returns, with the same first error. -/
theorem transpileChildren_tie (tag : String) (ks : List Mml) (h : ∀ k ∈ ks, isElement k = true) :
    Transpile.transpileChildren modelDView (.el tag (Mml.ofList ks)) =
      (syE (C02.transpile (Mml.ofList ks))).map Sy.toList := by
  unfold Transpile.transpileChildren
  simp only [mmlChildren, mml_toList_ofList, bind, pure]
  rw [children_loop ks [] h]
  cases C02.transpile (Mml.ofList ks) <;> simp [syE, errClass, Except.map, Except.bind, Except.pure]

/-- so the `self.transpile(node)` the container handlers call (`modelTView`) is the generated loop -/
theorem modelTView_transpile_tie (tag : String) (ks : List Mml) (h : ∀ k ∈ ks, isElement k = true) :
    modelTView.transpile (.el tag (Mml.ofList ks)) = Transpile.transpileChildren modelDView (.el tag (Mml.ofList ks)) :=
  (transpileChildren_tie tag ks h).symm

end Cellml.Tie.PTranspile
