"""Code-translator spec (see harness/translate_code.py and harness/code_specs/__init__.py).

Group ConnSetup: the SET-UP part of `Parser._add_connections` - every statement that precedes
`while connections_to_process:` (spec key `before_while`): `connected_variable_mapping = {}`, the loop over the
`<connection>` elements (existence of the two components, then `_determine_connection_direction` for every
`<map_variables>`, appended to the deque) and `unchanged_loop_count = 0`. It returns the start values of the loop whose
test and body are group ConnLoop. View: lean/Cellml/Tie/LoaderCloseView.lean; tie: lean/Cellml/Tie/LoaderStagesC.lean
(`connSetup_tie`: = `Load.directAll`, counter 0, empty mapping).

Leaves: etree queries (`findall`, `find`, `attrib.get`); `self.components` (its keys); the call of the sibling method
`_determine_connection_direction`, bound to the definition GENERATED from its source (group ConnDir); a Variable in the
deque is its identity (`varIds`, as in ConnLoop); `connected_variable_mapping = {}` empties the mapping of the threaded
work-list state."""

GROUP = {'name': 'ConnSetup',
         'imports': ['Cellml.Tie.LoaderCloseView', 'Cellml.Generated.Code.ConnDir'],
         'header': 'open Load\nopen Cellml.Tie.PLoaderClose',
         'functions': [{'file': 'cellmlmanip/parser.py',
                        'func': 'Parser._add_connections',
                        'lean_name': 'addConnectionsSetup',
                        'before_while': 0,
                        'result': ['connections_to_process', 'unchanged_loop_count', 'st'],
                        'params': ['self', 'model', 'st'],
                        'mutable_params': ['st'],
                        'mutable': ['connections_to_process'],
                        'var_types': {'connections_to_process': 'List (VRef × VRef)'},
                        'signature': '(self : ConnSetupView) (model : ConnsElem) (st : CState) : '
                                     'Except PyErr (List (VRef × VRef) × Nat × CState)',
                        'patterns': [("__A.findall(with_ns(XmlNs.CELLML, 'connection'))", '({A}).connections'),
                                     ("__A.find(with_ns(XmlNs.CELLML, 'map_components'))", '({A})'),
                                     ("__A.findall(with_ns(XmlNs.CELLML, 'map_variables'))", '({A}).maps'),
                                     ("__A.attrib.get('component_1')", '({A}).component_1'),
                                     ("__A.attrib.get('component_2')", '({A}).component_2'),
                                     ("__A.attrib.get('variable_1')", '({A}).variable_1'),
                                     ("__A.attrib.get('variable_2')", '({A}).variable_2'),
                                     ('deque()', '[]'),
                                     ('self._determine_connection_direction(__A, __B, __C, __D)',
                                      '← Cellml.Gen.ConnDir.determineConnectionDirection self.loader {A} {B} {C} {D}')],
                        'stmt_patterns': [('connected_variable_mapping = {}', 'st := { st with mapping := [] }'),
                                          ('connections_to_process.append(__A)',
                                           'connections_to_process := connections_to_process ++ [varIds {A}]')]}]}
