import Cellml.C11.Wf

/-! C11 — constructs the printer cannot express: any occurrence in a printed position makes `doprint` fail. -/
namespace C11

/-- `bad pw e`: `e` contains, in a position the printer visits, a construct without a `_print_` method or a function
    that is not in the name table. `pw = true` reads a `cons`-list as the (value, condition) pairs of a Piecewise,
    which the printer leaves at the first `True` condition. -/
def bad : Bool → E → Bool
  | _, .other _ => true
  | _, .fn name a => (fnName name).isNone || bad false a
  | _, .add a | _, .mul a | _, .and a | _, .or a => bad false a
  | _, .pow b x | _, .rel _ b x | _, .pair b x => bad false b || bad false x
  | _, .pw ps => isList ps && bad true ps
  | m, .cons h t => bad false h || (if m && isTruePair h then false else isList t && bad m t)
  | _, _ => false

theorem join_ne_ok_left (a b : Status) (h : a ≠ .ok) : a.join b ≠ .ok := by
  cases a <;> cases b <;> simp_all [Status.join]

theorem join_ne_ok_right (a b : Status) (h : b ≠ .ok) : a.join b ≠ .ok := by
  cases a <;> cases b <;> simp_all [Status.join]

theorem cons_items (h t : E) :
    (pr (.cons h t)).items = ⟨h, (pr h).st, (pr h).doc, (pr h).base, (pr h).items.map Item.one⟩ :: (pr t).items := by
  simp only [pr]

theorem bad_rejects (e : E) : ∀ m, bad m e = true →
    (pr e).st ≠ .ok ∧ (m = true → isList e = true → (pwInner (pr e).items).1 ≠ .ok) := by
  induction e with
  | other w => intro m _; exact ⟨by simp [pr], by intro _ h; simp [isList] at h⟩
  | fn name a iha =>
      intro m hb
      refine ⟨?_, by intro _ h; simp [isList] at h⟩
      simp only [bad, Bool.or_eq_true, Option.isNone_iff_eq_none] at hb
      simp only [pr]
      split
      next f hf =>
        rcases hb with hb | hb
        · rw [hf] at hb; cases hb
        · exact (iha false hb).1
      next => exact join_ne_ok_right _ _ (by simp)
  | add a iha =>
      intro m hb
      refine ⟨?_, by intro _ h; simp [isList] at h⟩
      simp only [pr]; split
      · simp
      · exact (iha false hb).1
  | and a iha =>
      intro m hb
      refine ⟨?_, by intro _ h; simp [isList] at h⟩
      simp only [pr]; split
      · simp
      · exact (iha false hb).1
  | or a iha =>
      intro m hb
      refine ⟨?_, by intro _ h; simp [isList] at h⟩
      simp only [pr]; split
      · simp
      · exact (iha false hb).1
  | mul a iha =>
      intro m hb
      refine ⟨?_, by intro _ h; simp [isList] at h⟩
      simp only [pr]; split
      · simp
      · exact (iha false hb).1
  | pow b x ihb ihx =>
      intro m hb
      refine ⟨?_, by intro _ h; simp [isList] at h⟩
      simp only [bad, Bool.or_eq_true] at hb
      simp only [pr]; split
      · simp
      · rcases hb with hb | hb
        · exact join_ne_ok_left _ _ (ihb false hb).1
        · exact join_ne_ok_right _ _ (ihx false hb).1
  | rel r b x ihb ihx =>
      intro m hb
      refine ⟨?_, by intro _ h; simp [isList] at h⟩
      simp only [bad, Bool.or_eq_true] at hb
      simp only [pr]
      rcases hb with hb | hb
      · exact join_ne_ok_left _ _ (ihb false hb).1
      · exact join_ne_ok_right _ _ (ihx false hb).1
  | pair b x ihb ihx =>
      intro m hb
      refine ⟨?_, by intro _ h; simp [isList] at h⟩
      simp only [bad, Bool.or_eq_true] at hb
      simp only [pr]
      rcases hb with hb | hb
      · exact join_ne_ok_left _ _ (ihb false hb).1
      · exact join_ne_ok_right _ _ (ihx false hb).1
  | pw ps ih =>
      intro m hb
      refine ⟨?_, by intro _ h; simp [isList] at h⟩
      simp only [bad, Bool.and_eq_true] at hb
      simp only [pr]
      exact (ih true hb.2).2 rfl hb.1
  | cons h t ihh iht =>
      intro m hb
      simp only [bad, Bool.or_eq_true] at hb
      refine ⟨?_, ?_⟩
      · simp only [pr]
        rcases hb with hb | hb
        · exact join_ne_ok_left _ _ (ihh false hb).1
        · split at hb
          · cases hb
          · simp only [Bool.and_eq_true] at hb
            exact join_ne_ok_right _ _ (iht m hb.2).1
      · intro hm _
        subst hm
        rw [cons_items]
        simp only [pwInner]
        split
        next htp =>
          rcases hb with hb | hb
          · exact (ihh false hb).1
          · simp [htp] at hb
        next htp =>
          rcases hb with hb | hb
          · exact join_ne_ok_left _ _ (ihh false hb).1
          · simp only [Bool.true_and] at hb
            split at hb
            · cases hb
            · simp only [Bool.and_eq_true] at hb
              exact join_ne_ok_right _ _ ((iht true hb.2).2 rfl hb.1)
  | _ => intro m hb; simp [bad] at hb

end C11
