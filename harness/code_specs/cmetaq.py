"""Code-translator spec (see harness/translate_code.py and notes/TIE_GUIDE.md): the cmeta / RDF functions of
cellmlmanip/model.py that only READ the model. `self` is the annotated state of the hand model (`Model.AState`), the
result is `Except PyErr`. Accessors: lean/Cellml/Tie/CmetaView.lean; tie theorems: lean/Cellml/Tie/CmetaQ.lean."""

GROUP = {
    'name': 'CmetaQ',
    'imports': ['Cellml.Tie.CmetaView'],
    'header': 'open Cellml.Tie.PCmeta\nopen Model',
    'functions': [
        {'file': 'cellmlmanip/model.py',
         'func': 'Model.has_cmeta_id',
         'lean_name': 'hasCmetaId',
         'signature': '(self : AState) (cmeta_id : Option String) : Except PyErr Bool',
         'patterns': [
             # leaf: the model's own id (a field)
             ('self._cmeta_id', '(self.m.modelCmeta)'),
             # leaf: the registry dict in `k in d` position = its keys
             ('self._cmeta_id_to_variable', '(cmetaKeys self)'),
         ]},
        {'file': 'cellmlmanip/model.py',
         'func': 'Model.get_variable_by_cmeta_id',
         'lean_name': 'getVariableByCmetaId',
         'signature': '(self : AState) (cmeta_id : IdArg) : Except PyErr Nat',
         'skip_isinstance_asserts': False,
         'patterns': [
             # leaves: the dynamic type of the argument
             ('isinstance(__A, rdflib.term.Node)', '({A}).isNode'),
             ('isinstance(__A, rdflib.URIRef)', '({A}).isURIRef'),
             # leaves: builtin string operations on the argument (index / slice bounds flow from the source)
             ('str(__A)', '({A}).toStr'),
             ('__A[__I:]', '(({A}).dropFront {I})'),
             # leaf: dict lookup (KeyError when absent); before the generic string index
             ('self._cmeta_id_to_variable[__K]', '← cmetaMapGet self {K}'),
             ('__A[__I]', '← ({A}).charAt {I}'),
         ]},
        {'file': 'cellmlmanip/model.py',
         'func': 'Model.get_variables_by_rdf',
         'lean_name': 'getVariablesByRdf',
         'signature': '(self : AState) (predicate object_ : RdfArg) (sort : Bool) : Except PyErr (List Nat)',
         'emit_defaults': ['sort'],
         'mutable': ['variables'],
         'patterns': [
             # leaf: callee in rdf.py
             ('create_rdf_node(__A)', '(createRdfNode {A})'),
             # leaf: rdflib pattern query
             ('self.rdf.subjects(__P, __O)', '(rdfSubjects self {P} {O})'),
             # call of a translated function of this group
             ('self.get_variable_by_cmeta_id(__A)', '← getVariableByCmetaId self {A}'),
             # leaf: attribute of a Variable object
             ('__A.order_added', '(orderOf self.m {A})'),
         ],
         'stmt_patterns': [
             # leaf: list.sort(key=…) is a stable sort (C08's sortByKey); the key function flows from the source
             ('variables.sort(key=__K)', 'variables := sortByKey {K} variables'),
         ]},
        {'file': 'cellmlmanip/model.py',
         'func': 'Model.get_variable_by_ontology_term',
         'lean_name': 'getVariableByOntologyTerm',
         'signature': '(self : AState) (term : RdfArg) : Except PyErr Nat',
         'patterns': [
             # call of a translated function of this group; `sort` is not passed: its default, emitted from the
             # callee's parameter list
             ('self.get_variables_by_rdf(__P, __O)',
              '← getVariablesByRdf self {P} {O} getVariablesByRdf_default_sort'),
             # leaf: list index (IndexError outside)
             ('__A[__I]', '← listGet {A} {I}'),
         ]},
    ]}
