"""C16 — models and unit stores do not leak into one another."""
import os
import re
from fractions import Fraction

import mpmath

import unitlib as U
from common import REPO, Str, sx

ID = 'C16'
LEAN_MODULES = ['Cellml.Props.C16', 'Cellml.Tie.UnitsInit', 'Cellml.Tie.Units', 'Cellml.Tie.GenBIso', 'Cellml.Props.C16Gen', 'Cellml.Tie.Iso2', 'Cellml.Props.C16Process']
N = {'quick': 200, 'thorough': 5000}
RULE = ('random interleavings of 8-18 operations on 2-3 unit stores / models in one process: UnitStore() / '
        'UnitStore(other) / Model(name[, unit_store=other]) with a GHK-like equation built from equal names and values / '
        'load_model(document[, unit_store=other]); add_unit of the SAME user name with different meanings in different '
        'stores, add_base_unit, definitions that refer to names only another store knows, cross-store '
        'get_conversion_factor (shared and separate registries), format, convert_variable, '
        'remove_fixable_singularities on structurally identical equations of different models (both lru_caches are '
        'consulted; plain form and the reciprocal form x = 1/(2 + U/(exp(U)-1)) that goes through the module constant '
        'ONE), add_cmeta_id; 14% of the cases repair 2-3 models with SEPARATE registries in one process; snapshots '
        'include per equation the registry class of every atom\'s unit and the outcome of evaluate_units on both '
        'sides; a separate stream with Transpiler.set_mathml_handler. Non-trivial = at least two '
        'stores of which two share a registry or carry the same user name with different meanings, and at least one '
        'state-changing operation after the second store exists; distinct = distinct case JSON')
TRUSTED = ['Lean 4.33 kernel', 'axioms: propext, Classical.choice, Quot.sound',
           'harness/translate_tables.py (tables: _CELLML_UNITS, cellml_units.txt, the two regexes)',
           'correspondence harness harness/props/c16.py + unitlib.py',
           'pint 0.18 is modelled (mini-pint: Cellml/Units/Core.lean), not verified',
           'the model-level half (convert_variable, remove_fixable_singularities, add_cmeta_id, load_model, the two '
           'lru_caches) is covered by the snapshot oracle and by the generic memoisation theorem, not by an executable '
           'Lean model of sympy']
ASSUMPTIONS = ['key equality of the lru_caches is real equality of (expression, V, ...): V is a sympy.Dummy unique to '
               'its model (LawfulBEq hypothesis of cache_sound)',
               'process-wide monkey patches (sympy.Eq.is_Boolean, Transpiler.set_mathml_handler) are outside the '
               'model; set_mathml_handler is exercised by a separate oracle stream',
               'floating-point rounding and the 1e-9 isclose tolerance are outside the exact model']
FINGERPRINT = {'cellmlmanip/units.py': ['UnitStore.__init__', 'UnitStore.add_unit', 'UnitStore.add_base_unit',
                                       'UnitStore.is_defined', 'UnitStore.get_unit', 'UnitStore.format',
                                       'UnitStore.get_conversion_factor', 'UnitStore.convert',
                                       'UnitStore._prefix_name', 'UnitStore._prefix_expression',
                                       '_WORD', '_STORE_PREFIX', '_CELLML_UNITS'],
               'cellmlmanip/model.py': ['Model.__init__'],
               'cellmlmanip/parser.py': ['Parser._add_units', 'Parser._make_pint_unit_definition',
                                         'Transpiler.set_mathml_handler'],
               'cellmlmanip/_singularity_fixes.py': ['_generate_piecewise', '_get_singularity']}
STRIP = re.compile(r'(?<![a-zA-Z0-9_])store[0-9]+_')
DOCS = ['basic_ode.cellml', 'test_simple_odes.cellml']
DOC_DIR = os.path.join(REPO, 'tests', 'cellml_files')
HH = 'hodgkin_huxley_squid_axon_model_1952_modified.cellml'     # uses exp: only in the handler stream

# name -> alternative meanings (lists of <unit> elements); the SAME name gets DIFFERENT meanings in different stores
POOL = {
    'mV': [[{'units': 'volt', 'prefix': 'milli'}], [{'units': 'volt', 'prefix': 'micro'}],
           [{'units': 'volt', 'prefix': '-3'}], [{'units': 'metre', 'prefix': 'milli'}],
           [{'units': 'volt', 'multiplier': '0.001'}]],
    'ms': [[{'units': 'second', 'prefix': 'milli'}], [{'units': 'second', 'multiplier': '0.001'}],
           [{'units': 'second', 'prefix': 'micro'}], [{'units': 'second', 'multiplier': '60'}]],
    'uA': [[{'units': 'ampere', 'prefix': 'micro'}], [{'units': 'ampere', 'prefix': 'nano'}]],
    'per_ms': [[{'units': 'ms', 'exponent': '-1'}], [{'units': 'second', 'prefix': 'milli', 'exponent': '-1'}]],
    'mV_per_ms': [[{'units': 'mV'}, {'units': 'ms', 'exponent': '-1'}],
                  [{'units': 'volt', 'prefix': 'milli'}, {'units': 'second', 'prefix': 'milli', 'exponent': '-1'}]],
    'mM': [[{'units': 'mole', 'prefix': 'milli'}, {'units': 'litre', 'exponent': '-1'}],
           [{'units': 'mole', 'prefix': 'micro'}, {'units': 'litre', 'exponent': '-1'}]],
    'cm2': [[{'units': 'metre', 'prefix': 'centi', 'exponent': '2'}], [{'units': 'metre', 'prefix': 'milli', 'exponent': '2'}]],
    'uA_per_cm2': [[{'units': 'uA'}, {'units': 'cm2', 'exponent': '-1'}]],
    'pct': [[{'units': 'dimensionless', 'multiplier': '0.01'}], [{'units': 'dimensionless', 'multiplier': '0.5'}]],
    'store1_q': [[{'units': 'second', 'prefix': 'kilo'}], [{'units': 'volt', 'prefix': 'kilo'}]],
    'store0_': [[{'units': 'ampere', 'prefix': 'kilo'}]],
    'sqrt_mV': [[{'units': 'mV', 'exponent': '0.5'}]],
    'w_rate': [[{'units': 'widget'}, {'units': 'second', 'exponent': '-1'}]],
    'volts': [[{'units': 'volt'}], [{'units': 'volt', 'multiplier': '1.000001'}]],
    # a total exponent of zero: pint still evaluates the name (UndefinedUnitError where this store does not know it,
    # a dimensionless unit where it does); 'widget' is a base unit only some stores define
    'zero_pow': [[{'units': 'nosuch', 'exponent': '0'}], [{'units': 'widget', 'exponent': '0'}],
                 [{'units': 'volt', 'exponent': '0'}], [{'units': 'mV'}, {'units': 'mV', 'exponent': '-1'}],
                 [{'units': 'second', 'prefix': 'milli'}, {'units': 'gadget', 'exponent': '0.0'}]],
    'celsius': [[{'units': 'kelvin'}]],                    # unsupported name: ValueError
    'second': [[{'units': 'volt'}]],                       # built-in name: ValueError
}
BASES = ['widget', 'gadget', 'mV', 'store1_q']
BUILTIN_PROBES = ['volt', 'second', 'metre', 'dimensionless', 'litre', 'radian']


# ---------------------------------------------------------------------------------------------- generation
def _model_params(rng, same):
    """GHK-like model: i = g*((V+off)/k)/(exp((V+off)/k)-1), dV/dt = -i. `same`: structurally identical twins
    (1: k is a number; 2: k is a model variable kT, so the analysis result contains a variable besides V).
    'recip': the model has a second right-hand side with the GHK-like term under a reciprocal of a non-product,
    x = 1/(2 + U/(exp(U)-1)) — the Pow(..., -1) branch of _fix_expr_parts, which introduces the module constant ONE."""
    if same:
        return {'k': '25.0', 'off': '5.0', 'g': '0.3', 'vpfx': 'milli', 'tpfx': 'milli', 'kvar': same == 2,
                'recip': rng.random() < 0.5}
    return {'k': rng.choice(['25.0', '12.5', '8.0']), 'off': rng.choice(['5.0', '47.13', '-10.0']),
            'g': rng.choice(['0.3', '1.5']), 'vpfx': rng.choice(['milli', 'milli', 'micro', '-3']),
            'tpfx': rng.choice(['milli', 'milli', 'micro']), 'kvar': rng.random() < 0.4,
            'recip': rng.random() < 0.5}


def model_units(p):
    return [('mV', [{'units': 'volt', 'prefix': p['vpfx']}]), ('ms', [{'units': 'second', 'prefix': p['tpfx']}]),
            ('mV_per_ms', [{'units': 'mV'}, {'units': 'ms', 'exponent': '-1'}])]


def gen(rng, n, tier):
    for i in range(n):
        r = rng.random()
        if r < 0.08:
            yield gen_handler(rng)
        elif r < 0.22:
            yield gen_separate(rng)
        elif r < 0.45:
            yield gen_case(rng, models=False)
        else:
            yield gen_case(rng, models=True)


def gen_case(rng, models):
    twin_kind = rng.choice([1, 2])
    ops, slots = [], []      # slots: {'kind': store|model|doc, 'reg': root slot index, 'names': set()}

    def new_slot():
        share = None
        if slots and rng.random() < 0.65:
            share = rng.randrange(len(slots))
        reg = len(slots) if share is None else slots[share]['reg']
        r = rng.random()
        if not models or r < 0.2:
            ops.append(['store', share])
            slots.append({'kind': 'store', 'reg': reg, 'names': set()})
        elif r < 0.8:
            p = _model_params(rng, same=twin_kind if rng.random() < 0.7 else 0)
            ops.append(['model', share, p])
            slots.append({'kind': 'model', 'reg': reg, 'names': {'mV', 'ms', 'mV_per_ms'}, 'conv': set(), 'p': p})
        else:
            doc = rng.choice(DOCS)
            ops.append(['load', doc, share])
            slots.append({'kind': 'doc', 'reg': reg, 'names': {d['name'] for d in doc_units(doc)}, 'doc': doc})

    new_slot()
    new_slot()
    want_third = rng.random() < 0.5
    n_ops = rng.randint(8, 18)
    for k in range(n_ops):
        if want_third and len(slots) == 2 and rng.random() < 0.2:
            new_slot()
            continue
        s = rng.randrange(len(slots))
        sl = slots[s]
        r = rng.random()
        if r < 0.42:
            # a definition; prefer names some OTHER store already has (same name, different meaning)
            others = sorted(set().union(*[o['names'] for o in slots]) & set(POOL))
            name = rng.choice(others) if others and rng.random() < 0.55 else rng.choice(sorted(POOL))
            if rng.random() < 0.12:
                name = rng.choice(BASES)
                ops.append(['base', s, name])
            else:
                elems = [dict(e) for e in rng.choice(POOL[name])]
                if rng.random() < 0.3 and not any(e['units'] == 'dimensionless' for e in elems):
                    elems[0]['multiplier'] = rng.choice(['2', '0.5', '1000', '2.54', '1e-3'])
                ops.append(['def', s, name, elems])
            sl['names'].add(name)
        elif r < 0.62:
            t = rng.randrange(len(slots))
            xs = sorted(sl['names']) + ['volt', 'second', 'ampere', 'nosuch']
            ys = sorted(slots[t]['names']) + ['volt', 'second', 'metre']
            x = rng.choice(xs)
            y = x if (rng.random() < 0.5 and x in ys) else rng.choice(ys)
            ops.append(['factor', s, x, t, y])
        elif r < 0.68:
            ops.append(['fmt', s, rng.choice(sorted(sl['names']) + ['metre', 'dimensionless', 'volt', 'nosuch'])])
        elif sl['kind'] == 'model' and r < 0.80:
            var = rng.choice(['V', 'time', 'i'])
            if var in sl['conv']:
                var = 'V'
            unit = {'V': rng.choice(['volt', 'mV']), 'time': rng.choice(['second', 'ms']),
                    'i': 'mV_per_ms'}[var]
            ops.append(['convert', s, var, unit, rng.choice(['INPUT', 'OUTPUT'])])
            sl['conv'].add(var)
        elif sl['kind'] == 'model' and r < 0.92:
            ops.append(['sing', s])
        elif sl['kind'] in ('model', 'doc') and r < 1.0:
            ops.append(['cmeta', s, rng.randrange(4)])
        else:
            ops.append(['fmt', s, rng.choice(sorted(sl['names']) + ['litre'])])
    if rng.random() < 0.3:
        ops.append(['rule', rng.randrange(len(slots))])
    return {'kind': 'models' if models else 'stores', 'ops': ops}


def gen_separate(rng):
    """two or three GHK models with SEPARATE registries (sometimes one more sharing), every one repaired, in random
    order, interleaved with other work; plain and reciprocal right-hand sides"""
    n = rng.choice([2, 2, 3])
    ops = []
    for k in range(n):
        p = _model_params(rng, same=rng.choice([0, 1, 2]))
        p['recip'] = (k > 0) if rng.random() < 0.6 else rng.random() < 0.5
        ops.append(['model', None, p])
    if rng.random() < 0.3:
        ops.append(['model', rng.randrange(n), _model_params(rng, same=1)])
    slots = len(ops)
    order = list(range(slots))
    rng.shuffle(order)
    for s in order:
        r = rng.random()
        if r < 0.3:
            ops.append(['def', s, 'uA', [{'units': 'ampere', 'prefix': rng.choice(['micro', 'nano'])}]])
        elif r < 0.5:
            ops.append(['convert', s, 'time', rng.choice(['second', 'ms']), rng.choice(['INPUT', 'OUTPUT'])])
        elif r < 0.6:
            ops.append(['cmeta', s, rng.randrange(4)])
        ops.append(['sing', s])
        if rng.random() < 0.3:
            ops.append(['factor', s, 'mV', rng.randrange(slots), 'mV'])
    ops.append(['sing', rng.randrange(slots)])
    return {'kind': 'models', 'ops': ops}


def gen_handler(rng):
    """separate stream: the process-wide operator table is changed while model A exists"""
    ops = [['model', None, _model_params(rng, True)] if rng.random() < 0.5 else ['load', rng.choice(DOCS + [HH]), None],
           ['handler', 'exp'],
           ['load', rng.choice(DOCS + [HH, HH]), rng.choice([None, 0])],
           ['model', rng.choice([None, 0]), _model_params(rng, True)],
           ['sing', 0], ['sing', 2], ['unhandler', 'exp'], ['sing', 0]]
    return {'kind': 'handler', 'ops': ops}


def corpus():
    twin = {'k': '25.0', 'off': '5.0', 'g': '0.3', 'vpfx': 'milli', 'tpfx': 'milli', 'kvar': True, 'recip': True}
    return [
        # two stores sharing a registry, same name, different meaning; a third with its own registry
        {'kind': 'stores', 'ops': [
            ['store', None], ['store', 0], ['store', None],
            ['def', 0, 'mV', [{'units': 'volt', 'prefix': 'milli'}]],
            ['def', 1, 'mV', [{'units': 'volt', 'prefix': 'micro'}]],
            ['factor', 0, 'mV', 1, 'mV'], ['factor', 1, 'mV', 0, 'volt'], ['factor', 0, 'mV', 2, 'volt'],
            ['base', 1, 'widget'], ['def', 1, 'w_rate', [{'units': 'widget'}, {'units': 'second', 'exponent': '-1'}]],
            ['def', 0, 'w_rate', [{'units': 'widget'}, {'units': 'second', 'exponent': '-1'}]],   # widget unknown to 0
            ['factor', 0, 'widget', 1, 'widget'], ['fmt', 1, 'widget'], ['fmt', 1, 'w_rate'],
            ['def', 1, 'mV', [{'units': 'volt'}]], ['def', 2, 'store1_q', [{'units': 'second', 'prefix': 'kilo'}]],
            ['fmt', 2, 'store1_q'], ['base', 0, 'mV'], ['def', 0, 'second', [{'units': 'volt'}]], ['rule', 0]]},
        # structurally identical GHK twins sharing a registry: singularity repair, conversion, annotation, loading
        {'kind': 'models', 'ops': [
            ['model', None, twin], ['model', 0, twin], ['sing', 1], ['sing', 0], ['convert', 1, 'V', 'volt', 'INPUT'],
            ['convert', 1, 'time', 'second', 'INPUT'], ['cmeta', 1, 0], ['load', 'basic_ode.cellml', 0],
            ['factor', 2, 'mV', 0, 'mV'], ['def', 2, 'uA', [{'units': 'ampere', 'prefix': 'micro'}]],
            ['load', 'test_simple_odes.cellml', None], ['sing', 1], ['convert', 0, 'i', 'mV_per_ms', 'OUTPUT']]},
        gen_handler(__import__('random').Random(7)),
        # model = code where the hand model of add_unit used to deviate (notes/reports/MODELFIX_Units.md), through the
        # UnitStore API: an unknown name with a total exponent of zero is an UndefinedUnitError and the unit is NOT
        # defined afterwards (probes: is_defined False, get_unit KeyError) — also a name only ANOTHER store of the same
        # registry knows; a known name to the power zero gives a dimensionless unit; the NAME is tested before the
        # expression is evaluated (ValueError for a built-in / known / unsupported name whatever the expression is)
        {'kind': 'stores', 'ops': [
            ['store', None], ['store', 0],
            ['def', 0, 'x', [{'units': 'nosuch', 'exponent': '0'}]],
            ['def', 0, 'one', [{'units': 'metre', 'exponent': '0'}]],
            ['base', 1, 'widget'],
            ['def', 1, 'w0', [{'units': 'widget', 'exponent': '0'}]],
            ['def', 0, 'w0', [{'units': 'widget', 'exponent': '0'}]],
            ['def', 0, 'y', [{'units': 'nosuch'}, {'units': 'nosuch', 'exponent': '-1'}]],
            ['def', 0, 'mV', [{'units': 'volt', 'prefix': 'milli'}, {'units': 'nosuch', 'exponent': '0.0'}]],
            ['def', 0, 'mV', [{'units': 'volt', 'prefix': 'milli'}, {'units': 'second', 'exponent': '0'}]],
            ['def', 0, 'metre', [{'units': 'second', 'exponent': 'x'}]],
            ['def', 0, 'mV', [{'units': 'nosuch', 'exponent': '0'}]],
            ['def', 0, 'celsius', [{'units': 'nosuch', 'exponent': '0'}]],
            ['def', 1, 'second', [{'units': 'nosuch'}]],
            ['factor', 0, 'one', 1, 'w0'], ['factor', 0, 'x', 0, 'one'], ['factor', 0, 'mV', 1, 'volt'],
            ['fmt', 0, 'x'], ['fmt', 0, 'one'], ['fmt', 1, 'w0']]},
        # two models with SEPARATE registries, both repaired; the second has the reciprocal form x = 1/(2 + U/(exp(U)-1))
        # (Pow(..., -1) branch, module constant ONE): every number of the repaired equations must carry a unit of its
        # OWN model's registry, and evaluate_units must work on both sides
        {'kind': 'models', 'ops': [
            ['model', None, dict(twin, kvar=False, recip=False)], ['model', None, dict(twin, kvar=False, recip=True)],
            ['sing', 0], ['sing', 1], ['model', None, dict(twin, recip=True)], ['sing', 2], ['sing', 0],
            ['convert', 1, 'V', 'volt', 'INPUT']]},
    ]


# ---------------------------------------------------------------------------------------------- documents
_DOC_CACHE = {}


def doc_units(doc):
    """model-level <units> of a test document, as definitions in an order in which each refers to earlier ones"""
    if doc in _DOC_CACHE:
        return _DOC_CACHE[doc]
    from lxml import etree
    ns = '{http://www.cellml.org/cellml/1.0#}'
    root = etree.parse(os.path.join(DOC_DIR, doc)).getroot()
    todo = []
    for u in root.findall(ns + 'units'):
        if u.get('base_units') == 'yes':
            todo.append({'kind': 'base', 'name': u.get('name')})
        else:
            todo.append({'kind': 'def', 'name': u.get('name'),
                         'elems': [{k: v for k, v in c.attrib.items()} for c in u]})
    known, out = set(U.SI), []
    while todo:
        progressed = False
        for d in list(todo):
            if d['kind'] == 'base' or all(e['units'] in known for e in d['elems']):
                out.append(d)
                known.add(d['name'])
                todo.remove(d)
                progressed = True
        if not progressed:
            break
    _DOC_CACHE[doc] = out
    return out


# ---------------------------------------------------------------------------------------------- implementation
def _probe_names(case):
    names = []
    for op in case['ops']:
        if op[0] in ('def', 'base'):
            names.append(op[2])
        elif op[0] == 'model':
            names += ['mV', 'ms', 'mV_per_ms']
        elif op[0] == 'load':
            names += [d['name'] for d in doc_units(op[1])][:6]
        elif op[0] == 'factor':
            names += [op[2], op[4]]
    out = []
    for n in names + BUILTIN_PROBES + ['nosuch']:
        if n not in out:
            out.append(n)
    return out[:16]


def _build_model(name, share, p):
    import sympy as sp

    def eq(lhs, rhs):
        return sp.Eq(lhs, rhs, evaluate=False)     # no attempt to decide the equation (slow on dummies)
    from cellmlmanip.model import Model
    from cellmlmanip.parser import Parser
    m = Model(name, unit_store=share)
    u = m.units
    for uname, elems in model_units(p):
        u.add_unit(uname, Parser._make_pint_unit_definition(None, uname, elems))
    mV, ms, rate = u.get_unit('mV'), u.get_unit('ms'), u.get_unit('mV_per_ms')
    t = m.add_variable('time', ms)
    V = m.add_variable('V', mV, initial_value=-80.0)
    i = m.add_variable('i', rate)
    gs = m.add_variable('g_scale', u.get_unit('dimensionless'))
    q = m.create_quantity
    dimless = u.get_unit('dimensionless')
    m.add_equation(eq(gs, q(1.0, dimless)))
    k, off, g = float(p['k']), float(p['off']), float(p['g'])
    if p.get('kvar'):
        kT = m.add_variable('kT', mV)
        m.add_equation(eq(kT, q(k, mV)))
        k1 = k2 = kT
    else:
        k1, k2 = q(k, mV), q(k, mV)
    m.add_equation(eq(i, q(g, rate) * ((V + q(off, mV)) / k1) /
                         (sp.exp((V + q(off, mV)) / k2) - q(1.0, dimless))))
    m.add_equation(eq(sp.Derivative(V, t), -i * m.get_variable_by_name('g_scale')))
    if p.get('recip'):
        x = m.add_variable('x', dimless)
        m.add_equation(eq(x, q(1.0, dimless) / (q(2.0, dimless) + ((V + q(off, mV)) / k1) /
                                                   (sp.exp((V + q(off, mV)) / k2) - q(1.0, dimless)))))
    return m


def _sing(m, p):
    """repair, then: number of new piecewise equations and the VALUE of i at sample voltages (on, inside and outside
    the repaired window) — printed forms differ in the order of equal-looking number dummies, values do not"""
    import sympy
    n_before = sum(1 for e in m.equations if e.rhs.has(sympy.Piecewise))
    V = m.get_variable_by_name('V')
    exclude = set()
    try:
        exclude = {m.get_variable_by_name('kT')}
    except KeyError:
        pass
    m.remove_fixable_singularities(V, exclude=exclude)
    n = sum(1 for e in m.equations if e.rhs.has(sympy.Piecewise)) - n_before
    k, off = float(p['k']), float(p['off'])
    vals = []
    eqs = m.get_equations_for([m.get_variable_by_name('i')])
    for v in (-off, -off + 5e-8 * k, -off - 2e-8 * k, -off + 3.0, -80.0):
        env = {V: v}
        for e in eqs:
            if e.lhs is V or not e.lhs.is_Symbol:
                continue
            env[e.lhs] = float(e.rhs.subs(env).evalf())
        vals.append(repr(env[m.get_variable_by_name('i')]))
    return ['pw', n, vals]


def _equation_units(m):
    """for every equation: the registry class of the unit of every Quantity / Variable atom (own: a Unit of this
    model's store; other: a Unit of another registry; string: a placeholder) and the outcome class of
    `model.units.evaluate_units` on both sides"""
    from cellmlmanip.model import Quantity, Variable
    st = m.units
    out = []
    for e in m.equations:
        classes = {}
        for a in sorted(e.atoms(Quantity, Variable), key=str):
            u = a.units
            c = 'own' if isinstance(u, st.Unit) else ('string' if isinstance(u, str) else 'other')
            classes[c] = classes.get(c, 0) + 1
        sides = []
        for side in (e.lhs, e.rhs):
            try:
                sides.append('ok:' + st.format(st.evaluate_units(side), base_units=True))
            except Exception as ex:
                sides.append('err:' + type(ex).__name__)
        out.append([str(e.lhs), sorted(classes.items()), sides])
    return sorted(out, key=lambda r: r[0])


def _snap(slot):
    """FULL snapshot of a store / model: everything the public API shows"""
    st = slot['store']
    out = {}
    names = sorted(getattr(st, '_known_units', None) or slot['probes'])
    units = []
    for n in names:
        try:
            un = st.get_unit(n)
            units.append([n, st.format(un), st.format(un, base_units=True)])
        except Exception as e:
            units.append([n, 'err:' + type(e).__name__])
    out['units'] = units
    nm = []
    for n in slot['probes']:
        d = bool(st.is_defined(n))
        try:
            st.get_unit(n)
            g = 'ok'
        except KeyError:
            g = 'KeyError'
        except Exception as e:
            g = 'err:' + type(e).__name__
        nm.append([n, d, g])
    out['names'] = nm
    m = slot.get('model')
    if m is not None:
        try:
            m.graph            # roles (Variable.type) are assigned when the graph is built: build it first
        except Exception:
            pass
        vs = sorted(m.variables(), key=lambda v: v.name)
        out['variables'] = [[v.name, st.format(v.units), st.format(v.units, base_units=True), repr(v.initial_value),
                             v.cmeta_id, str(v.type) if hasattr(v, 'type') else ''] for v in vs]
        out['equations'] = [str(e) for e in m.equations]
        try:
            out['states'] = [v.name for v in m.get_state_variables()]
            fv = m.get_free_variable()
            out['free'] = fv.name if fv is not None else None
            out['derived'] = [v.name for v in m.get_derived_quantities()]
        except Exception as e:
            out['states'] = 'err:' + type(e).__name__
        ef = []
        for v in vs:
            try:
                ef.append([v.name, [str(e) for e in m.get_equations_for([v])]])
            except Exception as e:
                ef.append([v.name, 'err:' + type(e).__name__])
        out['equations_for'] = ef
        out['equation_units'] = _equation_units(m)
        # ownership: every variable occurring in an equation is THIS model's own object (a cached analysis of a
        # structurally identical equation of another model must not smuggle that model's symbols in)
        foreign = []
        for e in m.equations:
            for a in e.atoms(type(vs[0])) if vs else []:
                try:
                    if m.get_variable_by_name(a.name) is not a:
                        foreign.append(a.name)
                except KeyError:
                    foreign.append(a.name)
        out['foreign'] = sorted(set(foreign))
        out['rdf'] = sorted(' '.join(str(x) for x in t) for t in m.rdf)
        out['name'] = [m.name, getattr(m, '_cmeta_id', None)]
    return out


def sx_key(p):
    return ','.join('%s=%s' % (k, p[k]) for k in sorted(p))


def _diff(before, after):
    return [k for k in after if after[k] != before.get(k)]


def _observe(slots, probes):
    obs = []
    for sl in slots:
        st = sl['store']
        row = []
        for n in probes:
            d = bool(st.is_defined(n))
            try:
                f = st.format(st.get_unit(n), base_units=True)
            except KeyError:
                f = 'KeyError'
            except Exception as e:
                f = 'err:' + type(e).__name__
            row.append([n, d, f])
        obs.append(row)
    return obs


def impl(case):
    import logging
    import sympy
    import cellmlmanip
    from cellmlmanip import parser as cparser
    from cellmlmanip.model import DataDirectionFlow
    from cellmlmanip.parser import Parser, Transpiler
    from cellmlmanip.units import UnitStore
    logging.disable(logging.CRITICAL)
    probes = _probe_names(case)
    slots, steps, leaks, notes, cur = [], [], [], {}, []
    handler_on = False
    original_exp = cparser.SIMPLE_MATHML_TO_SYMPY_CLASSES['exp']

    class exp_(sympy.Function):
        def _eval_is_real(self):
            return self.args[0].is_real

    # baseline for the singularity repair: a fresh, unshared process-mate of every model that gets repaired, given the
    # model's OWN conversions and repaired before anything else happens (a repair must not depend on what OTHER
    # models and stores did in between)
    base = {}
    if case['kind'] != 'handler' and any(o[0] == 'sing' for o in case['ops']):
        n_sl, templ = 0, {}
        for o in case['ops']:
            if o[0] in ('store', 'model', 'load'):
                if o[0] == 'model':
                    templ[n_sl] = o[2]
                n_sl += 1
        for s, p in templ.items():
            own = []
            for o in case['ops']:
                if o[0] == 'sing' and o[1] == s:
                    try:
                        mate = _build_model('m0', None, p)
                        for c in own:
                            try:
                                mate.convert_variable(mate.get_variable_by_name(c[2]), mate.units.get_unit(c[3]),
                                                      getattr(DataDirectionFlow, c[4]))
                            except Exception:
                                pass
                        base[str(s)] = _sing(mate, p)
                    except Exception as e:
                        base[str(s)] = 'err:' + type(e).__name__
                    break
                if o[0] == 'convert' and o[1] == s:
                    own.append(o)
    notes['sing_base'] = base
    try:
        for idx, op in enumerate(case['ops']):
            kind = op[0]
            target = None            # slot the operation acts on (None: creates a slot / acts on none)
            if kind in ('def', 'base', 'convert', 'sing', 'cmeta', 'rule', 'factor', 'fmt'):
                target = op[1]
            if target is not None and target >= len(slots):
                steps.append({'r': 'skipped'})
                continue
            for i, sl in enumerate(slots):
                if i != target and cur[i] is None:
                    cur[i] = _snap(sl)
            before = [None if i == target else cur[i] for i in range(len(slots))]
            r = 'ok'
            try:
                if kind == 'store':
                    st = UnitStore() if op[1] is None else UnitStore(slots[op[1]]['store'])
                    slots.append({'store': st, 'probes': probes})
                elif kind == 'model':
                    share = None if op[1] is None else slots[op[1]]['store']
                    m = _build_model('m%d' % len(slots), share, op[2])
                    slots.append({'store': m.units, 'model': m, 'probes': probes, 'p': op[2]})
                elif kind == 'load':
                    share = None if op[2] is None or op[2] >= len(slots) else slots[op[2]]['store']
                    m = cellmlmanip.load_model(os.path.join(DOC_DIR, op[1]), unit_store=share)
                    slots.append({'store': m.units, 'model': m, 'probes': probes})
                    if handler_on:
                        # documented behaviour: the table changes how FUTURE documents are parsed
                        notes.setdefault('parsed_with_handler', []).append(
                            [op[1], any('exp_(' in str(e) for e in m.equations)])
                elif kind == 'def':
                    expr = Parser._make_pint_unit_definition(None, op[2], op[3])
                    slots[target]['store'].add_unit(op[2], expr)
                elif kind == 'base':
                    slots[target]['store'].add_base_unit(op[2])
                elif kind == 'factor':
                    if op[1] >= len(slots) or op[3] >= len(slots):
                        r = 'skipped'
                    else:
                        a, b = slots[op[1]]['store'], slots[op[3]]['store']
                        ua = a.get_unit(op[2])
                        ub = b.get_unit(op[4])
                        cf = a.get_conversion_factor(ua, ub)
                        r = 'one' if (isinstance(cf, int) and cf == 1) else ['f', repr(float(cf))]
                elif kind == 'fmt':
                    if op[1] >= len(slots):
                        r = 'skipped'
                    else:
                        st = slots[op[1]]['store']
                        un = st.get_unit(op[2])
                        comp = un ** 2 / st.get_unit('second')
                        # formatted name; raw registry text and its formatted form, single and composite
                        r = ['s', st.format(un), str(un), str(comp), st.format(comp)]
                elif kind == 'convert':
                    m = slots[target].get('model')
                    if m is None:
                        r = 'skipped'
                    else:
                        v = m.get_variable_by_name(op[2])
                        m.convert_variable(v, m.units.get_unit(op[3]), getattr(DataDirectionFlow, op[4]))
                elif kind == 'sing':
                    m = slots[target].get('model')
                    if m is None:
                        r = 'skipped'
                    else:
                        r = _sing(m, slots[target]['p'])
                        # right after the model's own repair every atom must carry a unit of its OWN registry
                        for lhs, classes, sides in _equation_units(m):
                            bad = [c for c in classes if c[0] != 'own']
                            if bad:
                                leaks.append({'key': 'leak:foreign-unit', 'detail': 'op %d %s: equation for %s has '
                                              'atoms with units %s (evaluate_units: %s)' % (idx, op, lhs, bad, sides)})
                elif kind == 'cmeta':
                    m = slots[target].get('model')
                    if m is None:
                        r = 'skipped'
                    else:
                        vs = sorted(m.variables(), key=lambda v: v.name)
                        m.add_cmeta_id(vs[op[2] % len(vs)])
                elif kind == 'rule':
                    r = _rule_observation(slots, target, notes)
                elif kind == 'handler':
                    Transpiler.set_mathml_handler('exp', exp_)
                    handler_on = True
                elif kind == 'unhandler':
                    Transpiler.set_mathml_handler('exp', original_exp)
                    handler_on = False
            except Exception as e:
                r = 'err:' + type(e).__name__
            # ---- the snapshot oracle: nothing observable through any OTHER slot may have changed
            while len(cur) < len(slots):
                cur.append(None)
            if target is not None:
                cur[target] = None
            for i, b in enumerate(before):
                if b is None:
                    continue
                cur[i] = _snap(slots[i])
                changed = _diff(b, cur[i])
                for k in changed:
                    pre = 'handler-leak:' if kind in ('handler', 'unhandler') else 'leak:'
                    leaks.append({'key': pre + k, 'detail': 'op %d %s changed %s of slot %d' % (idx, op[:3], k, i)})
            steps.append({'r': r, 'obs': _observe(slots, probes) if kind not in ('rule',) else None})
    finally:
        cparser.SIMPLE_MATHML_TO_SYMPY_CLASSES['exp'] = original_exp
    regs = []
    for sl in slots:
        for j, o in enumerate(slots):
            if o['store']._registry is sl['store']._registry:
                regs.append(j)
                break
    try:
        from cellmlmanip import _singularity_fixes as sf
        notes['cache'] = [sf._get_singularity.cache_info().currsize, sf._generate_piecewise.cache_info().currsize]
    except Exception:
        notes['cache'] = None
    return {'steps': steps, 'leaks': leaks[:12], 'regs': regs, 'notes': notes, 'probes': probes}


def _rule_observation(slots, target, notes):
    """OBSERVATION, not part of the property: a conversion rule registered through one store is active in every
    store sharing its registry (and must not be in stores with another registry)."""
    st = slots[target]['store']
    volt, second = st.get_unit('volt'), st.get_unit('second')
    seen = {}
    for j, o in enumerate(slots):
        try:
            o['store'].get_conversion_factor(o['store'].get_unit('volt'), o['store'].get_unit('second'))
            seen[j] = 'already'
        except Exception:
            pass
    st.add_conversion_rule(volt, second, lambda ureg, rhs: rhs * ureg.Quantity(2.0, second / volt))
    vis = []
    for j, o in enumerate(slots):
        if j in seen or j == target:
            continue
        try:
            o['store'].get_conversion_factor(o['store'].get_unit('volt'), o['store'].get_unit('second'))
            vis.append([j, True, o['store']._registry is st._registry])
        except Exception:
            vis.append([j, False, o['store']._registry is st._registry])
    notes['rule'] = vis
    return 'ok'


# ---------------------------------------------------------------------------------------------- model
def _lean_ops(case):
    """python op i -> list of Lean ops; returns (flat list, [(first, last+1)] per python op)"""
    flat, spans, n_slots = [], [], 0
    for op in case['ops']:
        a = len(flat)
        k = op[0]
        if k == 'store':
            flat.append(['new'] if op[1] is None else ['share', op[1]])
            n_slots += 1
        elif k == 'model':
            flat.append(['new'] if op[1] is None else ['share', op[1]])
            for uname, elems in model_units(op[2]):
                flat.append(['def', n_slots, Str(uname), [U.elem_sx(e) for e in elems]])
            n_slots += 1
        elif k == 'load':
            flat.append(['new'] if op[2] is None or op[2] >= n_slots else ['share', op[2]])
            for d in doc_units(op[1]):
                if d['kind'] == 'base':
                    flat.append(['base', n_slots, Str(d['name'])])
                else:
                    flat.append(['def', n_slots, Str(d['name']), [U.elem_sx(e) for e in d['elems']]])
            n_slots += 1
        elif k == 'def' and op[1] < n_slots:
            flat.append(['def', op[1], Str(op[2]), [U.elem_sx(e) for e in op[3]]])
        elif k == 'base' and op[1] < n_slots:
            flat.append(['base', op[1], Str(op[2])])
        elif k == 'factor' and op[1] < n_slots and op[3] < n_slots:
            flat.append(['factor', op[1], Str(op[2]), op[3], Str(op[4])])
        elif k == 'fmt' and op[1] < n_slots:
            flat.append(['fmt', op[1], Str(op[2])])
        spans.append((a, len(flat)))
    return flat, spans


def _strip_ops(obs):
    """`_STORE_PREFIX.sub` on the raw texts the implementation produced (they carry this process's store ids)"""
    out = []
    for st in obs['steps']:
        r = st['r']
        if isinstance(r, list) and r and r[0] == 's':
            out.append((r[2], r[1]))
            out.append((r[3], r[4]))
    return out


def requests(case, obs):
    flat, _ = _lean_ops(case)
    extra = [['strip', Str(raw)] for raw, _ in _strip_ops(obs)]
    return [sx(['C16', ['probes'] + [Str(p) for p in obs['probes']], ['ops'] + flat + extra])]


def _root_dict(sexp):
    out = {}
    for k, e in sexp[1:]:
        k = STRIP.sub('', str(k))
        out[k] = out.get(k, 0) + Fraction(e)
    return {k: v for k, v in out.items() if v != 0}


def _cmp_unit(m, f):
    """model unit-obs `(ok scale root dims)` / `KeyError`  vs  implementation format string"""
    if m == 'KeyError':
        return None if f == 'KeyError' else 'model KeyError, implementation %s' % f
    if f == 'KeyError' or f.startswith('err:'):
        return 'model %s, implementation %s' % (m[:3], f)
    fv, d = U.parse_base_format(f)
    if not U.close(U.scale_value(m[1]), fv) or not U.dims_close(_root_dict(m[2]), d):
        return 'model %s %s, implementation %s' % (m[1], m[2], f)
    return None


def compare(case, obs, replies):
    rep = replies[0]
    if not isinstance(rep, list):
        return 'model reply malformed: %r' % (rep,)
    flat, spans = _lean_ops(case)
    strips = _strip_ops(obs)
    if len(rep) != len(flat) + len(strips):
        return 'model answered %d operations for %d' % (len(rep), len(flat) + len(strips))
    for (raw, shown), r in zip(strips, rep[len(flat):]):
        if str(r[0]) != shown:
            return 'strip %r: model %r, implementation %r' % (raw, str(r[0]), shown)
    for (a, b), op, step in zip(spans, case['ops'], obs['steps']):
        if a == b:
            continue
        where = 'op %s' % (op[:3],)
        rs = [rep[i][0] for i in range(a, b)]
        if any(isinstance(r, list) and r and r[0] == 'unsupported' for r in rs):
            return None      # outside the modelled fragment from here on (counted as trivial)
        o = step['r']
        k = op[0]
        if k in ('store', 'model', 'load'):
            if o != 'ok' or any(r != 'ok' for r in rs):
                return '%s: implementation %s, model %s' % (where, o, rs)
        elif k in ('def', 'base'):
            m = rs[0]
            mo = 'ok' if m == 'ok' else 'err:' + str(m[1])
            if mo != o:
                if not (mo.startswith('err') and o.startswith('err') and
                        mo not in ('err:ValueError', 'err:UndefinedUnitError') and
                        o not in ('err:ValueError', 'err:UndefinedUnitError')):
                    return '%s: implementation %s, model %s' % (where, o, mo)
        elif k == 'factor':
            m = rs[0]
            if m[0] == 'err':
                ok = isinstance(o, str) and o.startswith('err:') and (
                    o[4:] == m[1] or (m[1] == 'CrossRegistry' and o[4:] in ('AssertionError', 'ValueError')))
                if not ok:
                    return '%s: model %s, implementation %s' % (where, m, o)
            elif isinstance(o, str) and o.startswith('err:'):
                return '%s: model %s, implementation %s' % (where, m, o)
            elif m[1] == 'one':
                if o != 'one':
                    return '%s: model one, implementation %s' % (where, o)
            elif o == 'one' or not U.close(U.scale_value(m[1]), mpmath.mpf(o[1])):
                return '%s: model %s, implementation %s' % (where, U.scale_value(m[1]), o)
        elif k == 'fmt':
            m = rs[0]
            if isinstance(m, list):
                if o != 'err:KeyError':
                    return '%s: model %s, implementation %s' % (where, m, o)
            elif not (isinstance(o, list) and o[1] == str(m)):
                return '%s: model %r, implementation %s' % (where, m, o)
        # per-store observations after the operation
        mobs = rep[b - 1][1]
        iobs = step['obs']
        if len(mobs) != len(iobs):
            return '%s: model has %d stores, implementation %d' % (where, len(mobs), len(iobs))
        for s, (mrow, irow) in enumerate(zip(mobs, iobs)):
            for mp, ip in zip(mrow[1:], irow):
                if str(mp[0]) != ip[0]:
                    return '%s: probe order' % where
                if (mp[1] == 'true') != ip[1]:
                    return '%s: store %d is_defined(%s): model %s, implementation %s' % (where, s, ip[0], mp[1], ip[1])
                d = _cmp_unit(mp[2], ip[2])
                if d:
                    return '%s: store %d unit %s: %s' % (where, s, ip[0], d)
    return None


# ---------------------------------------------------------------------------------------------- property oracle
def _family(case, obs):
    """what each store's names mean according to their OWN construction (CellML 1.1), from the successful definitions"""
    stores, defs, outcomes = [], [], []
    for op, step in zip(case['ops'], obs['steps']):
        k = op[0]
        if k == 'store':
            stores.append(None)
        elif k == 'model':
            s = len(stores)
            stores.append(None)
            for uname, elems in model_units(op[2]):
                defs.append({'kind': 'def', 'store': s, 'name': uname, 'elems': elems})
                outcomes.append(step['r'])
        elif k == 'load':
            s = len(stores)
            stores.append(None)
            for d in doc_units(op[1]):
                defs.append(dict(d, store=s))
                outcomes.append(step['r'])
        elif k in ('def', 'base') and step['r'] != 'skipped':
            defs.append({'kind': k, 'store': op[1], 'name': op[2], 'elems': op[3] if k == 'def' else None})
            outcomes.append(step['r'])
    # a name that failed once and succeeded later: keep the successful construction only
    return {'stores': stores, 'defs': defs}, outcomes


def _sem_upto(case, obs, upto):
    """Sem of every (store, name) defined by the operations [0, upto]"""
    fam, outs = _family({'ops': case['ops'][:upto + 1]}, {'steps': obs['steps'][:upto + 1]})
    keep = [(d, o) for d, o in zip(fam['defs'], outs) if o == 'ok']
    sem = {}
    for d, _ in keep:
        one = U.oracle_family({'stores': fam['stores'], 'defs': [d]}, ['ok']) if d['kind'] == 'base' else None
        if one is not None:
            sem.update(one)
            continue
        s = d['store']
        scale, dims, ok = mpmath.mpf(1), {}, True
        for e in d['elems']:
            ref = e['units']
            if ref in U.SI:
                p10, dd = U.SI[ref]
                rs, rd = mpmath.power(10, p10), {k: Fraction(v) for k, v in dd.items()}
            elif (s, ref) in sem:
                rs, rd = sem[(s, ref)].scale, sem[(s, ref)].dims
            else:
                ok = False
                break
            if 'prefix' in e:
                p = U.SI_PREFIX.get(e['prefix'])
                p = int(e['prefix']) if p is None else p
                rs = rs * mpmath.power(10, p)
            ex = Fraction(e.get('exponent', '1'))
            rs = mpmath.power(rs, mpmath.mpf(ex.numerator) / ex.denominator)
            rd = {k: v * ex for k, v in rd.items()}
            if 'multiplier' in e:
                mq = Fraction(e['multiplier'])
                rs = rs * mpmath.mpf(mq.numerator) / mq.denominator
            scale *= rs
            dims = U.dim_add(dims, rd)
        if ok:
            sem[(s, d['name'])] = U.Sem(scale, dims)
    return sem


def _same_sing(r, b):
    if not (isinstance(r, list) and isinstance(b, list)):
        return r == b
    return r[1] == b[1] and len(r[2]) == len(b[2]) and all(x == y or U.close(mpmath.mpf(x), mpmath.mpf(y)) for x, y in zip(r[2], b[2]))


def expected_regs(case, obs):
    """registry root of every slot, from the construction alone (UnitStore(other) / unit_store=other shares)"""
    regs = []
    for op, st in zip(case['ops'], obs['steps']):
        if op[0] in ('store', 'model', 'load') and st['r'] == 'ok':
            share = op[2] if op[0] == 'load' else op[1]
            regs.append(len(regs) if share is None or share >= len(regs) else regs[share])
    return regs


def _fmt_dims(d):
    return {re.sub(r'^\[\d+:(.*)\]$', r'\1', U.PINT_BASE.get(k, k)): v for k, v in d.items()}


def oracle(case, obs):
    fails = [dict(f) for f in obs['leaks']]
    regs = expected_regs(case, obs)
    n_slots = 0
    sing_seen, params, converted = {}, {}, set()
    for idx, (op, step) in enumerate(zip(case['ops'], obs['steps'])):
        k = op[0]
        if k in ('store', 'model', 'load') and step['r'] == 'ok':
            if k == 'model':
                params[n_slots] = op[2]
            n_slots += 1
        if k == 'convert' and step['r'] != 'skipped':
            converted.add(op[1])
        if step['r'] == 'skipped' or step.get('obs') is None:
            continue
        if k in ('store', 'model', 'load') and step['r'] != 'ok':
            fails.append({'key': 'create-failed', 'detail': 'op %d %s: %s' % (idx, op[:2], step['r'])})
            continue
        sem = _sem_upto(case, obs, idx)
        # (1) every store shows, for every probe name, exactly what ITS OWN construction says — whatever happened elsewhere
        for s, row in enumerate(step['obs']):
            for name, defined, f in row:
                mine = (s, name) in sem or name in U.SI
                if defined != mine:
                    fails.append({'key': 'leak:names', 'detail': 'after op %d: store %d is_defined(%s) = %s, '
                                  'its own history says %s' % (idx, s, name, defined, mine)})
                    continue
                if not mine:
                    if f != 'KeyError':
                        fails.append({'key': 'leak:names', 'detail': 'after op %d: store %d get_unit(%s) did not raise '
                                      'KeyError: %s' % (idx, s, name, f)})
                    continue
                if f == 'KeyError' or f.startswith('err:'):
                    fails.append({'key': 'leak:units', 'detail': 'after op %d: store %d cannot show its unit %s: %s'
                                  % (idx, s, name, f)})
                    continue
                want = U.sem_of(sem, [(s, name, '1')])
                fv, d = U.parse_base_format(f)
                if not U.close(fv, want.scale) or not U.dims_close(d, _fmt_dims(want.dims)):
                    fails.append({'key': 'leak:units', 'detail': 'after op %d: store %d shows %s as %s, its own '
                                  'definition means %s %s' % (idx, s, name, f, mpmath.nstr(want.scale, 15),
                                                             _fmt_dims(want.dims))})
        # (2) conversions across stores
        if k == 'factor':
            s, x, t, y = op[1:]
            r = step['r']
            known = ((s, x) in sem or x in U.SI) and ((t, y) in sem or y in U.SI)
            if not known:
                if r != 'err:KeyError':
                    fails.append({'key': 'unknown-name-accepted', 'detail': 'op %d %s gave %s' % (idx, op, r)})
            elif regs[s] != regs[t]:
                if not (isinstance(r, str) and r.startswith('err:')):
                    fails.append({'key': 'cross-registry-accepted', 'detail': 'op %d %s gave %s' % (idx, op, r)})
            else:
                a, b = U.sem_of(sem, [(s, x, '1')]), U.sem_of(sem, [(t, y, '1')])
                compatible = U.physical_dims(a.dims) == U.physical_dims(b.dims)
                if isinstance(r, str) and r.startswith('err:'):
                    if compatible or r != 'err:DimensionalityError':
                        fails.append({'key': 'shared-convert-failed', 'detail': 'op %d %s raised %s' % (idx, op, r)})
                elif not compatible:
                    fails.append({'key': 'mismatch-not-reported', 'detail': 'op %d %s gave %s' % (idx, op, r)})
                else:
                    val = mpmath.mpf(1) if r == 'one' else mpmath.mpf(r[1])
                    if not U.close(val, a.scale / b.scale):
                        fails.append({'key': 'same-name-not-distinct' if x == y else 'shared-convert-wrong',
                                      'detail': 'op %d %s gave %s, ratio of the two meanings is %s'
                                      % (idx, op, r, mpmath.nstr(a.scale / b.scale, 15))})
        elif k == 'sing' and case['kind'] != 'handler' and op[1] in params:
            # the first repair of a model gives what the repair of a fresh, unshared process-mate gave at the very
            # start (same equations when the model was not converted in between, same number of repairs otherwise);
            # a second repair finds nothing new — whatever other models did in between (warm or cold caches)
            sing_seen[op[1]] = sing_seen.get(op[1], 0) + 1
            b = obs['notes']['sing_base'].get(str(op[1]))
            r = step['r']
            if sing_seen[op[1]] == 1:
                same = _same_sing(r, b)
                if not same:
                    fails.append({'key': 'sing-depends-on-history', 'detail': 'op %d %s gave %s, a fresh process-mate '
                                  'gave %s' % (idx, op, str(r)[:300], str(b)[:300])})
            elif isinstance(b, list) and not (isinstance(r, list) and r[1] == 0):
                fails.append({'key': 'sing-depends-on-history', 'detail': 'op %d %s (repeat) gave %s' % (idx, op, str(r)[:200])})
        elif k == 'fmt':
            s, x = op[1], op[2]
            r = step['r']
            mine = (s, x) in sem or x in U.SI
            want = {'metre': 'meter', 'litre': 'liter'}.get(x, x)
            if not mine:
                if r != 'err:KeyError':
                    fails.append({'key': 'leak:names', 'detail': 'op %d %s gave %s' % (idx, op, r)})
            elif not (isinstance(r, list) and r[1] == want):
                fails.append({'key': 'format-shows-prefix', 'detail': 'op %d %s gave %s' % (idx, op, r)})
            elif r[2].endswith(want) and x not in U.SI and r[4] != ' '.join(
                    tok[len(r[2]) - len(want):] if tok.startswith(r[2][:len(r[2]) - len(want)]) else tok
                    for tok in r[3].split(' ')):
                # the store's own prefix (read off the raw single name) removed once from the front of every token
                fails.append({'key': 'format-shows-prefix', 'detail': 'op %d %s composite gave %s' % (idx, op, r)})
    # (3) a conversion rule must at least stay inside its registry (inside it: recorded observation, see report)
    rule_at = [op[1] for op in case['ops'] if op[0] == 'rule']
    for j, visible, _ in obs['notes'].get('rule', []):
        if visible and rule_at and j < len(regs) and rule_at[0] < len(regs) and regs[j] != regs[rule_at[0]]:
            fails.append({'key': 'leak:rule-across-registries', 'detail': 'rule visible in store %d' % j})
    return fails[:8]


def nontrivial(case, obs):
    regs = expected_regs(case, obs)
    if len(regs) < 2:
        return False
    shared = len(set(regs)) < len(regs)
    names = {}
    for op, st in zip(case['ops'], obs['steps']):
        if op[0] in ('def', 'base') and st['r'] == 'ok':
            names.setdefault(op[2], set()).add(op[1])
    same = any(len(v) > 1 for v in names.values())
    changing = sum(1 for op, st in zip(case['ops'][2:], obs['steps'][2:])
                   if op[0] in ('def', 'base', 'convert', 'sing', 'cmeta', 'load', 'model') and st['r'] not in ('skipped',))
    return (shared or same) and changing > 0


def tag(case, obs):
    regs = expected_regs(case, obs)
    t = '%s slots=%d %s' % (case['kind'], len(regs), 'shared' if len(set(regs)) < len(regs) else 'separate')
    rule = obs['notes'].get('rule')
    if rule:
        at = [op[1] for op in case['ops'] if op[0] == 'rule'][0]
        sharing = [v for j, v, _ in rule if j < len(regs) and at < len(regs) and regs[j] == regs[at]]
        if sharing:
            t += ' rule-visible-in-sharing-store=%s' % all(sharing)
    return t


MANIFEST = {
    'technique': 'Lean 4 theorems over a model of the unit-store namespace and process state + differential '
                 'correspondence + snapshot-diff oracle',
    'text': ('Proved in Lean (lean/Cellml/Props/C16.lean over lean/Cellml/Iso/*.lean, standard axioms only), for every '
             'reachable process state and every operation list: _prefix_name is injective on (store id, user name) '
             '(prefix_injective, character-level proof through Nat.toDigits) and never collides with a built-in name; '
             '_STORE_PREFIX stripping gives the user name back for every identifier (strip_roundtrip, with the '
             'non-identifier counterexample proved); a successful definition adds exactly one registry key, carrying '
             'its store\'s prefix and new to the registry (adds_only_own_fresh_key), a rejected one changes nothing; '
             'consing a registry entry that a unit does not mention leaves its root expansion unchanged '
             '(expand_cons_unused); hence frame / frame_probe / frame_run / frame_reachable: any list of operations '
             'none of which acts on store j — definitions (accepted or rejected) in other stores, creation of further '
             'stores and registries = Model(...), load_model(...) — leaves everything observable through j unchanged '
             '(known names, is_defined and get_unit of EVERY name, scale / root units / dimensionality of every unit), '
             'with separate and with shared registries; names_unknown_elsewhere; same_name_distinct; shared_convert '
             '(+_total, _mismatch): stores sharing a registry convert into each other exactly by C07\'s factor, '
             'separate registries never convert (separate_registries_fail); unique_ids; cache_sound / '
             'cache_transparent: a memoised pure function returns its uncached value under any interleaving of calls. '
             'The tie: seeded random interleavings on 2-3 stores / GHK-twin models / loaded documents, compared after '
             'every operation, store by store and probe by probe, with the compiled model; the model-level half '
             '(convert_variable, remove_fixable_singularities with both lru_caches, add_cmeta_id, load_model) is '
             'checked by a full-snapshot diff of every other model after every operation and by an exact oracle of '
             'each store\'s own definitions.'),
    'note': ('Trusted: Lean kernel; propext, Classical.choice, Quot.sound; the table translator; the harness. pint '
             'and sympy are modelled / observed, not verified. Observations recorded, not violations: a conversion '
             'rule added through one store is active in all stores sharing its registry; '
             'Transpiler.set_mathml_handler is process-wide (changes future parsing and which exp the singularity '
             'repair looks for, never an already loaded model).'),
}
