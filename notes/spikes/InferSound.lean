import Mathlib.Algebra.Field.Basic
import Mathlib.Algebra.Order.Field.Basic
import Mathlib.Tactic.Ring
import Mathlib.Tactic.FieldSimp
import Mathlib.Tactic.Linarith

/-! Spike: unit-inference soundness over an abstract ordered field, cut-down expression type.
    "If `infer` returns a unit then plain numbers read in that unit are the physical value." -/

abbrev Dims := Int × Int      -- two base dimensions suffice for the spike

structure U where
  scale : Rat                 -- spike: rational scales; real design uses prime-exponent maps
  dims  : Dims
deriving DecidableEq, Repr

inductive E where
  | qty  (m : Rat) (u : U)
  | var  (i : Nat)
  | add  (a b : E)
  | mul  (a b : E)
  | inv  (a : E)
  | fn1  (f : Nat) (a : E)
  | ite  (c t e : E)
  | lt   (a b : E)
deriving Repr

inductive Err | argsUnits | notDimless | boolean
deriving DecidableEq, Repr

def dimless : U := ⟨1, (0,0)⟩
def U.mul (a b : U) : U := ⟨a.scale * b.scale, (a.dims.1 + b.dims.1, a.dims.2 + b.dims.2)⟩
def U.inv (a : U) : U := ⟨a.scale⁻¹, (-a.dims.1, -a.dims.2)⟩

/-- model of `UnitCalculator.traverse`, units only -/
def infer (Γ : Nat → U) : E → Except Err U
  | .qty _ u => .ok u
  | .var i => .ok (Γ i)
  | .add a b => do
      let ua ← infer Γ a; let ub ← infer Γ b
      if ua = ub then pure ua else throw .argsUnits
  | .mul a b => do let ua ← infer Γ a; let ub ← infer Γ b; pure (ua.mul ub)
  | .inv a => do let ua ← infer Γ a; pure ua.inv
  | .fn1 _ a => do
      let ua ← infer Γ a
      if ua.dims = (0,0) then pure dimless else throw .notDimless
  | .ite c t e => do
      let _ ← (match c with | .lt x y => do let _ ← infer Γ x; let _ ← infer Γ y; pure () | _ => throw Err.boolean)
      let ut ← infer Γ t; let ue ← infer Γ e
      if ut = ue then pure ut else throw .argsUnits
  | .lt _ _ => throw .boolean

variable {K : Type} [Field K] [LinearOrder K] [IsStrictOrderedRing K]

/-- numeric semantics: what generated code computes -/
noncomputable def evalNum (fn : Nat → K → K) (ρ : Nat → K) : E → K
  | .qty m _ => (m : K)
  | .var i => ρ i
  | .add a b => evalNum fn ρ a + evalNum fn ρ b
  | .mul a b => evalNum fn ρ a * evalNum fn ρ b
  | .inv a => (evalNum fn ρ a)⁻¹
  | .fn1 f a => fn f (evalNum fn ρ a)
  | .ite c t e => match c with
      | .lt x y => if evalNum fn ρ x < evalNum fn ρ y then evalNum fn ρ t else evalNum fn ρ e
      | _ => 0
  | .lt _ _ => 0

/-- physical semantics: SI value with dimension; `none` on a dimension clash -/
noncomputable def evalPhys (fn : Nat → K → K) (Γ : Nat → U) (ρ : Nat → K) : E → Option (K × Dims)
  | .qty m u => some ((m : K) * (u.scale : K), u.dims)
  | .var i => some (ρ i * ((Γ i).scale : K), (Γ i).dims)
  | .add a b => do
      let (x, d) ← evalPhys fn Γ ρ a; let (y, d') ← evalPhys fn Γ ρ b
      if d = d' then some (x + y, d) else none
  | .mul a b => do
      let (x, d) ← evalPhys fn Γ ρ a; let (y, d') ← evalPhys fn Γ ρ b
      some (x * y, (d.1 + d'.1, d.2 + d'.2))
  | .inv a => do let (x, d) ← evalPhys fn Γ ρ a; some (x⁻¹, (-d.1, -d.2))
  | .fn1 f a => do
      let (x, d) ← evalPhys fn Γ ρ a
      if d = (0,0) then some (fn f x, (0,0)) else none
  | .ite c t e => match c with
      | .lt x y => do
          let (vx, dx) ← evalPhys fn Γ ρ x; let (vy, dy) ← evalPhys fn Γ ρ y
          let (vt, dt) ← evalPhys fn Γ ρ t; let (ve, de) ← evalPhys fn Γ ρ e
          if dx = dy ∧ dt = de then some (if vx < vy then vt else ve, dt) else none
      | _ => none
  | .lt _ _ => none

/-- strict mode: the argument of a function must be *exactly* dimensionless (scale 1), and the
    two sides of a comparison the same unit — this is what `convert` establishes before `infer`
    is asked (property C05 (b)); under it, numbers read in the inferred unit are the physical value. -/
def Strict (Γ : Nat → U) : E → Prop
  | .qty _ u => u.scale ≠ 0
  | .var i => (Γ i).scale ≠ 0
  | .add a b | .mul a b => Strict Γ a ∧ Strict Γ b
  | .inv a => Strict Γ a
  | .fn1 _ a => Strict Γ a ∧ infer Γ a = .ok dimless
  | .ite c t e => (match c with
      | .lt x y => Strict Γ x ∧ Strict Γ y ∧ (∃ u, infer Γ x = .ok u ∧ infer Γ y = .ok u ∧ 0 < u.scale)
      | _ => False) ∧ Strict Γ t ∧ Strict Γ e
  | .lt _ _ => False

/-- boolean side: strictness of a comparison -/
def StrictB (Γ : Nat → U) : E → Prop
  | .lt x y => Strict Γ x ∧ Strict Γ y ∧ (∃ u, infer Γ x = .ok u ∧ infer Γ y = .ok u ∧ 0 < u.scale)
  | _ => False

/-- conjunctive motive: an arithmetic clause and a boolean clause per term -/
theorem infer_sound_aux (fn : Nat → K → K) (Γ : Nat → U) (ρ : Nat → K) :
    ∀ (e : E),
      (∀ u, Strict Γ e → infer Γ e = .ok u →
        evalPhys fn Γ ρ e = some (evalNum fn ρ e * (u.scale : K), u.dims)) ∧
      (∀ x y, e = .lt x y → StrictB Γ e → ∃ vx vy d, evalPhys fn Γ ρ x = some (vx, d) ∧
          evalPhys fn Γ ρ y = some (vy, d) ∧ (vx < vy ↔ evalNum fn ρ x < evalNum fn ρ y)) := by
  intro e
  induction e with
  | qty m u0 =>
      refine ⟨?_, by intro x y h; cases h⟩
      intro u _ h; simp [infer] at h; subst h; simp [evalPhys, evalNum]
  | var i =>
      refine ⟨?_, by intro x y h; cases h⟩
      intro u _ h; simp [infer] at h; subst h; simp [evalPhys, evalNum]
  | add a b iha ihb =>
      refine ⟨?_, by intro x y h; cases h⟩
      intro u hs h
      obtain ⟨hsa, hsb⟩ := hs
      simp only [infer, bind, Except.bind] at h
      split at h <;> try simp at h
      rename_i ua hua
      split at h <;> try simp at h
      rename_i ub hub
      split at h
      · rename_i heq
        simp [pure, Except.pure] at h; subst h; subst heq
        simp [evalPhys, evalNum, iha.1 _ hsa hua, ihb.1 _ hsb hub]; ring
      · simp [throw, throwThe, MonadExceptOf.throw] at h
  | mul a b iha ihb =>
      refine ⟨?_, by intro x y h; cases h⟩
      intro u hs h
      obtain ⟨hsa, hsb⟩ := hs
      simp only [infer, bind, Except.bind] at h
      split at h <;> try simp at h
      rename_i ua hua
      split at h <;> try simp at h
      rename_i ub hub
      simp [pure, Except.pure] at h; subst h
      simp [evalPhys, evalNum, iha.1 _ hsa hua, ihb.1 _ hsb hub, U.mul]; ring
  | inv a iha =>
      refine ⟨?_, by intro x y h; cases h⟩
      intro u hs h
      simp only [infer, bind, Except.bind] at h
      split at h <;> try simp at h
      rename_i ua hua
      simp [pure, Except.pure] at h; subst h
      simp [evalPhys, evalNum, iha.1 _ hs hua, U.inv, mul_comm]
  | fn1 f a iha =>
      refine ⟨?_, by intro x y h; cases h⟩
      intro u hs h
      obtain ⟨hsa, hdl⟩ := hs
      simp only [infer, bind, Except.bind, hdl] at h
      simp [dimless, pure, Except.pure] at h; subst h
      simp [evalPhys, evalNum, iha.1 _ hsa hdl, dimless]
  | lt a b iha ihb =>
      refine ⟨by intro u hs _; simp [Strict] at hs, ?_⟩
      intro x y h hs
      cases h
      obtain ⟨hsx, hsy, uc, hux, huy, hpos⟩ := hs
      refine ⟨_, _, uc.dims, iha.1 _ hsx hux, ihb.1 _ hsy huy, ?_⟩
      have hp : (0 : K) < (uc.scale : K) := by exact_mod_cast hpos
      exact mul_lt_mul_iff_left₀ hp
  | ite c t e ihc iht ihe =>
      refine ⟨?_, by intro x y h; cases h⟩
      intro u hs h
      cases c with
      | lt x y =>
          obtain ⟨hsc, hst, hse⟩ := hs
          obtain ⟨vx, vy, d, hx, hy, hiff⟩ := ihc.2 x y rfl hsc
          obtain ⟨_, _, uc, hux, huy, _⟩ := hsc
          simp only [infer, bind, Except.bind, hux, huy] at h
          simp only [pure, Except.pure] at h
          split at h <;> try simp at h
          rename_i ut hut
          split at h <;> try simp at h
          rename_i ue hue
          split at h
          · rename_i heq; simp at h; subst h; subst heq
            simp only [evalPhys, hx, hy, iht.1 _ hst hut, ihe.1 _ hse hue, evalNum]
            simp [hiff]
          · simp [throw, throwThe, MonadExceptOf.throw] at h
      | _ => simp [Strict] at hs

#print axioms infer_sound_aux
