import Cellml.Generated.Code.ConvertVarSym
import Mathlib.Tactic.SplitIfs

/-! # Tie: `Model.convert_variable` (generated from model.py, run on symbolic values) = `Units.convertVariable`,
    the hand model of C19 (`Props/C19.lean`: `cv_same_iff`, `cv_unit_error_iff`, `cv_uses_rule_factor`,
    `cv_alike_partial`, `cv_symbolic_input_initial_value_refused`) -/

namespace Cellml.Tie.CVSym
open Units Cellml.Gen Cellml.Tie

/-- the outcome of the hand model as what the python code returns or raises and has recorded -/
def enc : CVOutcome → Except PyErr (SymSt × SV)
  | .same => .ok ({}, .orig)
  | .converted fy sc eqs => .ok ({ log := eqs.map (fun e => (e, fy)), initScaled := sc }, .new)
  | .error (.units e) => .error ⟨uerrClass e⟩
  | .error .typeError => .error ⟨"TypeError"⟩

theorem ok_bind' {β γ : Type} (a : β) (k : β → Except PyErr γ) : (Except.ok a >>= k) = k a := rfl

theorem removeOde_eq (self : SymView) (st : SymSt) (l x : SV) :
    ConvertVarSym.removeOdeAndAssignRhsToNewVariable self st ⟨l, .odeRhs⟩ x = .ok (st, .rhsVar) := by
  unfold ConvertVarSym.removeOdeAndAssignRhsToNewVariable
  simp [SymSt.addVariable, SymSt.addEquation, classify, pure, Except.pure]

theorem convertFree_eq (self : SymView) (st : SymSt) (c : Factor) :
    ConvertVarSym.convertFreeVariableDeriv self st ⟨.deriv .stateVar .orig, .odeRhs⟩ .new c =
      .ok ({ st with log := st.log ++ [(.odeWrtNew, c)] }, [()]) := by
  unfold ConvertVarSym.convertFreeVariableDeriv
  simp [removeOde_eq, bind, Except.bind, SymSt.addEquation, classify, SV.arg0, pure, Except.pure, HDiv.hDiv]

theorem convertState_eq (self : SymView) (st : SymSt) (c : Factor) :
    ConvertVarSym.convertStateVariableDeriv self st .orig .new c =
      .ok ({ st with log := st.log ++ [(.odeOfNew, c)] }, [()]) := by
  unfold ConvertVarSym.convertStateVariableDeriv
  simp [SymView.odeOf, removeOde_eq, bind, Except.bind, SymSt.addEquation, classify, SV.arg1, pure, Except.pure,
    HMul.hMul]

/-- the equations `_convert_variable_instance` adds -/
def instForms (dir : Dir) (kind : VarKind) : List EqForm :=
  match dir with
  | .output => [.newFromOrig]
  | .input => (if kind = .defined then [.newFromRhs] else []) ++ [.origFromNew]

theorem convertInstance_eq (self : SymView) (st : SymSt) (c : Factor) (dir : Dir) (move : Bool) :
    ConvertVarSym.convertVariableInstance self st .orig c dir move =
      if dir = .input ∧ self.hasInit = true ∧ c.2 ≠ [] then .error ⟨"TypeError"⟩
      else .ok ({ log := st.log ++ (instForms dir self.kind).map (fun e => (e, c)),
                  initScaled := st.initScaled || (decide (dir = .input) && self.hasInit) }, .new) := by
  unfold ConvertVarSym.convertVariableInstance
  obtain ⟨f, y⟩ := c
  cases dir <;> cases hk : self.kind <;> cases hi : self.hasInit <;> by_cases hy : y = [] <;>
    simp [SymView.initOf, SymView.varDefOf, SymView.cmetaOf, hk, hi, hy, floatM, bind, Except.bind, pure, Except.pure,
      SymSt.addVariable, SymSt.addEquation, classify, instForms, eqArg1, AsSEq.asSEq, HMul.hMul, HDiv.hDiv]

/-- the loop over the ODEs when `original_variable` is the free variable: one `odeWrtNew` per ODE -/
theorem freeLoop_eq (self : SymView) (c : Factor) : ∀ (n : Nat) (st : SymSt) (dr : List Unit),
    (forIn (List.replicate n ((), (⟨.deriv .stateVar .orig, .odeRhs⟩ : SEq))) (st, dr) fun x __s =>
        if (!x.snd.lhs.arg1 == SV.orig) = true then do
          throw { cls := "AssertionError" }
          let __x ← ConvertVarSym.convertFreeVariableDeriv self __s.fst x.snd SV.new c
          pure (ForInStep.yield (__x.fst, __s.snd ++ __x.snd))
        else do
          let __x ← ConvertVarSym.convertFreeVariableDeriv self __s.fst x.snd SV.new c
          pure (ForInStep.yield (__x.fst, __s.snd ++ __x.snd)) : Except PyErr (SymSt × List Unit)) =
      .ok ({ st with log := st.log ++ List.replicate n (.odeWrtNew, c) }, dr ++ List.replicate n ())
  | 0, st, dr => by simp [pure, Except.pure]
  | n + 1, st, dr => by
    rw [List.replicate_succ, List.forIn_cons]
    have := freeLoop_eq self c n { st with log := st.log ++ [(.odeWrtNew, c)] } (dr ++ [()])
    simp only [SV.arg1, beq_self_eq_true, Bool.not_true, Bool.false_eq_true, if_false, convertFree_eq, ok_bind',
      pure, Except.pure] at this ⊢
    rw [this]
    simp [List.replicate_succ, List.append_assoc]

/-- `try: free_symbol = self.get_free_variable() except ValueError: free_symbol = None` -/
theorem tryFree_eq (self : SymView) :
    (tryCatch self.getFreeVariable fun e__ => if (e__.cls == "ValueError") = true then pure none else throw e__) =
      .ok (if self.kind = .free then some SV.orig else if self.kind = .state then some SV.time else none) := by
  unfold SymView.getFreeVariable
  cases self.kind <;> rfl

theorem convertVariable_sym_tie (reg : Registry) (rules : List Rule) (a b : Container) (dir : Dir) (kind : VarKind)
    (hasInit : Bool) (nOdes : Nat) (cmeta : Option Unit) (move : Bool) :
    ConvertVarSym.convertVariable (symView reg rules a b kind hasInit nOdes cmeta) {} .orig dir move =
      enc (Units.convertVariable reg rules a b dir kind hasInit nOdes) := by
  unfold ConvertVarSym.convertVariable Units.convertVariable
  cases hc : conversionFactorR reg rules a b with
  | error e => simp [symView, hc, SymView.inModel, enc, bind, Except.bind]
  | ok o =>
    cases o with
    | none => simp [symView, hc, SymView.inModel, enc, bind, Except.bind, cfIsOne, pure, Except.pure]
    | some fy =>
      obtain ⟨f, y⟩ := fy
      simp only [symView, hc, SymView.inModel, cfIsOne, Py.truthy_bool, Bool.not_true, Bool.false_eq_true, if_false,
        Option.isNone_some, ok_bind', ite_self, convertInstance_eq, cfGet, Option.getD_some, tryFree_eq]
      by_cases hte : dir = Dir.input ∧ hasInit = true ∧ y ≠ []
      · rw [if_pos hte, if_pos hte]
        rfl
      · rw [if_neg hte, if_neg hte]
        simp only [ok_bind']
        by_cases hfree : dir = Dir.input ∧ kind = VarKind.free
        · obtain ⟨rfl, rfl⟩ := hfree
          have h1 : (Dir.input == Dir.output) = false := rfl
          have h2 : Py.isIn SV.orig ([] : List SV) = false := rfl
          simp only [SymView.stateSymbols, SymView.sortedOdeItems, h1, h2, Bool.false_eq_true, if_false, if_true,
            reduceCtorEq, BEq.rfl, freeLoop_eq, ok_bind']
          simp [enc, cvEquations, instForms, pure, Except.pure]
        · cases dir <;> cases kind <;>
            simp [SymView.stateSymbols, Py.isIn, convertState_eq, enc, cvEquations,
              instForms, ok_bind', pure, Except.pure] at hfree ⊢

end Cellml.Tie.CVSym
