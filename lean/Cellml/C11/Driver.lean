import Cellml.Basic.Sexp
import Cellml.C11.Printer
import Cellml.C11.Rewrite

/-! Channel C11 of the model driver.
    `(C11 print <tree>)`            → `(ok (str "…") (shape <doc, parens erased>) (pyok true|false))`
                                     | `(err ValueError)` | `(unsupported)`
    `(C11 rewrite <built> <post>)`  → `(same)` | `(differs <model's tree printed>)` | `(unsupported)`
    Trees are S-expressions of what SymPy built: `(Add a b …) (Mul …) (Pow b e) (Int n) (Rat p q) (Float "text" neg|pos)
    (Symbol "x" c|nc) (Fn "name" a …) (Rel "op" a b) (And …) (Or …) (Not a) (Piecewise (v c) …) (Derivative "x" "t")
    (Pi) (E) (True) (False) (NaN) (Other "class")`. -/
namespace C11
open Sexp

def listE (xs : List E) : E := xs.foldr E.cons E.nil

partial def toE : Sexp → E
  | .list [.atom "Symbol", n, c] => .sym ((atomOf? n).getD "?") (c == .atom "c")
  | .list [.atom "Int", n] => .int ((int? n).getD 0)
  | .list [.atom "Rat", p, q] => .rat ((int? p).getD 0) ((nat? q).getD 0)
  | .list [.atom "Float", t, s] => .flt ((atomOf? t).getD "?") (s == .atom "neg")
  | .list [.atom "Pi"] => .pi
  | .list [.atom "E"] => .e1
  | .list [.atom "True"] => .tt
  | .list [.atom "False"] => .ff
  | .list (.atom "Add" :: args) => .add (listE (args.map toE))
  | .list (.atom "Mul" :: args) => .mul (listE (args.map toE))
  | .list (.atom "And" :: args) => .and (listE (args.map toE))
  | .list (.atom "Or" :: args) => .or (listE (args.map toE))
  | .list [.atom "Pow", b, x] => .pow (toE b) (toE x)
  | .list (.atom "Fn" :: n :: args) => .fn ((atomOf? n).getD "?") (listE (args.map toE))
  | .list [.atom "Rel", op, a, b] =>
      match Rel.ofText? ((atomOf? op).getD "") with
      | some r => .rel r (toE a) (toE b)
      | none => .other "Relational"
  | .list (.atom "Piecewise" :: pairs) =>
      .pw (listE (pairs.map fun p => match p with
        | .list [v, c] => .pair (toE v) (toE c)
        | _ => .other "pair"))
  | .list [.atom "Derivative", x, t] => .deriv ((atomOf? x).getD "?") ((atomOf? t).getD "?")
  | .list [.atom "Not", _] => .other "Not"
  | .list [.atom "NaN"] => .other "NaN"
  | .list [.atom "Other", n] => .other ((atomOf? n).getD "?")
  | _ => .other "malformed"

def bopName : Bop → String
  | .add => "add" | .sub => "sub" | .mul => "mul" | .div => "div" | .pow => "pow"

/-- the Doc with `paren` nodes erased, as an S-expression -/
def shape : Doc → Sexp
  | .atom s => .list [.atom "atom", .str s]
  | .call f args => .list (.atom "call" :: .str f :: argShapes args)
  | .neg d => .list [.atom "neg", shape d]
  | .bin op a b => .list [.atom (bopName op), shape a, shape b]
  | .cmp r a b => .list [.atom "cmp", .str r.text, shape a, shape b]
  | .and a b => .list [.atom "and", shape a, shape b]
  | .or a b => .list [.atom "or", shape a, shape b]
  | .ite t c e => .list [.atom "ite", shape t, shape c, shape e]
  | .paren d => shape d
  | .nil => .atom "nil"
  | .cons h t => .list [.atom "cons", shape h, shape t]
where argShapes : Doc → List Sexp
  | .cons h t => shape h :: argShapes t
  | _ => []

def printReply (e : E) : Sexp :=
  let o := pr e
  match o.st with
  | .ok => .list [.atom "ok", .list [.atom "str", .str (flatten o.doc)], .list [.atom "shape", shape o.doc],
                  .list [.atom "pyok", ofBool (PyOK o.doc)]]
  | .verr => .list [.atom "err", .atom "ValueError"]
  | .unsup => .list [.atom "unsupported"]

def handle (args : List Sexp) : Sexp :=
  match args with
  | [.atom "print", t] => printReply (toE t)
  | [.atom "rewrite", built, post] =>
      match rewriteTrig (toE built) with
      | none => .list [.atom "unsupported"]
      | some e' => if e' == toE post then .list [.atom "same"] else .list [.atom "differs"]
  | _ => .atom "bad-request"

end C11
