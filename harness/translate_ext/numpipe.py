"""Extension of the code translator for the group NumPipe (the number pipeline of property C14).

Three added rules, about WHERE an action of a leaf runs (python's evaluation order) and about attribute targets, none
about the logic of a function; everything else defers to `translate_code.Fn`:

 * a chained assignment to ATTRIBUTES with a side-effect-free value (`self.a = self.b = None`: a constant or a name): one
   assignment per target, from left to right, each through the statement patterns of the spec (the generic rule only
   knows names as chained targets);
 * a conditional expression `X if c else Y` whose X or Y runs an action (its translation contains `←`; e.g. `float(text)`,
   which may raise): `(← (if c then (do pure X) else (do pure Y)))` - the action runs only in the branch python evaluates
   (the generic rule would hoist it in front of the test);
 * a dict comprehension `{k: v for x in xs}` whose key or value runs an action: `(Py.dictOf (← (xs).mapM (fun x => do
   return (k, v))))` - python evaluates the items in iteration order and the first exception ends it (`List.mapM`), as the
   generic rule for list comprehensions does."""
import ast
import sys

import translate_code
from translate_code import TranslationError, mangle

# when the translator runs as a script its own `TranslationError` is `__main__.TranslationError`, not the one of the
# imported module `translate_code` that `Fn` (the base class here) raises: re-raise as the class the driver catches, so
# that a function with no rule is LEFT OUT of the generated file (and its tie stops building) instead of the translator
# stopping with a traceback and leaving the previous generated file in place
_MAIN_TE = getattr(sys.modules.get('__main__'), 'TranslationError', TranslationError)


class NumFn(translate_code.Fn):
    def __init__(self, spec, node):
        try:
            super().__init__(spec, node)
        except TranslationError as e:
            raise _MAIN_TE(str(e))

    def translate(self):
        try:
            return super().translate()
        except TranslationError as e:
            raise _MAIN_TE(str(e))

    def expr(self, n):
        if self.try_patterns(n) is None:
            if isinstance(n, ast.IfExp):
                x, y = self.expr(n.body), self.expr(n.orelse)
                if '←' in x or '←' in y:
                    return '(← (if %s then (do pure %s) else (do pure %s)))' % (self.cond(n.test), x, y)
            if isinstance(n, ast.DictComp) and len(n.generators) == 1 and not n.generators[0].ifs and \
                    isinstance(n.generators[0].target, ast.Name):
                g = n.generators[0]
                k, v = self.expr(n.key), self.expr(n.value)
                if '←' in k or '←' in v:
                    return '(Py.dictOf (← (%s).mapM (fun %s => do return (%s, %s))))' % (
                        self.expr(g.iter), mangle(g.target.id), k, v)
        return super().expr(n)

    def stmt(self, s, ind):
        if isinstance(s, ast.Assign) and len(s.targets) > 1 and isinstance(s.value, (ast.Constant, ast.Name)) and \
                all(isinstance(t, ast.Attribute) for t in s.targets):
            for t in s.targets:
                one = ast.Assign(targets=[t], value=s.value)
                ast.copy_location(one, s)
                ast.fix_missing_locations(one)
                self.stmt(one, ind)
            return
        return super().stmt(s, ind)
