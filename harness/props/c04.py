"""C04 — unit inference is sound: the reported unit is the true unit, else a UnitError."""
import json
from fractions import Fraction

import mpmath

import exprlib as X
import unitlib as U
from common import sx, rng_for

ID = 'C04'
LEAN_MODULES = ['Cellml.Expr.InferLemmas', 'Cellml.Props.C04', 'Cellml.Props.C04Denotes', 'Cellml.Tie.InferCheck', 'Cellml.Tie.Infer', 'Cellml.Tie.InferNary', 'Cellml.Props.C04Gen']
N = {'quick': 60, 'thorough': 1600}
PER_CTX = 25
RULE = ('random unit families (clusters of equal dimension and different scale) with 4-7 variables; per family %d '
        'type-directed expressions to depth 5 over sum, product, numeric power, abs/floor/ceil, exp/log/trig, piecewise '
        'with relational/and/or conditions, derivative, numbers, constants, Max/Min, matrices, plus every expression again '
        'with one leaf replaced by a leaf of another dimension; built as real SymPy objects through Model.create_quantity '
        '/ add_variable; the tree SymPy actually built is what model and oracle see; non-trivial = at least 3 nodes and '
        'at least two different units among its leaves' % PER_CTX)
TRUSTED = ['Lean 4.33 kernel', 'axioms: propext, Classical.choice, Quot.sound',
           'harness/translate_tables.py (_TRIG_FUNCTIONS, unit tables)', 'correspondence harness (exprlib.py, c04.py)',
           'pint 0.18 container arithmetic and sympy canonicalisation are modelled, not verified']
ASSUMPTIONS = ['magnitudes beyond the double range, non-real powers and irrational exponents of dimensional bases are '
               'outside the exact model (the model answers `unsupported`, the case is counted as trivial)',
               'generators do not put radian-family units into expressions (their non-equivalence to dimensionless is '
               'the known finding of C07)']
FINGERPRINT = {'cellmlmanip/units.py': ['UnitCalculator.traverse', 'UnitCalculator._check_unit_of_quantities_equal',
                                       'UnitCalculator._is_dimensionless', 'UnitStore.evaluate_units',
                                       '_TRIG_FUNCTIONS']}
UNIT_ERRORS = {'UnexpectedMathUnitsError', 'InputArgumentsInvalidUnitsError', 'InputArgumentsMustBeDimensionlessError',
               'InputArgumentMustBeNumberError', 'BooleanUnitsError', 'UnitConversionError'}


def gen(rng, n, tier):
    for k in range(n):
        ctx = X.gen_context(rng)
        yield {'ctx': ctx, 'seed': rng.randrange(1 << 30), 'n': PER_CTX}


def corpus():
    return []


def expressions(case, world=None):
    """Deterministically regenerate the ASTs of a case (needs the oracle semantics of the family)."""
    ctx = case['ctx']
    sem = U.oracle_family(ctx['family'], ['ok'] * len(ctx['family']['defs']))
    if 'explicit' in case:
        return list(case['explicit']), sem
    rng = rng_for(case['seed'], 'exprs')
    g = X.Gen(rng, ctx, sem)
    out = []
    for i in range(case['n']):
        d = rng.choice(list(g.by_dim))
        a = g.expr(d, rng.choice([1, 2, 3, 3, 4, 5]))
        out.append(a)
        if rng.random() < 0.6:
            b = X.mutate_leaf(rng, json.loads(json.dumps(a)), g)
            if b is not None:
                out.append(b)
        if rng.random() < 0.05:
            out.append(['matrix', g.leaf(d)])
        if rng.random() < 0.08:
            out.append(['deriv', rng.randrange(len(ctx['vars'])), rng.randrange(len(ctx['vars']))])
        if rng.random() < 0.12:
            # floor / ceiling of a non-integer number as the exponent of a dimensional base
            out.append(['pow', g.leaf(d), [rng.choice(['ceil', 'floor']),
                                           ['qty', rng.choice(['2.5', '1.25', '0.5', '-1.5']), [[0, 'dimensionless', '1']]]]])
        if rng.random() < 0.05 and len(ctx['vars']) >= 2:
            out.append(['derivn', rng.randrange(len(ctx['vars'])), rng.randrange(len(ctx['vars'])), rng.choice([2, 3])])
        if rng.random() < 0.05:
            out.append(['pow', g.leaf(d), ['add', ['qty', '2', [[0, 'dimensionless', '1']]],
                                           ['qty', '3', [[0, 'dimensionless', '1']]]]])
        if rng.random() < 0.03:
            out.append(['fn1', 'exp', ['qty', '1000', [[0, 'dimensionless', '1']]]])
    return out, sem


def impl(case):
    ctx = case['ctx']
    w = X.World(ctx)
    if any(o != 'ok' for o in w.outcomes):
        return {'skip': 'family rejected: %s' % w.outcomes}
    asts, _ = expressions(case)
    res = []
    for a in asts:
        try:
            e = w.build(a)
        except Exception as ex:
            res.append({'build': 'err:' + type(ex).__name__})
            continue
        try:
            tree = X.to_json(w.ser(e))
        except ValueError as ex:
            res.append({'build': 'skip:' + str(ex)})
            continue
        if any(k in json.dumps(tree) for k in ('ImaginaryUnit', 'ComplexInfinity', 'NegativeInfinity', '"oo"', '"nan"')):
            res.append({'build': 'skip:complex'})
            continue
        try:
            u = w.store.evaluate_units(e)
            out = ['ok', w.store.format(u, base_units=True), str(u)]
        except Exception as ex:
            out = ['err', type(ex).__name__]
        res.append({'tree': tree, 'out': out})
    return {'results': res}


def tree_sx(t):
    """JSON tree -> wire (unit-exprs need Str names and Fractions)"""
    if isinstance(t, list):
        if t and t[0] in ('qty', 'cf'):
            return [t[0], scale_or_val(t), [[s, U.Str(n) if False else _S(n), Fraction(e)] for s, n, e in t[2]]]
        if t and t[0] in ('int',):
            return ['int', int(t[1])]
        if t and t[0] in ('rat', 'flt'):
            return [t[0], Fraction(t[1])]
        if t and t[0] == 'var':
            return ['var', int(t[1])]
        if t and t[0] == 'deriv':
            return ['deriv', int(t[1]), int(t[2])]
        if t and t[0] in ('fn1', 'fnN', 'rel', 'other'):
            return [t[0], t[1]] + [tree_sx(x) for x in t[2:]]
        return [t[0]] + [tree_sx(x) for x in t[1:]]
    return t


def _S(n):
    from common import Str
    return Str(n)


def scale_or_val(t):
    if t[0] == 'qty':
        return Fraction(t[1])
    return [[int(p), Fraction(e)] for p, e in t[1]]


def requests(case, obs):
    if 'skip' in obs:
        return []
    ctx = case['ctx']
    stores, defs = U.family_sx(ctx['family'])
    exprs = [tree_sx(r['tree']) for r in obs['results'] if 'tree' in r]
    if not exprs:
        return []
    return [sx(['C04', stores, defs, X.vars_sx(ctx), ['exprs'] + exprs])]


def compare(case, obs, replies):
    rep = replies[0]
    if not isinstance(rep, list) or len(rep) != 2:
        return 'model reply malformed: %r' % (rep,)
    if any(d != 'ok' for d in rep[0][1:]):
        return None
    ms = rep[1][1:]
    rs = [r for r in obs['results'] if 'tree' in r]
    for r, m in zip(rs, ms):
        o = r['out']
        if isinstance(m, list) and m[0] == 'unsupported':
            continue
        if m == 'bad-expr':
            return 'model cannot parse %s' % json.dumps(r['tree'])[:300]
        if o[0] == 'err' and o[1] not in UNIT_ERRORS and magnitude_trigger(r['tree'], o[1]):
            # Python float/complex arithmetic on the magnitudes carried along (overflow, 0 ** negative, floor of a
            # complex): the exact model tracks these only approximately — the ORACLE reports them (known findings),
            # the correspondence does not insist on predicting them
            continue
        if m[0] == 'err' and m[1].startswith('Other:') and o[0] != 'err':
            continue   # the model's approximate magnitude tracking predicts a Python exception: inconclusive
        if m[0] == 'err':
            if o[0] != 'err' or o[1] != m[1].replace('Other:', ''):
                return 'expr %s: model %s, implementation %s' % (json.dumps(r['tree'])[:400], m, o)
            continue
        if o[0] != 'ok':
            return 'expr %s: model ok %s, implementation %s' % (json.dumps(r['tree'])[:400], m[1:3], o)
        f, d = U.parse_base_format(o[1])
        from props.c07 import root_dict
        sv = U.scale_value(m[1])
        if f == 0.0 or abs(f) == float('inf') or not (mpmath.mpf(10) ** -120 < sv < mpmath.mpf(10) ** 120):
            continue
        if not U.close(sv, f) or not U.dims_close(root_dict(m[2]), d):
            return 'expr %s: model unit %s %s, implementation %s' % (json.dumps(r['tree'])[:400], m[1], m[2], o[1])
    return None


def oracle(case, obs):
    if 'skip' in obs:
        return []
    ctx = case['ctx']
    sem = U.oracle_family(ctx['family'], ['ok'] * len(ctx['family']['defs']))
    ph = X.Phys(ctx, sem)
    fails = []
    for r in obs['results']:
        if 'tree' not in r:
            continue
        t, o = r['tree'], r['out']
        try:
            want = ph.unit_of(t)
            verdict = 'consistent'
        except X.Inconsistent as ex:
            verdict, why = 'inconsistent', str(ex)
        except X.Unsupported:
            continue
        except (ZeroDivisionError, OverflowError, ValueError):
            continue
        if o[0] == 'err':
            if o[1] not in UNIT_ERRORS:
                fails.append({'key': 'non-UnitError:' + o[1] + ('' if magnitude_trigger(t, o[1]) else ':unexplained'),
                              'detail': '%s raised %s' % (json.dumps(t)[:300], o[1])})
            continue
        if verdict == 'inconsistent':
            composite = 'composite-exponent' if has_composite_exponent(t) else ''
            fails.append({'key': 'unit-for-inconsistent' + (':' + composite if composite else ''),
                          'detail': '%s is inconsistent (%s) but evaluate_units returned %s' % (json.dumps(t)[:300], why, o[2])})
            continue
        f, d = U.parse_base_format(o[1])
        if f == 0.0 or f != f or abs(f) == float('inf') or not (mpmath.mpf(10) ** -120 < want[0] < mpmath.mpf(10) ** 120):
            continue   # double underflow/overflow inside pint: outside the exact model (stated assumption)
        wantd = {U.PINT_BASE.get(k, k): v for k, v in want[1].items()}
        import re
        wantd = {re.sub(r'^\[\d+:(.*)\]$', r'\1', k): v for k, v in wantd.items()}
        if not U.close(f, want[0]) or not U.dims_close(d, wantd):
            composite = ':composite-exponent' if has_composite_exponent(t) else ''
            fails.append({'key': 'wrong-unit' + composite,
                          'detail': '%s: evaluate_units gives %s, the leaves imply %s %s'
                          % (json.dumps(t)[:300], o[1], mpmath.nstr(want[0], 12), wantd)})
    return fails[:6]


def heads(t, acc=None):
    acc = set() if acc is None else acc
    if isinstance(t, list) and t and isinstance(t[0], str):
        acc.add(t[0] if t[0] != 'fn1' else 'fn1:' + str(t[1]))
        if t[0] not in ('qty', 'cf'):
            for x in t[1:]:
                heads(x, acc)
    return acc


def magnitude_trigger(t, exc):
    """Is the non-UnitError explained by Python arithmetic on the magnitudes traverse carries along?
    OverflowError: exp / power of magnitudes; ZeroDivisionError: a power (0 ** negative) or derivative quotient;
    TypeError / ValueError: floor or ceiling of a complex / nan magnitude produced by a power."""
    h = heads(t)
    if exc == 'OverflowError':
        return 'fn1:exp' in h or 'pow' in h or 'oo' in str(t)
    if exc == 'ZeroDivisionError':
        return 'pow' in h or 'deriv' in h
    if exc in ('TypeError', 'ValueError'):
        return ('floor' in h or 'ceil' in h) and ('pow' in h or 'nan' in str(t))
    return False


def has_composite_exponent(t):
    if isinstance(t, list):
        if t[0] == 'pow' and isinstance(t[2], list) and t[2][0] in ('add',):
            return True
        return any(has_composite_exponent(x) for x in t[1:])
    return False


def count_nodes(t):
    return 1 + sum(count_nodes(x) for x in t[1:]) if isinstance(t, list) and t and t[0] not in ('qty', 'cf') else 1


def nontrivial(case, obs):
    return 'results' in obs and sum(1 for r in obs['results'] if 'tree' in r and count_nodes(r['tree']) >= 3) >= 5


def tag(case, obs):
    if 'skip' in obs:
        return 'family-rejected'
    k = {}
    for r in obs['results']:
        if 'out' in r:
            kk = r['out'][0] if r['out'][0] == 'ok' else r['out'][1]
            k[kk] = k.get(kk, 0) + 1
    return ' '.join('%s=%d' % kv for kv in sorted(k.items()))


MANIFEST = {
    'technique': ('Lean 4 theorems (induction on the expression) relating a model of UnitCalculator.traverse to the CellML '
                  'unit rules on semantic units + differential correspondence of the model with evaluate_units'),
    'text': ('Proved in Lean for every registry (unit family), every variable environment and every expression '
             '(lean/Cellml/Props/C04.lean with lean/Cellml/Expr/Spec.lean, InferLemmas.lean; standard axioms only). '
             'The CellML rules are written twice, independently of pint containers and of the magnitudes the code carries '
             'along: as a function specUnit and as an inductive typing relation HasUnit on semantic units (SI scale as '
             'prime exponents, root units); specUnit decides HasUnit and the unit is unique (specUnit_hasUnit, '
             'hasUnit_specUnit, hasUnit_unique). infer_sound / infer_consistent / infer_sound_scale_dims: if traverse '
             'returns a unit and every exponent is numeric (a numeric leaf or a product of numeric leaves), then the '
             'expression is consistent under the rules (equal units for the operands of sums and the pieces of '
             'piecewise, dimensionless exponents, dimension-zero function arguments) and the returned container has '
             'exactly the scale, root units and dimension the rules derive from the leaves. infer_complete_err: an '
             'expression with numeric exponents to which the rules give no unit ends in an error; infer_rejects, '
             'infer_rejects_sum: relations, booleans, two-argument functions, empty piecewise, unknown nodes never get '
             'a unit, operands of different meaning cannot be added (InputArgumentsInvalidUnitsError). '
             'infer_error_class / infer_error_trichotomy / pyErrors_subset: every failure is a UnitError subclass, or '
             'one of ZeroDivisionError / OverflowError / TypeError raised by a magnitude operation (**, derivative '
             'quotient, exp, floor / ceiling) that occurs in the expression, or lies outside the exact model (infinity, '
             'nan, undeclared variable, untracked magnitude in a power). PARTIAL: the numeric-exponent hypothesis of '
             'infer_sound excludes the known finding wrong-unit:composite-exponent (proved counterexample: '
             '(0.5 s)**(_2 + _3) is reported as s**2, the rules give s**5; the unrestricted statement is refuted in '
             'Lean); infer_unit_errors_only_partial gives "UnitError or a unit, nothing else" only for expressions '
             'without power, exp, floor / ceiling, derivative (the three known findings non-UnitError:* are proved '
             'reachable in the model). Exponents that are variables with initial values are outside the hypothesis. '
             'hasUnit_denotes (numbers read in the inferred unit are the physical value) is not part of this check. '
             'The model is tied to units.py by a seeded correspondence check: random unit families and type-directed '
             'expressions built as real SymPy objects through Model.create_quantity / add_variable, each also with one '
             'leaf mutated to another dimension, passed to UnitStore.evaluate_units and compared (outcome class, '
             'returned unit as dimension and scale) with the compiled model; an independent exact evaluator in Python '
             'decides consistency and the true unit of every case and searches for failing inputs.'),
    'note': ('Trusted: Lean kernel; propext, Classical.choice, Quot.sound; the translator for _TRIG_FUNCTIONS and the unit '
             'tables; the correspondence harness (exprlib.py, c04.py). pint 0.18 container arithmetic and SymPy '
             'canonicalisation are modelled, not verified. Magnitudes beyond the double range, complex and irrational '
             'magnitudes are outside the exact model (answered `unsupported`). Piecewise conditions are not inspected, '
             'by the code and by the rules as stated in the property.'),
}
