import Cellml.Basic.Sexp
/-! Channel C05 of the model driver (stub: not built yet). -/
namespace C05
def handle (_args : List Sexp) : Sexp := .atom "not-implemented"
end C05
