import Cellml.Tie.PrinterAdd

/-! # The per-method ties, instantiated with the model's own recursion `C11.pr`

    `C11.pr` hands a parent the printed children as `(pr args).items`. The theorems below instantiate the `items` of
    the per-method ties with them: if `print` returns the model's text for every child, the generated method returns
    the model's text `flatten (pr parent).doc` for the parent — one step of the induction over the expression, for
    every node class except `Mul` (whose string assembly is not translated). -/

set_option linter.unusedSimpArgs false

namespace Cellml.Tie.PPrinter
open C11 Cellml.Gen

/-- a `nil`-terminated argument list -/
def properList : E → Bool
  | .nil => true
  | .cons _ t => properList t
  | _ => false

theorem pr_items (args : E) (h : properList args = true) :
    (pr args).items.map (·.e) = elems args ∧
    (∀ i ∈ (pr args).items, i.doc = (pr i.e).doc ∧ i.base = (pr i.e).base) ∧
    (pr args).doc = docOfItems (pr args).items := by
  induction args with
  | nil => simp [pr, okDoc, elems, docOfItems]
  | cons hd tl _ iht =>
    have := iht (by simpa [properList] using h)
    refine ⟨by simp [pr, elems, this.1], ?_, by simp [pr, docOfItems, this.2.2]⟩
    intro i hi
    simp only [pr, List.mem_cons] at hi
    rcases hi with rfl | hi
    · simp
    · exact this.2.1 i hi
  | _ => simp [properList] at h

theorem printed_items (print : E → Except PyErr String) (args : E) (hl : properList args = true)
    (h : ∀ x ∈ elems args, print x = .ok (flatten (pr x).doc)) :
    ∀ i ∈ (pr args).items, print i.e = .ok (flatten i.doc) := by
  intro i hi
  obtain ⟨h1, h2, _⟩ := pr_items args hl
  rw [(h2 i hi).1]
  exact h i.e (by rw [← h1]; exact List.mem_map_of_mem hi)

theorem printAnd_pr (print : E → Except PyErr String) (args : E) (hl : properList args = true)
    (h : ∀ x ∈ elems args, print x = .ok (flatten (pr x).doc)) :
    Printer.printAnd print (.and args) = .ok (flatten (pr (.and args)).doc) := by
  rw [printAnd_tie print args (pr args).items (pr_items args hl).1.symm (printed_items print args hl h)]; rfl

theorem printOr_pr (print : E → Except PyErr String) (args : E) (hl : properList args = true)
    (h : ∀ x ∈ elems args, print x = .ok (flatten (pr x).doc)) :
    Printer.printOr print (.or args) = .ok (flatten (pr (.or args)).doc) := by
  rw [printOr_tie print args (pr args).items (pr_items args hl).1.symm (printed_items print args hl h)]; rfl

theorem printFunction_pr (print : E → Except PyErr String) (name : String) (args : E) (hl : properList args = true)
    (h : ∀ x ∈ elems args, print x = .ok (flatten (pr x).doc)) :
    Printer.printFunction print (.fn name args) =
      if (fnName name).isSome then .ok (flatten (pr (.fn name args)).doc) else .error ⟨"ValueError"⟩ := by
  rw [printFunction_tie print name args (pr args).items (pr_items args hl).1.symm (printed_items print args hl h)]
  cases hf : fnName name <;> simp [pr, hf, (pr_items args hl).2.2]

theorem printPow_pr (print : E → Except PyErr String) (b x : E)
    (hb : print b = .ok (flatten (pr b).doc)) (hx : print x = .ok (flatten (pr x).doc)) :
    Printer.printPow print (.pow b x) = .ok (flatten (pr (.pow b x)).doc) :=
  printPow_tie print b x _ _ hb hx

theorem printRelational_pr (print : E → Except PyErr String) (r : Rel) (a b : E)
    (ha : print a = .ok (flatten (pr a).doc)) (hb : print b = .ok (flatten (pr b).doc)) :
    Printer.printRelational print (.rel r a b) = .ok (flatten (pr (.rel r a b)).doc) :=
  printRelational_tie print r a b _ _ ha hb

theorem pwPrinted_items (print : E → Except PyErr String) (items : List Item)
    (h : ∀ i ∈ items, ∃ v c, i.e = .pair v c ∧ print v = .ok (flatten i.doc) ∧ print c = .ok (flatten i.base)) :
    PwPrinted print items := by
  induction items with
  | nil => trivial
  | cons i r ih =>
    obtain ⟨v, c, he, hv, hc⟩ := h i (by simp)
    refine ⟨v, c, he, hv, ?_⟩
    cases ht : isTrue c
    · exact Or.inr ⟨rfl, hc, ih (fun j hj => h j (by simp [hj]))⟩
    · exact Or.inl rfl

theorem printPiecewise_pr (print : E → Except PyErr String) (pairs : E) (hl : properList pairs = true)
    (h : ∀ x ∈ elems pairs, ∃ v c, x = .pair v c ∧ print v = .ok (flatten (pr v).doc) ∧
      print c = .ok (flatten (pr c).doc)) :
    Printer.printPiecewise print (.pw pairs) = .ok (flatten (pr (.pw pairs)).doc) := by
  obtain ⟨h1, h2, _⟩ := pr_items pairs hl
  rw [printPiecewise_tie print pairs (pr pairs).items h1.symm]
  · simp [pr]
  · apply pwPrinted_items
    intro i hi
    obtain ⟨v, c, he, hv, hc⟩ := h i.e (by rw [← h1]; exact List.mem_map_of_mem hi)
    refine ⟨v, c, he, ?_, ?_⟩
    · rw [(h2 i hi).1, he]; simpa [pr] using hv
    · rw [(h2 i hi).2, he]; simpa [pr] using hc

/-- `_print_Add`, given that the children's trees have no atom starting with `-` -/
theorem printAdd_pr (print : E → Except PyErr String) (hd tl : E) (hl : properList tl = true)
    (h : ∀ x ∈ elems (.cons hd tl), print x = .ok (flatten (pr x).doc))
    (hm : ∀ x ∈ elems (.cons hd tl), atomsOK (pr x).doc = true) :
    PrinterAdd.printAdd print (.add (.cons hd tl)) = .ok (flatten (pr (.add (.cons hd tl))).doc) := by
  have hl' : properList (.cons hd tl) = true := by simpa [properList] using hl
  obtain ⟨h1, h2, _⟩ := pr_items (.cons hd tl) hl'
  have hit : (pr (.cons hd tl)).items = ⟨hd, (pr hd).st, (pr hd).doc, (pr hd).base, (pr hd).items.map Item.one⟩ ::
      (pr tl).items := by simp [pr]
  rw [hit] at h1 h2
  rw [printAdd_tie print (.cons hd tl) _ (pr tl).items h1.symm]
  · simp [pr]
  · intro j hj
    rw [(h2 j hj).1]
    exact h j.e (by rw [← h1]; exact List.mem_map_of_mem hj)
  · intro j hj
    apply minusOK_of_atomsOK
    rw [(h2 j hj).1]
    exact hm j.e (by rw [← h1]; exact List.mem_map_of_mem hj)

end Cellml.Tie.PPrinter
