import Cellml.Tie.Prelude
/-! # View of the `Misc5` group of the code translator (harness/code_specs/misc5.py). Core Lean only. -/

namespace Cellml.Tie.PMisc5
open Cellml.Tie

/-- a python `Optional[str]`. In condition position (`if self.parent:`, `x if var.cmeta_id else y`) `None` AND the empty
    string are falsy. -/
structure PyOptStr where
  val : Option String
deriving DecidableEq, Repr

instance : Py.Truthy PyOptStr := ⟨fun p => match p.val with | none => false | some s => !(s == "")⟩
/-- a `str` where an `Optional[str]` is expected -/
instance : Coe String PyOptStr := ⟨fun s => ⟨some s⟩⟩

/-- `cellmlmanip.parser._Component`: the four attributes `__init__` sets. The two python sets are lists (only
    membership is asked of them). -/
structure Component where
  name : String
  parent : Option String := none
  siblings : List String := []
  encapsulated : List String := []
deriving DecidableEq, Repr

/-- `Model` as seen by `get_display_name` -/
structure NameView where
  /-- `self.get_ontology_terms_by_variable(var, ontology)`: in the order rdflib yields the triples -/
  terms : Nat → Option String → List String
  /-- `var.cmeta_id` -/
  cmetaId : Nat → Option String
  /-- `var.name` -/
  name : Nat → String

/-- the argument `exclude_terms`: `None` or a collection of terms -/
structure Excl where
  val : Option (List String)

def Excl.isNone (e : Excl) : Bool := e.val.isNone
/-- `x in exclude_terms` (only evaluated when it is not `None`) -/
instance : Coe Excl (List String) := ⟨fun e => e.val.getD []⟩

/-- a sympy expression object as `find_variables_and_derivatives` sees it: `expr.is_Derivative`,
    `isinstance(expr, Variable)`, `expr.args`; `id` identifies the object -/
inductive ETree where
  | node (is_Derivative isVariable : Bool) (id : Nat) (args : List ETree)

def ETree.is_Derivative : ETree → Bool | .node d _ _ _ => d
def ETree.isVariable : ETree → Bool | .node _ v _ _ => v
def ETree.id : ETree → Nat | .node _ _ i _ => i
def ETree.args : ETree → List ETree | .node _ _ _ a => a

end Cellml.Tie.PMisc5
