/-! Property theorems for C13 (not built yet). -/
