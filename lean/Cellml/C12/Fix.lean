import Cellml.C12.Expr
import Cellml.C12.Window

/-! # C12 — `_fix_expr_parts` / `_remove_singularities`: which subterm is wrapped with which range (core Lean only).

    The recursion is written for an ARBITRARY detector `det` (the model of `_get_singularity` on the arguments of a
    product), so that the theorems about it hold whatever the pattern matcher finds. The recursion is by fuel
    (`Expr.size` suffices); all theorems quantify over every fuel. -/

namespace C12
open Expr

/-- the tuple `(Vmin, Vmax, sp, expr, has_piecewise)` returned by `_fix_expr_parts` -/
structure Res where
  win : Option (Win Rat)
  ex : Expr
  changed : Bool
deriving Inhabited

/-- `_generate_piecewise(ex, V, sp, Vmin, Vmax)`: the swap, then the piecewise -/
def wrapWin (w : Win Rat) (e : Expr) : Expr := .pw w.lo w.hi e

/-- `_generate_piecewise(ex, …) if sp is not None else ex` -/
def wrap (r : Res) : Expr :=
  match r.win with
  | some w => wrapWin w r.ex
  | none => r.ex

def Res.touched (r : Res) : Bool := r.changed || r.win.isSome

/-- all the terms of a sum carry a range and the same singular point: one range, the widest -/
def sameSp : List Res → Option (Win Rat)
  | [] => none
  | [_] => none
  | r :: rs =>
      match r.win with
      | none => none
      | some w =>
          if rs.all (fun r' => match r'.win with | some w' => w'.sp == w.sp | none => false)
          then some (mergeAll w (rs.filterMap (·.win)))
          else none

/-- line 268-269: `1 * A → A` -/
def dropOnes : Expr → Expr
  | mul as => mkMul (as.filter (fun a => !isOne a))
  | e => e

/-- the case distinction of `_fix_expr_parts` on the (ones-free) expression; `rec` is the recursive call -/
def fixBody (det : List Expr → List (Win Rat)) (rec : Expr → Res) : Expr → Res
  | add as =>
      -- A + B + …: the terms are analysed; equal singular points everywhere: ONE range (the widest) around the
      -- ORIGINAL sum; otherwise every term gets its own piecewise
      let parts := as.map rec
      match sameSp parts with
      | some w => ⟨some w, add as, true⟩
      | none => ⟨none, add (parts.map wrap), parts.any Res.touched⟩
  | pow a k =>
      -- 1/A (`expr.args[1] == -1.0`)
      if k == -1 then
        let r := rec a
        ⟨none, mul [num 1, pow (wrap r) (-1)], r.touched⟩
      else ⟨none, pow a k, false⟩
  | mul as =>
      -- A·B·…: singularities of the product itself; the first one is left to the caller, the others are nested
      -- inside; none found: the factors are analysed
      match det as with
      | [] =>
          let parts := as.map rec
          ⟨none, mul (parts.map wrap), parts.any Res.touched⟩
      | w :: ws => ⟨some w, ws.foldl (fun e w' => wrapWin w' e) (mul as), true⟩
  | e' => ⟨none, e', false⟩

def fixParts (det : List Expr → List (Win Rat)) : Nat → Expr → Res
  | 0, e => ⟨none, e, false⟩
  | n + 1, e =>
      if !e.hasExp then ⟨none, e, false⟩
      else fixBody det (fixParts det n) (dropOnes e)

/-- `_remove_singularities`: `some new` when the equation has to be replaced -/
def removeSing (det : List Expr → List (Win Rat)) (e : Expr) : Option Expr :=
  if !e.hasExp then none
  else
    let r := fixParts det (e.size + 1) e
    if r.touched then some (wrap r) else none

end C12
