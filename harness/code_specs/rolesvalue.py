"""Code-translator spec (see harness/translate_code.py and harness/code_specs/__init__.py): `Model.get_value`,
`Model._get_value` and its nested `expand_derivatives` (cellmlmanip/model.py, C10). Both recursive functions are
translated with OPEN RECURSION (`rec`); the `evaluated` dictionary, which python mutates in place through the recursive
calls, is explicit state: `_get_value` returns (value, evaluated). `fn` (an extra parameter of the generated `_get_value`)
is the interpretation of the uninterpreted function applications (`Model.Interp`): it is only handed to the leaf
`float(...)` (`floatExpr fn`), the one place where SymPy evaluates them. Tie theorems: lean/Cellml/Tie/RolesValue.lean;
accessors: lean/Cellml/Tie/RolesView.lean."""

GROUP = {
    'name': 'RolesValue',
    'imports': ['Cellml.Generated.Code.Roles'],
    'header': 'open Cellml.Tie.PRoles\nopen Model',
    'functions': [
        {'file': 'cellmlmanip/model.py',
         'func': 'Model._get_value.expand_derivatives',
         'lean_name': 'expandDerivatives',
         'signature': '(self : RModel) (rec : Expr → Except PyErr Expr) (expr : Expr) : Except PyErr Expr',
         'params': ['expr'],
         'mutable': ['replacements'],
         'dict_names': ['replacements'],
         'patterns': [('__A.atoms(sympy.Derivative)', '(derivAtoms {A})'),
                      ('self._ode_definition_map.get(__A)', '(odeGet self {A})'),
                      ('__A.args[0]', '(nodeArg0 {A})'),
                      ('__A.lhs', '(eqLhsNode {A})'),
                      ('expand_derivatives(__A)', '← rec {A}'),
                      ('__A.rhs', '← optEqRhs self {A}'),
                      ('__A.xreplace(replacements)', '(xreplaceDerivs {A} replacements)')]},
        {'file': 'cellmlmanip/model.py',
         'func': 'Model._get_value',
         'lean_name': 'getValueRec',
         'signature': '(self : RModel) (fn : Interp) (expand_derivatives : Expr → Except PyErr Expr) '
                      '(rec : Nat → PyMemo → Except PyErr (Rat × PyMemo)) (variable_ : Nat) (evaluated : PyMemo) '
                      ': Except PyErr (Rat × PyMemo)',
         'params': ['variable', 'evaluated'],
         'skip_defs': ['expand_derivatives'],
         'retyped_names': ['expr'],
         'returns_state': ['evaluated'],
         'dict_names': ['evaluated'],
         'patterns': [('self._ode_definition_map.keys()', '(odeKeys self)'),
                      ('self._ode_definition_map', '(odeKeys self)'),
                      ('float(__A.initial_value)', '← floatVal (initialValue self {A})'),
                      ('__A.initial_value', '(initialValue self {A})'),
                      ('self._var_definition_map[__A]', '← varDefItem self {A}'),
                      ('self.get_free_variable()', '← Cellml.Gen.Roles.getFreeVariable self'),
                      ('expand_derivatives(__A)', '← expand_derivatives {A}'),
                      ('__A.rhs', '(eqRhs self {A})'),
                      ('__A.atoms(Variable)', '(varAtoms {A})'),
                      ('__A.xreplace(evaluated)', '← xreplaceMemo {A} evaluated'),
                      ('float(__A)', '← floatExpr fn {A}')],
         'stmt_patterns': [('evaluated[__K] = self._get_value(__A, evaluated)',
                            'let (val__, ev__) ← rec {A} evaluated\n'
                            'evaluated := Py.setItem ev__ {K} (pyFloatVal val__)')]},
        {'file': 'cellmlmanip/model.py',
         'func': 'Model.get_value',
         'lean_name': 'getValue',
         'signature': '(self : RModel) (rec : Nat → PyMemo → Except PyErr (Rat × PyMemo)) (variable_ : Nat) '
                      ': Except PyErr Rat',
         'patterns': [('self._get_value(__A)', '(← rec {A} none).1')]},
    ]}
