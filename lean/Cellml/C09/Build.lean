import Cellml.C09.Closure

/-! What `Model.graph` and `Model.graph_with_sympy_numbers` build, stated declaratively. -/

namespace C09

/-! ## `sorted(…, key=str)` -/

theorem insertStr_perm (key : Node → String) (x : Node) : ∀ l : List Node, (insertStr key x l).Perm (x :: l)
  | [] => List.Perm.refl _
  | y :: ys => by
      unfold insertStr
      split
      · exact ((insertStr_perm key x ys).cons y).trans (List.Perm.swap x y ys)
      · exact List.Perm.refl _

theorem sortStr_perm (key : Node → String) : ∀ l : List Node, (sortStr key l).Perm l
  | [] => List.Perm.refl _
  | x :: xs => (insertStr_perm key x (sortStr key xs)).trans ((sortStr_perm key xs).cons x)

theorem mem_sortStr {key : Node → String} {l : List Node} {a : Node} : a ∈ sortStr key l ↔ a ∈ l :=
  (sortStr_perm key l).mem_iff

theorem insertStr_sorted (key : Node → String) (x : Node) : ∀ l : List Node,
    l.Pairwise (fun a b => key a ≤ key b) → (insertStr key x l).Pairwise (fun a b => key a ≤ key b)
  | [], _ => List.pairwise_singleton _ _
  | y :: ys, h => by
      unfold insertStr
      have hy := List.pairwise_cons.mp h
      split
      · rename_i hyx
        refine List.Pairwise.cons ?_ (insertStr_sorted key x ys hy.2)
        intro b hb
        rcases List.mem_cons.mp ((insertStr_perm key x ys).mem_iff.mp hb) with rfl | hb
        · exact String.not_lt.mp (String.lt_asymm hyx)
        · exact hy.1 b hb
      · rename_i hyx
        have hxy : key x ≤ key y := String.not_lt.mp hyx
        refine List.Pairwise.cons ?_ h
        intro b hb
        rcases List.mem_cons.mp hb with rfl | hb
        · exact hxy
        · exact String.le_trans hxy (hy.1 b hb)

/-- the result is sorted: keys non-decreasing -/
theorem sortStr_sorted (key : Node → String) : ∀ l : List Node, (sortStr key l).Pairwise (fun a b => key a ≤ key b)
  | [] => List.Pairwise.nil
  | x :: xs => insertStr_sorted key x _ (sortStr_sorted key xs)

/-- **Sorting by pairwise distinct `str` keys gives a list that depends only on the SET**: two lists with the same
    elements (two iteration orders of one Python set) sort to the same list. -/
theorem sortStr_eq_of_perm (key : Node → String) {l₁ l₂ : List Node} (hp : l₁.Perm l₂)
    (hinj : ∀ a ∈ l₁, ∀ b ∈ l₁, key a = key b → a = b) : sortStr key l₁ = sortStr key l₂ := by
  apply List.Perm.eq_of_pairwise (le := fun a b => key a ≤ key b)
  · intro a b ha hb hab hba
    exact hinj a (mem_sortStr.mp ha) b (hp.mem_iff.mpr (mem_sortStr.mp hb)) (String.le_antisymm hab hba)
  · exact sortStr_sorted key l₁
  · exact sortStr_sorted key l₂
  · exact (sortStr_perm key l₁).trans (hp.trans (sortStr_perm key l₂).symm)

theorem hasEq_iff {eqs : List Eqn} {v : Node} : hasEq eqs v = true ↔ v ∈ eqs.map (·.lhs) := by
  simp only [hasEq, List.any_eq_true, List.mem_map, beq_iff_eq]

theorem isStateOrFree_iff {eqs : List Eqn} {v : Node} :
    isStateOrFree eqs v = true ↔ ∃ e ∈ eqs, ∃ s f, e.ode = some (s, f) ∧ (v = s ∨ v = f) := by
  simp only [isStateOrFree, List.any_eq_true]
  constructor
  · rintro ⟨e, he, h⟩
    refine ⟨e, he, ?_⟩
    cases ho : e.ode with
    | none => simp [ho] at h
    | some p =>
        obtain ⟨s, f⟩ := p
        simp only [ho, Bool.or_eq_true, beq_iff_eq] at h
        exact ⟨s, f, rfl, h⟩
  · rintro ⟨e, he, s, f, ho, h⟩
    refine ⟨e, he, ?_⟩
    simp only [ho, Bool.or_eq_true, beq_iff_eq]
    exact h

structure RefsSpec (sf : Node → Bool) (lhs : Node) (rs : List Node) (g g' : Graph) : Prop where
  nodes : ∀ x, x ∈ g'.nodes ↔ x ∈ g.nodes ∨ (x ∈ rs ∧ sf x = true)
  edges : ∀ e, e ∈ g'.edges ↔ e ∈ g.edges ∨ (e.2 = lhs ∧ e.1 ∈ rs)
  nodup : g.nodes.Nodup → g'.nodes.Nodup
  refs : ∀ r ∈ rs, r ∈ g'.nodes

theorem addRefs_spec (sf : Node → Bool) (lhs : Node) : ∀ (rs : List Node) (g g' : Graph),
    addRefs sf lhs rs g = .ok g' → RefsSpec sf lhs rs g g'
  | [], g, g', h => by
      simp only [addRefs, Except.ok.injEq] at h; subst h
      exact ⟨by simp, by simp, id, by simp⟩
  | r :: rs, g, g', h => by
      simp only [addRefs] at h
      split at h
      · rename_i hr
        have ih := addRefs_spec sf lhs rs _ g' h
        refine ⟨?_, ?_, ih.nodup, ?_⟩
        · intro x
          rw [ih.nodes]
          simp only [List.mem_cons]
          constructor
          · rintro (h1 | ⟨h1, h2⟩)
            · exact Or.inl h1
            · exact Or.inr ⟨Or.inr h1, h2⟩
          · rintro (h1 | ⟨h1 | h1, h2⟩)
            · exact Or.inl h1
            · subst h1; exact Or.inl hr
            · exact Or.inr ⟨h1, h2⟩
        · intro e
          rw [ih.edges]
          simp only [List.mem_append, List.mem_cons, List.not_mem_nil, or_false]
          constructor
          · rintro ((h1 | h1) | ⟨h1, h2⟩)
            · exact Or.inl h1
            · subst h1; exact Or.inr ⟨rfl, Or.inl rfl⟩
            · exact Or.inr ⟨h1, Or.inr h2⟩
          · rintro (h1 | ⟨h1, h2 | h2⟩)
            · exact Or.inl (Or.inl h1)
            · refine Or.inl (Or.inr ?_)
              obtain ⟨a, b⟩ := e
              simp only at h1 h2; subst h1; subst h2; rfl
            · exact Or.inr ⟨h1, h2⟩
        · intro x hx
          rcases List.mem_cons.mp hx with rfl | hx
          · exact (ih.nodes x).mpr (Or.inl hr)
          · exact ih.refs x hx
      · rename_i hr
        split at h
        · rename_i hsf
          have ih := addRefs_spec sf lhs rs _ g' h
          refine ⟨?_, ?_, ?_, ?_⟩
          · intro x
            rw [ih.nodes]
            simp only [List.mem_append, List.mem_cons, List.not_mem_nil, or_false]
            constructor
            · rintro ((h1 | h1) | ⟨h1, h2⟩)
              · exact Or.inl h1
              · subst h1; exact Or.inr ⟨Or.inl rfl, hsf⟩
              · exact Or.inr ⟨Or.inr h1, h2⟩
            · rintro (h1 | ⟨h1 | h1, h2⟩)
              · exact Or.inl (Or.inl h1)
              · exact Or.inl (Or.inr h1)
              · exact Or.inr ⟨h1, h2⟩
          · intro e
            rw [ih.edges]
            simp only [List.mem_append, List.mem_cons, List.not_mem_nil, or_false]
            constructor
            · rintro ((h1 | h1) | ⟨h1, h2⟩)
              · exact Or.inl h1
              · subst h1; exact Or.inr ⟨rfl, Or.inl rfl⟩
              · exact Or.inr ⟨h1, Or.inr h2⟩
            · rintro (h1 | ⟨h1, h2 | h2⟩)
              · exact Or.inl (Or.inl h1)
              · refine Or.inl (Or.inr ?_)
                obtain ⟨a, b⟩ := e
                simp only at h1 h2; subst h1; subst h2; rfl
              · exact Or.inr ⟨h1, h2⟩
          · intro hnd
            apply ih.nodup
            show (g.nodes ++ [r]).Nodup
            rw [List.nodup_append]
            refine ⟨hnd, by simp, ?_⟩
            intro a ha b hb
            simp at hb; subst hb
            intro hab; subst hab; exact hr ha
          · intro x hx
            rcases List.mem_cons.mp hx with rfl | hx
            · exact (ih.nodes x).mpr (Or.inl (by simp))
            · exact ih.refs x hx
        · simp at h

theorem addRefs_ok (sf : Node → Bool) (lhs : Node) : ∀ (rs : List Node) (g : Graph),
    (∀ r ∈ rs, r ∈ g.nodes ∨ sf r = true) → ∃ g', addRefs sf lhs rs g = .ok g' ∧ ∀ x ∈ g.nodes, x ∈ g'.nodes
  | [], g, _ => ⟨g, rfl, fun _ h => h⟩
  | r :: rs, g, h => by
      simp only [addRefs]
      split
      · obtain ⟨g', hg', hsub⟩ := addRefs_ok sf lhs rs ⟨g.nodes, g.edges ++ [(r, lhs)]⟩
          (fun x hx => h x (List.mem_cons_of_mem _ hx))
        exact ⟨g', hg', hsub⟩
      · rename_i hr
        have hsf : sf r = true := by
          rcases h r (by simp) with h' | h'
          · exact absurd h' hr
          · exact h'
        simp only [hsf, if_true]
        obtain ⟨g', hg', hsub⟩ := addRefs_ok sf lhs rs ⟨g.nodes ++ [r], g.edges ++ [(r, lhs)]⟩
          (fun x hx => (h x (List.mem_cons_of_mem _ hx)).imp (fun h' => List.mem_append_left _ h') id)
        exact ⟨g', hg', fun x hx => hsub x (List.mem_append_left _ hx)⟩

theorem mem_addOde_nodes {ode : Option (Node × Node)} {g : Graph} {x : Node} :
    x ∈ (addOde ode g).nodes ↔ x ∈ g.nodes ∨ ∃ s f, ode = some (s, f) ∧ (x = s ∨ x = f) := by
  cases ode with
  | none => simp [addOde]
  | some p =>
      obtain ⟨s, f⟩ := p
      simp only [addOde, mem_addNode, Option.some.injEq, Prod.mk.injEq]
      constructor
      · rintro ((h | h) | h)
        · exact Or.inl h
        · exact Or.inr ⟨s, f, ⟨rfl, rfl⟩, Or.inr h⟩
        · exact Or.inr ⟨s, f, ⟨rfl, rfl⟩, Or.inl h⟩
      · rintro (h | ⟨s', f', ⟨rfl, rfl⟩, h | h⟩)
        · exact Or.inl (Or.inl h)
        · exact Or.inr h
        · exact Or.inl (Or.inr h)

theorem addOde_edges {ode : Option (Node × Node)} {g : Graph} : (addOde ode g).edges = g.edges := by
  cases ode with
  | none => rfl
  | some p => rfl

theorem addOde_nodup {ode : Option (Node × Node)} {g : Graph} (h : g.nodes.Nodup) : (addOde ode g).nodes.Nodup := by
  cases ode with
  | none => exact h
  | some p => exact nodup_addNode (nodup_addNode h)

structure EqsSpec (sf : Node → Bool) (es : List Eqn) (g g' : Graph) : Prop where
  nodes : ∀ x, x ∈ g'.nodes ↔ x ∈ g.nodes ∨ ∃ e ∈ es, (x ∈ e.refs ∧ sf x = true) ∨
            ∃ s f, e.ode = some (s, f) ∧ (x = s ∨ x = f)
  edges : ∀ ed, ed ∈ g'.edges ↔ ed ∈ g.edges ∨ ∃ e ∈ es, ed.2 = e.lhs ∧ ed.1 ∈ e.refs
  nodup : g.nodes.Nodup → g'.nodes.Nodup
  refs : ∀ e ∈ es, ∀ r ∈ e.refs, r ∈ g'.nodes

theorem addEqs_spec (key : Node → String) (sf : Node → Bool) : ∀ (es : List Eqn) (g g' : Graph),
    addEqs key sf es g = .ok g' → EqsSpec sf es g g'
  | [], g, g', h => by
      simp only [addEqs, Except.ok.injEq] at h; subst h
      exact ⟨by simp, by simp, id, by simp⟩
  | e :: es, g, g', h => by
      simp only [addEqs] at h
      split at h
      · simp at h
      · rename_i g1 hg1
        have s0 := addRefs_spec sf e.lhs (sortStr key e.refs) g g1 hg1
        have s1 : RefsSpec sf e.lhs e.refs g g1 :=
          ⟨fun x => by rw [s0.nodes, mem_sortStr], fun ed => by rw [s0.edges, mem_sortStr], s0.nodup,
           fun r hr => s0.refs r (mem_sortStr.mpr hr)⟩
        have ih := addEqs_spec key sf es _ g' h
        have hmono : ∀ x, x ∈ g1.nodes → x ∈ g'.nodes := fun x hx =>
          (ih.nodes x).mpr (Or.inl (mem_addOde_nodes.mpr (Or.inl hx)))
        refine ⟨?_, ?_, ?_, ?_⟩
        · intro x
          rw [ih.nodes, mem_addOde_nodes, s1.nodes]
          simp only [List.mem_cons, exists_eq_or_imp]
          constructor
          · rintro (((h1 | h1) | h1) | h1)
            · exact Or.inl h1
            · exact Or.inr (Or.inl (Or.inl h1))
            · exact Or.inr (Or.inl (Or.inr h1))
            · exact Or.inr (Or.inr h1)
          · rintro (h1 | (h1 | h1) | h1)
            · exact Or.inl (Or.inl (Or.inl h1))
            · exact Or.inl (Or.inl (Or.inr h1))
            · exact Or.inl (Or.inr h1)
            · exact Or.inr h1
        · intro ed
          rw [ih.edges, addOde_edges, s1.edges]
          simp only [List.mem_cons, exists_eq_or_imp]
          constructor
          · rintro ((h1 | h1) | h1)
            · exact Or.inl h1
            · exact Or.inr (Or.inl h1)
            · exact Or.inr (Or.inr h1)
          · rintro (h1 | h1 | h1)
            · exact Or.inl (Or.inl h1)
            · exact Or.inl (Or.inr h1)
            · exact Or.inr h1
        · intro hnd
          exact ih.nodup (addOde_nodup (s1.nodup hnd))
        · intro e' he' r hr
          rcases List.mem_cons.mp he' with rfl | he'
          · exact hmono r (s1.refs r hr)
          · exact ih.refs e' he' r hr

theorem addEqs_ok (key : Node → String) (sf : Node → Bool) : ∀ (es : List Eqn) (g : Graph) (base : List Node),
    (∀ x ∈ base, x ∈ g.nodes) →
    (∀ e ∈ es, ∀ r ∈ e.refs, r ∈ base ∨ sf r = true) → ∃ g', addEqs key sf es g = .ok g'
  | [], g, _, _, _ => ⟨g, rfl⟩
  | e :: es, g, base, hb, h => by
      simp only [addEqs]
      obtain ⟨g1, hg1, hsub⟩ := addRefs_ok sf e.lhs (sortStr key e.refs) g
        (fun r hr => (h e (by simp) r (mem_sortStr.mp hr)).imp (hb r) id)
      rw [hg1]
      exact addEqs_ok key sf es (addOde e.ode g1) base
        (fun x hx => mem_addOde_nodes.mpr (Or.inl (hsub x (hb x hx))))
        (fun e' he' => h e' (List.mem_cons_of_mem _ he'))

/-- the equations are a well-formed input of `Model.graph`: each left-hand side (and each `str`) occurs once, and
    every reference is a left-hand side or the state / free variable of an ODE -/
structure Valid (key : Node → String) (eqs : List Eqn) : Prop where
  lhsNodup : (eqs.map (·.lhs)).Nodup
  keyNodup : ((eqs.map (·.lhs)).map key).Nodup
  refsOk : ∀ e ∈ eqs, ∀ r ∈ e.refs, hasEq eqs r = true ∨ isStateOrFree eqs r = true

/-- what `Model.graph` builds -/
structure GraphSpec (eqs : List Eqn) (g : Graph) : Prop where
  wf : WF g
  nodes : ∀ x, x ∈ g.nodes ↔ hasEq eqs x = true ∨ isStateOrFree eqs x = true
  edges : ∀ u v, (u, v) ∈ g.edges ↔ ∃ e ∈ eqs, e.lhs = v ∧ u ∈ e.refs

theorem buildGraph_valid {key : Node → String} {eqs : List Eqn} {g : Graph} (h : buildGraph key eqs = .ok g) :
    Valid key eqs ∧ GraphSpec eqs g := by
  simp only [buildGraph] at h
  split at h
  · simp at h
  · rename_i h1
    split at h
    · simp at h
    · rename_i h2
      have h1' : (eqs.map (·.lhs)).Nodup := Classical.not_not.mp h1
      have h2' : ((eqs.map (·.lhs)).map key).Nodup := Classical.not_not.mp h2
      have sp := addEqs_spec key (isStateOrFree eqs) eqs _ g h
      have hnodes : ∀ x, x ∈ g.nodes ↔ hasEq eqs x = true ∨ isStateOrFree eqs x = true := by
        intro x
        rw [sp.nodes, hasEq_iff, isStateOrFree_iff]
        constructor
        · rintro (h' | ⟨e, he, (⟨_, hsf⟩ | hode)⟩)
          · exact Or.inl h'
          · exact Or.inr hsf
          · exact Or.inr ⟨e, he, hode⟩
        · rintro (h' | ⟨e, he, hode⟩)
          · exact Or.inl h'
          · exact Or.inr ⟨e, he, Or.inr hode⟩
      have hedges : ∀ u v, (u, v) ∈ g.edges ↔ ∃ e ∈ eqs, e.lhs = v ∧ u ∈ e.refs := by
        intro u v
        rw [sp.edges]
        simp only [List.not_mem_nil, false_or]
        constructor
        · rintro ⟨e, he, h3, h4⟩; exact ⟨e, he, h3.symm, h4⟩
        · rintro ⟨e, he, h3, h4⟩; exact ⟨e, he, h3.symm, h4⟩
      refine ⟨⟨h1', h2', ?_⟩, ⟨sp.nodup h1', ?_, ?_⟩, hnodes, hedges⟩
      · intro e he r hr
        exact (hnodes r).mp (sp.refs e he r hr)
      · intro u v huv
        obtain ⟨e, he, _, hu⟩ := (hedges u v).mp huv
        exact sp.refs e he u hu
      · intro u v huv
        obtain ⟨e, he, hv, _⟩ := (hedges u v).mp huv
        exact (hnodes v).mpr (Or.inl (hasEq_iff.mpr (List.mem_map.mpr ⟨e, he, hv⟩)))

theorem buildGraph_ok {key : Node → String} {eqs : List Eqn} (hv : Valid key eqs) :
    ∃ g, buildGraph key eqs = .ok g := by
  simp only [buildGraph, hv.lhsNodup, hv.keyNodup, not_true_eq_false, if_false]
  exact addEqs_ok key (isStateOrFree eqs) eqs _ (eqs.map (·.lhs)) (fun _ h => h)
    (fun e he r hr => (hv.refsOk e he r hr).imp (fun h => hasEq_iff.mp h) id)

/-! ## The graph is a function of the left-hand sides, the ODE pairs and the SORTED references -/

/-- two spellings of one equation: same left-hand side, same ODE pair, and the references — in whatever order the
    set handed them out — sort to the same list -/
def SameSorted (key : Node → String) (e e' : Eqn) : Prop :=
  e'.lhs = e.lhs ∧ e'.ode = e.ode ∧ sortStr key e'.refs = sortStr key e.refs

theorem addEqs_congr (key : Node → String) (sf : Node → Bool) {α : Type} (f f' : α → Eqn) :
    ∀ (l : List α) (g : Graph), (∀ a ∈ l, SameSorted key (f a) (f' a)) →
      addEqs key sf (l.map f') g = addEqs key sf (l.map f) g
  | [], _, _ => rfl
  | a :: l, g, h => by
      obtain ⟨h1, h2, h3⟩ := h a (by simp)
      simp only [List.map_cons, addEqs, h1, h2, h3]
      cases addRefs sf (f a).lhs (sortStr key (f a).refs) g with
      | error x => rfl
      | ok g1 => exact addEqs_congr key sf f f' l _ (fun b hb => h b (List.mem_cons_of_mem _ hb))

theorem isStateOrFree_congr {α : Type} (f f' : α → Eqn) (v : Node) :
    ∀ (l : List α), (∀ a ∈ l, (f' a).ode = (f a).ode) → isStateOrFree (l.map f') v = isStateOrFree (l.map f) v
  | [], _ => rfl
  | a :: l, h => by
      have ih := isStateOrFree_congr f f' v l (fun b hb => h b (List.mem_cons_of_mem _ hb))
      simp only [isStateOrFree] at ih ⊢
      simp only [List.map_cons, List.any_cons, h a (by simp), ih]

/-- **`Model.graph` — node LIST and edge LIST, or the refusal — is the same for two spellings of a system that differ
    only in the order in which the reference sets were handed out.** -/
theorem buildGraph_congr (key : Node → String) {α : Type} (f f' : α → Eqn) (l : List α)
    (h : ∀ a ∈ l, SameSorted key (f a) (f' a)) : buildGraph key (l.map f') = buildGraph key (l.map f) := by
  have hl : (l.map f').map (·.lhs) = (l.map f).map (·.lhs) := by
    simp only [List.map_map]
    exact List.map_congr_left (fun a ha => (h a ha).1)
  have hsf : isStateOrFree (l.map f') = isStateOrFree (l.map f) :=
    funext fun v => isStateOrFree_congr f f' v l (fun a ha => (h a ha).2.1)
  simp only [buildGraph, hl, hsf, addEqs_congr key _ f f' l _ h]

/-! ## `graph_with_sympy_numbers` -/

theorem eqnOf_of_mem : ∀ {eqs : List Eqn} {e : Eqn}, (eqs.map (·.lhs)).Nodup → e ∈ eqs → eqnOf eqs e.lhs = some e
  | [], e, _, h => by simp at h
  | x :: xs, e, hnd, h => by
      simp only [List.map_cons, List.nodup_cons] at hnd
      simp only [eqnOf, List.find?_cons]
      rcases List.mem_cons.mp h with rfl | h
      · simp
      · have hne : (x.lhs == e.lhs) = false := by
          simp only [beq_eq_false_iff_ne, ne_eq]
          intro heq
          exact hnd.1 (heq ▸ List.mem_map.mpr ⟨e, h, rfl⟩)
        rw [hne]
        exact eqnOf_of_mem hnd.2 h

/-- the references of `v`'s equation, before / after number substitution (`Eqn.numRefs`: the substitution happens
    only in an equation that holds a `Quantity`) -/
def DepOn (eqs : List Eqn) (strip : Bool) (u v : Node) : Prop :=
  ∃ e ∈ eqs, e.lhs = v ∧ u ∈ e.refs ∧ (strip = true → u ∈ e.numRefs)

/-- for a reference of the equation, surviving the pruning of `graph_with_sympy_numbers` is being in `numRefs` -/
theorem keep_iff_numRefs {e : Eqn} {u : Node} (hr : u ∈ e.refs) :
    (!e.hasQ || decide (u ∈ e.refsNum)) = true ↔ u ∈ e.numRefs := by
  unfold Eqn.numRefs
  cases e.hasQ <;> simp [hr]

theorem DepOn.weaken {eqs : List Eqn} {strip : Bool} {u v : Node} (h : DepOn eqs strip u v) : DepOn eqs false u v := by
  obtain ⟨e, he, h1, h2, _⟩ := h
  exact ⟨e, he, h1, h2, by simp⟩

theorem graphFor_nodes {eqs : List Eqn} {strip : Bool} {g : Graph} : (graphFor eqs strip g).nodes = g.nodes := by
  cases strip <;> rfl

theorem graphFor_edges {eqs : List Eqn} {strip : Bool} {g : Graph} (hnd : (eqs.map (·.lhs)).Nodup)
    (hg : GraphSpec eqs g) (u v : Node) : (u, v) ∈ (graphFor eqs strip g).edges ↔ DepOn eqs strip u v := by
  cases strip with
  | false =>
      simp only [graphFor, Bool.false_eq_true, if_false, DepOn, false_implies, and_true]
      exact hg.edges u v
  | true =>
      simp only [graphFor, if_true, stripGraph, List.mem_filter, DepOn, true_implies]
      rw [hg.edges]
      constructor
      · rintro ⟨⟨e, he, hl, hr⟩, hk⟩
        refine ⟨e, he, hl, hr, ?_⟩
        have := eqnOf_of_mem hnd he
        rw [hl] at this
        simp only [keepEdge, this] at hk
        exact (keep_iff_numRefs hr).mp hk
      · rintro ⟨e, he, hl, hr, hn⟩
        refine ⟨⟨e, he, hl, hr⟩, ?_⟩
        have := eqnOf_of_mem hnd he
        rw [hl] at this
        simp only [keepEdge, this]
        exact (keep_iff_numRefs hr).mpr hn

theorem graphFor_wf {eqs : List Eqn} {strip : Bool} {g : Graph} (hwf : WF g) : WF (graphFor eqs strip g) := by
  cases strip with
  | false => exact hwf
  | true =>
      refine ⟨hwf.nodup, ?_, ?_⟩
      · intro u v h; exact hwf.src u v (List.mem_filter.mp h).1
      · intro u v h; exact hwf.tgt u v (List.mem_filter.mp h).1

end C09
