import Cellml.Load.Lemmas

/-! Where connection resolution leaves the cmeta ids (parser.py 489-492; `Load.stepConn`, `Load.connect`): an invariant
    of the work list about `CState.cmeta`, on top of the C01 invariant `Load.Inv`. Core Lean only. -/

namespace Load

/-- the id written on a variable in the document -/
def docId (vt : VarTable) (v : VRef) : Option String := cmetaOf (initState vt) v

/-- `v.assigned_to` if it has one, else `v` -/
def home (st : CState) (v : VRef) : VRef := (st.asg v).getD v

/-- the ids sit exactly on the `assigned_to` of the variables they were written on; a variable assigned to itself is a
    source proper or the left-hand side of a conversion equation -/
structure CmInv (vt : VarTable) (st : CState) : Prop where
  ids : ∀ w c, cmetaOf st w = some c ↔ ∃ v0, docId vt v0 = some c ∧ home st v0 = w
  selfAsg : ∀ v, st.asg v = some v → Src vt v ∨ ∃ e ∈ st.convs, e.target = v

theorem cm_init (vt : VarTable) : CmInv vt (initState vt) where
  ids := by
    intro w c
    have hh : ∀ v0, home (initState vt) v0 = v0 := by
      intro v0
      unfold home
      cases h : (initState vt).asg v0 with
      | none => rfl
      | some a => exact initAssigned_lookup vt v0 a h
    constructor
    · intro h; exact ⟨w, h, hh w⟩
    · rintro ⟨v0, h1, h2⟩; rw [hh] at h2; subst h2; exact h1
  selfAsg := by
    intro v h
    left
    unfold Src
    have : (initAssigned vt).lookup v = some v := h
    rw [this]; rfl

theorem home_eq_target {st : CState} (hself : ∀ v a, st.asg v = some a → st.asg a = some a) {t : VRef}
    (ht : st.asg t = none) {v0 : VRef} (h : home st v0 = t) : v0 = t := by
  unfold home at h
  cases hv : st.asg v0 with
  | none => rw [hv] at h; exact h
  | some b =>
    rw [hv] at h
    simp only [Option.getD_some] at h
    subst h
    have := hself v0 b hv
    rw [ht] at this; cases this

theorem home_cons {st st' : CState} {t a : VRef} (hasg : st'.assigned = (t, a) :: st.assigned) (v0 : VRef) :
    home st' v0 = if v0 = t then a else home st v0 := by
  unfold home CState.asg
  rw [hasg, lookup_cons]
  split <;> rfl

theorem home_target {st : CState} {t : VRef} (ht : st.asg t = none) : home st t = t := by
  unfold home; rw [ht]; rfl

/-- factor 1, the target carries no id -/
theorem cm_plain {vt : VarTable} {st st' : CState} {t a : VRef} (hc : CmInv vt st)
    (ht : st.asg t = none) (hat : a ≠ t) (hta : cmetaOf st t = none)
    (hcm : st'.cmeta = st.cmeta) (hasg : st'.assigned = (t, a) :: st.assigned) (hconv : st'.convs = st.convs) :
    CmInv vt st' where
  ids := by
    intro w c
    have e : cmetaOf st' w = cmetaOf st w := by unfold cmetaOf; rw [hcm]
    rw [e, hc.ids]
    have hnot : ∀ c, docId vt t ≠ some c := by
      intro c hd
      have := (hc.ids t c).mpr ⟨t, hd, home_target ht⟩
      rw [hta] at this; cases this
    constructor
    · rintro ⟨v0, h1, h2⟩
      refine ⟨v0, h1, ?_⟩
      rw [home_cons hasg, if_neg]; exact h2
      rintro rfl; exact hnot c h1
    · rintro ⟨v0, h1, h2⟩
      refine ⟨v0, h1, ?_⟩
      rw [home_cons hasg, if_neg] at h2; exact h2
      rintro rfl; exact hnot c h1
  selfAsg := by
    intro v hv
    have : st'.asg v = if v = t then some a else st.asg v := by
      unfold CState.asg; rw [hasg, lookup_cons]
    rw [this] at hv
    by_cases hvt : v = t
    · rw [if_pos hvt] at hv; simp only [Option.some.injEq] at hv; exact absurd (hv.trans hvt) hat
    · rw [if_neg hvt] at hv; rw [hconv]; exact hc.selfAsg v hv

/-- factor 1, the id of the target moves to `a` -/
theorem cm_move {vt : VarTable} {st st' : CState} {t a : VRef} {id : String} (hc : CmInv vt st)
    (hself : ∀ v a, st.asg v = some a → st.asg a = some a)
    (ht : st.asg t = none) (hat : a ≠ t) (hid : cmetaOf st t = some id) (hna : cmetaOf st a = none)
    (hcm : st'.cmeta = (a, some id) :: (t, none) :: st.cmeta) (hasg : st'.assigned = (t, a) :: st.assigned)
    (hconv : st'.convs = st.convs) : CmInv vt st' where
  ids := by
    intro w c
    have e : cmetaOf st' w = if w = a then some id else if w = t then none else cmetaOf st w := by
      unfold cmetaOf
      rw [hcm, lookup_cons, lookup_cons]
      by_cases h1 : w = a
      · simp [h1]
      · by_cases h2 : w = t
        · subst h2; simp [h1]
        · simp [h1, h2]
    rw [e]
    have hdt : docId vt t = some id := by
      obtain ⟨v0, h1, h2⟩ := (hc.ids t id).mp hid
      have := home_eq_target hself ht h2
      subst this; exact h1
    by_cases h1 : w = a
    · subst h1
      rw [if_pos rfl]
      constructor
      · intro h
        simp only [Option.some.injEq] at h; subst h
        exact ⟨t, hdt, by rw [home_cons hasg, if_pos rfl]⟩
      · rintro ⟨v0, d1, d2⟩
        rw [home_cons hasg] at d2
        by_cases hv : v0 = t
        · subst hv; rw [hdt] at d1; exact d1
        · rw [if_neg hv] at d2
          have := (hc.ids w c).mpr ⟨v0, d1, d2⟩
          rw [hna] at this; cases this
    · rw [if_neg h1]
      by_cases h2 : w = t
      · subst h2
        rw [if_pos rfl]
        constructor
        · intro h; cases h
        · rintro ⟨v0, d1, d2⟩
          rw [home_cons hasg] at d2
          by_cases hv : v0 = w
          · rw [if_pos hv] at d2; exact absurd d2 hat
          · rw [if_neg hv] at d2; exact absurd (home_eq_target hself ht d2) hv
      · rw [if_neg h2, hc.ids]
        constructor
        · rintro ⟨v0, d1, d2⟩
          refine ⟨v0, d1, ?_⟩
          rw [home_cons hasg, if_neg]; exact d2
          rintro rfl; rw [home_target ht] at d2; exact h2 d2.symm
        · rintro ⟨v0, d1, d2⟩
          rw [home_cons hasg] at d2
          by_cases hv : v0 = t
          · rw [if_pos hv] at d2; exact absurd d2.symm h1
          · rw [if_neg hv] at d2; exact ⟨v0, d1, d2⟩
  selfAsg := by
    intro v hv
    have : st'.asg v = if v = t then some a else st.asg v := by
      unfold CState.asg; rw [hasg, lookup_cons]
    rw [this] at hv
    by_cases hvt : v = t
    · rw [if_pos hvt] at hv; simp only [Option.some.injEq] at hv; exact absurd (hv.trans hvt) hat
    · rw [if_neg hvt] at hv; rw [hconv]; exact hc.selfAsg v hv

/-- a conversion equation is added: the target is assigned to itself and keeps its id -/
theorem cm_conv {vt : VarTable} {st st' : CState} {t : VRef} {e : ConvEq} (hc : CmInv vt st)
    (ht : st.asg t = none) (he : e.target = t)
    (hcm : st'.cmeta = st.cmeta) (hasg : st'.assigned = (t, t) :: st.assigned) (hconv : st'.convs = st.convs ++ [e]) :
    CmInv vt st' where
  ids := by
    intro w c
    have e1 : cmetaOf st' w = cmetaOf st w := by unfold cmetaOf; rw [hcm]
    have e2 : ∀ v0, home st' v0 = home st v0 := by
      intro v0
      rw [home_cons hasg]
      split
      · rename_i h; subst h; exact (home_target ht).symm
      · rfl
    rw [e1, hc.ids]
    constructor
    · rintro ⟨v0, h1, h2⟩; exact ⟨v0, h1, by rw [e2]; exact h2⟩
    · rintro ⟨v0, h1, h2⟩; exact ⟨v0, h1, by rw [e2] at h2; exact h2⟩
  selfAsg := by
    intro v hv
    by_cases hvt : v = t
    · right; exact ⟨e, by rw [hconv]; simp, by rw [he, hvt]⟩
    · have : st'.asg v = st.asg v := by
        unfold CState.asg; rw [hasg, lookup_cons, if_neg hvt]
      rw [this] at hv
      rcases hc.selfAsg v hv with h | ⟨e', he1, he2⟩
      · exact Or.inl h
      · exact Or.inr ⟨e', by rw [hconv]; exact List.mem_append_left _ he1, he2⟩

/-- one successful iteration of the loop body preserves `CmInv` -/
theorem stepConn_cm {reg : Registry} {vt : VarTable} {l rest : List (VRef × VRef)} {s t : VRef} {st st' : CState}
    (h : Inv reg vt l ((s, t) :: rest) st) (hc : CmInv vt st) (hstep : stepConn reg vt st (s, t) = .ok (some st')) :
    CmInv vt st' := by
  unfold stepConn at hstep
  simp only at hstep
  split at hstep
  · cases hstep
  · rename_i hnt
    have ht : st.asg t = none := by
      cases hx : st.asg t with
      | none => rfl
      | some x => rw [hx] at hnt; simp at hnt
    split at hstep
    · cases hstep
    · rename_i a hs
      have haa : st.asg a = some a := h.asg_self s a hs
      have hat : a ≠ t := fun e => by rw [e, ht] at haa; cases haa
      split at hstep
      · cases hstep
      · cases hstep
      · rename_i f hf
        split at hstep
        · split at hstep
          · rename_i hnone
            simp only [Except.ok.injEq, Option.some.injEq] at hstep
            subst hstep
            exact cm_plain hc ht hat hnone rfl rfl rfl
          · rename_i id hid
            split at hstep
            · cases hstep
            · rename_i hna
              simp only [Except.ok.injEq, Option.some.injEq] at hstep
              subst hstep
              have hna' : cmetaOf st a = none := by
                cases hx : cmetaOf st a with
                | none => rfl
                | some x => rw [hx] at hna; simp at hna
              exact cm_move hc h.asg_self ht hat hid hna' rfl rfl rfl
        · simp only [Except.ok.injEq, Option.some.injEq] at hstep
          subst hstep
          exact cm_conv hc ht rfl rfl rfl rfl

theorem connectLoop_cm {reg : Registry} {vt : VarTable} {l : List (VRef × VRef)} :
    ∀ (dq : List (VRef × VRef)) (unch : Nat) (hu : unch ≤ dq.length) (st st' : CState),
      Inv reg vt l dq st → CmInv vt st → connectLoop reg vt dq unch hu st = .ok st' → CmInv vt st' := by
  intro dq unch hu st
  fun_induction connectLoop reg vt dq unch hu st with
  | case1 unch st hu _ => intro st' _ hc h; simp only [Except.ok.injEq] at h; subst h; exact hc
  | case2 unch st c rest hu e he _ => intro st' _ _ h; cases h
  | case3 unch st c rest hu he hlt _ ih =>
      intro st' hinv hc h
      exact ih st' (inv_requeue hinv) hc h
  | case4 unch st c rest hu he hlt _ =>
      intro st' _ _ h
      cases h
  | case5 unch st c rest hu st1 he _ ih =>
      intro st' hinv hc h
      obtain ⟨s, t⟩ := c
      exact ih st' (stepConn_some hinv he) (stepConn_cm hinv hc he) h

/-- after connection resolution the ids sit exactly on the `assigned_to` of the variables they were written on -/
theorem connect_cm {reg : Registry} {vt : VarTable} {l : List (VRef × VRef)} {st : CState}
    (h : connect reg vt l = .ok st) : CmInv vt st :=
  connectLoop_cm l 0 (Nat.zero_le _) (initState vt) st (inv_init reg vt l) (cm_init vt) h

theorem prepare_connect {doc : Doc} {L : Loaded} (h : prepare doc = .ok L) : connect L.reg L.vt L.dl = .ok L.st := by
  unfold prepare at h
  split at h
  · cases h
  · split at h
    · cases h
    · simp only at h
      split at h
      · cases h
      · split at h
        · cases h
        · split at h
          · cases h
          · rename_i hc
            simp only [Except.ok.injEq] at h
            subst h
            exact hc

theorem load_prepare {doc : Doc} {F : Flat} (h : load doc = .ok F) : ∃ L, prepare doc = .ok L ∧ F = L.flat doc := by
  unfold load at h
  split at h
  · cases h
  · rename_i L hL
    split at h
    · cases h
    · split at h
      · cases h
      · simp only [Except.ok.injEq] at h
        exact ⟨L, hL, h.symm⟩

/-- where the id of `v0` is after resolution, and why the flat equations know that variable -/
theorem home_facts {reg : Registry} {vt : VarTable} {l : List (VRef × VRef)} {st : CState}
    (h : connect reg vt l = .ok st) (v0 : VRef) :
    (st.asg v0 = none ∧ home st v0 = v0) ∨
    (st.asg v0 = some (home st v0) ∧ st.asg (home st v0) = some (home st v0) ∧
      ((Src vt (home st v0) ∧ rootOf st v0 = home st v0) ∨ ∃ e ∈ st.convs, e.target = home st v0)) := by
  have inv := connect_inv h
  have cm := connect_cm h
  cases ha : st.asg v0 with
  | none => left; exact ⟨rfl, by unfold home; rw [ha]; rfl⟩
  | some a =>
    right
    have hh : home st v0 = a := by unfold home; rw [ha]; rfl
    rw [hh]
    have haa := inv.asg_self v0 a ha
    refine ⟨rfl, haa, ?_⟩
    rcases cm.selfAsg a haa with hs | hc
    · left
      refine ⟨hs, ?_⟩
      have h1 : rootOf st v0 = root st.mapping v0 := inv.wf.resolve_eq_root _ v0 (Nat.le_refl _)
      rw [h1, ← inv.asg_root v0 a ha]
      exact inv.wf.root_src hs
    · exact Or.inr hc

/-! ## the rule before the repair (commit df25620): the id went to the direct `source` of the connection -/

def stepConnToday (reg : Registry) (vt : VarTable) (st : CState) (c : VRef × VRef) : Except Err (Option CState) :=
  let (s, t) := c
  if (st.asg t).isSome then .error (.valueError "Target already assigned")
  else match st.asg s with
    | none => .ok none
    | some a =>
      let mapping := (t, s) :: st.mapping
      match Units.factor reg (unitsOf vt s) (unitsOf vt t) with
      | .error .dimensionality => .error .dimensionality
      | .error _ => .error (.keyError "undefined unit")
      | .ok f =>
        if f = [] then
          match cmetaOf st t with
          | none => .ok (some { st with mapping := mapping, assigned := (t, a) :: st.assigned })
          | some id =>
            if (cmetaOf st s).isSome then .error (.valueError "Cannot transfer cmeta id: target variable already has a cmeta id")
            else .ok (some { st with mapping := mapping, assigned := (t, a) :: st.assigned,
                                     cmeta := (s, some id) :: (t, none) :: st.cmeta })
        else
          .ok (some { st with mapping := mapping, assigned := (t, t) :: st.assigned,
                              convs := st.convs ++ [⟨t, a, f, unitsOf vt t, unitsOf vt s⟩] })

/-- the work-list loop over an arbitrary loop body, on fuel (`none`: out of fuel) -/
def loopF (step : CState → VRef × VRef → Except Err (Option CState)) :
    Nat → List (VRef × VRef) → Nat → CState → Option (Except Err CState)
  | 0, _, _, _ => none
  | _ + 1, [], _, st => some (.ok st)
  | n + 1, c :: rest, unch, st =>
    match step st c with
    | .error e => some (.error e)
    | .ok none =>
        if unch + 1 ≤ (rest ++ [c]).length then loopF step n (rest ++ [c]) (unch + 1) st
        else some (.error (.assertion "Unable to add connections to the model"))
    | .ok (some st') => loopF step n rest 0 st'

theorem loopF_stepConn (reg : Registry) (vt : VarTable) : ∀ (n : Nat) (dq : List (VRef × VRef)) (unch : Nat) (st : CState),
    loopF (stepConn reg vt) n dq unch st = connectLoopF reg vt n dq unch st
  | 0, _, _, _ => rfl
  | _ + 1, [], _, _ => rfl
  | n + 1, c :: rest, unch, st => by
    simp only [loopF, connectLoopF]
    cases stepConn reg vt st c with
    | error e => rfl
    | ok o =>
      cases o with
      | none => simp only; split; exact loopF_stepConn reg vt n _ _ _; rfl
      | some st' => exact loopF_stepConn reg vt n _ _ _

end Load
