import Cellml.Tie.Transpile
import Cellml.C02.Lemmas

set_option linter.unusedSimpArgs false
set_option linter.unusedVariables false

/-! # The CLOSED transpiler over the generated code (package GenE)

    `Tie/Transpile.lean` ties every handler of `cellmlmanip.parser.Transpiler` to the hand model one level at a time:
    the generated container handlers are stated for an arbitrary `self.transpile` (`TView`), the generated loop of
    `Transpiler.transpile` for an arbitrary `self.handlers` (`DView`). Here the knot is tied:

    * `runMethod m` — `self.handlers[tag]` by method name: the definition GENERATED from that method;
    * `genHandlerFuel n tag child` — `self.handlers[tag](child)` where the `self.transpile(node)` of a container handler is
      the GENERATED loop `Gen.Transpile.transpileChildren` whose `self.handlers[…](…)` is `genHandlerFuel (n-1)`:
      structural recursion on the fuel `n`;
    * `genTranspileDoc element` — python's `Transpiler().transpile(element)`: the generated loop with fuel
      `element.size` (the model's termination measure `C02.Mml.size`; every child is smaller);
    * `genTranspile t` — the counterpart of the model function `C02.transpile t` that the theorems of `Props/C02.lean`
      are about: for an element `t` the only result of transpiling `<math>t</math>`, for a child chain the list.

    `genTranspile_eq`: on every tree that is the image of an XML tree where the transpiler looks at it (`wfV`),
    `genTranspile t = syE (C02.transpile t)` — result and exception class. `Props/C02Gen.lean` transfers the property
    theorems along it. What is NOT generated inside `runMethod` (bound by hand, as in `Tie/Transpile.lean`):
    `_ci_handler` (two leaves), that the six `_x_handler(node)` return their closure (`.wrapped m`; what the closure
    DOES is generated: `call_tie`), and the `'math'` key (the model abstains; excluded by `wfV`). -/

namespace Cellml.Tie.PGenE
open C02 Cellml.Gen Cellml.Tie.PTranspile

/-- the seven handler methods that transpile the children of their element -/
def containerHandlers : List String :=
  ["_apply_handler", "_piecewise_handler", "_piece_handler", "_otherwise_handler", "_degree_handler", "_bvar_handler",
   "_logbase_handler"]

/-- `self.handlers[tag]` by the NAME of the bound method (GENERATED tables `handlerKeys`, `mathmlOps` give the name):
    the definition generated from the source of that method. -/
def runMethod (m : String) (self : TView) (node : Mml) : Except PyErr Sy :=
  if m = "_apply_handler" then Transpile.applyHandler self node
  else if m = "_piecewise_handler" then Transpile.piecewiseHandler self node
  else if m = "_piece_handler" then Transpile.pieceHandler self node
  else if m = "_otherwise_handler" then Transpile.otherwiseHandler self node
  else if m = "_degree_handler" then Transpile.degreeHandler self node
  else if m = "_bvar_handler" then Transpile.bvarHandler self node
  else if m = "_logbase_handler" then Transpile.logbaseHandler self node
  else if m = "_simple_operator_handler" then Transpile.simpleOperatorHandler node
  else if m = "_cn_handler" then
    (match node with
      | .cn ty text kids => Transpile.cnHandler cnViewC02 ⟨ty, text, kids, none⟩
      | _ => .error ⟨"outside: <cn> not in its own encoding"⟩)
  else if m = "_ci_handler" then
    -- `self.symbol_generator(node.text.strip())`: two leaves, not translated
    (match node with
      | .ci n => .ok (.sym n)
      | _ => .error ⟨"outside: <ci> not in its own encoding"⟩)
  else if m ∈ wrappedHandlers then
    -- `def _wrapped_x(…): …; return _wrapped_x`: the closure as a value (its body is generated: `call_tie`)
    .ok (.wrapped m)
  else .error ⟨"outside: handler not modelled: " ++ m⟩

/-- `tag in self.handlers` -/
def hasH (tag : String) : Bool := (handlerOf tag).isSome

/-- `self.handlers[tag](child)`, recursion depth at most `n` -/
def genHandlerFuel : Nat → String → Mml → Except PyErr Sy
  | 0, _, _ => .error ⟨"RecursionError"⟩
  | n + 1, tag, child =>
    match handlerOf tag with
    | none => .error ⟨"KeyError"⟩
    | some m => runMethod m ⟨fun node => Transpile.transpileChildren ⟨hasH, genHandlerFuel n⟩ node⟩ child

/-- the `self` the generated loop of `Transpiler.transpile` sees -/
def dvFuel (n : Nat) : DView := ⟨hasH, genHandlerFuel n⟩

/-- the `self` a generated container handler sees: `self.transpile` is the generated loop -/
def tvFuel (n : Nat) : TView := ⟨fun node => Transpile.transpileChildren (dvFuel n) node⟩

theorem genHandlerFuel_succ (n : Nat) (tag : String) (child : Mml) :
    genHandlerFuel (n + 1) tag child =
      match handlerOf tag with
      | none => .error ⟨"KeyError"⟩
      | some m => runMethod m (tvFuel n) child := rfl

/-- **python's `Transpiler().transpile(element)`**: the loop generated from the source over the children of `element`;
    fuel = the model's termination measure -/
def genTranspileDoc (element : Mml) : Except PyErr (List Sy) :=
  Transpile.transpileChildren (dvFuel element.size) element

/-- **the closed generated transpiler**, shaped like the model function `C02.transpile`: a child chain ↦ the list of
    results of `transpile(<math>chain</math>)`; an element ↦ the only result of `transpile(<math>element</math>)` -/
def genTranspile : Mml → Except PyErr Sy
  | .nil => (genTranspileDoc (.el "math" .nil)).map Sy.ofList
  | .cons h t => (genTranspileDoc (.el "math" (.cons h t))).map Sy.ofList
  | t => (genTranspileDoc (.el "math" (.cons t .nil))).bind fun l => PyItem.item l 0

/-! ## the domain: images of XML trees, where the transpiler reads them -/

def isChain : Mml → Bool
  | .nil | .cons _ _ => true
  | _ => false

/-- **visited well-formedness.** The children of an element a container handler transpiles are a proper `nil`-ended
    chain of ELEMENTS (`ci` / `cn` / `el`), recursively; the children of an operator leaf, of an explicit-handler
    operator (`<minus/>` …) and of an element without handler are never read and are arbitrary. Excluded besides the
    list cells in element position: an `.el` whose registered handler is none of the tied ones — `.el "ci"` / `.el "cn"`
    (these elements have their own constructors) and `.el "math"` (nested `<math>`: the model abstains). -/
def wfV : Mml → Bool
  | .nil => true
  | .cons h t => isElement h && wfV h && isChain t && wfV t
  | .ci _ => true
  | .cn _ _ _ => true
  | .el tag kids =>
    match handlerOf tag with
    | none => true
    | some m =>
      if m ∈ containerHandlers then isChain kids && wfV kids
      else m == "_simple_operator_handler" || wrappedHandlers.contains m

theorem chain_ofList : ∀ (t : Mml), isChain t = true → wfV t = true →
    ∃ ks : List Mml, t = Mml.ofList ks ∧ ∀ k ∈ ks, isElement k = true ∧ wfV k = true
  | .nil, _, _ => ⟨[], rfl, by simp⟩
  | .cons h t, _, hw => by
    simp only [wfV, Bool.and_eq_true] at hw
    obtain ⟨ks, rfl, hks⟩ := chain_ofList t hw.1.2 hw.2
    refine ⟨h :: ks, rfl, ?_⟩
    intro k hk
    rcases List.mem_cons.1 hk with rfl | hk
    · exact ⟨hw.1.1.1, hw.1.1.2⟩
    · exact hks k hk
  | .ci _, h, _ => by simp [isChain] at h
  | .cn _ _ _, h, _ => by simp [isChain] at h
  | .el _ _, h, _ => by simp [isChain] at h

theorem wfV_ofList (ks : List Mml) (h : ∀ k ∈ ks, isElement k = true ∧ wfV k = true) :
    isChain (Mml.ofList ks) = true ∧ wfV (Mml.ofList ks) = true := by
  induction ks with
  | nil => exact ⟨rfl, rfl⟩
  | cons k ks ih =>
    have hk := h k (by simp)
    have := ih (fun x hx => h x (by simp [hx]))
    refine ⟨rfl, ?_⟩
    simp [Mml.ofList, wfV, hk.1, hk.2, this.1, this.2]

theorem size_pos (t : Mml) : 0 < t.size := by
  cases t <;> simp [Mml.size] <;> omega

theorem mem_size : ∀ (ks : List Mml) (k : Mml), k ∈ ks → k.size < (Mml.ofList ks).size
  | [], _, h => by simp at h
  | x :: xs, k, h => by
    simp only [Mml.ofList, Mml.size]
    rcases List.mem_cons.1 h with rfl | h
    · omega
    · have := mem_size xs k h; omega

/-! ## congruence of the generated loop in `self` -/

theorem forIn_congr_mem {α β : Type} : ∀ (l : List α) (init : β) (f g : α → β → Except PyErr (ForInStep β)),
    (∀ x ∈ l, ∀ s, f x s = g x s) → (forIn l init f : Except PyErr β) = forIn l init g
  | [], _, _, _, _ => rfl
  | a :: as, init, f, g, h => by
    simp only [List.forIn_cons]
    rw [h a (by simp)]
    congr 1
    funext r
    cases r with
    | done b => rfl
    | yield b => exact forIn_congr_mem as b f g (fun x hx s => h x (by simp [hx]) s)

/-- the generated loop only asks `self` about the children of its element -/
theorem transpileChildren_congr (d1 d2 : DView) (element : Mml)
    (hh : ∀ k ∈ mmlChildren element, d1.hasHandler (mmlTag k) = d2.hasHandler (mmlTag k))
    (hr : ∀ k ∈ mmlChildren element, d1.hasHandler (mmlTag k) = true →
      d1.runHandler (mmlTag k) k = d2.runHandler (mmlTag k) k) :
    Transpile.transpileChildren d1 element = Transpile.transpileChildren d2 element := by
  unfold Transpile.transpileChildren
  simp only [bind, pure]
  congr 1
  apply forIn_congr_mem
  intro k hk s
  have h1 := hh k hk
  by_cases hb : d1.hasHandler (mmlTag k) = true
  · have h2 := hr k hk hb
    simp only [← h1, hb, ← h2]
  · have hb' : d1.hasHandler (mmlTag k) = false := by simpa using hb
    simp only [← h1, hb', Py.truthy_bool, Bool.false_eq_true, if_false]

/-! ## the generated handlers, closed, are the model -/

theorem runMethod_container (m : String) (hm : m ∈ containerHandlers) (self : TView) (node : Mml) :
    runMethod m self node = modelContainer m self node := by
  simp only [containerHandlers, List.mem_cons, List.mem_nil_iff, or_false] at hm
  rcases hm with rfl | rfl | rfl | rfl | rfl | rfl | rfl
  · simp [runMethod, applyHandler_tie]
  · simp [runMethod, piecewiseHandler_tie]
  · simp [runMethod, pieceHandler_tie]
  · simp [runMethod, otherwiseHandler_tie]
  · simp [runMethod, degreeHandler_tie]
  · simp [runMethod, bvarHandler_tie]
  · simp [runMethod, logbaseHandler_tie]

theorem container_flags (m : String) (hm : m ∈ containerHandlers) :
    (m == "_simple_operator_handler") = false ∧ m ∉ wrappedHandlers ∧ (m == "transpile") = false := by
  simp only [containerHandlers, List.mem_cons, List.mem_nil_iff, or_false] at hm
  rcases hm with rfl | rfl | rfl | rfl | rfl | rfl | rfl <;> decide

theorem handlerOf_ci' : handlerOf "ci" = some "_ci_handler" := by decide +kernel
theorem handlerOf_cn' : handlerOf "cn" = some "_cn_handler" := by decide +kernel

/-- the statement proved by induction on the fuel -/
def HandlerAt (n : Nat) : Prop :=
  ∀ child : Mml, child.size ≤ n → isElement child = true → wfV child = true → hasH (mmlTag child) = true →
    genHandlerFuel n (mmlTag child) child = syE (C02.transpile child)

/-- the generated loop over `genHandlerFuel n` is the list level of the model, for children within the fuel -/
theorem children_fuel (n : Nat) (IH : HandlerAt n) (tag : String) (ks : List Mml)
    (h : ∀ k ∈ ks, isElement k = true ∧ wfV k = true ∧ k.size ≤ n) :
    Transpile.transpileChildren (dvFuel n) (.el tag (Mml.ofList ks)) =
      (syE (C02.transpile (Mml.ofList ks))).map Sy.toList := by
  rw [← transpileChildren_tie tag ks (fun k hk => (h k hk).1)]
  apply transpileChildren_congr
  · intro k _; rfl
  · intro k hk hb
    simp only [mmlChildren, mml_toList_ofList] at hk
    obtain ⟨he, hw, hs⟩ := h k hk
    exact IH k hs he hw hb

theorem handlerAt : ∀ n, HandlerAt n
  | 0 => fun child hs _ _ _ => absurd (size_pos child) (by omega)
  | n + 1 => by
    have IH := handlerAt n
    intro child hs he hw hb
    rw [genHandlerFuel_succ]
    cases child with
    | nil => simp [isElement] at he
    | cons _ _ => simp [isElement] at he
    | ci x => simp [mmlTag, handlerOf_ci', runMethod, C02.transpile, syE, errClass]
    | cn ty text kids =>
      simp only [mmlTag, handlerOf_cn', C02.transpile]
      rw [← cnHandler_tie ty text kids none]
      simp [runMethod]
    | el tag kids =>
      simp only [mmlTag, hasH] at hb ⊢
      cases hh : handlerOf tag with
      | none => simp [hh] at hb
      | some m =>
        simp only [wfV, hh] at hw
        simp only []
        by_cases hm : m ∈ containerHandlers
        · simp only [hm, if_true, Bool.and_eq_true] at hw
          obtain ⟨ks, rfl, hks⟩ := chain_ofList kids hw.1 hw.2
          obtain ⟨f1, f2, f3⟩ := container_flags m hm
          rw [runMethod_container m hm, container_model tag m ks hh f1 f2 f3]
          have hc : (tvFuel n).transpile (.el tag (Mml.ofList ks)) = modelTView.transpile (.el tag (Mml.ofList ks)) := by
            show Transpile.transpileChildren (dvFuel n) _ = _
            rw [children_fuel n IH tag ks]
            · rfl
            · intro k hk
              refine ⟨(hks k hk).1, (hks k hk).2, ?_⟩
              have := mem_size ks k hk
              simp only [Mml.size] at hs
              omega
          unfold modelContainer
          rw [hc]
        · simp only [hm, if_false, Bool.or_eq_true, beq_iff_eq, List.contains_iff_mem] at hw
          rcases hw with rfl | hw
          · have : C02.transpile (.el tag kids) = simpleOperator tag := by simp [C02.transpile, hh]
            rw [this, ← simpleOperatorHandler_tie tag kids]
            simp [runMethod]
          · have h1 : C02.transpile (.el tag kids) = .ok (.wrapped m) := transpile_wrapped tag m kids hh hw
            rw [h1]
            simp only [wrappedHandlers, List.mem_cons, List.mem_nil_iff, or_false] at hw
            rcases hw with rfl | rfl | rfl | rfl | rfl | rfl <;> simp [runMethod, wrappedHandlers, syE, errClass]

/-- **fuel independence**: with any fuel at least the size of the child, `self.handlers[tag](child)` over the generated
    code is the model's `transpile child` -/
theorem genHandlerFuel_eq (n : Nat) (child : Mml) (hs : child.size ≤ n) (he : isElement child = true)
    (hw : wfV child = true) (hb : hasH (mmlTag child) = true) :
    genHandlerFuel n (mmlTag child) child = syE (C02.transpile child) := handlerAt n child hs he hw hb

/-- **`Transpiler().transpile(element)` over the generated code = the list level of the model**, for every element
    whose children are well-formed elements -/
theorem genTranspileDoc_eq (tag : String) (ks : List Mml) (h : ∀ k ∈ ks, isElement k = true ∧ wfV k = true) :
    genTranspileDoc (.el tag (Mml.ofList ks)) = (syE (C02.transpile (Mml.ofList ks))).map Sy.toList := by
  unfold genTranspileDoc
  apply children_fuel _ (handlerAt _) tag ks
  intro k hk
  refine ⟨(h k hk).1, (h k hk).2, ?_⟩
  have := mem_size ks k hk
  simp only [Mml.size]; omega

theorem map_ofList_toList (ks : List Mml) :
    ((syE (C02.transpile (Mml.ofList ks))).map Sy.toList).map Sy.ofList = syE (C02.transpile (Mml.ofList ks)) := by
  cases hr : C02.transpile (Mml.ofList ks) with
  | error e => rfl
  | ok r => simp [syE, errClass, Except.map, transpile_ofList_proper ks r hr]

/-- **The closed generated transpiler is the model function of `Props/C02.lean`** on every visited-well-formed tree:
    same result, same exception class. -/
theorem genTranspile_eq (t : Mml) (hw : wfV t = true) : genTranspile t = syE (C02.transpile t) := by
  cases t with
  | nil =>
    have := genTranspileDoc_eq "math" [] (by simp)
    simp only [genTranspile, Mml.ofList] at this ⊢
    rw [this]; exact map_ofList_toList []
  | cons h t =>
    obtain ⟨ks, hks, hall⟩ := chain_ofList (.cons h t) rfl hw
    simp only [genTranspile]
    rw [hks, genTranspileDoc_eq "math" ks hall]
    exact map_ofList_toList ks
  | ci x =>
    have := genTranspileDoc_eq "math" [.ci x] (by simp [isElement, wfV])
    simp only [genTranspile, Mml.ofList] at this ⊢
    rw [this]
    simp [C02.transpile, syE, errClass, Except.map, Except.bind, Sy.toList, PyItem.item]
  | cn ty text kids =>
    have := genTranspileDoc_eq "math" [.cn ty text kids] (by simp [isElement, wfV])
    simp only [genTranspile, Mml.ofList] at this ⊢
    rw [this]
    simp only [C02.transpile]
    cases C02.cnHandler ty text kids <;>
      simp [syE, errClass, Except.map, Except.bind, Sy.toList, PyItem.item]
  | el tag kids =>
    have := genTranspileDoc_eq "math" [.el tag kids] (by simpa [isElement] using hw)
    simp only [genTranspile, Mml.ofList] at this ⊢
    rw [this]
    have hc : C02.transpile (.cons (.el tag kids) .nil) =
        match C02.transpile (.el tag kids) with
        | .error e => .error e
        | .ok a => .ok (.cons a .nil) := by
      rw [C02.transpile]
      cases C02.transpile (.el tag kids) <;> simp [C02.transpile]
    rw [hc]
    cases C02.transpile (.el tag kids) <;>
      simp [syE, errClass, Except.map, Except.bind, Sy.toList, PyItem.item]

/-- **the hypothesis `wfV` cannot be dropped**: on trees that are not images of XML trees the hand model and the
    generated code differ. (1) a `<piecewise>` whose child chain ends in `.ci "z"` instead of `nil`: the generated loop
    iterates over the ONE child element, the model's `assemble` keeps the improper tail; (2) `<degree>` over the chain
    `cons a b` with `b` not a chain: one child for the generated code (accepted), "not exactly one" for the model. -/
theorem wfV_needed :
    let t1 : Mml := .el "piecewise" (.cons (.el "piece" (Mml.ofList [.ci "x", .el "true" .nil])) (.ci "z"))
    let t2 : Mml := .el "degree" (.cons (.ci "a") (.ci "b"))
    (wfV t1 = false ∧
      genTranspile t1 = .ok (.app "Piecewise" (.cons (.tuple (.sym "x") (.const "true")) .nil)) ∧
      C02.transpile t1 = .ok (.app "Piecewise" (.cons (.tuple (.sym "x") (.const "true")) (.sym "z")))) ∧
    (wfV t2 = false ∧ genTranspile t2 = .ok (.sym "a") ∧ C02.transpile t2 = .error .value) := by
  refine ⟨⟨?_, ?_, ?_⟩, ?_, ?_, ?_⟩ <;> decide +kernel

/-! ## reading results back -/

theorem syE_ok_iff {α} (r : Except C02.Err α) (a : α) : syE r = .ok a ↔ r = .ok a := by
  cases r <;> simp [syE, errClass]

theorem syE_error {α} (r : Except C02.Err α) (e : C02.Err) (h : r = .error e) : syE r = .error ⟨syErrName e⟩ := by
  subst h; rfl

/-! ## python's call `result[0](*result[1:])` inside the generated `_apply_handler`, by generated callbacks -/

/-- what the leaf `pyCall` of the generated `_apply_handler` is, written with the GENERATED closures: a SymPy class ↦
    the leaf `cls(*args)`; the relation wrapper ↦ generated `_wrapper_relational`; the closure of an explicit handler ↦
    the generated `_wrapped_*` body after python's binding of the operands to its parameters (`…_params`) -/
def genCall (f : Sy) (l : List Sy) : Except PyErr Sy :=
  match f with
  | .cls c => sympyClassCall c l
  | .rel c => Transpile.wrapperRelational c l
  | .wrapped m =>
    if m = "_minus_handler" then
      (match l with
        | [a] => Transpile.wrappedMinus a none
        | [a, b] => Transpile.wrappedMinus a (some b)
        | _ => .error ⟨"TypeError"⟩)
    else if m = "_divide_handler" then
      (match l with
        | [a, b] => Transpile.wrappedDivide a b
        | _ => .error ⟨"TypeError"⟩)
    else if m = "_power_handler" then
      (match l with
        | [a, b] => Transpile.wrappedPower a b
        | _ => .error ⟨"TypeError"⟩)
    else if m = "_root_handler" then
      (match l with
        | [a] => Transpile.wrappedRoot a none
        | [a, b] => Transpile.wrappedRoot a (some b)
        | _ => .error ⟨"TypeError"⟩)
    else if m = "_log_handler" then
      (match l with
        | [a] => Transpile.wrappedLog a none
        | [a, b] => Transpile.wrappedLog a (some b)
        | _ => .error ⟨"TypeError"⟩)
    else if m = "_diff_handler" then
      (match l with
        | [x, y] => Transpile.wrappedDiff x y none
        | [x, y, e] => Transpile.wrappedDiff x y (some e)
        | _ => .error ⟨"TypeError"⟩)
    else syE (callWrapped m (Sy.ofList l))
  | .nil | .cons _ _ => .error ⟨syErrName (.outside "list in operator position")⟩
  | _ => .error ⟨"TypeError"⟩

theorem pyCall_eq_genCall (f : Sy) (l : List Sy) : pyCall f l = genCall f l := call_tie f l

/-- **`<apply>` over the generated code, unrolled one level**: the operator child and the operands are transpiled by
    the closed generated transpiler, then the operator VALUE is called through the generated callbacks -/
theorem genTranspile_apply (f : Mml) (ks : List Mml) (hf : isElement f = true ∧ wfV f = true)
    (hks : ∀ k ∈ ks, isElement k = true ∧ wfV k = true) (hne : ks ≠ []) (fv : Sy) (l : List Sy)
    (hfv : genTranspile f = .ok fv) (hl : genTranspile (Mml.ofList ks) = .ok (Sy.ofList l)) :
    genTranspile (.el "apply" (.cons f (Mml.ofList ks))) = genCall fv l := by
  have hall : ∀ k ∈ f :: ks, isElement k = true ∧ wfV k = true := by
    intro k hk
    rcases List.mem_cons.1 hk with rfl | hk
    · exact hf
    · exact hks k hk
  have hwk := wfV_ofList ks hks
  have hwa : wfV (.el "apply" (.cons f (Mml.ofList ks))) = true := by
    have := wfV_ofList (f :: ks) hall
    simp only [Mml.ofList] at this
    simp [wfV, handlerOf_apply, containerHandlers, hf.1, hf.2, hwk.1, hwk.2, this.1]
  rw [genTranspile_eq f hf.2, syE_ok_iff] at hfv
  rw [genTranspile_eq _ hwk.2, syE_ok_iff] at hl
  rw [genTranspile_eq _ hwa, ← pyCall_eq_genCall,
    transpile_container _ _ _ handlerOf_apply (by decide) (by decide) (by decide)]
  have hc : C02.transpile (.cons f (Mml.ofList ks)) = .ok (.cons fv (Sy.ofList l)) := by
    simp [C02.transpile, hfv, hl]
  rw [hc]
  have hlne : l ≠ [] := by
    intro h; subst h
    cases ks with
    | nil => exact hne rfl
    | cons k ks =>
      simp only [Mml.ofList, C02.transpile] at hl
      cases h1 : C02.transpile k <;> cases h2 : C02.transpile (Mml.ofList ks) <;> simp [h1, h2, Sy.ofList] at hl
  match l, hlne with
  | a :: r, _ => simp [assemble, Sy.ofList, pyCall]

/-! ## the closed function does not depend on the fuel, and satisfies the generated functional — for ALL trees -/

theorem toList_size : ∀ (kids k : Mml), k ∈ kids.toList → k.size < kids.size
  | .cons h t, k, hk => by
    simp only [Mml.toList, List.mem_cons] at hk
    simp only [Mml.size]
    rcases hk with rfl | hk
    · omega
    · have := toList_size t k hk; omega
  | .nil, _, hk => by simp [Mml.toList] at hk
  | .ci _, _, hk => by simp [Mml.toList] at hk
  | .cn _ _ _, _, hk => by simp [Mml.toList] at hk
  | .el _ _, _, hk => by simp [Mml.toList] at hk

theorem children_size (node k : Mml) (hk : k ∈ mmlChildren node) : k.size < node.size := by
  cases node with
  | el tag kids =>
    have := toList_size kids k (by simpa [mmlChildren] using hk)
    simp only [Mml.size]; omega
  | _ => simp [mmlChildren] at hk

/-- a generated handler asks `self` only for `self.transpile(node)` of its own node -/
theorem runMethod_congr (m : String) (s1 s2 : TView) (node : Mml) (h : s1.transpile node = s2.transpile node) :
    runMethod m s1 node = runMethod m s2 node := by
  by_cases hm : m ∈ containerHandlers
  · rw [runMethod_container m hm, runMethod_container m hm]
    unfold modelContainer
    rw [h]
  · simp only [containerHandlers, List.mem_cons, List.mem_nil_iff, or_false, not_or] at hm
    obtain ⟨a1, a2, a3, a4, a5, a6, a7⟩ := hm
    simp [runMethod, a1, a2, a3, a4, a5, a6, a7]

/-- **fuel independence, for every tree** (no reference to the model): any two fuels at least the size of the child
    give the same result — the cut-off `"RecursionError"` is never reached from `genTranspileDoc` -/
theorem fuel_indep : ∀ (n m : Nat) (tag : String) (child : Mml), child.size ≤ n → child.size ≤ m →
    genHandlerFuel n tag child = genHandlerFuel m tag child
  | 0, _, _, child, h, _ => absurd (size_pos child) (by omega)
  | _ + 1, 0, _, child, _, h => absurd (size_pos child) (by omega)
  | n + 1, m + 1, tag, child, hn, hm => by
    rw [genHandlerFuel_succ, genHandlerFuel_succ]
    cases handlerOf tag with
    | none => rfl
    | some meth =>
      apply runMethod_congr
      show Transpile.transpileChildren (dvFuel n) child = Transpile.transpileChildren (dvFuel m) child
      apply transpileChildren_congr
      · intro k _; rfl
      · intro k hk _
        have := children_size child k hk
        exact fuel_indep n m (mmlTag k) k (by omega) (by omega)

/-- `self.handlers[tag(child)](child)` over the generated code -/
def genHandler (child : Mml) : Except PyErr Sy := genHandlerFuel child.size (mmlTag child) child

/-- **the fixpoint equation, for every tree**: `genHandler` is the handler registered for the child's tag (GENERATED
    tables), run with a `self` whose `transpile` is the GENERATED loop over `genHandler` itself. No fuel, no hand model. -/
theorem genHandler_fix (child : Mml) :
    genHandler child =
      match handlerOf (mmlTag child) with
      | none => .error ⟨"KeyError"⟩
      | some m => runMethod m ⟨fun node => Transpile.transpileChildren ⟨hasH, fun _ c => genHandler c⟩ node⟩ child := by
  unfold genHandler
  obtain ⟨n, hn⟩ : ∃ n, child.size = n + 1 := ⟨child.size - 1, by have := size_pos child; omega⟩
  rw [hn, genHandlerFuel_succ]
  cases handlerOf (mmlTag child) with
  | none => rfl
  | some m =>
    apply runMethod_congr
    show Transpile.transpileChildren (dvFuel n) child = Transpile.transpileChildren _ child
    apply transpileChildren_congr
    · intro k _; rfl
    · intro k hk _
      have := children_size child k hk
      exact fuel_indep n k.size (mmlTag k) k (by omega) (Nat.le_refl _)

/-- … and `Transpiler().transpile(element)` is the generated loop over `genHandler` -/
theorem genTranspileDoc_fix (element : Mml) :
    genTranspileDoc element = Transpile.transpileChildren ⟨hasH, fun _ c => genHandler c⟩ element := by
  unfold genTranspileDoc
  apply transpileChildren_congr
  · intro k _; rfl
  · intro k hk _
    have := children_size element k hk
    exact fuel_indep element.size k.size (mmlTag k) k (by omega) (Nat.le_refl _)

/-- on the domain, `genHandler` is the model -/
theorem genHandler_eq (child : Mml) (he : isElement child = true) (hw : wfV child = true)
    (hb : hasH (mmlTag child) = true) : genHandler child = syE (C02.transpile child) :=
  genHandlerFuel_eq _ child (Nat.le_refl _) he hw hb

end Cellml.Tie.PGenE
