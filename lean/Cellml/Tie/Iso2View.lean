import Cellml.Tie.Prelude
import Cellml.Iso.Process

/-! # What the translated functions of package Iso2 see (core Lean only)

    The pattern tables of `harness/code_specs/iso2.py` bind the leaves of `Model.__init__`, `Model.create_quantity`,
    `Quantity.__new__` / `__init__`, `Variable.__new__`, `_float_dummies` and of the def lines / call sites of the
    memoised analysis to the accessors below, which read the process model `Iso.Process.Proc` (Iso/Process.lean). -/

namespace Cellml.Tie.PIso2
open Units Units.Wire Iso Iso.Process

instance : Add String := ⟨String.append⟩

/-! ## argument records of the un-memoised functions on the way from the model to the two caches -/

/-- `_singularity_fixes.remove_fixable_singularities(model, V, modifiable_parameters, U_offset, exp_function)` -/
structure RfsArgs where
  model : Nat
  V : Nat
  excl : List Nat
  uOffset : Rat
  expFn : String
deriving DecidableEq, Repr

/-- `Model.remove_fixable_singularities(self, V, exclude)` (without `self`) -/
structure MrfsArgs where
  V : Nat
  exclude : List Nat
deriving DecidableEq, Repr

/-! ## `Model.__init__` -/

/-- `cmeta_id`: `None` or a string; python truthiness (`''` is false) -/
structure OptStr where
  val : Option String
deriving DecidableEq, Repr

instance : Py.Truthy OptStr := ⟨fun o => match o.val with | some s => !(s == "") | none => false⟩

/-- the attributes `Model.__init__` assigns. `units` is a REFERENCE to a store of the process (its index) -/
structure ModelRef where
  name : String
  _cmeta_id : OptStr
  rdf_identity : Option String
  equations : List Eqn
  units : Nat
  _name_to_variable : List Nat
  _cmeta_id_to_variable : List (String × Nat)
  _variables_added : Nat
  _graph : Option Unit
  _graph_with_sympy_numbers : Option Unit
  rdf : List String
  _var_definition_map : List (Nat × Eqn)
  _ode_definition_map : List (Nat × Eqn)
deriving DecidableEq, Repr

/-- `create_rdf_node('#' + cmeta_id)` -/
def rdfNode (c : OptStr) : Option String := some ("#" ++ c.val.getD "")

/-- `UnitStore(store)` / `UnitStore()`: the constructor tied to `World.newStore` by `Cellml.Tie.PUnits.init_tie`
    (Tie/UnitsInit.lean): a new store (id = `UnitStore._next_id` = number of stores so far), own or shared registry -/
def mkStore (share : Option Nat) (w : World) : Except PyErr (Nat × World) := .ok (w.stores.length, w.newStore share)

/-- the model record the process keeps for an object built by `Model.__init__` -/
def ModelRef.toMModel (r : ModelRef) : MModel :=
  { store := r.units, vars := r._name_to_variable, qtys := [], eqs := r.equations, cmeta := r._cmeta_id_to_variable }

/-! ## `Model.create_quantity`, `Quantity`, `Variable` -/

/-- the `units` argument: a string, or a pint `Unit` -/
inductive UArg where
  | name (s : String)
  | unit (u : QUnit)
deriving DecidableEq, Repr

/-- `isinstance(units, self.units.Unit)`: a `Unit` of the registry of the model's store -/
def isUnitOf (w : World) (store : Nat) : UArg → Bool
  | .unit (.ofStore s _) => match w.stores[s]?, w.stores[store]? with
    | some (_, r), some (_, r') => r == r'
    | _, _ => false
  | _ => false

/-- `self.units.get_unit(units)`: `KeyError` for an unknown name and for anything that is not a string -/
def getUnitArg (w : World) (store : Nat) : UArg → Except PyErr UArg
  | .name n => if unitOk w store n then .ok (.unit (.ofStore store [(n, 1)])) else .error ⟨"KeyError"⟩
  | .unit _ => .error ⟨"KeyError"⟩

/-- what `Quantity.__init__` stores in `.units` -/
def UArg.toQUnit : UArg → QUnit
  | .name s => .bare s
  | .unit u => u

/-- a python value handed to `Quantity.__new__` -/
inductive PyVal where
  | str (s : String)
  | num (x : Rat)
deriving DecidableEq, Repr

def PyVal.isStr : PyVal → Bool
  | .str _ => true
  | .num _ => false

/-- `'{:g}'.format(value)` (CPython's float formatting is a leaf; the text only names the symbol) -/
def fmtG : PyVal → PyVal
  | .num x => .str (toString x)
  | v => v

instance : HAdd String PyVal String := ⟨fun a b => match b with | .str s => a ++ s | .num x => a ++ toString x⟩

/-- what `sympy.Dummy.__new__(cls, name, real=True)` is given (the counter `Dummy._count` advances inside SymPy) -/
structure DummyHdr where
  cls : String
  name : Option String
  real : Bool
deriving DecidableEq, Repr

/-- the header of a heap object of the process model -/
def objHeader : Obj → DummyHdr
  | .qty x _ => ⟨"Quantity", some ("_" ++ toString x), true⟩
  | .var _ _ _ _ => ⟨"Variable", none, true⟩
  | .other => ⟨"Dummy", none, false⟩

/-- the attributes `Quantity.__init__` assigns -/
structure QtyRef where
  _value : Rat
  units : QUnit
deriving DecidableEq, Repr

def QtyRef.toObj (q : QtyRef) : Obj := .qty q._value q.units

/-- `Quantity(value, units)`: a new object on the heap; its identity is its index -/
def newQuantity (value : Rat) (units : QUnit) (heap : List Obj) : Nat × List Obj :=
  (heap.length, heap ++ [.qty value units])

/-! ## `_float_dummies` -/

/-- `expr.atoms(Float)`: the distinct plain numbers of the expression -/
def floats (e : Ex) : List Rat := (e.filterMap (fun t => match t with | .num r => some r | _ => none)).eraseDups

/-- `expr.xreplace({f: mk f for f in expr.atoms(Float)})`: ONE new object per distinct number -/
def floatDummies (mk : Rat → Obj) (e : Ex) (heap : List Obj) : Ex × List Obj :=
  (e.map (fun t => match t with
      | .num r => match (floats e).idxOf? r with
        | some k => .q (heap.length + k)
        | none => t
      | t => t),
   heap ++ (floats e).map mk)

end Cellml.Tie.PIso2
