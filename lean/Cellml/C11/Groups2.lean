import Cellml.C11.Groups1

/-! C11 — `print_groups`, part 2: powers and products. -/
namespace C11
set_option linter.unusedSimpArgs false

theorem prec_pow (b x : E) : prec (.pow b x) = 60 := rfl

theorem powDoc_ok (b x : E) (bd xd : Doc) (hb : PyOK bd = true) (hbl : LvA b bd)
    (hx : PyOK xd = true) (hxl : LvA x xd) :
    PyOK (powDoc b x bd xd) = true ∧ LvA (.pow b x) (powDoc b x bd xd) := by
  unfold powDoc
  have hb10 : 10 ≤ level bd := by have := hbl.1; omega
  by_cases h1 : (x == E.rat 1 2) = true
  · simp only [h1, if_true]
    refine ⟨by simp [hb, hb10], ?_⟩
    simp [LvA]
  simp only [h1, Bool.false_eq_true, if_false]
  by_cases h2 : (comm b && comm x && x == E.rat (-1) 2) = true
  · simp only [h2, if_true]
    have hr : isRecip (.pow b x) = true := by
      simp only [Bool.and_eq_true] at h2
      simp [isRecip, h2.1.1, h2.1.2, h2.2]
    refine ⟨by simp [hb, hb10], ?_⟩
    simp [LvA, precA, hr, prec_pow]
  simp only [h2, Bool.false_eq_true, if_false]
  by_cases h3 : (comm b && comm x && x == E.int (-1)) = true
  · simp only [h3, if_true]
    have hr : isRecip (.pow b x) = true := by
      simp only [Bool.and_eq_true] at h3
      simp [isRecip, h3.1.1, h3.1.2, h3.2]
    have hbr := bracketA_ok b bd 60 hb hbl
    refine ⟨by simp [hbr.1, hbr.2.2.2.1 rfl], ?_⟩
    simp [LvA, precA, hr, prec_pow]
  simp only [h3, Bool.false_eq_true, if_false]
  have hr : isRecip (.pow b x) = false := by
    simp only [isRecip]
    cases hc : (comm b && comm x) with
    | false => simp
    | true =>
        simp only [hc, Bool.true_and] at h2 h3
        simp [h2, h3]
  have hbr := bracketA_ok b bd 61 hb hbl
  have hxr := bracketA_ok x xd 60 hx hxl
  refine ⟨by simp [hbr.1, hxr.1, hbr.2.2.2.2 rfl, hxr.2.2.2.1 rfl], ?_⟩
  simp [LvA, precA, hr, prec_pow]

/-! ## numbers -/

theorem intDoc_ok (n : Int) : PyOK (intDoc n) = true ∧ 55 ≤ level (intDoc n) ∧ (0 ≤ n → level (intDoc n) = 100) := by
  unfold intDoc natDoc
  by_cases h : n < 0
  · simp [h]
  · simp [h]

theorem natDoc_ok (n : Nat) : PyOK (natDoc n) = true ∧ level (natDoc n) = 100 := by simp [natDoc]

theorem numDoc_ok (e : E) (h : wf .A e = true) (hn : isNum e = true) : PyOK (numDoc e) = true ∧ LvA e (numDoc e) := by
  have hnr : isRecip e = false := by cases e <;> simp [isNum] at hn <;> rfl
  cases e <;> simp [isNum] at hn
  case int n =>
    have := intDoc_ok n
    refine ⟨this.1, ?_⟩
    simp only [LvA, precA, hnr, prec, numDoc]
    by_cases hneg : n < 0
    · simp [hneg]; omega
    · simp [hneg]; have := this.2.2 (by omega); omega
  case rat p q =>
    have hp := intDoc_ok p
    refine ⟨by simp [numDoc, hp.1, natDoc_ok]; omega, ?_⟩
    simp only [LvA, precA, hnr, prec, numDoc]
    by_cases hneg : p < 0 <;> simp [hneg]
  case flt t neg =>
    simp only [LvA, precA, hnr, prec, numDoc, fltDoc]
    cases neg <;> simp

end C11
