/-! C18 — every number in every equation keeps a real unit.

    What is modelled: the places of cellmlmanip that CREATE `Quantity` / `Variable` objects, and which unit object each
    of them hangs on the new atom (model.py 688-704 `create_quantity`, 567-606 `add_variable`, 829-831 and 955-1048
    `convert_variable`; units.py 672-690 `maybe_convert_expr`; parser.py 378 (cn literals), 494 (connection factors), 570
    (`transform_constants`); _singularity_fixes.py 36 `ONE`, 95-97 `_float_dummies` and the re-unit step at the end of
    `remove_fixable_singularities` added by commit 50d6d1a). Equations are lists of atoms; atoms are objects with an
    identity (a position in the `pool` of every object the model ever showed); an operation appends the objects it
    creates to the pool and says which objects each equation now mentions. Core Lean only. -/

namespace C18

/-- what hangs on `.units` of an atom. `ofStore r`: a pint `Unit` of registry `r` (stores that share a registry are one
    family here: `isinstance(u, store.Unit)` and `u._REGISTRY is store._registry` cannot tell them apart, and their name
    spaces are the business of C16); `bareString`: a Python `str`; `foreign r`: a `Unit` of another registry; `missing`:
    `None` or an object that is no unit at all. -/
inductive UnitRef where
  | ofStore (storeId : Nat)
  | bareString
  | foreign (storeId : Nat)
  | missing
deriving DecidableEq, Repr

/-- the `units` argument handed to `Model.create_quantity` / `Model.add_variable` -/
inductive UnitArg where
  | ownUnit                    -- a `Unit` obtained from this model's store
  | sharedUnit                 -- a `Unit` of another store sharing the registry: `isinstance(units, self.units.Unit)` holds
  | foreignUnit (reg : Nat)    -- a `Unit` of another registry
  | knownName                  -- a string naming a unit the store knows
  | unknownName                -- a string it does not know
  | noneArg                    -- `None`
deriving DecidableEq, Repr

inductive PyErr where
  | keyError
deriving DecidableEq, Repr

/-- `Model.create_quantity(value, units)` (and, identically, the unit check of `add_variable`):
    `if not isinstance(units, self.units.Unit): units = self.units.get_unit(units)`; `get_unit` raises `KeyError` for
    anything that is not a known name — a `Unit` of another registry or `None` included — and otherwise returns
    `self._registry.Unit(prefixed name)`. -/
def createQuantity (sid : Nat) : UnitArg → Except PyErr UnitRef
  | .ownUnit => .ok (.ofStore sid)
  | .sharedUnit => .ok (.ofStore sid)
  | .knownName => .ok (.ofStore sid)
  | .foreignUnit _ => .error .keyError
  | .unknownName => .error .keyError
  | .noneArg => .error .keyError

/-- the code before commit 50d6d1a (`today`) and after it (`fixed`) -/
inductive Variant where
  | fixed | today
deriving DecidableEq, Repr

/-- creation sites -/
inductive Creator where
  | cnLiteral          -- parser.py 378: `create_quantity(x, self.model.units.get_unit(y))`
  | connFactor         -- parser.py 494: `create_quantity(cf, target.units / source.units)`
  | transformConst     -- parser.py 570: `create_quantity(var.initial_value, var.units)`
  | loaderVariable     -- parser.py `_add_variables` → `add_variable(name, units-name)`
  | factoryQuantity    -- the user: `model.create_quantity(v, u)` that RETURNED (see `createQuantity`)
  | newVariable        -- the user: `model.add_variable(n, u)` that returned
  | convFactor         -- model.py 831: `create_quantity(cf, units / original_variable.units)`
  | convVariable       -- model.py 1016: `add_variable(new_name, units)` with `units` asserted to be of the store
  | origDerivVariable  -- model.py 921-923: `add_variable(name, self.units.evaluate_units(ode.lhs))`
  | maybeConvert       -- units.py 683: `model.Quantity(cf, to_units / from_units)` inside a converted expression
  | singQuantity       -- _singularity_fixes.py: range bounds, singular point, `ONE`
  | raw (r : UnitRef)  -- `Quantity(v, anything)` built directly by the caller: outside the contract of `add_equation`
deriving DecidableEq, Repr

/-- the unit a creation site hangs on the atom it creates -/
def creatorRef (v : Variant) (sid : Nat) : Creator → UnitRef
  | .cnLiteral => .ofStore sid
  | .connFactor => .ofStore sid         -- quotient of two units of the store's registry
  | .transformConst => .ofStore sid
  | .loaderVariable => .ofStore sid
  | .factoryQuantity => .ofStore sid
  | .newVariable => .ofStore sid
  | .convFactor => .ofStore sid
  | .convVariable => .ofStore sid
  | .origDerivVariable => .ofStore sid  -- result of unit inference: a unit of the registry
  | .maybeConvert => .ofStore sid
  | .singQuantity =>
      match v with
      | .fixed => .ofStore sid          -- `create_quantity(q._value, dimensionless if q is ONE else V.units)`
      | .today => .bareString           -- `Quantity(f, 'dimensionless')`
  | .raw r => r

inductive Dir where | input | output
deriving DecidableEq, Repr

inductive Role where | state | free | other
deriving DecidableEq, Repr

/-- `get_conversion_factor(original.units, units)` as `convert_variable` sees it -/
inductive CF where
  | one            -- `cf == 1`: nothing happens
  | number         -- a number different from one
  | incompatible   -- `DimensionalityError`
deriving DecidableEq, Repr

inductive Op where
  | load
  | userEdit                          -- add_equation / add_variable / create_quantity / remove_variable + re-adding
  | convertVariable (cf : CF) (dir : Dir) (role : Role) (nOdes : Nat)
  | removeSingularities
  | fixWriteBack                      -- evaluate_units_and_fix; remove_equation; add_equation
  | removeEquation
  | idle                              -- an operation on ANOTHER model of the process
deriving DecidableEq, Repr

/-- which sites an operation can reach -/
def legal : Op → Creator → Bool
  | .load, .cnLiteral | .load, .connFactor | .load, .transformConst | .load, .loaderVariable => true
  | .userEdit, .factoryQuantity | .userEdit, .newVariable | .userEdit, .raw _ => true
  | .convertVariable .., .convFactor | .convertVariable .., .convVariable
  | .convertVariable .., .origDerivVariable => true
  | .removeSingularities, .singQuantity => true
  | .fixWriteBack, .maybeConvert => true
  | _, _ => false

/-- what `convert_variable` creates, as a function of what it is asked (model.py 819-871, 955-1048) -/
def convertCreates : CF → Dir → Role → Nat → List Creator
  | .one, _, _, _ => []
  | .incompatible, _, _, _ => []
  | .number, .output, _, _ => [.convFactor, .convVariable]
  | .number, .input, .state, _ => [.convFactor, .convVariable, .origDerivVariable]
  | .number, .input, .free, n => [.convFactor, .convVariable] ++ List.replicate n .origDerivVariable
  | .number, .input, .other, _ => [.convFactor, .convVariable]

/-- how many quantities the loader puts into an equation of each origin (`none`: as many as the maths has literals) -/
def loaderQuantities : Creator → Option Nat
  | .connFactor => some 1        -- `Eq(target, source.assigned_to * cf_quant)`
  | .transformConst => some 1    -- `Eq(var, value)`
  | _ => none

inductive EqShape where
  | keep (j : Nat)               -- the atoms of equation `j` of the state before
  | atoms (ids : List Nat)
deriving DecidableEq, Repr

structure Step where
  op : Op
  creates : List Creator
  eqs : List EqShape
deriving DecidableEq, Repr

structure MState where
  storeId : Nat
  pool : List UnitRef := []
  eqs : List (List Nat) := []
deriving DecidableEq, Repr

def resolveEq (old : List (List Nat)) : EqShape → List Nat
  | .keep j => old.getD j []
  | .atoms ids => ids

/-- is the step something the operation can do at all (only its own sites; only objects that exist)? -/
def Step.ok (s : MState) (st : Step) : Bool :=
  st.creates.all (legal st.op) &&
  (st.eqs.map (resolveEq s.eqs)).all (fun e => e.all (fun i => i < s.pool.length + st.creates.length))

def step (v : Variant) (s : MState) (st : Step) : MState :=
  if st.ok s then
    { s with pool := s.pool ++ st.creates.map (creatorRef v s.storeId), eqs := st.eqs.map (resolveEq s.eqs) }
  else s

def run (v : Variant) (s : MState) (steps : List Step) : MState := steps.foldl (step v) s

def init (sid : Nat) : MState := { storeId := sid }

/-- the loaded model: the loader's creations on an empty model -/
def load (v : Variant) (sid : Nat) (creates : List Creator) (eqs : List (List Nat)) : MState :=
  step v (init sid) { op := .load, creates := creates, eqs := eqs.map .atoms }

/-- the contract of `add_equation` ("all numbers and variables used in the equation must have been obtained from this
    model"): a directly constructed quantity is only acceptable when it happens to carry a unit of the store -/
def Creator.obeys (sid : Nat) : Creator → Bool
  | .raw r => r == .ofStore sid
  | _ => true

def Step.contract (sid : Nat) (st : Step) : Bool := st.creates.all (Creator.obeys sid)

/-- the classes of the atoms of every equation -/
def classes (s : MState) : List (List (Option UnitRef)) := s.eqs.map (fun e => e.map (fun i => s.pool[i]?))

/-- several models in one process -/
abbrev World := List MState

def wstep (v : Variant) (w : World) (who : Nat) (st : Step) : World :=
  match w[who]? with
  | some s => w.set who (step v s st)
  | none => w

end C18
