import Cellml.Units.Den
import Cellml.Units.Lemmas

/-! `Den` is functional (up to semantic equality of scales and containers) when names are unique and never built-in. -/
namespace Units
open PMap

theorem inj_of_nodup_map {α β : Type} (f : α → β) : ∀ (l : List α), (l.map f).Nodup →
    ∀ x ∈ l, ∀ y ∈ l, f x = f y → x = y := by
  intro l
  induction l with
  | nil => intro _ x hx; cases hx
  | cons a l ih =>
      intro h x hx y hy hxy
      rw [List.map_cons, List.nodup_cons] at h
      rcases List.mem_cons.mp hx with hxa | hxl
      · rcases List.mem_cons.mp hy with hya | hyl
        · rw [hxa, hya]
        · exact absurd (hxa ▸ hxy ▸ List.mem_map_of_mem (f := f) hyl) h.1
      · rcases List.mem_cons.mp hy with hya | hyl
        · exact absurd (hya ▸ hxy ▸ List.mem_map_of_mem (f := f) hxl) h.1
        · exact ih h.2 x hxl y hyl hxy

theorem elemDen_congr (k : Int) (q : Rat) (m : Scale) {x x' : Scale × Container} (h : x ≃₂ x') :
    elemDen k q m x ≃₂ elemDen k q m x' := by
  obtain ⟨h1, h2⟩ := h
  refine ⟨?_, ?_⟩
  · intro p; simp only [elemDen, get_add, get_smul, h1 p]
  · intro p; simp only [elemDen, get_smul, h2 p]

theorem mulDen_congr {x x' y y' : Scale × Container} (hx : x ≃₂ x') (hy : y ≃₂ y') : mulDen x y ≃₂ mulDen x' y' := by
  refine ⟨?_, ?_⟩
  · intro p; simp only [mulDen, get_add, hx.1 p, hy.1 p]
  · intro p; simp only [mulDen, get_add, hx.2 p, hy.2 p]

/-- names unique and never built-in ⇒ a product of `<unit>` children has at most one meaning -/
theorem den_functional {id : Nat} {defs : List UDef} (hnd : (defs.map (·.name)).Nodup)
    (hnb : ∀ d ∈ defs, Cellml.Gen.cellmlUnits.contains d.name = false)
    {es : List UnitElem} {x y : Scale × Container} (hx : Den id defs es x) (hy : Den id defs es y) : x ≃₂ y := by
  have huniq : ∀ d ∈ defs, ∀ d' ∈ defs, d.name = d'.name → d = d' := inj_of_nodup_map _ _ hnd
  induction hx generalizing y with
  | nil => cases hy; exact Equiv₂.refl _
  | @builtin e es k q m x0 y0 h1 h2 h3 h4 h5 _ ih =>
      cases hy with
      | builtin g1 g2 g3 g4 g5 gy =>
          rw [h1] at g1; rw [h2] at g2; rw [h3] at g3; rw [h5] at g5
          cases g1; cases g2; cases g3; cases g5
          exact mulDen_congr (Equiv₂.refl _) (ih gy)
      | base g1 g2 g3 gm gb gn gy => rw [← gn, hnb _ gm] at h4; cases h4
      | user g1 g2 g3 gm gb gn gx gy => rw [← gn, hnb _ gm] at h4; cases h4
  | @base e es k q m d y0 h1 h2 h3 hm hb hn _ ih =>
      cases hy with
      | builtin g1 g2 g3 g4 g5 gy => rw [← hn, hnb _ hm] at g4; cases g4
      | @base _ _ _ _ _ d' _ g1 g2 g3 gm gb gn gy =>
          rw [h1] at g1; rw [h2] at g2; rw [h3] at g3
          cases g1; cases g2; cases g3
          have := huniq d hm d' gm (hn.trans gn.symm)
          subst this
          exact mulDen_congr (Equiv₂.refl _) (ih gy)
      | @user _ _ _ _ _ d' _ _ g1 g2 g3 gm gb gn gx gy =>
          have := huniq d hm d' gm (hn.trans gn.symm)
          subst this
          rw [hb] at gb; cases gb
  | @user e es k q m d x0 y0 h1 h2 h3 hm hb hn _ _ ihx ih =>
      cases hy with
      | builtin g1 g2 g3 g4 g5 gy => rw [← hn, hnb _ hm] at g4; cases g4
      | @base _ _ _ _ _ d' _ g1 g2 g3 gm gb gn gy =>
          have := huniq d hm d' gm (hn.trans gn.symm)
          subst this
          rw [hb] at gb; cases gb
      | @user _ _ _ _ _ d' _ _ g1 g2 g3 gm gb gn gx gy =>
          rw [h1] at g1; rw [h2] at g2; rw [h3] at g3
          cases g1; cases g2; cases g3
          have := huniq d hm d' gm (hn.trans gn.symm)
          subst this
          exact mulDen_congr (elemDen_congr _ _ _ (ihx gx)) (ih gy)

theorem nameDen_functional {id : Nat} {defs : List UDef} (hnd : (defs.map (·.name)).Nodup)
    (hnb : ∀ d ∈ defs, Cellml.Gen.cellmlUnits.contains d.name = false)
    {n : String} {x y : Scale × Container} (hx : NameDen id defs n x) (hy : NameDen id defs n y) : x ≃₂ y := by
  have huniq : ∀ d ∈ defs, ∀ d' ∈ defs, d.name = d'.name → d = d' := inj_of_nodup_map _ _ hnd
  cases hx with
  | builtin h1 h2 =>
      cases hy with
      | builtin g1 g2 => rw [h2] at g2; cases g2; exact Equiv₂.refl _
      | base gm gb => rw [hnb _ gm] at h1; cases h1
      | user gm gb gx => rw [hnb _ gm] at h1; cases h1
  | @base d hm hb =>
      generalize hn : d.name = n at hy
      cases hy with
      | builtin g1 g2 => rw [← hn, hnb _ hm] at g1; cases g1
      | @base d' gm gb =>
          have := huniq d hm d' gm hn
          subst this; exact Equiv₂.refl _
      | @user d' _ gm gb gx =>
          have := huniq d hm d' gm hn
          subst this; rw [hb] at gb; cases gb
  | @user d x0 hm hb hx =>
      generalize hn : d.name = n at hy
      cases hy with
      | builtin g1 g2 => rw [← hn, hnb _ hm] at g1; cases g1
      | @base d' gm gb =>
          have := huniq d hm d' gm hn
          subst this; rw [hb] at gb; cases gb
      | @user d' _ gm gb gx =>
          have := huniq d hm d' gm hn
          subst this; exact den_functional hnd hnb hx gx
end Units
