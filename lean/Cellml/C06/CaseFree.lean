import Cellml.C06.LoopSem
import Cellml.C06.CaseState

/-! C06: `convert_variable(…, INPUT)` of the free variable. -/

namespace Model.CV
open Model

variable {K : Type} [Field K]

theorem convertVariable_input_free (s : CState) (v : Nat) (u : U) (cf : Rat) (move : Bool) (hcf : cf ≠ 1)
    (hst : hasKey v s.odeDef = false) (hfr : getFree s = some v) :
    convertVariable s v u cf .input move =
      (let ci := convertInstance s v cf u .input move
       let lp := (sortedOdes ci.1).foldl (freeStep v ci.2 (cfQ s v u cf)) (ci.1, [])
       (if lp.2.isEmpty then lp.1 else replaceRefs lp.1 lp.2, ci.2, lp.2)) := by
  simp [convertVariable, statePhase, freePhase, replacePhase, hcf, hst, hfr, cfQ]

/-- `instEqs_fwd` for any valuation that agrees with `σ` on the old variables and gives the new one `cf · v` -/
theorem instEqs_fwd' (I : Interp K) {s : CState} (h : Inv0 s) (v : Nat) (hv : v < s.vars.length) (cf : Rat) (uu : U)
    (hcf : I.lit cf ≠ 0) (dir : Dir) (σ τ : Val K) (hσ : SatL I σ s.equations) (hag : Agree s.vars.length σ τ)
    (hτn : τ.v s.vars.length = I.lit cf * σ.v v) : SatL I τ (instEqs s v (.lit cf uu) dir) := by
  have hE : SatL I τ s.equations := (satL_of_agree I h.scopedE hag).mpr hσ
  have hτv : τ.v v = σ.v v := hag.1 v hv
  cases dir with
  | output =>
    simp only [instEqs, satL_append, satL_cons]
    refine ⟨hE, ?_, satL_nil I _⟩
    simp only [Holds, lhsVal, ev_mul, ev_var, ev_lit, hτn, hτv]
    ring
  | input =>
    simp only [instEqs]
    cases hlk : s.varDef.lookup v with
    | none =>
      simp only [satL_append, satL_cons]
      refine ⟨hE, ?_, satL_nil I _⟩
      simp only [Holds, lhsVal, ev_div, ev_var, ev_lit, hτn, hτv]
      field_simp
    | some oe =>
      obtain ⟨hoe, hoel⟩ := (h.lookup_varDef v oe).mp hlk
      simp only [satL_append, satL_cons]
      refine ⟨fun e he => hE e (List.mem_of_mem_erase he), ?_, ?_, satL_nil I _⟩
      · have h1 := hE oe hoe
        simp only [Holds, hoel, lhsVal, hτv] at h1
        simp only [Holds, lhsVal, ev_mul, ev_lit, hτn, ← h1]
        ring
      · simp only [Holds, lhsVal, ev_div, ev_var, ev_lit, hτn, hτv]
        field_simp

/-- `convert_variable(v, units, INPUT)` for the free variable `v` -/
theorem case_input_free (I : Interp K) {s : CState} (hwf : WF s) (v : Nat) (hv : v < s.vars.length) (u : U)
    (cf : Rat) (hcf1 : cf ≠ 1) (hcf : I.lit cf ≠ 0) (move : Bool) (hst : hasKey v s.odeDef = false)
    (hfr : getFree s = some v) : CallOK I s v cf .input (convertVariable s v u cf .input move) := by
  -- every ODE is with respect to `v`, and `v` is not a state variable
  have hall : ∀ e ∈ s.equations, ∀ x t, e.lhs = .deriv x t → t = v ∧ x ≠ v ∧ x < s.vars.length := by
    intro e he x t hl
    have := getFree_of_ode hwf.inv hwf.oneFree he hl
    rw [hfr] at this; cases this
    refine ⟨rfl, ?_, ?_⟩
    · intro hx; subst hx
      have := (hwf.inv.hasKey_odeDef x).mpr ⟨e, he, _, hl⟩
      rw [hst] at this; cases this
    · have := hwf.inv.defKey_lt he; rwa [defKey_deriv hl] at this
  obtain ⟨c1, c2, c3, c4⟩ := convertInstance_spec hwf.inv v hv cf u .input move
  have hcross1 : Cross (convertInstance s v cf u .input move).1.equations := by
    rw [c2]; exact cross_instEqs hwf.inv hwf.cross v _ .input (fun _ e he x t hl => (hall e he x t hl).2.1)
  -- the ODEs of the state after `_convert_variable_instance` are those of the model
  have hode1 : ∀ e ∈ (convertInstance s v cf u .input move).1.equations, ∀ x t, e.lhs = .deriv x t →
      e ∈ s.equations := by
    rw [c2]; intro e he x t hl
    rcases instEqs_lhs s v _ .input e he with h | h | ⟨_, h⟩
    · exact h
    · rw [h] at hl; cases hl
    · rw [h] at hl; cases hl
  have J : LoopInv v s.vars.length (convertInstance s v cf u .input move).1 []
      (sortedOdes (convertInstance s v cf u .input move).1) :=
    { inv := c4, cross := hcross1, vlt := hv, nvlt := by rw [c3]; omega,
      inL := by
        intro ode ho
        obtain ⟨h1, x, t, h2⟩ := (mem_sortedOdes c4 ode).mp ho
        obtain ⟨h3, _, h4⟩ := hall ode (hode1 ode h1 x t h2) x t h2
        subst h3
        exact ⟨h1, x, h2, h4⟩
      nodup := nodup_sortedOdes c4,
      odes := fun e he x t hl => Or.inr ((mem_sortedOdes c4 e).mpr ⟨he, x, t, hl⟩),
      noLhs := fun _ _ _ _ _ => rfl,
      repKeys := fun p hp => by cases hp }
  obtain ⟨i1, i2, i3, i4, i5⟩ := loop_sem I v s.vars.length cf (u.div (unitOfV s v))
    (sortedOdes (convertInstance s v cf u .input move).1) _ [] J
  -- there is an ODE, so the map is not empty
  have hLne : sortedOdes (convertInstance s v cf u .input move).1 ≠ [] := by
    obtain ⟨e, he, x, hl⟩ := getFree_some hwf.inv hfr
    have : e ∈ sortedOdes (convertInstance s v cf u .input move).1 := by
      apply (mem_sortedOdes c4 e).mpr
      refine ⟨?_, x, v, hl⟩
      rw [c2]; simp only [instEqs]
      cases hlk : s.varDef.lookup v with
      | none => exact List.mem_append_left _ he
      | some oe =>
        obtain ⟨_, hoel⟩ := (hwf.inv.lookup_varDef v oe).mp hlk
        apply List.mem_append_left
        exact (List.mem_erase_of_ne (by intro hh; rw [hh, hoel] at hl; cases hl)).mpr he
    intro hh; rw [hh] at this; cases this
  have hrep := i3 rfl hLne
  generalize hlp : (sortedOdes (convertInstance s v cf u .input move).1).foldl
      (freeStep v s.vars.length (.lit cf (u.div (unitOfV s v)))) ((convertInstance s v cf u .input move).1, []) = lp
    at i1 i2 i4 i5 hrep
  obtain ⟨r1, r2, r3, r4, r5, r6⟩ := replaceRefs_sem I i1.inv i1.cross i1.noLhs (fun p hp => (i1.repKeys p hp).2)
  have hr : convertVariable s v u cf .input move = (replaceRefs lp.1 lp.2, s.vars.length, lp.2) := by
    rw [convertVariable_input_free s v u cf move hcf1 hst hfr]
    simp only [c1]
    have : (cfQ s v u cf) = .lit cf (u.div (unitOfV s v)) := rfl
    rw [this, hlp]
    have hne : lp.2.isEmpty = false := by
      cases hl : lp.2 with
      | nil => exact absurd hl hrep
      | cons _ _ => rfl
    simp only [hne]
    rfl
  have hfin : ∀ e' ∈ (replaceRefs lp.1 lp.2).equations, ∀ x t, e'.lhs = .deriv x t →
      t = s.vars.length ∧ x < s.vars.length := by
    intro e' he' x t hl
    obtain ⟨e, he, hle⟩ := r4 e' he'
    rcases i1.odes e he x t (hle ▸ hl) with h | h
    · exact h
    · cases h
  rw [hr]
  refine { ret := rfl, wf := ⟨r1, r2, ?_, ?_⟩, grows := by simp only [r3]; rw [c3] at i2; omega,
           fwd := ?_, bwd := ?_ }
  · exact oneFree_of_all s.vars.length (fun e' he' x t hl => (hfin e' he' x t hl).1)
  · intro e' he' x t hl
    have := hfin e' he' x t hl; omega
  · -- forward
    intro σ hσ
    let τ0 : Val K := ⟨fun i => if i = s.vars.length then I.lit cf * σ.v v else σ.v i,
                       fun x y => if y = s.vars.length then σ.d x v / I.lit cf else σ.d x y⟩
    have hag0 : Agree s.vars.length σ τ0 :=
      ⟨fun i hi => by simp only [τ0]; rw [if_neg (by omega)],
       fun x y _ hy => by simp only [τ0]; rw [if_neg (by omega)]⟩
    have h0n : τ0.v s.vars.length = I.lit cf * σ.v v := by simp [τ0]
    have hd0 : ∀ x, τ0.d x s.vars.length = τ0.d x v / I.lit cf := by
      intro x
      have : v ≠ s.vars.length := by omega
      simp [τ0, this]
    have hE1 : SatL I τ0 (convertInstance s v cf u .input move).1.equations := by
      rw [c2]; exact instEqs_fwd' I hwf.inv v hv cf _ hcf .input σ τ0 hσ hag0 h0n
    obtain ⟨τ', t1, t2, t3, t4⟩ := i4 τ0 hE1 hd0
    rw [c3] at t2
    have hrepv : ∀ p ∈ lp.2, τ'.v p.2 = τ0.d p.1.1 p.1.2 := by
      intro p hp
      rcases t4 p hp with h | h
      · cases h
      · exact h
    refine ⟨τ', ?_, hag0.trans t2 (by omega), ?_, ?_, ?_⟩
    · apply r5 τ' _ t1
      intro k w hk
      have := hrepv _ (mem_of_lookup' _ _ _ hk)
      rw [this, t3]
    · rw [t2.1 s.vars.length (by omega), h0n]
    · intro p hp
      rw [hrepv p hp]
      have := (i1.repKeys p hp).1
      simp only [τ0]; rw [if_neg (by omega)]
    · intro _ e he x t hl
      obtain ⟨ht, hx, _⟩ := hall e he x t hl
      subst ht
      rw [moved_ne hx, moved_eq, factorOf_ne hx, factorOf_eq, t3]
      simp [τ0]
  · -- backward
    intro σ' hσ'
    have hρ := r6 σ' hσ'
    have hlkρ : ∀ k w, lp.2.lookup k = some w → (pull lp.2 σ').d k.1 k.2 = (pull lp.2 σ').v w := by
      intro k w hk; simp only [pull, hk]
    obtain ⟨b1, b2⟩ := i5 (pull lp.2 σ') hρ hlkρ
    rw [c2] at b1
    obtain ⟨b3, b4⟩ := instEqs_bwd I hwf.inv v cf _ hcf .input (pull lp.2 σ') b1
    refine ⟨b3, b4, ?_⟩
    intro _ e he x t hl
    obtain ⟨ht, hx, _⟩ := hall e he x t hl
    rw [ht] at hl ⊢
    rw [moved_ne hx, moved_eq, factorOf_ne hx, factorOf_eq]
    have hin : e ∈ sortedOdes (convertInstance s v cf u .input move).1 := by
      apply (mem_sortedOdes c4 e).mpr
      refine ⟨?_, x, v, hl⟩
      rw [c2]; simp only [instEqs]
      cases hlk : s.varDef.lookup v with
      | none => exact List.mem_append_left _ he
      | some oe =>
        obtain ⟨_, hoel⟩ := (hwf.inv.lookup_varDef v oe).mp hlk
        apply List.mem_append_left
        exact (List.mem_erase_of_ne (by intro hh; rw [hh, hoel] at hl; cases hl)).mpr he
    have := b2 e hin x hl
    have hnone : lp.2.lookup (x, s.vars.length) = none := by
      cases hk : lp.2.lookup (x, s.vars.length) with
      | none => rfl
      | some w =>
        have := (i1.repKeys _ (mem_of_lookup' _ _ _ hk)).1
        simp at this
    have hsame : (pull lp.2 σ').d x s.vars.length = σ'.d x s.vars.length := by
      simp only [pull, hnone]
    rw [← hsame, this]; ring

end Model.CV
