import Cellml.Expr.Convert
namespace Cellml.Props.C05
theorem placeholder : True := trivial
end Cellml.Props.C05
