import Cellml.Generated.Code.GraphNum
import Cellml.C09.Build
import Mathlib.Tactic.SplitIfs

/-! # Tie: `Model.graph_with_sympy_numbers` (generated from cellmlmanip/model.py) = `C09.stripGraph` (hand model) -/

namespace Cellml.Tie.PGraph
open C09 Cellml.Gen

theorem eqnOf_lhs {eqs : List Eqn} {n : Node} {e : Eqn} (h : eqnOf eqs n = some e) : e.lhs = n := by
  have := List.find?_some h
  simpa using this

theorem filter_const_true {α} (l : List α) : l.filter (fun _ => true) = l := by
  induction l with
  | nil => rfl
  | cons a l ih => simp [ih]

theorem graph_eta_true (G : Graph) : (⟨G.nodes, G.edges.filter (fun _ => true)⟩ : Graph) = G := by
  cases G; simp [filter_const_true]

/-- the inner loop `for edge in edges: if edge[0] not in refs: graph.remove_edge(edge[0], lhs)` -/
theorem removeLoop (refs : List Node) (l : Node) (f : Edge → Graph → Except PyErr (ForInStep Graph))
    (hf : ∀ ed G, f ed G = .ok (.yield (if refs.contains ed.1 then G else nxRemoveEdge G ed.1 l))) :
    ∀ (es : List Edge) (G : Graph), (∀ ed ∈ es, ed.2 = l) →
      forIn es G f = .ok ⟨G.nodes, G.edges.filter (fun ed => !(es.contains ed && !(refs.contains ed.1)))⟩
  | [], G, _ => by simp [pure, Except.pure, graph_eta_true]
  | ed0 :: es, G, h => by
    rw [List.forIn_cons, hf]
    have h0 : ed0 = (ed0.1, l) := by rw [← h ed0 (by simp)]
    have ih := fun G' => removeLoop refs l f hf es G' (fun ed hed => h ed (List.mem_cons_of_mem _ hed))
    simp only [bind, Except.bind]
    by_cases hr : refs.contains ed0.1 = true
    · simp only [hr, if_true, ih]
      congr 2
      apply List.filter_congr
      intro ed _
      by_cases he : ed = ed0
      · subst he
        have hr' : ed.1 ∈ refs := by simpa using hr
        simp [hr']
      · simp [he]
    · have hr' : refs.contains ed0.1 = false := by simpa using hr
      simp only [hr', Bool.false_eq_true, if_false, ih, nxRemoveEdge, List.filter_filter]
      congr 2
      apply List.filter_congr
      intro ed _
      by_cases he : ed = ed0
      · subst he; rw [← h0]
        have hr'' : ¬ ed.1 ∈ refs := by simpa using hr
        simp [hr'']
      · have : (ed == (ed0.1, l)) = false := by rw [← h0]; simpa using he
        simp [he, this]

/-- what the visit of one node keeps -/
def keepAt (eqs : List Eqn) (n : Node) (ed : Edge) : Bool :=
  match eqnOf eqs n with
  | none => true
  | some e => !e.hasQ || !(ed.2 == e.lhs && !(e.refsNum.contains ed.1))

/-- the outer loop `for node in graph.nodes` -/
theorem nodeLoop (eqs : List Eqn) (f : Node → Graph → Except PyErr (ForInStep Graph))
    (hf : ∀ n G, f n G = .ok (.yield ⟨G.nodes, G.edges.filter (keepAt eqs n)⟩)) :
    ∀ (ns : List Node) (G : Graph),
      forIn ns G f = .ok ⟨G.nodes, G.edges.filter (fun ed => ns.all (fun n => keepAt eqs n ed))⟩
  | [], G => by simp [pure, Except.pure, graph_eta_true]
  | n :: ns, G => by
    rw [List.forIn_cons, hf]
    simp only [bind, Except.bind, nodeLoop eqs f hf ns, List.filter_filter, List.all_cons]
    congr 2
    apply List.filter_congr
    intro ed _
    rw [Bool.and_comm]

theorem keep_all_eq (eqs : List Eqn) (g : Graph) (ed : Edge) (hT : ed.2 ∈ g.nodes) :
    (g.nodes.all fun n => keepAt eqs n ed) = keepEdge eqs ed := by
  unfold keepEdge
  cases hq : eqnOf eqs ed.2 with
  | none =>
    simp only [List.all_eq_true]
    intro n _
    unfold keepAt
    cases hn : eqnOf eqs n with
    | none => rfl
    | some e =>
      have : ¬ ed.2 = e.lhs := by
        intro h; rw [eqnOf_lhs hn] at h; rw [h, hn] at hq; cases hq
      simp [this]
  | some q =>
    by_cases hr : (!q.hasQ || decide (ed.1 ∈ q.refsNum)) = true
    · simp only [hr, List.all_eq_true]
      intro n _
      unfold keepAt
      cases hn : eqnOf eqs n with
      | none => rfl
      | some e =>
        by_cases h : ed.2 = e.lhs
        · rw [eqnOf_lhs hn] at h; rw [h, hn] at hq; cases hq
          have hr2 : q.hasQ = false ∨ ed.1 ∈ q.refsNum := by simpa using hr
          rcases hr2 with h2 | h2 <;> simp [h2]
        · simp [h]
    · have hr' : (!q.hasQ || decide (ed.1 ∈ q.refsNum)) = false := by simpa using hr
      simp only [hr']
      rw [List.all_eq_false]
      refine ⟨ed.2, hT, ?_⟩
      simp only [Bool.or_eq_false_iff, Bool.not_eq_false', decide_eq_false_iff_not] at hr'
      simp [keepAt, hq, eqnOf_lhs hq, hr'.1, hr'.2]

/-- **Tie of `Model.graph_with_sympy_numbers`** (no cached value): the definition generated from model.py removes from
    the graph exactly the edges `C09.stripGraph` removes, and caches the result — for ALL equation lists and every
    graph whose edges point to nodes (`hT`: true of every graph `C09.buildGraph` returns, `GraphSpec.wf`; python walks
    `graph.nodes`, so an edge into a non-node would never be visited).

    The guard `if subs_dict:` of the source is the model's `Eqn.hasQ` in `C09.keepEdge`: an equation without a
    `Quantity` keeps all its in-edges in the code and in the model alike, so no condition on the model input
    `refsNum` is left (it used to be the hypothesis `hD`). -/
theorem graphNum_tie (eqs : List Eqn) (g : Graph) (hT : ∀ ed ∈ g.edges, ed.2 ∈ g.nodes) :
    GraphNum.graphWithSympyNumbers (numView eqs (.ok g)) none
      = .ok (stripGraph eqs g, some (stripGraph eqs g)) := by
  unfold GraphNum.graphWithSympyNumbers numView
  simp only [bind, Except.bind, pure, Except.pure, Py.truthy_list]
  rw [nodeLoop eqs _ (fun n G => by
    unfold keepAt
    by_cases hnone : eqnOf eqs n = none
    · simp only [hnone, graph_eta_true, Option.isNone_none, if_true]
    · obtain ⟨e, he⟩ := Option.ne_none_iff_exists'.mp hnone
      simp only [he, Option.isNone_some, Bool.false_eq_true, if_false, theEqn_some, quantityAtoms_isEmpty]
      by_cases hd : e.hasQ = true
      · simp only [hd, Bool.not_true, Bool.not_false, if_true, Bool.false_or]
        rw [removeLoop e.refsNum e.lhs _ (fun ed G' => by
          simp only [Py.isIn]
          by_cases hr : ed.1 ∈ e.refsNum <;> simp [hr])]
        · simp only []
          congr 3
          apply List.filter_congr
          intro ed hed
          simp [nxInEdges, hed, beq_iff_eq]
          by_cases h1 : ed.2 = e.lhs <;> simp [h1]
        · intro ed hed
          simpa [nxInEdges] using (List.mem_filter.mp hed).2
      · have hd' : e.hasQ = false := by simpa using hd
        simp [hd', graph_eta_true])]
  simp only [Option.isSome_none, Bool.false_eq_true, if_false, stripGraph]
  have : List.filter (fun ed => g.nodes.all fun n => keepAt eqs n ed) g.edges
      = List.filter (keepEdge eqs) g.edges := by
    apply List.filter_congr
    intro ed hed
    exact keep_all_eq eqs g ed (hT ed hed)
  rw [this]

/-- The same on the graph `Model.graph` builds: no hypothesis at all. -/
theorem graphNum_tie_built (key : Node → String) (eqs : List Eqn) (g : Graph) (hb : buildGraph key eqs = .ok g) :
    GraphNum.graphWithSympyNumbers (numView eqs (.ok g)) none
      = .ok (stripGraph eqs g, some (stripGraph eqs g)) := by
  obtain ⟨_, hs⟩ := buildGraph_valid hb
  apply graphNum_tie
  rintro ⟨u, v⟩ hed
  exact hs.wf.tgt u v hed

/-- a cached value is returned as it is, and stays -/
theorem graphNum_cached (v : NumView) (c : Graph) :
    GraphNum.graphWithSympyNumbers v (some c) = .ok (c, some c) := by
  unfold GraphNum.graphWithSympyNumbers
  simp [pure, Except.pure]

/-- an exception raised by `self.graph` propagates -/
theorem graphNum_error (eqs : List Eqn) (e : PyErr) :
    GraphNum.graphWithSympyNumbers (numView eqs (.error e)) none = .error e := by
  unfold GraphNum.graphWithSympyNumbers numView
  simp [bind, Except.bind]

end Cellml.Tie.PGraph
