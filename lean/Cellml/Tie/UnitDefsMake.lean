import Cellml.Generated.Code.UnitDefs
import Mathlib.Tactic.SplitIfs

/-! # Tie: `Parser._make_pint_unit_definition` (generated from the source of parser.py) = the hand models
    `Units.elemOffsetBad` (offset test; raised `ValueError`) and — see Tie/UnitDefsDen.lean — `Units.defMeaning`
    (Units/Define.lean), which `Cellml.Props.C03` is about. -/

namespace Cellml.Tie.PUnitDefs
open Units Cellml.Gen

/-! ## generic: a `for` loop whose body either raises or continues -/

theorem forIn_yield_or_error {α σ ε : Type} (l : List α) (init : σ) (f : α → σ → Except ε (ForInStep σ))
    (g : α → σ → σ) (bad : α → Bool) (err : ε)
    (h : ∀ a s, f a s = if bad a then .error err else .ok (.yield (g a s))) :
    forIn l init f = if l.any bad then .error err else .ok (l.foldl (fun s a => g a s) init) := by
  induction l generalizing init with
  | nil => simp [pure, Except.pure]
  | cons a l ih =>
    rw [List.forIn_cons, h]
    by_cases hb : bad a = true
    · simp [hb, bind, Except.bind]
    · simp [hb, bind, Except.bind, ih]

theorem foldl_snoc_map {α β : Type} (f : α → β) (l : List α) (init : List β) :
    l.foldl (fun s a => s ++ [f a]) init = init ++ l.map f := by
  induction l generalizing init with
  | nil => simp
  | cons a l ih => simp [ih]

/-! ## `_make_pint_unit_definition` -/

/-- the expression of one `<unit>` element: `(multiplier * ((units * 10^prefix)**exponent))`, each part only when
    the attribute is there; the prefix is looked up in `UNIT_PREFIXES` first -/
def elemExpr (e : UnitElem) : UExpr :=
  let x0 : UExpr := .name e.units
  let x1 : UExpr := match e.pfx with
    | some p => .timesPow x0 (if (unitPrefixes.lookup p).isSome then .table p else .sci p)
    | none => x0
  let x2 : UExpr := match e.exponent with
    | some x => .pow x1 x
    | none => x1
  match e.multiplier with
  | some m => .mult m x2
  | none => x2

/-- the offset test as the source writes it (`float(offset) != 0`; `float` may raise `ValueError`, the class of the
    `raise` below it) = the model's `offsetRejected`: either `float` raises and the model refuses, or it returns `x` and
    `x != 0` is the model's answer -/
theorem offset_cond (o : String) :
    (Pint.float o = .error ⟨"ValueError"⟩ ∧ offsetRejected o = true) ∨
      ∃ x, Pint.float o = .ok x ∧ (x != 0) = offsetRejected o := by
  unfold Pint.float offsetRejected
  cases h : floatText o with
  | none => exact Or.inl ⟨rfl, rfl⟩
  | some v =>
    cases v with
    | nan => exact Or.inr ⟨.nan, rfl, rfl⟩
    | inf => exact Or.inr ⟨.inf, rfl, rfl⟩
    | dec q =>
      refine Or.inr ⟨_, rfl, ?_⟩
      by_cases hz : roundsToZero q = true
      · simp only [hz, if_true]; rfl
      · have hq : q ≠ 0 := by
          intro h0; subst h0; exact hz (by decide +kernel)
        have hz' : roundsToZero q = false := by simpa using hz
        simp only [hz', Bool.false_eq_true, if_false, Bool.not_false]
        show (!(q == (0 : Rat))) = true
        simpa [bne_iff_ne] using hq

theorem prefix_try (p : String) :
    (tryCatch (Pint.prefixTable p) fun e__ =>
        if (e__.cls == "KeyError") = true then pure (PowLit.sci p) else throw e__) =
      (.ok (if (unitPrefixes.lookup p).isSome then .table p else .sci p) : Except PyErr PowLit) := by
  unfold Pint.prefixTable
  by_cases h : (unitPrefixes.lookup p).isSome = true
  · simp [h, tryCatch, tryCatchThe, MonadExceptOf.tryCatch, Except.tryCatch]
  · simp [h, tryCatch, tryCatchThe, MonadExceptOf.tryCatch, Except.tryCatch, pure, Except.pure]

/-- `_make_pint_unit_definition(units_name, unit_attributes)` for ALL attribute lists: `ValueError` exactly when some
    element fails the model's offset test (`Units.elemOffsetBad`, the test of `addNow` / `reject_offset`), otherwise
    the list of the elements' expressions -/
theorem makeDef_tie (units_name : String) (elems : List UnitElem) :
    UnitDefs.makePintUnitDefinition units_name elems =
      if elems.any elemOffsetBad then .error ⟨"ValueError"⟩ else .ok ⟨elems.map elemExpr⟩ := by
  unfold UnitDefs.makePintUnitDefinition
  simp only []
  rw [forIn_yield_or_error (g := fun e s => s ++ [elemExpr e]) (bad := elemOffsetBad) (err := ⟨"ValueError"⟩)]
  · by_cases h : elems.any elemOffsetBad = true
    · simp [h, bind, Except.bind]
    · rw [foldl_snoc_map]; simp [h, bind, Except.bind, Pint.joinStar, pure, Except.pure]
  · intro e s
    obtain ⟨u, pf, ex, mu, off⟩ := e
    cases off with
    | none =>
      simp only [get_units, get_prefix, get_exponent, get_multiplier, get_offset, has_prefix, has_exponent,
        has_multiplier, has_offset, Py.truthy_bool, bind, Except.bind, prefix_try, elemOffsetBad, elemExpr]
      cases pf <;> cases ex <;> cases mu <;>
        simp [Pint.fmtMul, Pint.fmtPow, pure, Except.pure]
    | some o =>
      rcases offset_cond o with ⟨h1, h2⟩ | ⟨x, h1, h2⟩
      · simp only [get_units, get_prefix, get_exponent, get_multiplier, get_offset, has_prefix, has_exponent,
          has_multiplier, has_offset, Py.truthy_bool, bind, Except.bind, prefix_try, elemOffsetBad, elemExpr,
          Option.getD_some, h1, h2]
        cases pf <;> cases ex <;> cases mu <;>
          simp
      · simp only [get_units, get_prefix, get_exponent, get_multiplier, get_offset, has_prefix, has_exponent,
          has_multiplier, has_offset, Py.truthy_bool, bind, Except.bind, prefix_try, elemOffsetBad, elemExpr,
          Option.getD_some, h1, ← h2]
        cases pf <;> cases ex <;> cases mu <;> cases hx : (x != 0) <;>
          simp [Pint.fmtMul, Pint.fmtPow, pure, Except.pure, throw, throwThe, MonadExceptOf.throw]

/-! ### the string: the tree constructors are names for the format strings of the source -/

theorem prefix_try_str (p : String) :
    (tryCatch (Pint.prefixTableStr p) fun e__ =>
        if (e__.cls == "KeyError") = true then pure (Py.fmt "1e%s" [p]) else throw e__) =
      (.ok (if (unitPrefixes.lookup p).isSome then PowLit.table p else PowLit.sci p).render : Except PyErr String) := by
  unfold Pint.prefixTableStr
  by_cases h : (unitPrefixes.lookup p).isSome = true
  · simp [h, tryCatch, tryCatchThe, MonadExceptOf.tryCatch, Except.tryCatch, PowLit.render]
  · simp [h, tryCatch, tryCatchThe, MonadExceptOf.tryCatch, Except.tryCatch, pure, Except.pure, PowLit.render]

/-- the same source translated with the generic rules for `%` and `join` (what pint is handed) is the rendering of
    the tree `makeDef_tie` speaks about -/
theorem makeDefStr_tie (units_name : String) (elems : List UnitElem) :
    UnitDefs.makePintUnitDefinitionStr units_name elems =
      (UnitDefs.makePintUnitDefinition units_name elems).map PintDef.render := by
  rw [makeDef_tie]
  unfold UnitDefs.makePintUnitDefinitionStr
  simp only []
  rw [forIn_yield_or_error (g := fun e s => s ++ [(elemExpr e).render]) (bad := elemOffsetBad)
    (err := ⟨"ValueError"⟩)]
  · by_cases h : elems.any elemOffsetBad = true
    · simp [h, bind, Except.bind, Except.map]
    · rw [foldl_snoc_map]
      simp [h, bind, Except.bind, pure, Except.pure, Except.map, PintDef.render, Function.comp_def]
  · intro e s
    obtain ⟨u, pf, ex, mu, off⟩ := e
    cases off with
    | none =>
      simp only [get_units, get_prefix, get_exponent, get_multiplier, get_offset, has_prefix, has_exponent,
        has_multiplier, has_offset, Py.truthy_bool, bind, Except.bind, prefix_try_str, elemOffsetBad, elemExpr]
      cases pf <;> cases ex <;> cases mu <;>
        simp [UExpr.render, pure, Except.pure]
    | some o =>
      rcases offset_cond o with ⟨h1, h2⟩ | ⟨x, h1, h2⟩
      · simp only [get_units, get_prefix, get_exponent, get_multiplier, get_offset, has_prefix, has_exponent,
          has_multiplier, has_offset, Py.truthy_bool, bind, Except.bind, prefix_try_str, elemOffsetBad, elemExpr,
          Option.getD_some, h1, h2]
        cases pf <;> cases ex <;> cases mu <;>
          simp
      · simp only [get_units, get_prefix, get_exponent, get_multiplier, get_offset, has_prefix, has_exponent,
          has_multiplier, has_offset, Py.truthy_bool, bind, Except.bind, prefix_try_str, elemOffsetBad, elemExpr,
          Option.getD_some, h1, ← h2]
        cases pf <;> cases ex <;> cases mu <;> cases hx : (x != 0) <;>
          simp [UExpr.render, pure, Except.pure, throw, throwThe, MonadExceptOf.throw]

/-! ### non-vacuity: the generated definitions run (python gives `(((c * 1e3))**0.5)*(60 * (volt * 0.001))`: the
    float of the table is spelled `0.001` there, see `Pint.floatStr`) -/

example : UnitDefs.makePintUnitDefinitionStr "d"
    [⟨"c", some "3", some "0.5", none, none⟩, ⟨"volt", some "milli", none, some "60", some " 0 "⟩] =
      .ok "(((c * 1e3))**0.5)*(60 * (volt * 1e-3))" := by decide +kernel
/-- zero in another spelling is accepted (before the repair: `ValueError`); a fraction, text that is not a number
    (`float` raises) and `nan` are refused -/
example : UnitDefs.makePintUnitDefinition "d" [⟨"c", none, none, none, some "0.0"⟩] = .ok ⟨[.name "c"]⟩ ∧
    UnitDefs.makePintUnitDefinition "d" [⟨"c", none, none, none, some "-0"⟩] = .ok ⟨[.name "c"]⟩ ∧
    UnitDefs.makePintUnitDefinition "d" [⟨"c", none, none, none, some "0.5"⟩] = .error ⟨"ValueError"⟩ ∧
    UnitDefs.makePintUnitDefinition "d" [⟨"c", none, none, none, some "zero"⟩] = .error ⟨"ValueError"⟩ ∧
    UnitDefs.makePintUnitDefinition "d" [⟨"c", none, none, none, some "nan"⟩] = .error ⟨"ValueError"⟩ := by
  decide +kernel

end Cellml.Tie.PUnitDefs
