/-! # C09 — model of `Model.graph`, `Model.graph_with_sympy_numbers`, `Model.get_equations_for`
    (cellmlmanip/model.py 372-536) and of the two networkx calls they make. Core Lean only.

    A node is a left-hand side (a variable or a first-order derivative) or a state / free variable without an
    equation; nodes are numbered by the harness, `key v` is `str(v)` (the sort key handed to networkx).
    An equation is its left-hand side, the set `find_variables_and_derivatives([rhs])` as a list (in whatever order
    Python's set iteration produced; `Model.graph` sorts it by `str` before walking it), the same set after
    `rhs.xreplace({Quantity: Float})` (OBSERVED from SymPy — the simplifier is not modelled), whether the right-hand
    side contains a `Quantity` at all (`bool(rhs.atoms(Quantity))`: `graph_with_sympy_numbers` substitutes, and prunes
    in-edges, ONLY in such an equation), and, for an ODE, the pair (state, free variable).

    All functions are structurally recursive (Kahn's loop and the ancestor closure run on fuel = number of nodes), so
    they reduce in the kernel and `decide` can evaluate them. -/

namespace C09

abbrev Node := Nat
/-- `(u, v)`: `v` depends on `u` (networkx edge `u → v`, added by `graph.add_edge(rhs, lhs)`). -/
abbrev Edge := Node × Node

structure Eqn where
  lhs : Node
  /-- variables and derivatives referenced on the right-hand side -/
  refs : List Node
  /-- the same after number substitution (as observed) -/
  refsNum : List Node
  /-- `some (state, free)` when the left-hand side is `Derivative(state, free)` -/
  ode : Option (Node × Node) := none
  /-- `bool(equation.rhs.atoms(Quantity))`: the right-hand side contains a number with units. Python's
      `graph_with_sympy_numbers` looks only at such equations (`if subs_dict:`); every other equation keeps its
      right-hand side and all its in-edges, whatever `refsNum` says. (Default `true`: an equation written without the
      flag is one whose `refsNum` counts.) -/
  hasQ : Bool := true
deriving Repr, DecidableEq

/-- the references of the right-hand side that `graph_with_sympy_numbers` leaves in the `equation` attribute of the
    node: the substituted one if there was something to substitute, the original one otherwise -/
def Eqn.numRefs (e : Eqn) : List Node := if e.hasQ then e.refsNum else e.refs

/-- A `networkx.DiGraph` as far as the code looks at it: nodes in insertion order, edges. -/
structure Graph where
  nodes : List Node
  edges : List Edge
deriving Repr, DecidableEq

/-- decidable equality of outcomes, for the `decide` examples (scoped: only where `C09` is open) -/
scoped instance {ε α : Type} [DecidableEq ε] [DecidableEq α] : DecidableEq (Except ε α)
  | .ok a, .ok b => if h : a = b then isTrue (h ▸ rfl) else isFalse (fun h' => h (Except.ok.inj h'))
  | .error a, .error b => if h : a = b then isTrue (h ▸ rfl) else isFalse (fun h' => h (Except.error.inj h'))
  | .ok _, .error _ => isFalse (fun h => nomatch h)
  | .error _, .ok _ => isFalse (fun h => nomatch h)

inductive Err
  /-- one of the two sanity `assert`s of `Model.graph` (two equations with the same left-hand side / same `str`) -/
  | assertion
  /-- a right-hand side refers to something that is neither a left-hand side nor a state / free variable
      (`assert False, 'Unexpected variable …'`; `AttributeError` when the reference is an undefined derivative) -/
  | badRef
  /-- a requested variable is not a node (`NetworkXError` from `nx.ancestors`, `KeyError` from `graph.pred[…]`) -/
  | notInGraph
  /-- the graph has a cycle (`NetworkXUnfeasible`, raised when the generator is exhausted) -/
  | unfeasible
deriving Repr, DecidableEq

/-! ## `Model.graph` -/

/-- `Variable.type in [STATE, FREE]` after the first loop of `Model.graph`: the variable is the state or the free
    variable of some ODE. -/
def isStateOrFree (eqs : List Eqn) (v : Node) : Bool :=
  eqs.any fun e => match e.ode with
    | some (s, f) => v == s || v == f
    | none => false

/-- the variable is the left-hand side of an equation, i.e. `graph.nodes[v]['equation'] is not None` -/
def hasEq (eqs : List Eqn) (v : Node) : Bool := eqs.any fun e => e.lhs == v

/-- `graph.add_node(v, …)` for a node that may already be there (a dict insertion: position kept) -/
def addNode (ns : List Node) (v : Node) : List Node := if v ∈ ns then ns else ns ++ [v]

/-- Python's `sorted(xs, key=str)`, one step: a stable insertion — `x` (which came earlier) goes before the first
    element whose key is not smaller -/
def insertStr (key : Node → String) (x : Node) : List Node → List Node
  | [] => [x]
  | y :: ys => if key y < key x then y :: insertStr key x ys else x :: y :: ys

/-- `sorted(find_variables_and_derivatives([equation.rhs]), key=str)`: stable sort by the `str` key (strings compare
    by code point, in Python as in Lean) -/
def sortStr (key : Node → String) : List Node → List Node
  | [] => []
  | x :: xs => insertStr key x (sortStr key xs)

/-- the inner loop `for rhs in sorted(find_variables_and_derivatives([equation.rhs]), key=str)`, given the sorted
    list -/
def addRefs (sf : Node → Bool) (lhs : Node) : List Node → Graph → Except Err Graph
  | [], g => .ok g
  | r :: rs, g =>
      if r ∈ g.nodes then addRefs sf lhs rs ⟨g.nodes, g.edges ++ [(r, lhs)]⟩
      else if sf r then addRefs sf lhs rs ⟨g.nodes ++ [r], g.edges ++ [(r, lhs)]⟩
      else .error .badRef

/-- after the references of an ODE: the free variable, then the state, become nodes if they are not yet -/
def addOde (ode : Option (Node × Node)) (g : Graph) : Graph :=
  match ode with
  | some (s, f) => ⟨addNode (addNode g.nodes f) s, g.edges⟩
  | none => g

/-- the second loop `for equation in self.equations`; the references of each equation (a Python set, handed over in
    whatever order: `e.refs`) are walked in the order of their `str` (since the `fix:` commit "graph nodes in a
    reproducible order") -/
def addEqs (key : Node → String) (sf : Node → Bool) : List Eqn → Graph → Except Err Graph
  | [], g => .ok g
  | e :: es, g =>
      match addRefs sf e.lhs (sortStr key e.refs) g with
      | .error x => .error x
      | .ok g1 => addEqs key sf es (addOde e.ode g1)

def buildGraph (key : Node → String) (eqs : List Eqn) : Except Err Graph :=
  let lhss := eqs.map (·.lhs)
  if ¬ lhss.Nodup then .error .assertion                 -- assert len(graph.nodes) == equation_count
  else if ¬ (lhss.map key).Nodup then .error .assertion  -- assert len(set(str(x) …)) == equation_count
  else addEqs key (isStateOrFree eqs) eqs ⟨lhss, []⟩

/-! ## `Model.graph_with_sympy_numbers` -/

def eqnOf (eqs : List Eqn) (v : Node) : Option Eqn := eqs.find? fun e => e.lhs == v

/-- an in-edge `ref → lhs` survives iff the equation of `lhs` holds no `Quantity` (python: `if subs_dict:` — such an
    equation is not looked at), or `ref` is still referenced after the numbers went in -/
def keepEdge (eqs : List Eqn) (e : Edge) : Bool :=
  match eqnOf eqs e.2 with
  | some q => !q.hasQ || e.1 ∈ q.refsNum
  | none => true

def stripGraph (eqs : List Eqn) (g : Graph) : Graph := ⟨g.nodes, g.edges.filter (keepEdge eqs)⟩

/-- `self.graph_with_sympy_numbers if strip_units else self.graph` -/
def graphFor (eqs : List Eqn) (strip : Bool) (g : Graph) : Graph := if strip then stripGraph eqs g else g

/-! ## networkx -/

/-- `graph.pred[v]` -/
def preds (g : Graph) (v : Node) : List Node := (g.edges.filter (·.2 == v)).map (·.1)

/-- `v` has in-degree zero once the nodes in `done` are removed -/
def isReady (g : Graph) (done : List Node) (v : Node) : Bool := (preds g v).all (· ∈ done)

/-- the heap's minimum of `(key(node), insertion index, node)`: the argument is in insertion order, so the first
    node among those with the least key -/
def least (key : Node → String) : List Node → Option Node
  | [] => none
  | x :: xs => match least key xs with
      | none => some x
      | some m => some (if key m < key x then m else x)

/-- Kahn's loop; `remaining` stays in insertion order, `done` is the output so far -/
def kahn (key : Node → String) (g : Graph) : Nat → List Node → List Node → List Node
  | 0, _, done => done
  | fuel + 1, remaining, done =>
      match least key (remaining.filter (isReady g done)) with
      | none => done
      | some v => kahn key g fuel (remaining.erase v) (done ++ [v])

/-- `list(nx.lexicographical_topological_sort(g, key=str))` -/
def lexTopo (key : Node → String) (g : Graph) : Except Err (List Node) :=
  let out := kahn key g g.nodes.length g.nodes []
  if out.length = g.nodes.length then .ok out else .error .unfeasible

def insertAll (s : List Node) : List Node → List Node
  | [] => s
  | t :: ts => insertAll (addNode s t) ts

/-- `k` rounds of "add the predecessors of everything found so far" -/
def closure (g : Graph) : Nat → List Node → List Node
  | 0, s => s
  | k + 1, s => closure g k (insertAll s (s.flatMap (preds g)))

/-- `nx.ancestors(g, v)` (for an acyclic graph; in a cyclic one it may contain `v`, which is harmless because the
    caller adds `v` anyway and the sort then fails) -/
def ancestors (g : Graph) (v : Node) : List Node := closure g g.nodes.length (preds g v)

/-! ## `Model.get_equations_for` -/

def required (g : Graph) (vars : List Node) (recurse : Bool) : List Node :=
  vars ++ vars.flatMap (fun v => if recurse then ancestors g v else preds g v)

def getEquationsFor (key : Node → String) (eqs : List Eqn) (vars : List Node) (recurse strip : Bool) :
    Except Err (List Node) :=
  match buildGraph key eqs with
  | .error x => .error x
  | .ok g0 =>
      if ¬ vars.all (· ∈ (graphFor eqs strip g0).nodes) then .error .notInGraph
      else match lexTopo key (graphFor eqs strip g0) with
        | .error x => .error x
        | .ok sorted => .ok (sorted.filter fun v => v ∈ required (graphFor eqs strip g0) vars recurse && hasEq eqs v)

end C09
