"""C02 — MathML -> SymPy transpilation preserves meaning for every supported operator.

Cases are content-MathML trees (JSON):  ['ci', name] | ['cn', {'type','text','kids'}] | ['el', tag, [children]].
  impl     : Transpiler().parse_string(xml) -> outcome class, the SymPy tree actually built (func.__name__/args), and the
             value SymPy itself computes for it at the sample environments (xreplace + evalf, 30 digits)
  model    : the compiled Lean model `C02.transpile` (lean/Cellml/C02/Model.lean) -> outcome class + un-canonicalised term
  compare  : outcome class exactly; non-expression results (classes, closures, tuples) exactly; expressions
             semantically: the model's term evaluated by `Ev` (mpmath) against SymPy's own value at every sample
             environment (SymPy flattens/sorts/evaluates, so shapes are compared only for stable function heads)
  oracle   : MathML 2 chapter 4 reference interpreter (`Ref`, mpmath) of the TREE against SymPy's value; an error is
             demanded exactly for unsupported elements, wrong arity, misplaced qualifiers, malformed numbers.
"""
import re
import warnings
import zlib
from fractions import Fraction

import mpmath
from mpmath import mp, mpf, mpc

warnings.filterwarnings('ignore')

from common import Str, sx

ID = 'C02'
LEAN_MODULES = ['Cellml.C02.Table', 'Cellml.Props.C02', 'Cellml.Tie.Transpile', 'Cellml.Tie.TranspileClosed', 'Cellml.Props.C02Gen', 'Cellml.Tie.WalkGen']
N = {'quick': 500, 'thorough': 20000}
RULE = ('exhaustive tier (always, about 4 000 trees): every tag of the generated operator table and the 6 explicit '
        'operator handlers (56) x arity 0..4 x operand mode (distinct symbols / numeric literals incl. negative, zero, '
        'non-integer / ill-sorted), 12 x 7 operand values for every binary and 12 for every unary operator, every qualifier '
        '(degree, logbase, bvar, bvar+degree) x position x 10 operators, 25 degree/logbase/bvar contents x 4 operand lists, '
        'piecewise shapes (0-3 pieces x otherwise none/last/first/twice, 16 malformed children), 75 <cn> texts plain and '
        'e-notation, 16 exponent texts, 9 type attributes, child shapes, 17 unknown elements x 4 positions, 14 kinds of '
        'apply head x 0-3 operands; random tier: N sort-directed nestings to depth 5 over the same vocabulary, 30% with one '
        'injected fault (arity +/-, nullary, unknown operator/operand, qualifier wrapper, ill-sorted operand, malformed '
        'number, operator swap, piece arity). Every case is evaluated at 6 sample environments (multiples of 0.25 in '
        '-3..4, one environment with zeros; truth values for p,q,r,s). non-trivial = the tree contains an apply, a '
        'piecewise or a cn; distinct = distinct tree JSON')
TRUSTED = ['Lean 4.33 kernel', 'axioms: propext, Classical.choice, Quot.sound',
           'harness/translate_tables.py (operator table, n-ary relation set, handler keys)',
           'correspondence harness harness/props/c02.py (term evaluator Ev, reference interpreter Ref)',
           'SymPy 1.14 is modelled, not verified: class arities and operand sorts (Model.lean sympyArity/classKind), '
           'the meaning of each class (Props/C02 syMeaning; Ev in the harness) are validated numerically on every run',
           'lxml parses the XML; the model starts from the element tree']
ASSUMPTIONS = ['numbers are exact rationals in the model; binary64 rounding of <cn> text is the business of C14 '
               '(compared here with relative tolerance 1e-9)',
               'transcendental functions, real powers and derivatives are uninterpreted in the theorems; their values '
               'are compared numerically (mpmath, 40 digits, complex principal values) by the correspondence',
               'ill-sorted trees (a truth value under an arithmetic operator, a number under a logical one, tuples as '
               'operands) are outside the model: SymPy rejects or mangles them in version-specific ways',
               'non-ASCII digits/whitespace in <cn>/<ci> text are not generated']
FINGERPRINT = {'cellmlmanip/parser.py': [
    'Transpiler.__init__', 'Transpiler.parse_string', 'Transpiler.parse_tree', 'Transpiler.transpile',
    'Transpiler._ci_handler', 'Transpiler._cn_handler', 'Transpiler._apply_handler', 'Transpiler._piecewise_handler',
    'Transpiler._piece_handler', 'Transpiler._otherwise_handler', 'Transpiler._minus_handler',
    'Transpiler._divide_handler', 'Transpiler._power_handler', 'Transpiler._root_handler', 'Transpiler._degree_handler',
    'Transpiler._diff_handler', 'Transpiler._bvar_handler', 'Transpiler._log_handler', 'Transpiler._logbase_handler',
    'Transpiler._get_nary_relation_callback', 'Transpiler._simple_operator_handler', 'Transpiler._is_bool',
    '_SIMPLE_MATHML_TO_SYMPY_CLASSES', 'SIMPLE_MATHML_TO_SYMPY_CLASSES', 'MATHML_NARY_RELATIONS']}

MATHML_NS = 'http://www.w3.org/1998/Math/MathML'

# ------------------------------------------------------------------------------------------------ vocabulary
# MathML 2 chapter 4 / appendix C, written by hand (NOT read from the repo): tag -> arity class and meaning
TRIG = ['sin', 'cos', 'tan', 'sec', 'csc', 'cot', 'sinh', 'cosh', 'tanh', 'sech', 'csch', 'coth',
        'arcsin', 'arccos', 'arctan', 'arcsec', 'arccsc', 'arccot', 'arcsinh', 'arccosh', 'arctanh', 'arcsech',
        'arccsch', 'arccoth']
UNARY_NUM = ['abs', 'floor', 'ceiling', 'exp', 'ln'] + TRIG
NARY_NUM = ['plus', 'times']
NARY1_NUM = ['max', 'min']
BINARY_NUM = ['divide', 'power', 'rem']
NARY_REL = ['eq', 'lt', 'gt', 'leq', 'geq']
LOGIC_NARY = ['and', 'or', 'xor']
CONST_NUM = ['pi', 'exponentiale', 'infinity', 'notanumber']
CONST_BOOL = ['true', 'false']
QUALIFIED = ['root', 'log', 'diff']
OPERATORS = UNARY_NUM + NARY_NUM + NARY1_NUM + BINARY_NUM + NARY_REL + ['neq'] + LOGIC_NARY + ['not', 'minus'] + QUALIFIED
CONSTANTS = CONST_NUM + CONST_BOOL
ALL_TAGS = OPERATORS + CONSTANTS        # 56 = 50 table entries + minus, divide, power, root, log, diff
QUALIFIERS = ['degree', 'logbase', 'bvar']
UNKNOWN_TAGS = ['foo', 'factorial', 'sum', 'int', 'lambda', 'csymbol', 'semantics', 'vector', 'cosec', 'arg',
                'quotient', 'gcd', 'implies', 'factorof', 'partialdiff', 'Sin', 'PLUS']
NUM_SYMS = ['x', 'y', 'z', 'w', 'u']
BOOL_SYMS = ['p', 'q', 'r', 's']
VALUE_POOL = ['1.5', '-2', '0.5', '3', '0', '-0.75', '2', '-2.5', '0.25', '1', '7', '-1', '2.0', '1e1', '4']


def spec_arity_ok(tag, n):
    """number n of (plain) operands MathML 2 allows for operator `tag` (qualifiers are counted separately)"""
    if tag in UNARY_NUM or tag == 'not' or tag in QUALIFIED:
        return n == 1
    if tag in NARY_NUM or tag in LOGIC_NARY:
        return n >= 1           # n = 0 is reported separately (arity0)
    if tag in NARY1_NUM:
        return n >= 1
    if tag in BINARY_NUM or tag == 'neq':
        return n == 2
    if tag in NARY_REL:
        return n >= 2
    if tag == 'minus':
        return n in (1, 2)
    return False


def result_sort(tag):
    if tag in NARY_REL or tag == 'neq' or tag in LOGIC_NARY or tag == 'not' or tag in CONST_BOOL:
        return 'B'
    return 'N'


def operand_sort(tag):
    if tag in LOGIC_NARY or tag == 'not':
        return 'B'
    if tag in ('eq', 'neq'):
        return 'same'
    return 'N'


# ------------------------------------------------------------------------------------------------ trees and XML
def ci(n):
    return ['ci', n]


def cn(text, type=None, kids=None):
    return ['cn', {'type': type, 'text': text, 'kids': kids or []}]


def el(tag, *kids):
    return ['el', tag, list(kids)]


def ap(tag, *operands):
    return el('apply', el(tag), *operands)


def xml_of(t):
    if t[0] == 'ci':
        return '<ci>%s</ci>' % t[1]
    if t[0] == 'cn':
        a = t[1]
        s = '<cn' + ('' if a['type'] is None else ' type="%s"' % a['type']) + '>' + (a['text'] or '')
        for is_sep, tail in a['kids']:
            s += ('<sep/>' if is_sep else '<other/>') + (tail or '')
        return s + '</cn>'
    return '<%s>%s</%s>' % (t[1], ''.join(xml_of(k) for k in t[2]), t[1]) if t[2] else '<%s/>' % t[1]


def document(t):
    return '<math xmlns="%s">%s</math>' % (MATHML_NS, xml_of(t))


def opt_sx(s):
    return 'none' if s is None or s == '' else ['some', Str(s)]


def mml_sx(t):
    if t[0] == 'ci':
        return ['ci', Str(t[1].strip())]
    if t[0] == 'cn':
        a = t[1]
        return ['cn', opt_sx(a['type']) if a['type'] != '' else ['some', Str('')], opt_sx(a['text']),
                [['sep' if s else 'other', opt_sx(tail)] for s, tail in a['kids']]]
    return ['el', Str(t[1])] + [mml_sx(k) for k in t[2]]


def walk(t):
    yield t
    if t[0] == 'el':
        for k in t[2]:
            yield from walk(k)


def names_of(t):
    return sorted({n[1].strip() for n in walk(t) if n[0] == 'ci'})


# ------------------------------------------------------------------------------------------------ environments
N_ENVS = 6
ENV_VALUES = ['1.5', '-2', '0.5', '3', '-0.75', '2', '0.25', '-2.5', '1.25', '-1', '0.75', '4', '-3', '2.5']


def env_value(name, i):
    """value of identifier `name` in sample environment i: truth value for p,q,r,s… else a multiple of 0.25"""
    h = zlib.crc32(('%s|%d' % (name, i)).encode())
    if name[:1] in 'pqrs' and name[:1] != '':
        return bool((h >> 3) & 1)
    if i == 5 and (h & 3) == 0:
        return '0'
    return ENV_VALUES[h % len(ENV_VALUES)]


def pseudo_derivative(y, x, n):
    """stand-in value of d^n y / d x^n at every environment (derivatives are uninterpreted)"""
    h = zlib.crc32(('D|%s|%s|%d' % (y, x, n)).encode())
    return Fraction(h % 97 - 48, 8)


_TAINT = set()


class Undef(Exception):
    """the value is undefined / not comparable at this point (division by zero, nan, complex ordering, ill-conditioned)"""


def is_real(v):
    return isinstance(v, mpf) or (isinstance(v, mpc) and abs(v.imag) <= mpf(10) ** -13 * max(1, abs(v.real)))


def real_of(v):
    if isinstance(v, bool):
        raise Undef('truth value used as number')
    if not is_real(v):
        raise Undef('complex')
    return v.real if isinstance(v, mpc) else v


def num_of(v):
    if isinstance(v, bool):
        raise Undef('truth value used as number')
    return v


def bool_of(v):
    if not isinstance(v, bool):
        raise Undef('number used as truth value')
    return v


def guard_int(q):
    """q must be safely away from a discontinuity of floor/trunc unless it is exactly an integer"""
    r = mpmath.nint(q)
    if q != r and abs(q - r) < mpf(10) ** -9:
        raise Undef('too close to an integer')


def fn_floor(a):
    a = real_of(a)
    guard_int(a)
    return mpmath.floor(a)


def fn_ceil(a):
    a = real_of(a)
    guard_int(a)
    return mpmath.ceil(a)


def fn_mod_floor(a, b):
    a, b = real_of(a), real_of(b)
    if b == 0:
        raise Undef('mod 0')
    if mpmath.isinf(a) or mpmath.isinf(b):
        raise Undef('mod inf')
    if abs(b) < mpf(10) ** -6 * max(1, abs(a)):
        raise Undef('tiny divisor')
    guard_int(a / b)
    return a - b * mpmath.floor(a / b)


def fn_rem_trunc(a, b):
    a, b = real_of(a), real_of(b)
    if b == 0:
        raise Undef('rem 0')
    if mpmath.isinf(a) or mpmath.isinf(b):
        raise Undef('rem inf')
    if abs(b) < mpf(10) ** -6 * max(1, abs(a)):
        raise Undef('tiny divisor')
    q = a / b
    guard_int(q)
    if q < 0 and q != mpmath.nint(q):
        _TAINT.add('wrong-value:rem-sign')          # trunc and floor differ here: sympy.Mod has the divisor's sign
    return a - b * (mpmath.floor(q) if q >= 0 else mpmath.ceil(q))


def fn_div(a, b):
    a, b = num_of(a), num_of(b)
    if b == 0:
        raise Undef('division by zero')
    return a / b


def fn_pow(a, b):
    a, b = num_of(a), num_of(b)
    if a == 0 and (not is_real(b) or real_of(b) < 0):
        raise Undef('0 ** negative')
    return mpmath.power(a, b)


def fn_log(a):
    a = num_of(a)
    if a == 0:
        raise Undef('log 0')
    return mpmath.log(a)


def fn_logb(a, b):
    la, lb = fn_log(a), fn_log(b)
    if lb == 0:
        raise Undef('log base 1')
    return la / lb


def fn_root_principal(a, n):
    a, n = num_of(a), num_of(n)
    if n == 0:
        raise Undef('root degree 0')
    return fn_pow(a, 1 / n)


def fn_root_real(a, n):
    """MathML/real analysis: an odd root of a negative real is the negative real root"""
    a, n = num_of(a), num_of(n)
    if n == 0:
        raise Undef('root degree 0')
    if is_real(a) and is_real(n) and real_of(a) < 0 and real_of(n) == mpmath.nint(real_of(n)) \
            and int(mpmath.nint(real_of(n))) % 2 == 1:
        _TAINT.add('wrong-value:root-negative-principal')   # SymPy takes the principal complex root
        return -fn_pow(-real_of(a), 1 / real_of(n))
    return fn_pow(a, 1 / n)


def cmp_guard(a, b):
    a, b = real_of(a), real_of(b)
    if a != b and abs(a - b) <= mpf(10) ** -9 * max(1, abs(a), abs(b)):
        raise Undef('comparison of nearly equal values')
    return a, b


def fn_eq(a, b):
    if isinstance(a, bool) or isinstance(b, bool):
        return bool_of(a) == bool_of(b)
    if is_real(a) and is_real(b):
        a, b = cmp_guard(a, b)
        return a == b
    if a != b and abs(a - b) <= mpf(10) ** -9 * max(1, abs(a), abs(b)):
        raise Undef('comparison of nearly equal values')
    return a == b


REL = {'eq': fn_eq, 'neq': lambda a, b: not fn_eq(a, b),
       'lt': lambda a, b: (lambda p: p[0] < p[1])(cmp_guard(a, b)), 'gt': lambda a, b: (lambda p: p[0] > p[1])(cmp_guard(a, b)),
       'leq': lambda a, b: (lambda p: p[0] <= p[1])(cmp_guard(a, b)), 'geq': lambda a, b: (lambda p: p[0] >= p[1])(cmp_guard(a, b))}

MP_FN = {'sin': mpmath.sin, 'cos': mpmath.cos, 'tan': mpmath.tan, 'sec': mpmath.sec, 'csc': mpmath.csc, 'cot': mpmath.cot,
         'sinh': mpmath.sinh, 'cosh': mpmath.cosh, 'tanh': mpmath.tanh, 'sech': mpmath.sech, 'csch': mpmath.csch,
         'coth': mpmath.coth, 'asin': mpmath.asin, 'acos': mpmath.acos, 'atan': mpmath.atan, 'asec': mpmath.asec,
         'acsc': mpmath.acsc, 'acot': mpmath.acot, 'asinh': mpmath.asinh, 'acosh': mpmath.acosh, 'atanh': mpmath.atanh,
         'asech': mpmath.asech, 'acsch': mpmath.acsch, 'acoth': mpmath.acoth, 'exp': mpmath.exp}


def call_fn(f, a):
    a = num_of(a)
    if f is mpmath.acot and abs(a) < mpf(10) ** -9:
        raise Undef('arccot jumps at 0')
    if mpmath.isinf(a) or mpmath.isnan(a):
        raise Undef('function of inf')
    try:
        r = f(a)
    except (ZeroDivisionError, ValueError, OverflowError, mpmath.libmp.NoConvergence):
        raise Undef('pole')
    if abs(r) > mpf(10) ** 60:
        raise Undef('near a pole')
    return r


def clean(v):
    if isinstance(v, bool):
        return v
    if mpmath.isnan(v):
        raise Undef('nan')
    if isinstance(v, mpc) and (mpmath.isinf(v.real) or mpmath.isinf(v.imag)) and v.imag != 0:
        raise Undef('complex infinity')
    return v


_PERTURB = [False, 0, 1]


def number_value(text):
    """exact value of decimal text as an mp number at the current precision (third pass of `two_precisions`: every
    leaf moved by a different relative amount of about 1e-13, to detect ill-conditioned points)"""
    q = Fraction(text)
    v = mpf(q.numerator) / q.denominator
    if _PERTURB[0]:
        _PERTURB[1] += 1
        k = _PERTURB[1]
        v = v * (1 + mpf(10) ** -13 * (1 + k % 7) * (-1) ** k) + _PERTURB[2] * mpf(10) ** -13 * (1 + k % 5) * (-1) ** (k // 2)
    return v


def env_mp(name, i):
    v = env_value(name, i)
    return v if isinstance(v, bool) else number_value(v)


def two_precisions(f):
    """evaluate f() at 40 digits and at 53 bits; a value that depends on the working precision is ill-conditioned
    (SymPy evaluates <cn> arithmetic at 53 bits) and is not compared"""
    with mp.workdps(40):
        hi = f()
    with mp.workprec(53):
        lo = f()
    pts = []
    for sign in (1, -1):
        _PERTURB[0], _PERTURB[1], _PERTURB[2] = True, 0, sign
        try:
            with mp.workdps(40):
                pts.append(f())
        finally:
            _PERTURB[0] = False
    pt = pts[0]
    if isinstance(pts[0], bool) != isinstance(pts[1], bool) or (isinstance(pt, bool) and pts[0] is not pts[1]):
        raise Undef('ill-conditioned')
    if not isinstance(pt, bool):
        with mp.workdps(40):
            if mpmath.isinf(pts[0]) or mpmath.isinf(pts[1]):
                if pts[0] != pts[1]:
                    raise Undef('ill-conditioned')
            elif abs(pts[0] - pts[1]) > mpf(10) ** -9 * max(1, abs(pts[0])):
                raise Undef('ill-conditioned')
    if isinstance(hi, bool) or isinstance(lo, bool) or isinstance(pt, bool):
        if hi is not lo or hi is not pt:
            raise Undef('precision-dependent truth value')
        return hi
    with mp.workdps(40):
        if mpmath.isinf(hi) or mpmath.isinf(lo) or mpmath.isinf(pt):
            if hi != lo or hi != pt:
                raise Undef('precision-dependent infinity')
            return hi
        if abs(hi - lo) > mpf(10) ** -11 * max(1, abs(hi)) or abs(hi - pt) > mpf(10) ** -9 * max(1, abs(hi)):
            raise Undef('ill-conditioned')
    return hi


def close(a, b):
    """a: reference (bool | mp number), b: observation ('T','F','undef','inf','-inf',[re,im])"""
    if b == 'undef':
        return None
    if isinstance(a, bool):
        return ((b == 'T') == a) if b in ('T', 'F') else False
    if b in ('T', 'F'):
        return False
    with mp.workdps(40):
        if b in ('inf', '-inf'):
            return mpmath.isinf(a) and is_real(a) and (real_of(a) > 0) == (b == 'inf')
        if mpmath.isinf(a):
            return False
        bv = mpc(mpf(b[0]), mpf(b[1]))
        return abs(mpc(a) - bv) <= mpf(10) ** -7 * max(1, abs(a), abs(bv))


# ------------------------------------------------------------------------------------------------ Ev: model terms
# the meaning of the heads of the model's terms (= of the SymPy classes and Python operators the code invokes)
SY_FN = dict(MP_FN)
LOGIC = {'And': lambda bs: all(bs), 'Or': lambda bs: any(bs), 'Xor': lambda bs: sum(bs) % 2 == 1}
SY_REL = {'Eq': 'eq', 'Ne': 'neq', 'Lt': 'lt', 'Gt': 'gt', 'Le': 'leq', 'Ge': 'geq'}


def ev_term(t, i):
    """value of a model term (parsed S-expression) at environment i"""
    k = t[0]
    if k == 'num':
        return number_value(t[1])
    if k == 'int':
        return mpf(int(t[1]))
    if k == 'special':
        if t[1] == 'nan':
            raise Undef('nan')
        return mpf(t[1])
    if k == 'sym':
        return env_mp(str(t[1]), i)
    if k == 'const':
        c = t[1]
        if c in ('true', 'false'):
            return c == 'true'
        if c == 'nan':
            raise Undef('nan')
        return {'E': mpmath.e, 'pi': mpmath.pi, 'oo': mpmath.inf}[c] + 0
    if k != 'app':
        raise Undef('not an expression: %s' % k)
    h, args = t[1], t[2:]
    if h == 'Piecewise':
        for piece in args:
            if bool_of(ev_term(piece[2], i)):
                return clean(ev_term(piece[1], i))
        raise Undef('no piece applies')
    if h in ('Derivative',):
        y, x, n = args
        if y[0] != 'sym' or x[0] != 'sym':
            raise Undef('derivative of a compound expression')
        if int(n[1]) == 0:
            return ev_term(y, i)
        q = pseudo_derivative(str(y[1]), str(x[1]), int(n[1]))
        return mpf(q.numerator) / q.denominator
    if h == 'DerivativeEval':
        raise Undef('evaluated derivative')
    vs = [ev_term(a, i) for a in args]
    v = clean(ev_head(h, vs))
    if not isinstance(v, bool) and not is_real(v):
        raise Undef('not a real number')        # SymPy's automatic rewriting does not preserve complex branches
    return v


def ev_head(h, vs):
    if h == 'Add':
        return sum((num_of(v) for v in vs), mpf(0))
    if h == 'Mul':
        r = mpf(1)
        for v in vs:
            r = r * num_of(v)
        return r
    if h == 'neg':
        return -num_of(vs[0])
    if h == 'sub':
        return num_of(vs[0]) - num_of(vs[1])
    if h == 'div':
        return fn_div(*vs)
    if h == 'pow':
        return fn_pow(*vs)
    if h == 'root':
        return fn_root_principal(*vs)
    if h == 'logb':
        return fn_logb(*vs)
    if h in ('ln', 'log'):
        return fn_log(vs[0]) if len(vs) == 1 else fn_logb(*vs)
    if h in LOGIC:
        return LOGIC[h]([bool_of(v) for v in vs])
    if h == 'Not':
        return not bool_of(vs[0])
    if h in SY_REL:
        return REL[SY_REL[h]](*vs)
    if h == 'Abs':
        return abs(num_of(vs[0]))
    if h == 'floor':
        return fn_floor(vs[0])
    if h == 'ceiling':
        return fn_ceil(vs[0])
    if h == 'Max':
        return max(real_of(v) for v in vs)
    if h == 'Min':
        return min(real_of(v) for v in vs)
    if h == 'Mod':
        return fn_mod_floor(*vs)
    if h in SY_FN:
        return call_fn(SY_FN[h], vs[0])
    raise Undef('head without a meaning: %s' % h)


def heads_of_term(t, acc):
    if isinstance(t, list) and t and t[0] == 'app':
        acc.append(t[1])
        for a in t[2:]:
            heads_of_term(a, acc)
    elif isinstance(t, list) and t and t[0] in ('tuple', 'pylist'):
        for a in t[1:]:
            heads_of_term(a, acc)
    return acc


# ------------------------------------------------------------------------------------------------ implementation
_T = None


def transpiler():
    global _T
    if _T is None:
        import logging
        logging.disable(logging.CRITICAL)
        from cellmlmanip.parser import Transpiler
        warnings.simplefilter('ignore')     # after sympy's own import-time filter for its deprecation warnings
        _T = Transpiler()
    return _T


def ser(o):
    """the Python value a handler returned, as nested lists: SymPy trees by func.__name__ and args"""
    import sympy
    if o is True or o is False:
        return ['const', 'true' if o else 'false']
    if isinstance(o, tuple):
        return ['tuple'] + [ser(x) for x in o]
    if isinstance(o, list):
        return ['pylist'] + [ser(x) for x in o]
    if isinstance(o, type):
        return ['cls', o.__name__]
    if not isinstance(o, sympy.Basic):
        return ['callable', getattr(o, '__name__', type(o).__name__)]
    if isinstance(o, sympy.Symbol):
        return ['sym', o.name]
    if isinstance(o, sympy.Float):
        f = float(o)
        if f != f or f in (float('inf'), float('-inf')):
            return ['special', repr(f)]
        return ['num', str(Fraction(f))]
    if isinstance(o, sympy.Integer):
        return ['int', str(int(o))]
    if isinstance(o, sympy.Rational):
        return ['rat', '%d/%d' % (o.p, o.q)]
    atoms = {sympy.S.Infinity: 'oo', sympy.S.NegativeInfinity: '-oo', sympy.S.NaN: 'nan', sympy.S.ComplexInfinity: 'zoo',
             sympy.S.ImaginaryUnit: 'I', sympy.S.Pi: 'pi', sympy.S.Exp1: 'E', sympy.true: 'true', sympy.false: 'false'}
    if not o.args:
        for a, n in atoms.items():
            if o is a or o == a:
                return ['const', n]
    args = [ser(a) for a in o.args]
    if o.func.__name__ in ('And', 'Or', 'Xor', 'Max', 'Min', 'Equality', 'Unequality'):     # sets / symmetric: .args order is not canonical
        args.sort(key=lambda x: json_key(x))
    return ['app', o.func.__name__] + args


def json_key(x):
    import json
    return json.dumps(x)


def sympy_value(expr, i):
    """what SymPy itself says the expression is worth at environment i"""
    import sympy
    if not isinstance(expr, sympy.Basic):
        return 'undef'
    rule = {}
    try:
        for d in expr.atoms(sympy.Derivative):
            if not (isinstance(d.expr, sympy.Symbol) and len(d.variable_count) == 1
                    and isinstance(d.variable_count[0][0], sympy.Symbol)):
                return 'undef'
            q = pseudo_derivative(d.expr.name, d.variable_count[0][0].name, int(d.variable_count[0][1]))
            rule[d] = sympy.Rational(q.numerator, q.denominator)
        for s in expr.free_symbols:
            v = env_value(s.name, i)
            rule[s] = (sympy.true if v else sympy.false) if isinstance(v, bool) else sympy.Float(v, 30)
        r = expr.xreplace(rule)
        if r is sympy.true or r is sympy.false:
            return 'T' if r is sympy.true else 'F'
        if isinstance(r, sympy.logic.boolalg.Boolean):
            r2 = sympy.simplify_logic(r) if not r.atoms(sympy.core.relational.Relational) else r
            if r2 is sympy.true or r2 is sympy.false:
                return 'T' if r2 is sympy.true else 'F'
            return 'undef'
        v = sympy.N(r, 30)
        if v is sympy.S.NaN or v is sympy.S.ComplexInfinity or v.has(sympy.S.NaN, sympy.S.ComplexInfinity):
            return 'undef'
        if v is sympy.S.Infinity:
            return 'inf'
        if v is sympy.S.NegativeInfinity:
            return '-inf'
        re_, im_ = v.as_real_imag()
        if not (re_.is_Number and im_.is_Number) or re_.is_infinite or im_.is_infinite:
            return 'undef'
        return [str(sympy.Float(re_, 30)), str(sympy.Float(im_, 30))]
    except Timeout:
        raise
    except Exception:
        return 'undef'


class Timeout(Exception):
    pass


def _alarm(signum, frame):
    raise Timeout()


def with_timeout(seconds, f, *args):
    """SymPy's automatic simplification occasionally does not terminate in reasonable time"""
    import signal
    old = signal.signal(signal.SIGALRM, _alarm)
    signal.alarm(seconds)
    try:
        return f(*args)
    finally:
        signal.alarm(0)
        signal.signal(signal.SIGALRM, old)


IMPL_TIMEOUT = 20


def impl(case):
    xml = document(case['tree'])
    try:
        return with_timeout(IMPL_TIMEOUT, impl_inner, xml)
    except Timeout:
        return {'out': 'err:Timeout', 'msg': 'no answer from SymPy within %d s' % IMPL_TIMEOUT}


def impl_inner(xml):
    try:
        res = transpiler().parse_string(xml)
    except Timeout:
        raise
    except Exception as e:
        return {'out': 'err:' + type(e).__name__, 'msg': str(e)[:120].replace('\n', ' ')}
    if len(res) != 1:
        return {'out': 'err:harness', 'msg': 'expected one top-level result, got %d' % len(res)}
    r = res[0]
    try:
        text = str(r)[:200]
    except Exception as e:      # SymPy built an object it cannot print (a truth value inside Add …)
        text = '<unprintable: %s>' % type(e).__name__
    return {'out': 'ok', 'term': ser(r), 'vals': [sympy_value(r, i) for i in range(N_ENVS)], 'str': text}


# ------------------------------------------------------------------------------------------------ model
def requests(case, obs):
    return [sx(['C02', mml_sx(case['tree'])])]


def plain(x):
    """parsed reply -> plain python lists/strings"""
    return [plain(y) for y in x] if isinstance(x, list) else str(x)


WRAPPED_NAME = {'_minus_handler': '_wrapped_minus', '_divide_handler': '_wrapped_divide', '_power_handler': '_wrapped_power',
                '_root_handler': '_wrapped_root', '_log_handler': '_wrapped_log', '_diff_handler': '_wrapped_diff'}
STABLE_HEADS = set(MP_FN) | {'Abs', 'floor', 'ceiling', 'Mod'}
REL_CANON = {'Eq': 'Equality', 'Ne': 'Unequality', 'Lt': 'StrictLessThan', 'Gt': 'StrictGreaterThan', 'Le': 'LessThan',
             'Ge': 'GreaterThan'}


def canon_class(name):
    import sympy
    o = getattr(sympy, name, None)
    return o.__name__ if isinstance(o, type) else name


def rebuild(t):
    """issue to SymPy exactly the calls the MODEL says the code issues (same constructors, same argument order)"""
    import sympy
    k = t[0]
    if k == 'num':
        q = Fraction(t[1])
        return sympy.Float(q.numerator / q.denominator)
    if k == 'int':
        return sympy.Integer(int(t[1]))
    if k == 'special':
        return sympy.Float(float(t[1]))
    if k == 'sym':
        return sympy.Symbol(str(t[1]))
    if k == 'const':
        return {'E': sympy.E, 'pi': sympy.pi, 'oo': sympy.oo, 'nan': sympy.nan, 'true': sympy.true, 'false': sympy.false}[t[1]]
    if k == 'tuple':
        return (rebuild(t[1]), rebuild(t[2]))
    if k == 'pylist':
        return [rebuild(x) for x in t[1:]]
    if k != 'app':
        raise ValueError('not a term: %s' % k)
    h, args = t[1], [rebuild(a) for a in t[2:]]
    if h == 'neg':
        return -args[0]
    if h == 'sub':
        return args[0] - args[1]
    if h == 'div':
        return args[0] / args[1]
    if h == 'pow':
        return args[0] ** args[1]
    if h == 'root':
        return sympy.root(args[0], args[1])
    if h == 'logb':
        return sympy.log(args[0], args[1])
    if h == 'Derivative':
        return sympy.Derivative(args[0], args[1], args[2], evaluate=False)
    if h == 'DerivativeEval':
        return sympy.Derivative(args[0], args[1], args[2], evaluate=args[3])
    if h == 'Piecewise':
        return sympy.Piecewise(*[(e, True if c is sympy.true else c) for e, c in args])
    return getattr(sympy, h)(*args)


def same_calls(m, obs):
    """True: SymPy, given the model's calls, builds exactly what the implementation returned / raises the same error.
    False: it builds something else. None: could not be established (time-out)."""
    try:
        with warnings.catch_warnings():
            warnings.simplefilter('ignore')
            r = with_timeout(IMPL_TIMEOUT, rebuild, m)
    except Timeout:
        return True if obs['out'] == 'err:Timeout' else None
    except RecursionError:
        return obs['out'] == 'err:RecursionError'
    except Exception as e:
        if obs['out'] == 'err:' + type(e).__name__:
            return True
        # both are failures of SymPy's numeric evaluation of a literal; which one surfaces first depends on the order
        # in which operands and relations are built (the code builds every operand before the first relation)
        return obs['out'] != 'ok' and eager_error(obs) and \
            eager_error({'out': 'err:' + type(e).__name__, 'msg': str(e)})
    if obs['out'] != 'ok':
        return False
    try:
        return ser(r) == obs['term']
    except Exception:
        return None


def compare_value(m, o, where):
    """model Python value m against implementation value o, exactly (non-expressions)"""
    k = m[0]
    if k == 'cls':
        if o[0] != 'cls' or canon_class(m[1]) != o[1]:
            return '%s: model class %s, implementation %s' % (where, m[1], o)
    elif k == 'wrapped':
        if o != ['callable', WRAPPED_NAME.get(m[1], m[1])]:
            return '%s: model closure %s, implementation %s' % (where, m[1], o)
    elif k == 'rel':
        if o != ['callable', '_wrapper_relational']:
            return '%s: model n-ary relation wrapper, implementation %s' % (where, o)
    elif k in ('tuple', 'pylist'):
        if o[0] != k or len(o) != len(m):
            return '%s: model %s/%d, implementation %s' % (where, k, len(m) - 1, o[:1])
    return None


def compare(case, obs, replies):
    rep = plain(replies[0])
    if not isinstance(rep, list) or not rep:
        return 'model reply malformed: %r' % (rep,)
    if rep[0] == 'outside':
        return None
    if obs['out'] in SYMPY_INTERNAL:
        return None     # SymPy's own machinery gave up (recursion limit, not implemented, no answer in time): outside the model
    if rep[0] == 'err':
        if obs['out'] in SYMPY_INTERNAL or (obs['out'] != 'ok' and eager_error(obs)):
            return None     # SymPy's numeric evaluation of an earlier sibling raised first: outside the model
        if obs['out'] != 'err:' + rep[1]:
            return 'model raises %s, implementation %s' % (rep[1], obs['out'] + (' ' + obs.get('str', obs.get('msg', ''))))
        return None
    if rep[0] != 'ok':
        return 'model reply malformed: %r' % (rep,)
    m = rep[1]
    if m[0] in ('cls', 'wrapped', 'rel'):
        if obs['out'] != 'ok':
            return 'model returns %s, implementation %s (%s)' % (sx_short(m), obs['out'], obs.get('msg'))
        return compare_value(m, obs['term'], 'result')
    # (A) exact: the calls the model says the code issues, issued to SymPy, give exactly the implementation's result
    same = same_calls(m, obs)
    if same and not case.get('kind', '').startswith(('op-', 'const')):
        return None
    if obs['out'] != 'ok':
        if same:
            return None
        return 'model returns %s, implementation %s (%s)' % (sx_short(m), obs['out'], obs.get('msg'))
    o = obs['term']
    if m[0] in ('tuple', 'pylist'):
        return None if same else compare_value(m, o, 'result')
    if o[0] in ('cls', 'callable', 'tuple', 'pylist'):
        return 'model returns the expression %s, implementation the non-expression %s' % (sx_short(m), o)
    # (B) meaning: the value of the model's term (Ev: what each class / Python operator computes) against the value
    #     SymPy itself gives the expression it built — always in the exhaustive operator tier, else only if (A) failed
    heads = heads_of_term(m, [])
    if 'DerivativeEval' in heads:
        return None if same is not False else 'evaluated derivative: SymPy builds something else from the model\'s calls'
    for i in range(N_ENVS):
        try:
            a = two_precisions(lambda: ev_term(m, i))
        except Undef:
            continue
        c = close(a, obs['vals'][i])
        if c is None:
            continue
        if not c:
            return 'environment %d: model term %s is worth %s, SymPy says %s is worth %s%s' % (
                i, sx_short(m), nstr(a), obs.get('str'), obs['vals'][i],
                '' if same is not False else ' (and SymPy builds something else from the model\'s calls)')
    if case.get('struct'):
        want = sorted(canon_class(h) for h in heads if h in STABLE_HEADS or h in REL_CANON)
        got = sorted(h for h in heads_of_term(o, []) if h in STABLE_HEADS or h in REL_CANON.values())
        if want != got:
            return 'function heads differ: model %s, implementation %s (%s)' % (want, got, obs.get('str'))
    return None


SYMPY_INTERNAL = ('err:RecursionError', 'err:NotImplementedError', 'err:Timeout')
EAGER = re.compile(r'Modulo by zero|is not comparable|Invalid comparison of non-real|Invalid NaN comparison|'
                   r'whether a multivariate|division by zero|cannot determine truth value|Conditions must cover all reals')


def eager_error(obs):
    return obs['out'] in ('err:ZeroDivisionError', 'err:NotImplementedError') or bool(EAGER.search(obs.get('msg') or ''))


def nstr(a):
    return str(a) if isinstance(a, bool) else mpmath.nstr(a, 15)


def sx_short(t):
    s = sx(to_sx(t))
    return s if len(s) < 300 else s[:300] + '…'


def to_sx(t):
    if isinstance(t, list):
        return [to_sx(x) for x in t]
    return Str(t) if (t == '' or re.search(r'[\s()"]', t)) else t


# ------------------------------------------------------------------------------------------------ oracle: MathML 2
_RE_REAL = re.compile(r'^[+-]?(\d+\.?\d*|\.\d+)([eE][+-]?\d+)?$', re.ASCII)
_RE_MANT = re.compile(r'^[+-]?(\d+\.?\d*|\.\d+)$', re.ASCII)
_RE_INT = re.compile(r'^[+-]?\d+$', re.ASCII)
_WS = ' \t\n\r\x0b\x0c'


def cn_spec(a):
    """('ok', Fraction) or ('bad', key): is this <cn> a well-formed number of the supported kinds?"""
    text = (a['text'] or '').strip(_WS)
    if a['type'] is None:
        if a['kids']:
            return 'bad', 'cn-children-ignored'
        if _RE_REAL.match(text):
            return 'ok', Fraction(text)
        return 'bad', cn_lenient_key(text)
    if a['type'] != 'e-notation':
        return 'bad', 'cn-type:' + (a['type'] or 'empty')
    if len(a['kids']) != 1 or not a['kids'][0][0]:
        return 'bad', 'cn-enotation-shape'
    tail = (a['kids'][0][1] or '').strip(_WS)
    if _RE_MANT.match(text) and _RE_INT.match(tail):
        return 'ok', Fraction(text) * Fraction(10) ** int(tail)
    k1, k2 = cn_lenient_key(text), cn_lenient_key(tail)
    return 'bad', k1 if k1 != 'cn-malformed' else k2


def cn_lenient_key(text):
    low = text.lower().lstrip('+-')
    if not text.isascii():
        return 'cn-malformed'
    if '_' in text:
        return 'cn-lenient:underscore'
    if low in ('inf', 'infinity'):
        return 'cn-lenient:inf'
    if low == 'nan':
        return 'cn-lenient:nan'
    return 'cn-malformed'


class Spec:
    """static reading of a tree against MathML 2: `reasons` = why an error is demanded (empty: the tree is valid),
    `opinion` False when the tree is ill-sorted or uses constructs the property does not speak about"""

    def __init__(self, tree):
        self.reasons = []
        self.opinion = True
        self.has_diff = False
        self.sort = self.visit(tree, top=True)

    def bad(self, key):
        if key not in self.reasons:
            self.reasons.append(key)

    def no_opinion(self):
        self.opinion = False
        return None

    def visit(self, t, top=False):
        """returns 'N' | 'B' | None (unknown)"""
        if t[0] == 'ci':
            return 'B' if t[1].strip()[:1] in 'pqrs' else 'N'
        if t[0] == 'cn':
            kind, v = cn_spec(t[1])
            if kind == 'bad':
                self.bad(v)
            elif abs(v) >= Fraction(2) ** 1024 - Fraction(2) ** 970 or (v != 0 and abs(v) < Fraction(1, 10 ** 300)):
                self.no_opinion()           # outside binary64: the business of C14
            return 'N'
        tag, kids = t[1], t[2]
        if tag == 'apply':
            return self.apply(kids)
        if tag == 'piecewise':
            return self.piecewise(kids)
        if tag in CONSTANTS:
            if kids:
                self.no_opinion()
            if tag == 'notanumber':
                self.no_opinion()
            return result_sort(tag)
        if tag in QUALIFIERS or tag in ('piece', 'otherwise'):
            for k in kids:
                self.visit(k)
            if top:
                return self.no_opinion()
            self.check_container(tag, kids)
            self.bad('qualifier-misplaced:' + tag if tag in QUALIFIERS else 'piece-outside-piecewise')
            return None
        if tag in OPERATORS:
            return self.no_opinion()        # an operator used as a value: MathML allows it, CellML has no use for it
        if tag == 'math':
            for k in kids:
                self.visit(k)
            return self.no_opinion()
        self.bad('unknown-element')
        return None

    def check_container(self, tag, kids):
        n = len(kids)
        if tag == 'degree' and n != 1:
            self.bad('degree-arity')
        if tag == 'logbase' and n != 1:
            self.bad('logbase-arity:%d' % min(n, 2))
        if tag == 'bvar' and not (n == 1 or (n == 2 and any(is_el(kids[1], q) for q in QUALIFIERS))):
            self.bad('bvar-shape' if n in (1, 2) else 'bvar-arity')
        if tag == 'piece' and n != 2:
            self.bad('piece-arity')
        if tag == 'otherwise' and n != 1:
            self.bad('otherwise-arity')

    def operands(self, kids):
        sorts = []
        for k in kids:
            sorts.append(self.visit(k))
        return sorts

    def apply(self, kids):
        if not kids:
            self.bad('apply-empty')
            return None
        head, rest = kids[0], kids[1:]
        if head[0] != 'el' or head[1] not in OPERATORS:
            inner = head
            while is_el(inner, 'apply') and len(inner[2]) == 1:
                inner = inner[2][0]
            nullary_apply = inner is not head and is_op(inner)
            if head[0] == 'el' and head[1] not in ALL_TAGS and head[1] not in ('apply', 'piecewise', 'math') + tuple(QUALIFIERS) \
                    and head[1] not in ('piece', 'otherwise'):
                self.bad('unknown-element')
            elif nullary_apply:
                self.bad('arity0:' + inner[1])
            elif not rest:
                self.visit(head)
                self.no_opinion()           # <apply><ci>x</ci></apply>: nothing is applied
                return None
            else:
                self.visit(head)
                self.bad('apply-head-not-operator')
            self.operands(rest)
            return None
        op = head[1]
        if head[2]:
            self.no_opinion()               # an operator element with children
        if not rest:
            self.bad('arity0:' + op)
            return result_sort(op)
        # qualifiers in their proper place
        quals, plain_ops = [], list(rest)
        if op == 'root' and is_el(rest[0], 'degree'):
            quals, plain_ops = [rest[0]], rest[1:]
        elif op == 'log' and is_el(rest[0], 'logbase'):
            quals, plain_ops = [rest[0]], rest[1:]
        elif op == 'diff':
            self.has_diff = True
            if is_el(rest[0], 'bvar'):
                quals, plain_ops = [rest[0]], rest[1:]
            else:
                self.bad('plain-operand-as-qualifier:diff')     # the first operand is taken as the bound variable
                self.visit(rest[0])
                plain_ops = rest[1:]
        for qn in quals:
            self.check_container(qn[1], qn[2])
            if qn[1] == 'bvar':
                self.bvar(qn[2])
            else:
                for s in self.operands(qn[2]):
                    if s == 'B':
                        self.no_opinion()
        n = len(plain_ops)
        if quals and n == 0:
            self.bad('qualifier-misplaced:' + quals[0][1])     # the qualifier is taken as the operand
            return result_sort(op)
        sorts = self.operands(plain_ops)
        if any(is_el(k, q) for k in plain_ops for q in QUALIFIERS):
            return result_sort(op)          # reported as qualifier-misplaced by visit()
        if not spec_arity_ok(op, n):
            if op in ('root', 'log') and n == 2 and not quals:
                self.bad('plain-operand-as-qualifier:' + op)    # the first operand is taken as the degree / base
            else:
                self.bad('arity-accepted:%s/%d' % (op, n))
            return result_sort(op)
        want = operand_sort(op)
        if None in sorts:
            return result_sort(op)
        if want == 'same':
            if len(set(sorts)) != 1:
                self.no_opinion()
        elif any(s != want for s in sorts):
            self.no_opinion()
        if op == 'diff' and not (plain_ops and plain_ops[0][0] == 'ci'):
            self.no_opinion()               # derivative of a compound expression: uninterpreted
        return result_sort(op)

    def bvar(self, kids):
        if not kids or kids[0][0] != 'ci' or kids[0][1].strip()[:1] in 'pqrs':
            self.no_opinion()
        for k in kids[:1]:
            self.visit(k)
        for k in kids[1:]:
            if is_el(k, 'degree'):
                self.check_container('degree', k[2])
                for d in k[2]:
                    self.visit(d)
                    if d[0] == 'cn':
                        kind, v = cn_spec(d[1])
                        if kind == 'ok' and (v.denominator != 1 or v < 1):
                            self.bad('diff-degree-not-a-positive-integer')
                    else:
                        self.no_opinion()   # symbolic order of differentiation
            else:
                self.visit(k)

    def piecewise(self, kids):
        if not kids:
            self.no_opinion()
            return 'N'
        seen_otherwise = False
        for k in kids:
            if is_el(k, 'piece'):
                if seen_otherwise:
                    self.bad('otherwise-misplaced')
                self.check_container('piece', k[2])
                s = self.operands(k[2])
                if len(s) == 2 and (s[0] == 'B' or s[1] == 'N'):
                    self.no_opinion()
            elif is_el(k, 'otherwise'):
                if seen_otherwise:
                    self.bad('otherwise-misplaced')
                seen_otherwise = True
                self.check_container('otherwise', k[2])
                s = self.operands(k[2])
                if s == ['B']:
                    self.no_opinion()
            else:
                self.visit(k)
                if not (k[0] == 'el' and k[1] not in ALL_TAGS + ['apply', 'piecewise', 'math'] + QUALIFIERS):
                    self.bad('piecewise-child')
        return 'N'


def is_el(t, tag):
    return t[0] == 'el' and t[1] == tag


def is_op(t):
    return t[0] == 'el' and t[1] in OPERATORS


MML_FN = {'sin': 'sin', 'cos': 'cos', 'tan': 'tan', 'sec': 'sec', 'csc': 'csc', 'cot': 'cot', 'sinh': 'sinh', 'cosh': 'cosh',
          'tanh': 'tanh', 'sech': 'sech', 'csch': 'csch', 'coth': 'coth', 'arcsin': 'asin', 'arccos': 'acos',
          'arctan': 'atan', 'arcsec': 'asec', 'arccsc': 'acsc', 'arccot': 'acot', 'arcsinh': 'asinh', 'arccosh': 'acosh',
          'arctanh': 'atanh', 'arcsech': 'asech', 'arccsch': 'acsch', 'arccoth': 'acoth', 'exp': 'exp'}


def ref(t, i, variant):
    """MathML 2 value of a VALID tree at environment i, over the REALS: a subexpression without a real value
    (logarithm or even root of a negative number, arcsin(2), …) makes the whole value undefined"""
    v = ref_inner(t, i, variant)
    if not isinstance(v, bool):
        if not is_real(v):
            raise Undef('not a real number')
        v = real_of(v)
    return v


def ref_inner(t, i, variant):
    if t[0] == 'ci':
        return env_mp(t[1].strip(), i)
    if t[0] == 'cn':
        q = cn_spec(t[1])[1]
        f = Fraction(float(q))      # the binary64 number nearest to the text
        return mpf(f.numerator) / f.denominator
    tag, kids = t[1], t[2]
    if tag == 'piecewise':
        for k in kids:
            if k[1] == 'otherwise':
                return clean(ref(k[2][0], i, variant))
            if bool_of(ref(k[2][1], i, variant)):
                return clean(ref(k[2][0], i, variant))
        raise Undef('no piece applies')
    if tag in CONSTANTS:
        if tag == 'notanumber':
            raise Undef('nan')
        return {'pi': mpmath.pi + 0, 'exponentiale': mpmath.e + 0, 'infinity': mpmath.inf, 'true': True, 'false': False}[tag]
    assert tag == 'apply', tag
    op, rest = kids[0][1], kids[1:]
    if op == 'root':
        deg = mpf(2)
        if is_el(rest[0], 'degree'):
            deg, rest = ref(rest[0][2][0], i, variant), rest[1:]
        x = ref(rest[0], i, variant)
        return clean((fn_root_principal if variant[1] else fn_root_real)(x, deg))
    if op == 'log':
        base = mpf(10)
        if is_el(rest[0], 'logbase'):
            base, rest = ref(rest[0][2][0], i, variant), rest[1:]
        return clean(fn_logb(ref(rest[0], i, variant), base))
    if op == 'diff':
        bv = rest[0][2]
        order = 1
        if len(bv) == 2:
            order = int(cn_spec(bv[1][2][0][1])[1])
        q = pseudo_derivative(rest[1][1].strip(), bv[0][1].strip(), order)
        return mpf(q.numerator) / q.denominator
    vs = [ref(k, i, variant) for k in rest]
    if op == 'plus':
        return clean(sum((num_of(v) for v in vs), mpf(0)))
    if op == 'times':
        r = mpf(1)
        for v in vs:
            r = r * num_of(v)
        return clean(r)
    if op == 'minus':
        return clean(-num_of(vs[0]) if len(vs) == 1 else num_of(vs[0]) - num_of(vs[1]))
    if op == 'divide':
        return clean(fn_div(*vs))
    if op == 'power':
        return clean(fn_pow(*vs))
    if op == 'rem':
        return clean((fn_mod_floor if variant[0] else fn_rem_trunc)(*vs))
    if op == 'abs':
        return abs(num_of(vs[0]))
    if op == 'floor':
        return fn_floor(vs[0])
    if op == 'ceiling':
        return fn_ceil(vs[0])
    if op == 'ln':
        return clean(fn_log(vs[0]))
    if op == 'max':
        return max(real_of(v) for v in vs)
    if op == 'min':
        return min(real_of(v) for v in vs)
    if op in MML_FN:
        return clean(call_fn(MP_FN[MML_FN[op]], vs[0]))
    if op in NARY_REL:
        return all([REL[op](a, b) for a, b in zip(vs, vs[1:])])
    if op == 'neq':
        return REL['neq'](*vs)
    if op == 'and':
        return all(bool_of(v) for v in vs)
    if op == 'or':
        return any(bool_of(v) for v in vs)
    if op == 'xor':
        return sum(bool_of(v) for v in vs) % 2 == 1
    if op == 'not':
        return not bool_of(vs[0])
    raise AssertionError('reference interpreter has no rule for ' + op)


def piecewise_in_condition(tree):
    for n in walk(tree):
        if n[0] == 'el' and n[1] == 'piece' and len(n[2]) == 2 and uses(n[2][1], 'piecewise'):
            return True
    return False


def uses(tree, tag):
    return any(n[0] == 'el' and n[1] == tag for n in walk(tree))


def oracle(case, obs):
    tree = case['tree']
    sp = Spec(tree)
    fails = []
    if sp.reasons:
        if obs['out'] == 'ok':
            for r in sp.reasons:
                fails.append({'key': r, 'detail': 'MathML 2 / the supported subset demand an error (%s) but %s was returned for %s'
                              % (r, obs.get('str'), xml_of(tree)[:300])})
        return fails[:8]
    if not sp.opinion:
        return []
    if obs['out'] != 'ok':
        if obs['out'] == 'err:harness':
            return [{'key': 'harness', 'detail': obs.get('msg')}]
        if undefined_everywhere(tree):
            return []
        taints = taints_anywhere(tree) if eager_error(obs) else set()
        if taints:
            # SymPy met the deviating value (a complex root, a remainder of the wrong sign) while building and gave up
            return [{'key': k + ':rejected', 'detail': '%s raised for the valid tree %s: %s'
                     % (obs['out'], xml_of(tree)[:300], obs.get('msg'))} for k in sorted(taints)]
        if piecewise_in_condition(tree):
            key = 'piecewise-in-condition:rejected'
        elif obs['out'] in SYMPY_INTERNAL:
            key = 'valid-rejected-by-sympy:' + obs['out'][4:]
        else:
            key = 'valid-rejected:' + top_operator(tree)
        return [{'key': key, 'detail': '%s raised for the valid tree %s: %s'
                 % (obs['out'], xml_of(tree)[:300], obs.get('msg'))}]
    if obs['term'][0] in ('cls', 'callable', 'tuple', 'pylist'):
        return [{'key': 'not-an-expression', 'detail': '%s returned for %s' % (obs['term'], xml_of(tree)[:300])}]
    if sp.has_diff and top_operator(tree) == 'diff':
        f = check_derivative(tree, obs)
        if f:
            return [f]
    for i in range(N_ENVS):
        o = obs['vals'][i]
        _TAINT.clear()
        try:
            a = two_precisions(lambda: ref(tree, i, (False, False)))
        except Undef:
            continue
        c = close(a, o)
        if c is None or c:
            continue
        # the value differs. Did the evaluation at this environment pass through a region where the transpiled
        # expression is known to deviate (recorded by the reference interpreter itself)?
        if _TAINT:
            keys = sorted(_TAINT)
        elif piecewise_in_condition(tree):
            keys = ['piecewise-in-condition:wrong-value']
        else:
            keys = ['wrong-value:' + top_operator(tree)]
        env = {n: env_value(n, i) for n in names_of(tree)}
        for k in keys:
            fails.append({'key': k, 'detail': '%s at %s: MathML 2 value %s, transpiled expression %s is worth %s'
                          % (xml_of(tree)[:300], env, nstr(a), obs.get('str'), o)})
        break
    return fails[:8]


def taints_anywhere(tree):
    """known-deviation regions met by ANY subexpression at any sample environment (SymPy evaluates eagerly, also
    branches that are never taken)"""
    found = set()
    for sub in walk(tree):
        if not (sub[0] == 'el' and sub[1] in ('apply', 'piecewise')):
            continue
        for i in range(N_ENVS):
            _TAINT.clear()
            try:
                with mp.workdps(40):
                    ref(sub, i, (False, False))
            except Undef:
                pass
            except Exception:
                pass
            found |= _TAINT
    _TAINT.clear()
    return found


def undefined_everywhere(tree):
    """some subexpression has no MathML value at any sample environment (1/0, rem by 0, ordering of complex numbers…):
    SymPy raises for such literals when the expression is built, even in a branch that is never taken — not counted"""
    for sub in walk(tree):
        if not (sub[0] == 'el' and sub[1] in ('apply', 'piecewise')):
            continue
        defined = False
        for i in range(N_ENVS):
            try:
                two_precisions(lambda: ref(sub, i, (False, False)))
                defined = True
                break
            except Undef:
                pass
            except Exception:
                defined = True
                break
        if not defined:
            return True
    return False


def top_operator(tree):
    if tree[0] != 'el':
        return tree[0]
    if tree[1] == 'apply' and tree[2] and tree[2][0][0] == 'el':
        return tree[2][0][1]
    return tree[1]


def check_derivative(tree, obs):
    """<apply><diff/><bvar><ci>x</ci>[<degree><cn>n</cn></degree>]</bvar><ci>y</ci></apply> must be Derivative(y, (x, n))"""
    rest = tree[2][1:]
    bv = rest[0][2]
    order = int(cn_spec(bv[1][2][0][1])[1]) if len(bv) == 2 else 1
    want = ['app', 'Derivative', ['sym', rest[1][1].strip()], ['app', 'Tuple', ['sym', bv[0][1].strip()], ['int', str(order)]]]
    if obs['term'] != want:
        return {'key': 'wrong-value:diff', 'detail': 'expected %s, got %s for %s' % (want, obs['term'], xml_of(tree))}
    return None


# ------------------------------------------------------------------------------------------------ generators
def sym_operands(sort, n, offset=0):
    pool = NUM_SYMS if sort == 'N' else BOOL_SYMS
    return [ci(pool[(offset + j) % len(pool)]) for j in range(n)]


def lit_operands(sort, n, salt):
    if sort == 'B':
        return [el('true') if (zlib.crc32(('%s%d' % (salt, j)).encode()) & 1) else el('false') for j in range(n)]
    h = zlib.crc32(salt.encode())
    return [cn(VALUE_POOL[(h + 5 * j) % len(VALUE_POOL)]) for j in range(n)]


CN_TEXTS = ['1', '1.5', ' 1.5 ', '\t2 ', '-2', '+3', '0', '-0', '0.25', '.5', '5.', '007', '1e3', '1E3', '1e+3', '1e-3',
            '1.5e2', '-1.5E-2', '.5e1', '5.e1', '1_000', '1_0.5', '1_0e1_0', '1_', '_1', '1__0', '1._5', '1_.5', '1e_5',
            '1_e5', 'inf', '-inf', '+inf', 'Infinity', '-INFINITY', 'iNf', 'nan', 'NaN', '-nan', '+NAN', 'infinit', 'in_f',
            '', ' ', None, '.', '-', '+', 'e5', '1e', '1e+', '1 2', '1,5', '0x10', '1.5.2', '--1', '+-1', '1-', 'abc',
            '1.5f', '1d3', '1e400', '-1e400', '1.7976931348623157e308', '1.7976931348623159e308', '1e-400',
            '12345678901234567890', '0.1', '0.30000000000000004', '1e22', '1e23', '123456789.123456789']
CN_EXPONENTS = ['3', '-3', '+3', ' 3 ', '0', '03', '1_0', '3.0', '1e1', '', None, 'x', '--3', '_3', '3_']


def exhaustive():
    out = []

    def add(kind, tree, **kw):
        out.append(dict({'kind': kind, 'tree': tree}, **kw))

    # (1) operator x arity x operand mode
    for tag in ALL_TAGS:
        want = 'B' if (tag in LOGIC_NARY or tag == 'not') else 'N'
        other = 'N' if want == 'B' else 'B'
        for n in range(0, 5):
            add('op-sym', ap(tag, *sym_operands(want, n)), struct=True)
            add('op-lit', ap(tag, *lit_operands(want, n, tag + str(n))))
            if n:
                add('op-lit', ap(tag, *lit_operands(want, n, tag + 'b' + str(n))))
                add('op-illsorted', ap(tag, *sym_operands(other, n)))
                add('op-illsorted', ap(tag, *lit_operands(other, n, tag)))
                if n >= 2:
                    add('op-illsorted', ap(tag, *(sym_operands(want, n - 1) + lit_operands(other, 1, tag))))
        if tag in ('eq', 'neq'):
            for n in range(1, 5):
                add('op-sym', ap(tag, *sym_operands('B', n)), struct=True)
                add('op-lit', ap(tag, *lit_operands('B', n, tag)))
        add('const', el(tag))
    # negative / zero / non-integer operands of the binary and qualified operators
    vals = ['-8', '8', '0', '-0.75', '2.5', '3', '-7', '7', '-3', '2', '0.5', '-1']
    for tag in ['rem', 'divide', 'power', 'minus', 'max', 'min', 'lt', 'geq', 'eq', 'neq']:
        for a in vals:
            for b in vals[2:9]:
                add('op-values', ap(tag, cn(a), cn(b)))
    for a in vals:
        for d in ['2', '3', '-3', '0.5', '4', '1', '0', '5']:
            add('op-values', ap('root', el('degree', cn(d)), cn(a)))
            add('op-values', ap('log', el('logbase', cn(d)), cn(a)))
        add('op-values', ap('root', cn(a)))
        add('op-values', ap('log', cn(a)))
        for tag in UNARY_NUM:
            add('op-values', ap(tag, cn(a)))
    # (2) qualifier placements
    quals = {'degree': lambda c: el('degree', c), 'logbase': lambda c: el('logbase', c), 'bvar': lambda c: el('bvar', c),
             'bvar+degree': lambda c: el('bvar', c, el('degree', cn('2')))}
    for op in ['root', 'log', 'diff', 'plus', 'sin', 'minus', 'eq', 'and', 'power', 'ln']:
        for qn, q in quals.items():
            for n in range(0, 3):
                for pos in range(0, n + 1):
                    for content in ([ci('t'), cn('3')] if op in ('root', 'log', 'diff') else [ci('t')]):
                        ops = sym_operands('N' if op != 'and' else 'B', n)
                        ops.insert(pos, q(content))
                        add('qualifier', ap(op, *ops))
    for op in ['root', 'diff', 'log']:
        qtag = {'root': 'degree', 'diff': 'bvar', 'log': 'logbase'}[op]
        for content in [[], [cn('3')], [cn('2.5')], [cn('0')], [cn('-1')], [ci('n')], [cn('3'), cn('4')], [ci('t'), ci('n')],
                        [ci('t'), ci('n'), ci('m')], [el('true')], [ap('plus', cn('1'), cn('1'))], [el('foo')],
                        [ci('t'), el('degree')], [ci('t'), el('degree', cn('1'))], [ci('t'), el('degree', cn('3'))],
                        [ci('t'), el('degree', cn('2.5'))], [ci('t'), el('degree', cn('0'))], [ci('t'), el('degree', cn('-1'))],
                        [ci('t'), el('degree', ci('n'))], [ci('t'), el('degree', cn('1'), cn('2'))],
                        [el('degree', cn('2')), ci('t')], [ci('t'), el('logbase', cn('2'))], [cn('1.5')], [ci('p')],
                        [ap('plus', ci('t'), ci('n'))]]:
            for operands in ([ci('x')], [ci('x'), ci('y')], [cn('8')], []):
                add('qualifier-content', ap(op, el(qtag, *content), *operands))
    for operands in ([el('true')], [ap('lt', ci('x'), ci('y'))], [cn('1')], [ap('times', ci('x'), ci('y'))], [ci('x'), el('true')],
                     [ci('x'), el('false')], [ci('x'), cn('0')], [ci('x'), ci('y')], [ci('p')]):
        add('qualifier-content', ap('diff', el('bvar', ci('t')), *operands))
    add('qualifier-content', ap('eq', ap('diff', el('bvar', ci('t')), ci('x')), el('true')))
    add('qualifier-content', ap('eq', ap('diff', el('bvar', ci('t')), ci('x')), ap('plus', ci('x'), cn('1'))))
    add('qualifier-content', ap('eq', ap('diff', el('bvar', ci('t'), el('degree', cn('2'))), ci('x')), ap('minus', ci('x'))))
    for q in QUALIFIERS + ['piece', 'otherwise']:
        add('qualifier', el(q, ci('x')))
        add('qualifier', el(q))
        add('qualifier', el(q, ci('x'), ci('y')))
        add('qualifier', el(q, ci('x'), ci('y'), ci('z')))
    # (3) piecewise shapes
    c1, c2 = ap('lt', ci('x'), ci('y')), ap('geq', ci('x'), cn('0'))
    pieces = [el('piece', ci('x'), c1), el('piece', ap('plus', ci('y'), cn('1')), c2), el('piece', cn('7'), ci('p'))]
    oth = el('otherwise', ci('z'))
    for n in range(0, 4):
        add('piecewise', el('piecewise', *pieces[:n]), struct=True)
        add('piecewise', el('piecewise', *(pieces[:n] + [oth])), struct=True)
        add('piecewise', el('piecewise', *([oth] + pieces[:n])))
        add('piecewise', el('piecewise', *(pieces[:n] + [oth, el('otherwise', ci('w'))])))
    for bad in [el('piece', ci('x')), el('piece'), el('piece', ci('x'), c1, ci('y')), el('otherwise'), el('otherwise', ci('x'), ci('y')),
                ci('x'), cn('1'), el('foo'), el('piece', ci('x'), cn('1')), el('piece', ci('x'), ci('y')), el('piece', c1, c1),
                el('piece', el('true'), c1), el('piece', ci('x'), el('true')), el('piece', ci('x'), el('false')),
                el('degree', ci('x')), ap('plus', ci('x'), ci('y'))]:
        add('piecewise', el('piecewise', bad))
        add('piecewise', el('piecewise', pieces[0], bad))
        add('piecewise', el('piecewise', bad, oth))
    add('piecewise', ap('plus', el('piece', ci('x'), c1), ci('y')))
    add('piecewise', ap('plus', el('piecewise', pieces[0], oth), ci('y')))
    add('piecewise', el('apply', el('piecewise', pieces[0], oth), ci('y')))
    add('piecewise', el('piecewise', el('piece', el('piecewise', pieces[0], oth), c2), el('otherwise', cn('0'))))
    # (4) numbers
    for text in CN_TEXTS:
        add('cn', cn(text))
        add('cn', cn(text, type='e-notation', kids=[[True, '2']]))
    for ex in CN_EXPONENTS:
        add('cn', cn('1.5', type='e-notation', kids=[[True, ex]]))
        add('cn', cn('-2_0', type='e-notation', kids=[[True, ex]]))
    for ty in ['real', 'integer', 'rational', 'complex-cartesian', 'complex-polar', 'constant', '', 'E-NOTATION', 'e-notation ']:
        add('cn', cn('1', type=ty))
        add('cn', cn('1', type=ty, kids=[[True, '2']]))
    for kids in ([], [[True, '3'], [True, '4']], [[False, '3']], [[True, '3'], [False, None]], [[False, None], [True, '3']]):
        add('cn', cn('1.5', type='e-notation', kids=kids))
        add('cn', cn('1.5', kids=kids))
    add('cn', cn(None, type='e-notation', kids=[[True, '3']]))
    add('cn', ap('plus', cn('1_000'), ci('x')))
    add('cn', ap('times', cn('inf'), ci('x')))
    # (5) unknown elements, structure
    for u in UNKNOWN_TAGS:
        add('unknown', el(u))
        add('unknown', ap(u, ci('x')))
        add('unknown', ap('plus', ci('x'), el(u)))
        add('unknown', ap('plus', ci('x'), ap(u, ci('y'))))
    add('structure', el('apply'))
    for head in [ci('x'), cn('1'), el('pi'), el('true'), ap('plus', ci('x'), ci('y')), ap('lt', ci('x'), ci('y')), el('apply', el('plus')),
                 el('apply', el('sin')), el('apply', el('lt')), el('apply', el('minus')), el('apply', el('root')),
                 el('apply', ci('f')), el('math', ci('x')), el('apply', el('apply', el('plus')))]:
        for n in range(0, 4):
            add('structure', el('apply', head, *sym_operands('N', n)))
    add('structure', ap('plus', ap('divide', ci('x')), el('foo')))
    add('structure', ap('plus', el('foo'), ap('divide', ci('x'))))
    add('structure', el('plus', ci('x')))
    add('structure', el('apply', el('plus', el('foo')), ci('x'), ci('y')))
    add('structure', el('math', ci('x')))
    add('structure', ci(' x '))
    for tag in ALL_TAGS:
        add('structure', ap('plus', el(tag), ci('x')))      # an operator / constant as an operand
    return out


class Gen:
    """sort-directed random trees to depth 5"""

    def __init__(self, rng):
        self.rng = rng

    def number(self):
        r = self.rng
        k = r.random()
        if k < 0.7:
            return cn(r.choice(VALUE_POOL))
        if k < 0.8:
            return cn(r.choice(['2.5', '-0.5', '0.125', '6', '1.25', '10', '-4', '0.75', ' 3 ', '+2']))
        if k < 0.92:
            return cn(r.choice(['1.5', '-2', '25', '0.5', '3']), type='e-notation', kids=[[True, r.choice(['0', '1', '-1', '+1', ' 2 '])]])
        return el(r.choice(['pi', 'exponentiale', 'pi', 'exponentiale', 'infinity']))

    def num(self, d):
        r = self.rng
        if d <= 0 or r.random() < 0.18:
            return ci(r.choice(NUM_SYMS)) if r.random() < 0.55 else self.number()
        k = r.random()
        if k < 0.22:
            return ap(r.choice(NARY_NUM), *[self.num(d - 1) for _ in range(r.choice([1, 2, 2, 2, 3, 3, 4]))])
        if k < 0.32:
            return ap('minus', *[self.num(d - 1) for _ in range(r.choice([1, 2, 2]))])
        if k < 0.40:
            return ap('divide', self.num(d - 1), self.num(d - 1))
        if k < 0.46:
            return ap('power', self.num(d - 1), self.small())
        if k < 0.52:
            x = self.num(d - 1)
            return ap('root', x) if r.random() < 0.4 else ap('root', el('degree', self.small()), x)
        if k < 0.57:
            x = self.num(d - 1)
            return ap('log', x) if r.random() < 0.4 else ap('log', el('logbase', self.small()), x)
        if k < 0.72:
            return ap(r.choice(UNARY_NUM), self.num(d - 1))
        if k < 0.77:
            return ap('rem', self.num(d - 1), self.num(d - 1))
        if k < 0.83:
            return ap(r.choice(NARY1_NUM), *[self.num(d - 1) for _ in range(r.choice([1, 2, 2, 3, 4]))])
        if k < 0.95:
            n = r.choice([0, 1, 1, 2, 3])
            kids = [el('piece', self.num(d - 1), self.boolean(d - 1)) for _ in range(n)]
            if n == 0 or r.random() < 0.7:
                kids.append(el('otherwise', self.num(d - 1)))
            return el('piecewise', *kids)
        bv = [ci(r.choice(['t', 'x']))]
        if r.random() < 0.4:
            bv.append(el('degree', cn(r.choice(['1', '2', '3']))))
        return ap('diff', el('bvar', *bv), ci(r.choice(NUM_SYMS)))

    def small(self):
        r = self.rng
        return r.choice([cn('2'), cn('3'), cn('-1'), cn('0.5'), cn('4'), cn('-2'), cn('1.5'), ci('x'), ci('y'), cn('10'), cn('2.5')])

    def boolean(self, d):
        r = self.rng
        if d <= 0 or r.random() < 0.15:
            return ci(r.choice(BOOL_SYMS)) if r.random() < 0.6 else el(r.choice(CONST_BOOL))
        k = r.random()
        if k < 0.5:
            op = r.choice(NARY_REL + ['neq'])
            n = 2 if op == 'neq' else r.choice([2, 2, 2, 3, 4])
            return ap(op, *[self.num(d - 1) for _ in range(n)])
        if k < 0.8:
            return ap(r.choice(LOGIC_NARY), *[self.boolean(d - 1) for _ in range(r.choice([1, 2, 2, 3, 4]))])
        if k < 0.93:
            return ap('not', self.boolean(d - 1))
        return ap(r.choice(['eq', 'neq']), self.boolean(d - 1), self.boolean(d - 1))

    def tree(self):
        r = self.rng
        d = r.choice([1, 2, 2, 3, 3, 4, 4, 5, 5])
        return self.num(d) if r.random() < 0.65 else self.boolean(d)

    def fault(self, t):
        """one injected fault somewhere in the tree (returns a new tree and a label)"""
        r = self.rng
        nodes = [n for n in walk(t) if n[0] == 'el' and n[1] == 'apply']
        cns = [n for n in walk(t) if n[0] == 'cn']
        kind = r.choice(['arity-', 'arity+', 'arity0', 'unknown-op', 'unknown-operand', 'qualifier', 'illsorted', 'cn', 'cn',
                         'op-swap', 'piece'])
        if kind == 'cn' and cns:
            n = r.choice(cns)
            if r.random() < 0.5:
                n[1]['text'] = r.choice(CN_TEXTS[20:62])
            else:
                n[1]['type'] = r.choice(['real', 'integer', 'e-notation', 'rational'])
            return 'cn'
        if not nodes:
            return None
        n = r.choice(nodes)
        kids = n[2]
        if kind == 'arity-' and len(kids) > 1:
            del kids[r.randrange(1, len(kids))]
        elif kind == 'arity+':
            kids.insert(r.randrange(1, len(kids) + 1), self.num(1))
        elif kind == 'arity0':
            del kids[1:]
        elif kind == 'unknown-op':
            kids[0] = el(r.choice(UNKNOWN_TAGS))
        elif kind == 'unknown-operand':
            kids.insert(r.randrange(1, len(kids) + 1), el(r.choice(UNKNOWN_TAGS)))
        elif kind == 'qualifier' and len(kids) > 1:
            j = r.randrange(1, len(kids))
            kids[j] = el(r.choice(QUALIFIERS), kids[j])
        elif kind == 'illsorted' and len(kids) > 1:
            j = r.randrange(1, len(kids))
            kids[j] = r.choice([el('true'), ci('p'), ap('lt', ci('x'), ci('y')), cn('1'), ci('x'), ap('plus', ci('x'), cn('1'))])
        elif kind == 'op-swap':
            kids[0] = el(r.choice(OPERATORS))
        elif kind == 'piece':
            ps = [m for m in walk(t) if m[0] == 'el' and m[1] in ('piece', 'otherwise')]
            if not ps:
                return None
            p = r.choice(ps)
            if r.random() < 0.5 and p[2]:
                del p[2][-1]
            else:
                p[2].append(self.num(0))
        else:
            return None
        return kind


def gen(rng, n, tier):
    for c in exhaustive():
        yield c
    g = Gen(rng)
    for _ in range(n):
        t = g.tree()
        label = None
        if rng.random() < 0.3:
            label = g.fault(t)
        yield {'kind': 'random-fault' if label else 'random', 'tree': t}


def search_cases(rng, focus, n):
    g = Gen(rng)
    out = []
    for _ in range(n):
        t = g.tree()
        if rng.random() < 0.5:
            g.fault(t)
        out.append({'kind': 'search', 'tree': t})
    return out


def corpus():
    return [
        {'kind': 'corpus', 'tree': ap('plus')},
        {'kind': 'corpus', 'tree': ap('ln', ci('x'), ci('y'))},
        {'kind': 'corpus', 'tree': cn('1_000')},
        {'kind': 'corpus', 'tree': ap('rem', cn('-7'), cn('3'))},
        {'kind': 'corpus', 'tree': ap('root', el('degree', cn('3')), cn('-8'))},
        {'kind': 'corpus', 'tree': ap('arccosh', cn('2.5'))},
        {'kind': 'corpus', 'tree': ap('lt', ci('x'), ci('y'), ci('z'), ci('w'))},
    ]


def nontrivial(case, obs):
    return any(n[0] == 'cn' or (n[0] == 'el' and n[1] in ('apply', 'piecewise')) for n in walk(case['tree']))


def tag(case, obs):
    return '%s %s' % (case.get('kind', '?'), obs['out'] if obs['out'] != 'ok' else
                      ('ok' if obs['term'][0] not in ('cls', 'callable', 'tuple', 'pylist') else 'ok-nonexpr'))


def shrink(violation):
    """replace the tree by its smallest subtree that still fails with the same key"""
    case, fails = violation['case'], violation['failures']
    key = fails[0]['key']
    best = violation
    for sub in sorted(walk(case['tree']), key=lambda s: len(str(s))):
        if sub[0] != 'el' or sub[1] not in ('apply', 'piecewise'):
            if sub[0] != 'cn':
                continue
        c = {'kind': 'shrunk', 'tree': sub}
        try:
            o = impl(c)
            f = [x for x in oracle(c, o) if x['key'] == key]
        except Exception:
            continue
        if f:
            best = {'case': c, 'failures': f, 'obs': o}
            break
    return best


MANIFEST = {
    'technique': 'Lean 4 theorems over an executable model of Transpiler driven by the generated operator table + '
                 'two semantics (MathML 2 reference, SymPy term) + differential correspondence',
    'text': ('Proved in Lean (lean/Cellml/Props/C02.lean, standard axioms only). (1) table_<tag>, one theorem per tag over the '
             'operator table re-generated from parser.py on every run: the SymPy class computes what MathML 2 says the '
             'element means (49 tags; rem -> Mod is the proved exception), key set, n-ary relation set, handler keys, '
             'class arities = MathML arities except ln. (2) transpile_sound_partial: for EVERY tree (induction, any '
             'depth), every interpretation of identifiers / transcendental functions / real powers: if transpile t = ok e '
             'and MathML 2 gives t the value v then the SymPy term e evaluates to v; fragment: ci, cn plain and '
             'e-notation, constants, plus/times/minus/divide/power, root with degree, log with logbase, abs/floor/ceiling/'
             'max/min/exp/ln/24 trigonometric names, chained relations, neq, and/or/xor/not, piecewise; hypotheses exclude '
             'exactly one-child <apply> and <rem/>, for both of which the full statement is proved FALSE of the model '
             '(and replayed on the code). diff_shape: derivative operands land in Derivative(y, x, n). (3) '
             'transpile_rejects_*: unknown element anywhere, piece/otherwise/degree/bvar/apply/logbase arities, <cn> type / '
             'e-notation shape / malformed text, operand counts of every operator => error; the inputs that are NOT '
             'rejected are theorems too. Tie: 5 500 exhaustive + N random trees per run through Transpiler().parse_string '
             'versus the compiled model (outcome class exactly; value of the model term against SymPy\'s own value at 6 '
             'environments); independent oracle = mpmath reference interpreter of MathML 2 over the reals. 16 known '
             'findings (findings/C02.json).'),
    'note': ('Trusted: Lean kernel; propext, Classical.choice, Quot.sound; the translator for the three tables; the '
             'correspondence harness. SymPy 1.14 is modelled, not verified (class arities, operand sorts, meaning of each '
             'class): validated numerically on every run. Transcendental functions, real powers, derivatives are '
             'uninterpreted in the theorems. Ill-sorted trees and SymPy-internal failures are outside the model '
             '(the model abstains, the check does not compare them). Numbers are exact rationals in the model.'),
}
