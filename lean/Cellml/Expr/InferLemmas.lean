import Cellml.Expr.Infer
import Cellml.Expr.Spec
import Cellml.Units.Lemmas

/-! Helper lemmas for C04: (1) the semantic unit of the containers `traverse` builds, (2) recursion equations of
    `traverse` (the `trav`/`finish` split disappears: after this file no proof looks inside `trav`), (3) magnitudes of
    numeric exponents. -/

set_option linter.constructorNameAsVariable false
set_option linter.unusedSimpArgs false

namespace Infer
open Units PMap Spec

/-! ### 1. semantic units -/

theorem isZero_iff {κ : Type} [DecidableEq κ] [KeyLt κ] [LawfulKeyLt κ] (a : PMap κ) :
    isZero a = true ↔ a ≃ [] := by
  have h : norm a = norm ([] : PMap κ) ↔ a ≃ [] := norm_eq_iff_equiv
  simpa [isZero, norm] using h

theorem same_iff (x y : SUnit) : Spec.same x y = true ↔ x ≃₂ y := by
  simp only [Spec.same, Bool.and_eq_true, beq_iff_equiv, Equiv₂]

theorem isOne_iff (x : SUnit) : Spec.isOne x = true ↔ x ≃₂ Spec.one := by
  simp only [Spec.isOne, Bool.and_eq_true, isZero_iff, Equiv₂, Spec.one]

theorem mul_congr {x x' y y' : SUnit} (hx : x ≃₂ x') (hy : y ≃₂ y') : Spec.mul x y ≃₂ Spec.mul x' y' :=
  ⟨add_congr hx.1 hy.1, add_congr hx.2 hy.2⟩

theorem div_congr {x x' y y' : SUnit} (hx : x ≃₂ x') (hy : y ≃₂ y') : Spec.div x y ≃₂ Spec.div x' y' :=
  ⟨sub_congr hx.1 hy.1, sub_congr hx.2 hy.2⟩

theorem pow_congr (q : Rat) {x x' : SUnit} (hx : x ≃₂ x') : Spec.pow q x ≃₂ Spec.pow q x' :=
  ⟨smul_congr q hx.1, smul_congr q hx.2⟩

theorem pow_one (q : Rat) : Spec.pow q Spec.one ≃₂ Spec.one := Equiv₂.refl _

theorem dimZero_congr (reg : Registry) {x y : SUnit} (h : x ≃₂ y) : dimZero reg x = dimZero reg y := by
  have hd : dimsOfRoot reg x.2 ≃ dimsOfRoot reg y.2 := dimsOfRoot_congr reg h.2
  have : dimZero reg x = true ↔ dimZero reg y = true := by
    simp only [dimZero, isZero_iff]
    exact ⟨fun h' => hd.symm.trans h', fun h' => hd.trans h'⟩
  cases hx : dimZero reg x <;> cases hy : dimZero reg y <;> simp_all

/-- the semantic unit of a container: SI scale and root units (`registry.get_base_units`) -/
abbrev sem (reg : Registry) (u : Container) : SUnit := toRoot reg u

/-- `dimensionless` has the unit one -/
theorem sem_nil (reg : Registry) : sem reg [] ≃₂ Spec.one := by
  have h := toRoot_smul reg 0 []
  have e : smul (0 : Rat) ([] : Container) = [] := rfl
  rw [e] at h
  refine h.trans ⟨?_, ?_⟩ <;> intro p <;> simp only [get_smul, Spec.one, get_nil] <;> grind

/-- pint's product of unit containers denotes the product of the units -/
theorem sem_mulC (reg : Registry) (a b : Container) : sem reg (mulC a b) ≃₂ Spec.mul (sem reg a) (sem reg b) :=
  (toRoot_congr reg (norm_equiv _)).trans (toRoot_add reg a b)

/-- pint's power of a unit container denotes the power of the unit -/
theorem sem_powC (reg : Registry) (a : Container) (q : Rat) : sem reg (powC a q) ≃₂ Spec.pow q (sem reg a) :=
  (toRoot_congr reg (norm_equiv _)).trans (toRoot_smul reg q a)

/-- pint's quotient of unit containers denotes the quotient of the units -/
theorem sem_divC (reg : Registry) (a b : Container) : sem reg (divC a b) ≃₂ Spec.div (sem reg a) (sem reg b) := by
  refine (toRoot_congr reg (norm_equiv _)).trans ?_
  refine (toRoot_add reg a (neg b)).trans ?_
  have h := toRoot_smul reg (-1) b
  refine ⟨?_, ?_⟩ <;> intro p
  · simp only [get_add, Spec.div, get_sub]
    have := h.1 p
    simp only [neg, get_smul] at this ⊢
    rw [this]; grind
  · simp only [get_add, Spec.div, get_sub]
    have := h.2 p
    simp only [neg, get_smul] at this ⊢
    rw [this]; grind

/-- the sum / piecewise check (`is_equivalent`) compares exactly the semantic units -/
theorem sameUnits_iff (reg : Registry) (a b : Container) :
    sameUnits reg a b = true ↔ sem reg a ≃₂ sem reg b := by
  simp only [sameUnits, isEquivalent, Bool.and_eq_true, beq_iff_equiv, Equiv₂]
  exact And.comm

/-- `_is_dimensionless` holds exactly if no root unit with a dimension is left -/
theorem isDimless_iff (reg : Registry) (u : Container) :
    isDimless reg u = true ↔ dimsOfRoot reg (sem reg u).2 ≃ [] := by
  simp only [isDimless, isZero_iff]
  exact ⟨fun h => (dimsOf_equiv reg u).symm.trans h, fun h => (dimsOf_equiv reg u).trans h⟩

theorem isDimless_eq_dimZero (reg : Registry) (u : Container) : isDimless reg u = dimZero reg (sem reg u) := by
  have : isDimless reg u = true ↔ dimZero reg (sem reg u) = true := by
    rw [isDimless_iff]; simp only [dimZero, isZero_iff]
  cases hx : isDimless reg u <;> cases hy : dimZero reg (sem reg u) <;> simp_all

/-! ### 2. `finish`, and the recursion equations of `traverse` -/

variable (reg : Registry) (Γ : VarEnv)

theorem finish_single (q : M × Container) : finish reg [q] = .ok q := by
  simp [finish]

/-- (a) the n-ary check, one operand at a time -/
theorem finish_snoc (qs : List (M × Container)) (q r : M × Container) (hne : qs ≠ [])
    (h : finish reg (qs ++ [q]) = .ok r) : finish reg qs = .ok r ∧ sameUnits reg r.2 q.2 = true := by
  cases qs with
  | nil => exact absurd rfl hne
  | cons hd tl =>
      simp only [List.cons_append, finish, List.all_append, List.all_cons, List.all_nil, Bool.and_true] at h ⊢
      split at h
      · rename_i hall
        simp only [Bool.and_eq_true] at hall
        cases h
        simp only [hall.1, if_true, hall.2, and_self]
      · cases h

theorem finish_snoc_ok (qs : List (M × Container)) (q r : M × Container)
    (h₁ : finish reg qs = .ok r) (h₂ : sameUnits reg r.2 q.2 = true) : finish reg (qs ++ [q]) = .ok r := by
  cases qs with
  | nil => simp [finish] at h₁
  | cons hd tl =>
      simp only [List.cons_append, finish, List.all_append, List.all_cons, List.all_nil, Bool.and_true] at h₁ ⊢
      split at h₁
      · rename_i hall
        cases h₁
        simp only [hall, h₂, Bool.and_self, if_true]
      · cases h₁

/-- a failing check fails with one of two unit errors -/
theorem finish_error (qs : List (M × Container)) (err : UnitErr) (h : finish reg qs = .error err) :
    err = .unexpectedMath ∨ err = .argsInvalidUnits := by
  cases qs with
  | nil => simp only [finish, Except.error.injEq] at h; exact Or.inl h.symm
  | cons hd tl =>
      simp only [finish] at h
      split at h
      · cases h
      · simp only [Except.error.injEq] at h; exact Or.inr h.symm

theorem finish_snoc_error (qs : List (M × Container)) (q : M × Container) (err : UnitErr)
    (h : finish reg (qs ++ [q]) = .error err) : err = .argsInvalidUnits := by
  cases qs with
  | nil => simp [finish] at h
  | cons hd tl =>
      simp only [List.cons_append, finish] at h
      split at h
      · cases h
      · simp only [Except.error.injEq] at h; exact h.symm

theorem traverse_def (e : E) : traverse reg Γ e = (trav reg Γ e >>= finish reg) := rfl

/-- closes a recursion equation: unfold, follow the `Except` binds, the singleton check succeeds -/
macro "trav_eq" : tactic => `(tactic|
  (simp only [traverse, trav, bind, Except.bind]
   repeat' (split <;> try rfl)
   all_goals (simp_all [finish, pure, Except.pure, throw, throwThe, MonadExceptOf.throw, bind, Except.bind])))

theorem traverse_qty (v : Rat) (u : Container) : traverse reg Γ (.qty v u) = .ok (.num v true, u) := by trav_eq
theorem traverse_cf (s : Scale) (u : Container) :
    traverse reg Γ (.cf s u) = .ok (if s = [] then .num 1 true else .anynum, u) := by trav_eq
theorem traverse_int (n : Int) : traverse reg Γ (.int n) = .ok (.num n false, []) := by trav_eq
theorem traverse_rat (q : Rat) : traverse reg Γ (.rat q) = .ok (.num q true, []) := by trav_eq
theorem traverse_flt (q : Rat) : traverse reg Γ (.flt q) = .ok (.num q true, []) := by trav_eq
theorem traverse_pi : traverse reg Γ .pi = .ok (.anynum, []) := by trav_eq
theorem traverse_e : traverse reg Γ .e = .ok (.anynum, []) := by trav_eq
theorem traverse_oo : traverse reg Γ .oo = .error (.unsupported "infinity") := by trav_eq
theorem traverse_nan : traverse reg Γ .nan = .error (.unsupported "nan") := by trav_eq
theorem traverse_undef : traverse reg Γ .undef = .error .unexpectedMath := by trav_eq
theorem traverse_tt : traverse reg Γ .tt = .error .boolean := by trav_eq
theorem traverse_ff : traverse reg Γ .ff = .error .boolean := by trav_eq
theorem traverse_other (n : String) : traverse reg Γ (.other n) = .error .unexpectedMath := by trav_eq

theorem traverse_var (i : Nat) : traverse reg Γ (.var i) = varQ Γ i := by
  simp only [traverse, trav, bind, Except.bind]
  cases varQ Γ i with
  | error err => rfl
  | ok q => simp [finish, pure, Except.pure]

/-- case split on one `Except` computation of the goal; the error case closes by `rfl` -/
macro "exc " t:term : tactic =>
  `(tactic| (cases $t:term
             (first | rfl | simp [throw, throwThe, MonadExceptOf.throw])
             try simp only []))

macro "trav_unfold" : tactic => `(tactic| simp only [traverse, trav, bind, Except.bind])
macro "trav_done" : tactic =>
  `(tactic| simp [finish, pure, Except.pure, throw, throwThe, MonadExceptOf.throw, bind, Except.bind])

/-! binary and unary nodes: the operands' quantities are those of `traverse` on the operands -/

theorem traverse_mul (a b : E) : traverse reg Γ (.mul a b) =
    (traverse reg Γ a >>= fun qa => traverse reg Γ b >>= fun qb => pure (mulM qa.1 qb.1, mulC qa.2 qb.2)) := by
  trav_unfold
  exc trav reg Γ a; rename_i la; exc finish reg la
  exc trav reg Γ b; rename_i lb; exc finish reg lb
  trav_done

/-- the `Pow` branch on the two operand quantities -/
def powStep (qb qx : M × Container) : Except UnitErr (M × Container) :=
  if qx.2 ≠ [] then .error .mustBeDimensionless
  else if !qx.1.isNumber then .error .mustBeNumber
  else powM qb.1 qx.1 >>= fun m =>
    if qb.2 = [] then .ok (m, [])
    else match qx.1 with
      | .num q _ => .ok (m, powC qb.2 q)
      | _ => .error (.unsupported "exponent value not tracked")

theorem traverse_pow (b x : E) : traverse reg Γ (.pow b x) =
    (traverse reg Γ b >>= fun qb => traverse reg Γ x >>= fun qx => powStep qb qx) := by
  trav_unfold
  exc trav reg Γ b; rename_i lb; exc finish reg lb; rename_i qb
  exc trav reg Γ x; rename_i lx; exc finish reg lx; rename_i qx
  obtain ⟨mb, ub⟩ := qb
  obtain ⟨mx, ux⟩ := qx
  simp only [powStep, bind, Except.bind]
  by_cases h1 : ux = []
  · by_cases h2 : mx.isNumber = true
    · cases hp : powM mb mx with
      | error err => simp [h1, h2, hp, throw, throwThe, MonadExceptOf.throw, pure, Except.pure]
      | ok m =>
        by_cases h3 : ub = []
        · simp [h1, h2, hp, h3, finish, throw, throwThe, MonadExceptOf.throw, pure, Except.pure]
        · cases mx <;> simp [h1, h2, hp, h3, finish, throw, throwThe, MonadExceptOf.throw, pure, Except.pure]
    · simp [h1, h2, throw, throwThe, MonadExceptOf.throw, pure, Except.pure]
  · simp [h1, throw, throwThe, MonadExceptOf.throw, pure, Except.pure]

theorem traverse_abs (a : E) : traverse reg Γ (.abs a) =
    (traverse reg Γ a >>= fun q => pure (absM q.1, q.2)) := by
  trav_unfold
  exc trav reg Γ a; rename_i la; exc finish reg la
  trav_done

theorem traverse_floor (a : E) : traverse reg Γ (.floor a) =
    (traverse reg Γ a >>= fun q => floorM false q.1 >>= fun m => pure (m, q.2)) := by
  trav_unfold
  exc trav reg Γ a; rename_i la; exc finish reg la; rename_i q
  exc floorM false q.1
  trav_done

theorem traverse_ceil (a : E) : traverse reg Γ (.ceil a) =
    (traverse reg Γ a >>= fun q => floorM true q.1 >>= fun m => pure (m, q.2)) := by
  trav_unfold
  exc trav reg Γ a; rename_i la; exc finish reg la; rename_i q
  exc floorM true q.1
  trav_done

theorem traverse_ite (c t el : E) : traverse reg Γ (.ite c t el) =
    (traverse reg Γ t >>= fun qt =>
      if el = .undef then pure qt
      else traverse reg Γ el >>= fun qe =>
        if sameUnits reg qt.2 qe.2 then pure qt else .error .argsInvalidUnits) := by
  trav_unfold
  exc trav reg Γ t; rename_i lt; exc finish reg lt; rename_i qt
  by_cases hu : el = .undef
  · simp [hu, finish, pure, Except.pure]
  · simp only [hu, if_false]
    exc trav reg Γ el; rename_i le; exc finish reg le; rename_i qe
    by_cases hs : sameUnits reg qt.2 qe.2 = true <;>
      simp [hs, finish, pure, Except.pure, throw, throwThe, MonadExceptOf.throw]

theorem traverse_rel (r : Rel) (a b : E) : traverse reg Γ (.rel r a b) =
    (traverse reg Γ a >>= fun _ => traverse reg Γ b >>= fun _ => .error .boolean) := by
  trav_unfold
  exc trav reg Γ a; rename_i la; exc finish reg la
  exc trav reg Γ b; rename_i lb; exc finish reg lb
  trav_done
theorem traverse_and (a b : E) : traverse reg Γ (.and a b) =
    (traverse reg Γ a >>= fun _ => traverse reg Γ b >>= fun _ => .error .boolean) := by
  trav_unfold
  exc trav reg Γ a; rename_i la; exc finish reg la
  exc trav reg Γ b; rename_i lb; exc finish reg lb
  trav_done
theorem traverse_or (a b : E) : traverse reg Γ (.or a b) =
    (traverse reg Γ a >>= fun _ => traverse reg Γ b >>= fun _ => .error .boolean) := by
  trav_unfold
  exc trav reg Γ a; rename_i la; exc finish reg la
  exc trav reg Γ b; rename_i lb; exc finish reg lb
  trav_done
theorem traverse_not (a : E) : traverse reg Γ (.not a) =
    (traverse reg Γ a >>= fun _ => .error .boolean) := by
  trav_unfold
  exc trav reg Γ a; rename_i la; exc finish reg la
  trav_done

theorem traverse_deriv (v t : Nat) : traverse reg Γ (.deriv v t) =
    (varQ Γ v >>= fun qv => varQ Γ t >>= fun qt => divM qv.1 qt.1 >>= fun m => pure (m, divC qv.2 qt.2)) := by
  trav_unfold
  exc varQ Γ v; rename_i qv
  exc varQ Γ t; rename_i qt
  exc divM qv.1 qt.1
  trav_done

/-- the one-argument function branch on the operand quantity -/
def fn1Step (f : String) (q : M × Container) : Except UnitErr (M × Container) :=
  if f == "log" || f == "factorial" then
    if isDimless reg q.2 then .ok dimless1 else .error .mustBeDimensionless
  else if f == "exp" then
    if isDimless reg q.2 then
      match q.1 with
      | .num v true => if v > 709 then .error (.otherException "OverflowError") else .ok (.anynum, [])
      | .anynum => .ok (.anynum, [])
      | .weird => .ok (.anynum, [])
      | _ => .ok dimless1
    else .error .mustBeDimensionless
  else if Cellml.Gen.trigFunctions.contains f then
    if isDimless reg q.2 then .ok dimless1 else .error .mustBeDimensionless
  else if isDimless reg q.2 then .ok dimless1
  else .error .unexpectedMath

theorem traverse_fn1 (f : String) (a : E) : traverse reg Γ (.fn1 f a) =
    (traverse reg Γ a >>= fun q => fn1Step reg f q) := by
  trav_unfold
  exc trav reg Γ a; rename_i la; exc finish reg la; rename_i q
  obtain ⟨m, u⟩ := q
  simp only [fn1Step]
  repeat' split
  all_goals simp_all [finish, pure, Except.pure, throw, throwThe, MonadExceptOf.throw]

/-- a successful one-argument function: the argument was accepted, has dimension zero, the result is dimensionless -/
theorem fn1Step_ok (f : String) (q r : M × Container) (h : fn1Step reg f q = .ok r) :
    isDimless reg q.2 = true ∧ r.2 = [] := by
  simp only [fn1Step] at h
  repeat' split at h
  all_goals simp_all [dimless1]
  all_goals (cases h; simp)

theorem fn1Step_error (f : String) (q : M × Container) (err : UnitErr) (h : fn1Step reg f q = .error err) :
    err = .mustBeDimensionless ∨ err = .unexpectedMath ∨ (f = "exp" ∧ err = .otherException "OverflowError") := by
  simp only [fn1Step] at h
  repeat' split at h
  all_goals simp_all

end Infer
