import Cellml.C17.Lift
import Cellml.Props.C01
import Cellml.Props.C03

/-! # C17 — broken or unsupported documents are refused, never half-loaded

    Two loaders are spoken about:
    * `Load.load : Doc → Except Err Flat` — the model of `Parser.parse` after the unit definitions have been sorted (C01);
    * `C17.loadFull : FaultDoc → Except Err Flat` — the whole of `Parser.parse` on a document as written: the two schema
      facts about variables, component units, the unit work list `_add_units` (C03), reactions, components, variables,
      encapsulation, connections (direction + work list), maths including left-hand sides `add_equation` refuses,
      `transform_constants`.
    Every fault class is a predicate that is EXISTENTIAL over the sites of the document ("somewhere there is …"); the rest
    of the document is arbitrary. So each `fault_rejected_*` covers the fault at any site, alone or together with any
    other faults. RELAX NG validation and XML well-formedness are lxml's and are covered by the fault stream of the
    harness only (unknown elements, missing attributes, wrong namespace, malformed text). -/

open Load C17
namespace Cellml.Props.C17

/-! ## 1. Both work lists terminate; loading is a total function -/

/-- `load_model` cannot hang, on any input, valid or not: `loadFull` is a total function defined without fuel — its
    two loops (`Units.loop`, `Load.connectLoop`) are well-founded recursions that Lean accepted, on the measure
    `(|deque|, |deque| + 1 − unsuccessful iterations in a row)` — so it returns a model or an error. -/
theorem load_total (fd : FaultDoc) : (∃ F, loadFull fd = .ok F) ∨ (∃ e, loadFull fd = .error e) := by
  cases h : loadFull fd with
  | ok F => exact Or.inl ⟨F, rfl⟩
  | error e => exact Or.inr ⟨e, rfl⟩

theorem load_total_sorted (doc : Doc) : (∃ F, Load.load doc = .ok F) ∨ (∃ e, Load.load doc = .error e) := by
  cases h : Load.load doc with
  | ok F => exact Or.inl ⟨F, rfl⟩
  | error e => exact Or.inr ⟨e, rfl⟩

/-- the connection work list (restated from C01) -/
theorem connect_terminates (reg : Registry) (vt : VarTable) (l : List (VRef × VRef)) :
    (∃ st, connect reg vt l = .ok st) ∨ (∃ e, connect reg vt l = .error e) :=
  Cellml.Props.C01.connect_terminates reg vt l

/-- … with a bound: the loop with an explicit budget of `stepBound n 0` iterations, `n` the number of
    `<map_variables>`, never runs out of budget and returns what the loop returns -/
theorem connect_within_budget (reg : Registry) (vt : VarTable) (l : List (VRef × VRef)) :
    connectLoopF reg vt (stepBound l.length 0) l 0 (initState vt) = some (connect reg vt l) :=
  connectLoopF_eq _ reg vt l 0 (Nat.zero_le _) (initState vt) (Nat.le_refl _)

/-- … which is `n(n+1)/2 + n + 2` -/
theorem connect_budget (n : Nat) : 2 * stepBound n 0 = n * (n + 1) + 2 * n + 4 := by
  simp only [stepBound, Nat.sub_zero, Nat.mul_add, tri_double]
  omega

/-- the unit work list (restated from C03): it agrees with the loop that stops after `stepBound` passes -/
theorem units_worklist_terminates (defs : List Units.UDef) :
    Units.addUnitsFuel 0 defs = some (Units.addUnits 0 defs) :=
  Cellml.Props.C03.worklist_terminates 0 defs

/-! ## 2. One theorem per fault class: the class anywhere in the document ⇒ an exception

    `…` about `Load.load`, `…_full` about `loadFull` (the class predicate on `fd.doc`, everything else in `fd`
    arbitrary — in particular any other fault). -/

theorem fault_rejected_missing_component (doc : Doc) (h : MissingComponent doc) : ∃ e, Load.load doc = .error e :=
  load_isErr_of_loadFrom (fun _ _ _ => missing_component_rejected h)
theorem fault_rejected_missing_component_full (fd : FaultDoc) (h : MissingComponent fd.doc) :
    ∃ e, loadFull fd = .error e := loadFull_isErr_of_loadFrom (fun _ _ _ => missing_component_rejected h)

theorem fault_rejected_missing_variable (doc : Doc) (h : MissingVariable doc) : ∃ e, Load.load doc = .error e :=
  load_isErr_of_loadFrom (fun _ _ _ => missing_variable_rejected h)
theorem fault_rejected_missing_variable_full (fd : FaultDoc) (h : MissingVariable fd.doc) :
    ∃ e, loadFull fd = .error e := loadFull_isErr_of_loadFrom (fun _ _ _ => missing_variable_rejected h)

/-- both ends sources: `out` facing `out` (siblings: both `public_interface="out"`; parent and child: the parent's
    private and the child's public interface both `out`) -/
theorem fault_rejected_both_sources (doc : Doc) (h : BothSources doc) : ∃ e, Load.load doc = .error e :=
  load_isErr_of_loadFrom (fun _ _ _ => both_sources_rejected h)
theorem fault_rejected_both_sources_full (fd : FaultDoc) (h : BothSources fd.doc) : ∃ e, loadFull fd = .error e :=
  loadFull_isErr_of_loadFrom (fun _ _ _ => both_sources_rejected h)

/-- both ends receivers: `in` facing `in` -/
theorem fault_rejected_both_receivers (doc : Doc) (h : BothReceivers doc) : ∃ e, Load.load doc = .error e :=
  load_isErr_of_loadFrom (fun _ _ _ => both_receivers_rejected h)
theorem fault_rejected_both_receivers_full (fd : FaultDoc) (h : BothReceivers fd.doc) : ∃ e, loadFull fd = .error e :=
  loadFull_isErr_of_loadFrom (fun _ _ _ => both_receivers_rejected h)

/-- no direction: one of the facing interfaces is `none` (or absent) -/
theorem fault_rejected_no_direction (doc : Doc) (h : NoDirection doc) : ∃ e, Load.load doc = .error e :=
  load_isErr_of_loadFrom (fun _ _ _ => no_direction_rejected h)
theorem fault_rejected_no_direction_full (fd : FaultDoc) (h : NoDirection fd.doc) : ∃ e, loadFull fd = .error e :=
  loadFull_isErr_of_loadFrom (fun _ _ _ => no_direction_rejected h)

/-- a connection between components that are neither siblings nor parent and child -/
theorem fault_rejected_non_adjacent (doc : Doc) (h : NonAdjacent doc) : ∃ e, Load.load doc = .error e :=
  load_isErr_of_loadFrom (fun _ _ _ => non_adjacent_rejected h)
theorem fault_rejected_non_adjacent_full (fd : FaultDoc) (h : NonAdjacent fd.doc) : ∃ e, loadFull fd = .error e :=
  loadFull_isErr_of_loadFrom (fun _ _ _ => non_adjacent_rejected h)

/-- incompatible units across a connection (relative to the units the document defines) -/
theorem fault_rejected_incompatible_units (doc : Doc)
    (h : ∀ reg ust, buildUnits doc.units (Units.builtinRegistry, { id := 0, known := [] }) = .ok (reg, ust) →
      IncompatibleUnits reg ust doc) : ∃ e, Load.load doc = .error e :=
  load_isErr_of_loadFrom (fun reg ust hb => incompatible_units_rejected (h reg ust hb))
theorem fault_rejected_incompatible_units_full (fd : FaultDoc)
    (h : ∀ reg ust, Units.addUnits 0 fd.udefs = .ok (reg, ust) → IncompatibleUnits reg ust fd.doc) :
    ∃ e, loadFull fd = .error e :=
  loadFull_isErr_of_loadFrom (fun reg ust hb => incompatible_units_rejected (h reg ust hb))

/-- a target with two sources: two `<map_variables>` directed into one variable (also the same one written twice) -/
theorem fault_rejected_two_sources (doc : Doc)
    (h : ∀ reg ust, buildUnits doc.units (Units.builtinRegistry, { id := 0, known := [] }) = .ok (reg, ust) →
      TwoSources ust doc) : ∃ e, Load.load doc = .error e :=
  load_isErr_of_loadFrom (fun reg ust hb => two_sources_rejected (h reg ust hb))
theorem fault_rejected_two_sources_full (fd : FaultDoc)
    (h : ∀ reg ust, Units.addUnits 0 fd.udefs = .ok (reg, ust) → TwoSources ust fd.doc) :
    ∃ e, loadFull fd = .error e :=
  loadFull_isErr_of_loadFrom (fun reg ust hb => two_sources_rejected (h reg ust hb))

/-- (outside the property's list) a relay nothing feeds: the work list gets stuck and the `assert` fires -/
theorem fault_rejected_unfed_relay (doc : Doc)
    (h : ∀ reg ust, buildUnits doc.units (Units.builtinRegistry, { id := 0, known := [] }) = .ok (reg, ust) →
      UnfedRelay ust doc) : ∃ e, Load.load doc = .error e :=
  load_isErr_of_loadFrom (fun reg ust hb => unfed_relay_rejected (h reg ust hb))

/-- a variable defined twice directly: two equations of one component define it -/
theorem fault_rejected_defined_twice_direct (doc : Doc) (h : DefinedTwiceDirect doc) : ∃ e, Load.load doc = .error e :=
  load_isErr_of_loadFrom (fun _ _ _ => defined_twice_direct_rejected h)
theorem fault_rejected_defined_twice_direct_full (fd : FaultDoc) (h : DefinedTwiceDirect fd.doc) :
    ∃ e, loadFull fd = .error e := loadFull_isErr_of_loadFrom (fun _ _ _ => defined_twice_direct_rejected h)

/-- a variable defined twice via its connection: both ends of a connection have an equation of their own -/
theorem fault_rejected_defined_twice_connected (doc : Doc) (h : DefinedTwiceConnected doc) :
    ∃ e, Load.load doc = .error e := load_isErr_of_loadFrom (fun _ _ _ => defined_twice_connected_rejected h)
theorem fault_rejected_defined_twice_connected_full (fd : FaultDoc) (h : DefinedTwiceConnected fd.doc) :
    ∃ e, loadFull fd = .error e := loadFull_isErr_of_loadFrom (fun _ _ _ => defined_twice_connected_rejected h)

/-- PARTIAL (documents without ODEs): a variable with an `initial_value` and an equation `x = …` -/
theorem fault_rejected_init_and_equation_partial (doc : Doc) (hno : NoOde doc) (h : InitAndEquation doc) :
    ∃ e, Load.load doc = .error e := load_isErr_of_loadFrom (fun _ _ _ => init_and_equation_rejected_partial hno h)
theorem fault_rejected_init_and_equation_full_partial (fd : FaultDoc) (hno : NoOde fd.doc) (h : InitAndEquation fd.doc) :
    ∃ e, loadFull fd = .error e := loadFull_isErr_of_loadFrom (fun _ _ _ => init_and_equation_rejected_partial hno h)

theorem fault_rejected_undefined_identifier (doc : Doc) (h : UndefinedIdentifier doc) : ∃ e, Load.load doc = .error e :=
  load_isErr_of_loadFrom (fun _ _ _ => undefined_identifier_rejected h)
theorem fault_rejected_undefined_identifier_full (fd : FaultDoc) (h : UndefinedIdentifier fd.doc) :
    ∃ e, loadFull fd = .error e := loadFull_isErr_of_loadFrom (fun _ _ _ => undefined_identifier_rejected h)

/-- an undefined unit: a variable or a number with a unit name that is neither built in nor defined by the document -/
theorem fault_rejected_undefined_unit (doc : Doc) (h : UndefinedUnitName (doc.units.map UnitDecl.name) doc) :
    ∃ e, Load.load doc = .error e :=
  load_isErr_of_loadFrom (fun reg ust hb => undefined_unit_rejected (undefinedUnit_of_name (fun n hn => by
    rcases buildUnits_known _ _ _ hb n hn with h' | h'
    · simp at h'
    · exact h') h))
theorem fault_rejected_undefined_unit_full (fd : FaultDoc) (h : UndefinedUnitName (fd.udefs.map (·.name)) fd.doc) :
    ∃ e, loadFull fd = .error e :=
  loadFull_isErr_of_loadFrom (fun _ _ hb => undefined_unit_rejected (undefinedUnit_of_name (addUnits_known hb) h))

theorem fault_rejected_duplicate_component (doc : Doc) (h : DuplicateComponent doc) : ∃ e, Load.load doc = .error e :=
  load_isErr_of_loadFrom (fun _ _ _ => duplicate_component_rejected h)
theorem fault_rejected_duplicate_component_full (fd : FaultDoc) (h : DuplicateComponent fd.doc) :
    ∃ e, loadFull fd = .error e := loadFull_isErr_of_loadFrom (fun _ _ _ => duplicate_component_rejected h)

/-! ### classes only the full loader sees -/

/-- non-variable left-hand side (`x + 1 = …`, `3 = x`, `−x = …`) -/
theorem fault_rejected_nonvariable_lhs (fd : FaultDoc) (h : NonVariableLhs fd) : ∃ e, loadFull fd = .error e :=
  nonvariable_lhs_rejected h
/-- second or higher derivative on the left-hand side -/
theorem fault_rejected_higher_order_lhs (fd : FaultDoc) (h : HigherOrderLhs fd) : ∃ e, loadFull fd = .error e :=
  higher_order_lhs_rejected h
/-- units defined inside a component (unsupported feature) -/
theorem fault_rejected_component_units (fd : FaultDoc) (h : HasComponentUnits fd) : ∃ e, loadFull fd = .error e :=
  component_units_rejected h
/-- reactions (unsupported feature) -/
theorem fault_rejected_reaction (fd : FaultDoc) (h : HasReaction fd) : ∃ e, loadFull fd = .error e :=
  reaction_rejected h
/-- the two schema rules on variables that are modelled -/
theorem fault_rejected_schema_variable (fd : FaultDoc) (h : SchemaViolation fd) : ∃ e, loadFull fd = .error e :=
  schema_violation_rejected h

/-! ### unit definitions (through the work list of C03) -/

theorem fault_rejected_units_duplicate (fd : FaultDoc) (h : ¬ (fd.udefs.map (·.name)).Nodup) :
    ∃ e, loadFull fd = .error e := loadFull_isErr_of_units (Cellml.Props.C03.reject_duplicate 0 fd.udefs h)

theorem fault_rejected_units_builtin_override (fd : FaultDoc) (d : Units.UDef) (hd : d ∈ fd.udefs)
    (h : Cellml.Gen.cellmlUnits.contains d.name = true) : ∃ e, loadFull fd = .error e :=
  loadFull_isErr_of_units (Cellml.Props.C03.reject_builtin_override 0 fd.udefs d hd h)

/-- non-zero offset (unsupported feature). `hden`: the offset is not one of the numbers below `2^-1075` that python's
    `float` reads as zero (every decimal with at most 323 digits after the point satisfies it); the test of the source
    is `float(offset) != 0` (`Units.offsetRejected`, exact: `Cellml.Props.C03.offset_test_exact`) -/
theorem fault_rejected_units_offset (fd : FaultDoc) (d : Units.UDef) (hd : d ∈ fd.udefs) (hb : d.base = false)
    (e : Units.UnitElem) (he : e ∈ d.elems) (o : String) (ho : e.offset = some o) (q : Rat)
    (hq : Decimal.parse o = some q) (hne : q ≠ 0) (hden : q.den < 2 ^ 1075) : ∃ err, loadFull fd = .error err :=
  loadFull_isErr_of_units (Cellml.Props.C03.reject_nonzero_offset_of_ne 0 fd.udefs d hd hb e he o ho q hq hne hden)

/-- an offset that is not a number at all (`float` raises), `nan`, `inf` -/
theorem fault_rejected_units_offset_text (fd : FaultDoc) (d : Units.UDef) (hd : d ∈ fd.udefs) (hb : d.base = false)
    (e : Units.UnitElem) (he : e ∈ d.elems) (o : String) (ho : e.offset = some o)
    (hbad : Units.offsetRejected o = true) : ∃ err, loadFull fd = .error err :=
  loadFull_isErr_of_units (Cellml.Props.C03.reject_offset 0 fd.udefs d hd hb e he o ho hbad)

/-- dangling reference: a `<unit>` refers to a name that is neither built in nor defined -/
theorem fault_rejected_units_dangling (fd : FaultDoc) (d : Units.UDef) (hd : d ∈ fd.udefs) (hb : d.base = false)
    (e : Units.UnitElem) (he : e ∈ d.elems) (h1 : Cellml.Gen.cellmlUnits.contains e.units = false)
    (h2 : e.units ∉ fd.udefs.map (·.name)) : ∃ err, loadFull fd = .error err :=
  loadFull_isErr_of_units (Cellml.Props.C03.reject_dangling 0 fd.udefs d hd hb e he h1 h2)

/-- cyclic definitions: a non-empty group of definitions each referring to a member of the group -/
theorem fault_rejected_units_cycle (fd : FaultDoc) (cyc : List Units.UDef) (hne : cyc ≠ [])
    (h : ∀ d ∈ cyc, d ∈ fd.udefs ∧ d.base = false ∧ ∃ e ∈ d.elems, ∃ d' ∈ cyc, e.units = d'.name) :
    ∃ err, loadFull fd = .error err :=
  loadFull_isErr_of_units (Cellml.Props.C03.reject_cycle 0 fd.udefs cyc hne h)

/-! ## 3. Non-vacuity: a valid document is loaded by both loaders; one concrete faulty document per class

    The base document is C01's relay `membrane ⊃ channel ⊃ gate` (mV → volt → mV). `variant` rebuilds it with a few
    places left open; every faulty document below differs from it in one or two of them. -/

open Cellml.Props.C01 (relayDoc relayUnits relayL relay_load)

def variant (gv : VarDecl) (chanPriv : Iface) (gateEqs chanEqs : List (Eqn String String)) (conns : List Conn)
    (names : List String := ["gate", "channel", "membrane"]) : Doc :=
  { units := relayDoc.units
    comps := [⟨names[0]!, [gv, ⟨"y", "mV", .none, .none, none, none⟩], gateEqs⟩,
              ⟨names[1]!, [⟨"V", "volt", .inn, chanPriv, none, none⟩], chanEqs⟩,
              ⟨names[2]!, [⟨"V", "mV", .none, .out, none, none⟩], [⟨.var "V", .add (.num 2 "mV") (.num (1/2) "volt")⟩]⟩]
    encaps := relayDoc.encaps
    conns := conns }

def gateV (pub : Iface) (units : String := "mV") : VarDecl := ⟨"v", units, pub, .none, none, none⟩
def yEq : Eqn String String := ⟨.var "y", .add (.var "v") (.num 1 "mV")⟩
def k1 : Conn := ⟨"gate", "v", "channel", "V"⟩
def k2 : Conn := ⟨"channel", "V", "membrane", "V"⟩
def mVdef : Units.UDef := ⟨"mV", false, [{ units := "volt", pfx := some "milli" }]⟩

example : variant (gateV .inn) .out [yEq] [] [k1, k2] = relayDoc := rfl

theorem relay_buildUnits :
    buildUnits relayDoc.units (Units.builtinRegistry, { id := 0, known := [] }) = .ok relayUnits := by decide +kernel

theorem relay_addUnits : Units.addUnits 0 [mVdef] = .ok relayUnits := by
  have h : unitsVia [mVdef] = some relayUnits := by decide +kernel
  unfold unitsVia at h
  rw [units_worklist_terminates] at h
  split at h
  · rename_i p hp
    simp only [Option.some.injEq] at hp h
    rw [hp, h]
  · cases h

/-- the VALID document is loaded by `loadFull` (unit work list included), to the same flat model as by `Load.load` -/
theorem relay_loadFull : loadFull { doc := relayDoc, udefs := [mVdef] } = .ok (relayL.flat relayDoc) := by
  have hu : Units.addUnits 0 [mVdef] = .ok (relayUnits.1, relayUnits.2) := by rw [Prod.eta]; exact relay_addUnits
  rw [loadFull_clean (reg := relayUnits.1) (ust := relayUnits.2) (by decide +kernel) rfl hu rfl rfl]
  have := load_eq relayDoc
  rw [relay_buildUnits] at this
  -- (no unfolding of `relayUnits`: the pair is taken apart abstractly)
  generalize relayUnits = p at this ⊢
  obtain ⟨reg, ust⟩ := p
  exact this.symm.trans relay_load

/-- every variant below has the same units, so the hypotheses "for the units the document defines" are about
    `relayUnits` -/
theorem variant_units {P : Registry → Units.Store → Prop} (h : P relayUnits.1 relayUnits.2) (reg : Registry)
    (ust : Units.Store)
    (hb : buildUnits relayDoc.units (Units.builtinRegistry, { id := 0, known := [] }) = .ok (reg, ust)) : P reg ust := by
  rw [relay_buildUnits] at hb
  simp only [Except.ok.injEq] at hb
  rw [hb] at h; exact h

/-- missing component -/
example : ∃ e, Load.load (variant (gateV .inn) .out [yEq] [] [k1, k2, ⟨"gate", "y", "nosuchcomp", "V"⟩]) = .error e :=
  fault_rejected_missing_component _ (by decide +kernel)
/-- missing variable -/
example : ∃ e, Load.load (variant (gateV .inn) .out [yEq] [] [⟨"gate", "nosuchvar", "channel", "V"⟩, k2]) = .error e :=
  fault_rejected_missing_variable _ (by decide +kernel)
/-- both sources: gate.v made `out`, facing channel.V's private `out` -/
example : ∃ e, Load.load (variant (gateV .out) .out [yEq] [] [k1, k2]) = .error e :=
  fault_rejected_both_sources _ (connHas_of_b (fun f => f == some (.out, .out)) (fun f h => by simpa using h)
    (by decide +kernel))
/-- both receivers: channel.V's private interface made `in`, facing gate.v's public `in` (this document also breaks
    the schema rule "not both interfaces in": two faults, both theorems apply) -/
example : ∃ e, Load.load (variant (gateV .inn) .inn [yEq] [] [k1, k2]) = .error e :=
  fault_rejected_both_receivers _ (connHas_of_b (fun f => f == some (.inn, .inn)) (fun f h => by simpa using h)
    (by decide +kernel))
example : ∃ e, loadFull { doc := variant (gateV .inn) .inn [yEq] [] [k1, k2], udefs := [mVdef] } = .error e :=
  fault_rejected_schema_variable _ (by decide +kernel)
/-- no direction: gate.v without public interface -/
example : ∃ e, Load.load (variant (gateV .none) .out [yEq] [] [k1, k2]) = .error e :=
  fault_rejected_no_direction _ (connHas_of_b (fun f => match f with
      | some (a, b) => a == .none || b == .none
      | none => false)
    (fun f h => by
      match f, h with
      | some (a, b), h => exact ⟨a, b, rfl, by simpa using h⟩)
    (by decide +kernel))
/-- non-adjacent: gate connected to its grandparent membrane (in either attribute order) -/
example : ∃ e, Load.load (variant (gateV .inn) .out [yEq] [] [⟨"gate", "v", "membrane", "V"⟩, k2]) = .error e :=
  fault_rejected_non_adjacent _ (connHas_of_b (fun f => f == none) (fun f h => by simpa using h) (by decide +kernel))
example : ∃ e, Load.load (variant (gateV .inn) .out [yEq] [] [⟨"membrane", "V", "gate", "v"⟩, k2]) = .error e :=
  fault_rejected_non_adjacent _ (connHas_of_b (fun f => f == none) (fun f h => by simpa using h) (by decide +kernel))
/-- incompatible units: gate.v in seconds, connected to channel.V in volts -/
example : ∃ e, Load.load (variant (gateV .inn "second") .out [yEq] [] [k1, k2]) = .error e :=
  fault_rejected_incompatible_units _ (variant_units (P := fun reg ust => IncompatibleUnits reg ust _)
    ⟨k1, by simp [variant], not_ok_of (by decide +kernel), not_ok_of (by decide +kernel)⟩)
/-- two sources: the same `<map_variables>` written twice -/
example : ∃ e, Load.load (variant (gateV .inn) .out [yEq] [] [k1, k2, k1]) = .error e :=
  fault_rejected_two_sources _ (variant_units (P := fun _ ust => TwoSources ust _)
    ⟨0, 2, by decide, k1, k1, rfl, rfl, ("channel", "V"), ("channel", "V"), ("gate", "v"),
      by decide +kernel, by decide +kernel⟩)
/-- defined twice directly: gate has two equations for y -/
example : ∃ e, Load.load (variant (gateV .inn) .out [yEq, yEq] [] [k1, k2]) = .error e :=
  fault_rejected_defined_twice_direct _ (by decide +kernel)
/-- defined twice via the connection: channel.V (fed by membrane.V, which has an equation) gets an equation too -/
example : ∃ e, Load.load (variant (gateV .inn) .out [yEq] [⟨.var "V", .num 3 "volt"⟩] [k1, k2]) = .error e :=
  fault_rejected_defined_twice_connected _ (by decide +kernel)
/-- initial value and equation: y = 1.5 initially and y = v + 1 mV -/
example : ∃ e, Load.load { relayDoc with comps := [
      ⟨"gate", [gateV .inn, ⟨"y", "mV", .none, .none, some (3/2), none⟩], [yEq]⟩,
      ⟨"channel", [⟨"V", "volt", .inn, .out, none, none⟩], []⟩,
      ⟨"membrane", [⟨"V", "mV", .none, .out, none, none⟩], [⟨.var "V", .num 2 "mV"⟩]⟩] } = .error e :=
  fault_rejected_init_and_equation_partial _ (by unfold NoOde; decide +kernel)
    ⟨_, List.mem_cons_self, yEq, List.mem_cons_self, "y", rfl, ⟨"y", "mV", .none, .none, some (3/2), none⟩,
      by decide +kernel, rfl, by decide, by decide⟩
/-- undefined identifier -/
example : ∃ e, Load.load (variant (gateV .inn) .out [⟨.var "y", .add (.var "nosuchvar") (.num 1 "mV")⟩] [] [k1, k2])
    = .error e := fault_rejected_undefined_identifier _ (by decide +kernel)
/-- undefined unit, on a variable and on a number -/
example : ∃ e, Load.load (variant (gateV .inn "nosuchunit") .out [yEq] [] [k1, k2]) = .error e :=
  fault_rejected_undefined_unit _ (by decide +kernel)
example : ∃ e, Load.load (variant (gateV .inn) .out [⟨.var "y", .add (.var "v") (.num 1 "nosuchunit")⟩] [] [k1, k2])
    = .error e := fault_rejected_undefined_unit _ (by decide +kernel)
/-- duplicate component -/
example : ∃ e, Load.load (variant (gateV .inn) .out [yEq] [] [k1, k2] ["gate", "channel", "gate"]) = .error e :=
  fault_rejected_duplicate_component _ (by decide +kernel)

/-- two faults at once (an undefined identifier and a missing component): the theorem of either class applies -/
example : let d := variant (gateV .inn) .out [⟨.var "y", .var "nosuchvar"⟩] [] [k1, k2, ⟨"gate", "y", "nosuchcomp", "V"⟩]
    UndefinedIdentifier d ∧ MissingComponent d ∧ ∃ e, Load.load d = .error e :=
  ⟨by decide +kernel, by decide +kernel, fault_rejected_missing_component _ (by decide +kernel)⟩

/-! ### the classes of the full loader, on the valid document plus the feature -/

def relayFd : FaultDoc := { doc := relayDoc, udefs := [mVdef] }

example : ∃ e, loadFull { relayFd with badEqs := [⟨0, 1, .nonvar (.add (.var "y") (.num 1 "mV")), .num 3 "mV"⟩] }
    = .error e :=
  fault_rejected_nonvariable_lhs _ ⟨_, List.mem_cons_self, _, rfl⟩
example : ∃ e, loadFull { relayFd with badEqs := [⟨0, 0, .higher "y" "v" 2, .num 3 "mV"⟩] } = .error e := fault_rejected_higher_order_lhs _ ⟨_, List.mem_cons_self, _, _, _, rfl, by decide⟩
example : ∃ e, loadFull { doc := relayDoc, udefs := [mVdef], compUnits := [1] } = .error e :=
  fault_rejected_component_units _ (by simp [HasComponentUnits])
example : ∃ e, loadFull { doc := relayDoc, udefs := [mVdef], reactions := [2] } = .error e :=
  fault_rejected_reaction _ (by decide +kernel)
example : ∃ e, loadFull { doc := relayDoc, udefs := [mVdef, mVdef] } = .error e :=
  fault_rejected_units_duplicate _ (by decide +kernel)
example : ∃ e, loadFull { doc := relayDoc, udefs := [mVdef, ⟨"volt", true, []⟩] } = .error e :=
  fault_rejected_units_builtin_override _ ⟨"volt", true, []⟩ (by simp) (by decide +kernel)
example : ∃ e, loadFull { doc := relayDoc, udefs := [mVdef, ⟨"degC", false, [{ units := "kelvin", offset := some "273.15" }]⟩] }
    = .error e :=
  fault_rejected_units_offset _ ⟨"degC", false, [{ units := "kelvin", offset := some "273.15" }]⟩ (by simp) rfl
    { units := "kelvin", offset := some "273.15" } (by simp) "273.15" rfl (5463/20) (by decide +kernel) (by decide +kernel)
    (by decide +kernel)
/-- the seeded slip `int(float(offset)) != 0` would accept this one -/
example : ∃ e, loadFull { doc := relayDoc, udefs := [mVdef, ⟨"degH", false, [{ units := "kelvin", offset := some "0.5" }]⟩] }
    = .error e :=
  fault_rejected_units_offset _ ⟨"degH", false, [{ units := "kelvin", offset := some "0.5" }]⟩ (by simp) rfl
    { units := "kelvin", offset := some "0.5" } (by simp) "0.5" rfl (1/2) (by decide +kernel) (by decide +kernel)
    (by decide +kernel)
example : ∃ e, loadFull { doc := relayDoc, udefs := [⟨"x", false, [{ units := "nowhere" }]⟩, mVdef] } = .error e :=
  fault_rejected_units_dangling _ ⟨"x", false, [{ units := "nowhere" }]⟩ (by simp) rfl { units := "nowhere" } (by simp)
    (by decide +kernel) (by decide +kernel)
example : ∃ e, loadFull { doc := relayDoc, udefs := [mVdef, ⟨"p", false, [{ units := "q" }]⟩, ⟨"q", false, [{ units := "p" }]⟩] }
    = .error e :=
  fault_rejected_units_cycle _ [⟨"p", false, [{ units := "q" }]⟩, ⟨"q", false, [{ units := "p" }]⟩] (by decide)
    (by decide +kernel)
/-- a fault of the base document is refused by the full loader as well, whatever else the document contains -/
example : ∃ e, loadFull { doc := variant (gateV .out) .out [yEq] [] [k1, k2], udefs := [mVdef], reactions := [0] }
    = .error e :=
  fault_rejected_both_sources_full _ (connHas_of_b (fun f => f == some (.out, .out)) (fun f h => by simpa using h)
    (by decide +kernel))

end Cellml.Props.C17
