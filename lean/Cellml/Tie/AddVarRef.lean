import Cellml.Tie.AddVars
import Cellml.Tie.ModelState
import Cellml.Tie.Cmeta

/-! # Simulation: the leaf `modelAddVariable` of the generated `_add_variables` (on the loader's record `CompsState`)
      against the GENERATED `Model.add_variable` (`Gen.ModelState.addVariable`, on the model object `Model.MState`)

    `R flat D cs ms`: the loader's record `cs` and the model object `ms` describe the same variables. The two
    `add_variable`s take the same decision on related states (`modelAddVariable_sim`), and running the generated
    `_add_variables` keeps the relation (`genAddVariables_refines`). -/

set_option linter.unusedSimpArgs false
set_option linter.unusedVariables false

namespace Cellml.Tie.PAddVarRef
open Load Cellml.Tie Cellml.Gen Cellml.Tie.PAddVars Cellml.Tie.PModelState PyM Cellml.Tie.Py

/-! ## the flat name -/

/-- `component_name + SYMPY_SYMBOL_DELIMITER + variable_name`: the string python uses as the key of
    `_name_to_variable` -/
def flatName (r : VRef) : String := r.1 ++ "$" ++ r.2

/-- the numbering of the loader's variables is by the string `flat r`; all that is used of it -/
def FlatInjOn (D : VRef → Prop) (flat : VRef → String) : Prop := ∀ a b : VRef, D a → D b → flat a = flat b → a = b

theorem split_at_delim {α} (d : α) : ∀ (a a' b b' : List α), d ∉ a → d ∉ a' → a ++ d :: b = a' ++ d :: b' →
    a = a' ∧ b = b'
  | [], [], b, b', _, _, h => by
    simp only [List.nil_append, List.cons.injEq, true_and] at h
    exact ⟨rfl, h⟩
  | [], y :: a', b, b', _, h2, h => by
    simp only [List.nil_append, List.cons_append, List.cons.injEq] at h
    exact absurd (h.1 ▸ List.mem_cons_self) h2
  | x :: a, [], b, b', h1, _, h => by
    simp only [List.nil_append, List.cons_append, List.cons.injEq] at h
    exact absurd (h.1 ▸ List.mem_cons_self) h1
  | x :: a, y :: a', b, b', h1, h2, h => by
    simp only [List.cons_append, List.cons.injEq] at h
    obtain ⟨e1, e2⟩ := split_at_delim d a a' b b' (fun m => h1 (List.mem_cons_of_mem _ m))
      (fun m => h2 (List.mem_cons_of_mem _ m)) h.2
    exact ⟨by rw [h.1, e1], e2⟩

/-- the flat names of python are injective on the pairs whose COMPONENT name has no `$` (the RELAX NG schema of
    `Parser.parse` admits no `$` in any name) -/
theorem flatName_inj (a b : VRef) (ha : '$' ∉ a.1.toList) (hb : '$' ∉ b.1.toList) (h : flatName a = flatName b) :
    a = b := by
  obtain ⟨a1, a2⟩ := a
  obtain ⟨b1, b2⟩ := b
  have h' : (a1 ++ "$" ++ a2).toList = (b1 ++ "$" ++ b2).toList := congrArg String.toList h
  simp only [String.toList_append, List.append_assoc] at h'
  have hd : "$".toList = ['$'] := rfl
  rw [hd] at h'
  obtain ⟨e1, e2⟩ := split_at_delim '$' _ _ _ _ ha hb h'
  have e1' : a1.toList = b1.toList := e1
  have e2' : a2.toList = b2.toList := e2
  rw [String.toList_inj.mp e1', String.toList_inj.mp e2']

/-! ## the relation -/

/-- what the model object keeps of the `Variable` with identity number `i`: name, cmeta id, initial value -/
def varFacts (ms : Model.MState) (i : Nat) : Option (String × Option String × Option Rat) :=
  (ms.heap[i]?).map (fun v => (v.name, v.cmeta, v.init))

/-- **the loader's record and the model object describe the same variables**: the model object satisfies the
    invariant of `Props/C08.lean`; a flat name is in the loader's name list exactly when it is a key of
    `_name_to_variable`; a cmeta id is in the loader's id list exactly when `has_cmeta_id` says so (the model's own id
    included); the variables of `_name_to_variable`, in insertion order, are the rows of the loader's table in order
    (name, cmeta id, initial value). -/
structure R (flat : VRef → String) (D : VRef → Prop) (cs : CompsState) (ms : Model.MState) : Prop where
  inv : Model.Inv ms
  names : ∀ r, D r → cs.acc.1.contains r = nameHas ms (flat r)
  cmeta : ∀ id, cs.acc.2.contains id = Model.hasCmetaId ms id
  vars : ms.live.map (varFacts ms) = cs.vt.map (fun p => some (flat p.1, p.2.cmeta, p.2.init))

/-- **the start of the loader** (`Model(name, cmeta_id)`, no variable yet; `Load.checkComps` starts from
    `([], doc.cmeta.toList)`) -/
theorem R_init (flat : VRef → String) (D : VRef → Prop) (comps : List String) (mc : Option String) :
    R flat D ⟨comps, ([], mc.toList), []⟩ (Model.init mc) := by
  refine ⟨Model.inv_init mc, fun r _ => rfl, fun id => ?_, rfl⟩
  cases mc with
  | none => rfl
  | some c =>
    simp only [Model.hasCmetaId, Model.init, Model.hasKey, List.any_nil, Bool.or_false, Option.toList,
      List.contains_cons, List.contains_nil]
    by_cases h : id = c
    · subst h; simp
    · have : ¬ c = id := fun e => h e.symm
      have e1 : (id == c) = false := beq_eq_false_iff_ne.mpr h
      have e2 : (some c == some id) = false := beq_eq_false_iff_ne.mpr (fun q => this (Option.some.inj q))
      rw [e1, e2]

/-! ## one `add_variable` on the model object -/

theorem any_congr_mem {α} (f g : α → Bool) : ∀ l : List α, (∀ i ∈ l, f i = g i) → l.any f = l.any g
  | [], _ => rfl
  | a :: l, h => by
    simp only [List.any_cons]
    rw [h a List.mem_cons_self, any_congr_mem f g l (fun i hi => h i (List.mem_cons_of_mem _ hi))]

theorem hasKeyS_insertKey {β : Type} (n k : String) (v : β) : ∀ (l : List (String × β)),
    Model.hasKey n (Model.insertKey k v l) = (n == k || Model.hasKey n l)
  | [] => by
    simp only [Model.insertKey, Model.hasKey, List.any_cons, List.any_nil, Bool.or_false]
    by_cases h : n = k
    · subst h; simp
    · have h' : ¬ k = n := fun e => h e.symm
      simp [h, h']
  | (k', v') :: l => by
    have ih := hasKeyS_insertKey n k v l
    simp only [Model.insertKey]
    by_cases h : k' = k
    · subst h
      simp only [if_true, Model.hasKey, List.any_cons]
      by_cases h' : n = k'
      · subst h'; simp
      · have h'' : ¬ k' = n := fun e => h' e.symm
        simp [h', h'']
    · simp only [if_neg h, Model.hasKey, List.any_cons] at ih ⊢
      rw [ih]
      cases decide (k' = n) <;> cases (n == k) <;> simp

/-- the model object after a successful `add_variable` -/
def succState (ms : Model.MState) (name : String) (cm : Option String) (init : Option Rat) : Model.MState :=
  Model.invalidate { ms with heap := ms.heap ++ [⟨name, ms.nextOrder, cm, init, none⟩],
                             live := ms.live ++ [ms.heap.length],
                             nextOrder := ms.nextOrder + 1,
                             cmetaMap := Model.registerCmeta cm ms.heap.length ms.cmetaMap }

theorem nameOfVar_succ_old (ms : Model.MState) (name cm init) (i : Nat) (hi : i < ms.heap.length) :
    Model.nameOfVar (succState ms name cm init) i = Model.nameOfVar ms i :=
  Model.nameOfVar_append_left ms _ i hi

theorem nameOfVar_succ_new (ms : Model.MState) (name cm init) :
    Model.nameOfVar (succState ms name cm init) ms.heap.length = name := by
  simp [succState, Model.invalidate, Model.nameOfVar, Model.nameOf, Model.names]

theorem nameHas_succ (ms : Model.MState) (name cm init) (hb : ∀ i ∈ ms.live, i < ms.heap.length) (s : String) :
    nameHas (succState ms name cm init) s = (nameHas ms s || (name == s)) := by
  unfold nameHas
  have hl : (succState ms name cm init).live = ms.live ++ [ms.heap.length] := rfl
  rw [hl, List.any_append]
  congr 1
  · exact any_congr_mem _ _ _ (fun i hi => by rw [nameOfVar_succ_old ms name cm init i (hb i hi)])
  · simp only [List.any_cons, List.any_nil, Bool.or_false, nameOfVar_succ_new]

theorem varFacts_succ_old (ms : Model.MState) (name cm init) (i : Nat) (hi : i < ms.heap.length) :
    varFacts (succState ms name cm init) i = varFacts ms i := by
  simp only [varFacts, succState, Model.invalidate, List.getElem?_append_left hi]

theorem varFacts_succ_new (ms : Model.MState) (name cm init) :
    varFacts (succState ms name cm init) ms.heap.length = some (name, cm, init) := by
  simp [varFacts, succState, Model.invalidate]

theorem hasCmetaId_succ (ms : Model.MState) (name cm init) (id : String) :
    Model.hasCmetaId (succState ms name cm init) id =
      ((match cm with | some c => id == c | none => false) || Model.hasCmetaId ms id) := by
  cases cm with
  | none => simp [Model.hasCmetaId, succState, Model.invalidate, Model.registerCmeta]
  | some c =>
    simp only [Model.hasCmetaId, succState, Model.invalidate, Model.registerCmeta, hasKeyS_insertKey]
    cases (ms.modelCmeta == some id) <;> cases (id == c) <;> simp

/-- the decision of the hand model's `add_variable`, read on the loader's record -/
theorem modelAdd_decision {flat : VRef → String} {D : VRef → Prop} {cs : CompsState} {ms : Model.MState} (h : R flat D cs ms)
    (r : VRef) (hr : D r) (cm : Option String) (init : Option Rat) :
    Model.addVariable ms (flat r) cm init =
      if cs.acc.1.contains r then (ms, .raised .valueError)
      else if (match cm with | some id => cs.acc.2.contains id | none => false) then (ms, .raised .valueError)
      else (succState ms (flat r) cm init, .ok) := by
  have hn : ms.live.any (fun i => Model.nameOfVar ms i == flat r) = cs.acc.1.contains r := (h.names r hr).symm
  have hc : Model.cmetaTaken ms cm = (match cm with | some id => cs.acc.2.contains id | none => false) := by
    cases cm with
    | none => rfl
    | some id => exact (h.cmeta id).symm
  unfold Model.addVariable
  rw [hn, hc]
  rfl

/-- **the GENERATED `Model.add_variable` on a model object related to the loader's record**, called with a flat name
    and a `Unit` object: ValueError (object untouched) when the loader's name list has the name; ValueError (object
    untouched) when the loader's id list has the cmeta id (the model's own id is in that list); otherwise it returns
    the new identity number and the object is `succState` -/
theorem genAddVariable_run {flat : VRef → String} {D : VRef → Prop} {cs : CompsState} {ms : Model.MState} (h : R flat D cs ms)
    (r : VRef) (hr : D r) (cm : Option String) (init : Option Rat) (pub priv : Option String) :
    (ModelState.addVariable (flat r) .unit init pub priv cm).run ms =
      if cs.acc.1.contains r then (.error ⟨"ValueError"⟩, ms)
      else if (match cm with | some id => cs.acc.2.contains id | none => false) then (.error ⟨"ValueError"⟩, ms)
      else (.ok ms.heap.length, succState ms (flat r) cm init) := by
  rw [addVariable_tie_of_inv ms h.inv (flat r) .unit init pub priv cm (by intro e; cases e)]
  show outcome _ (Model.addVariable ms (flat r) cm init) = _
  rw [modelAdd_decision h r hr]
  split_ifs <;> rfl

/-- **the relation survives a successful `add_variable`** -/
theorem R_step {flat : VRef → String} {D : VRef → Prop} (hinj : FlatInjOn D flat) {cs : CompsState}
    {ms : Model.MState} (h : R flat D cs ms)
    (r : VRef) (hr : D r) (info : VarInfo) (h1 : cs.acc.1.contains r = false)
    (h2 : (match info.cmeta with | some id => cs.acc.2.contains id | none => false) = false) :
    R flat D
      { cs with
        acc := (r :: cs.acc.1, match info.cmeta with | some id => id :: cs.acc.2 | none => cs.acc.2)
        vt := cs.vt ++ [(r, info)] }
      (succState ms (flat r) info.cmeta info.init) := by
  have hb := h.inv.reg.liveBound
  refine ⟨?_, ?_, ?_, ?_⟩
  · have hi := Model.inv_addVariable h.inv (flat r) info.cmeta info.init
    rw [modelAdd_decision h r hr, h1, h2] at hi
    exact hi
  · intro r' hr'
    simp only [List.contains_cons]
    rw [nameHas_succ ms _ _ _ hb, ← h.names r' hr', Bool.or_comm]
    congr 1
    by_cases e : r' = r
    · subst e; simp
    · have e' : ¬ flat r = flat r' := fun q => e (hinj _ _ hr hr' q).symm
      rw [beq_eq_false_iff_ne.mpr e, beq_eq_false_iff_ne.mpr e']
  · intro id
    rw [hasCmetaId_succ, ← h.cmeta id]
    cases info.cmeta with
    | none => rfl
    | some c =>
      show (c :: cs.acc.2).contains id = ((id == c) || cs.acc.2.contains id)
      rw [List.contains_cons]
  · have hl : (succState ms (flat r) info.cmeta info.init).live = ms.live ++ [ms.heap.length] := rfl
    rw [hl, List.map_append, List.map_append, ← h.vars]
    congr 1
    · exact List.map_congr_left (fun i hi => varFacts_succ_old ms _ _ _ i (hb i hi))
    · simp only [List.map_cons, List.map_nil, varFacts_succ_new]

/-! ## the leaf of `_add_variables` against the generated `Model.add_variable` -/

/-- `cmeta_id=` as `add_variable` receives it from the dict -/
def cmetaArg (attrs : Attrs) : Option String :=
  match attrs.lookup "cmeta_id" with | some (.str id) => some id | _ => none

/-- `initial_value=` after `float(...)` -/
def initArg (attrs : Attrs) : Option Rat :=
  match attrs.lookup "initial_value" with | some (.floatText (some q)) => some q | _ => none

/-- **the domain**: the keyword dicts `_add_variables` can pass to `add_variable` whose `initial_value` (when present)
    is a float literal: only parameters of `add_variable` as keys; `name` the flat name of the pair `r`
    (`component$name`); `units` a `Unit` object of the store (name `n`, container `c`). An `initial_value` that is not
    a float literal is outside: `float()` raises inside `Variable.__init__`, which `Model.MState` does not model. -/
structure Dom (attrs : Attrs) (r : VRef) (n : String) (c : Container) : Prop where
  kwargs : attrs.any (fun p => !kwargNames.contains p.1) = false
  name : attrs.lookup "name" = some (.ref r)
  units : attrs.lookup "units" = some (.unit n c)
  init : attrs.lookup "initial_value" ≠ some (.floatText none)

/-- the leaf on the domain: the two checks, then the record -/
theorem modelAddVariable_dom (self : CompsView) (cs : CompsState) {attrs : Attrs} {r : VRef} {n : String}
    {c : Container} (hd : Dom attrs r n c) :
    modelAddVariable self cs attrs =
      if cs.acc.1.contains r then .error ⟨"ValueError"⟩
      else if (match cmetaArg attrs with | some id => cs.acc.2.contains id | none => false) then
        .error ⟨"ValueError"⟩
      else .ok (r, { cs with
        acc := (r :: cs.acc.1, match cmetaArg attrs with | some id => id :: cs.acc.2 | none => cs.acc.2),
        vt := cs.vt ++ [(r, ⟨c, ifaceArg attrs "public_interface", ifaceArg attrs "private_interface",
                             initArg attrs, cmetaArg attrs, n⟩)] }) := by
  have hi := hd.init
  unfold modelAddVariable cmetaArg initArg
  simp only [hd.kwargs, hd.name, hd.units, Bool.false_eq_true, if_false]
  rcases hiv : attrs.lookup "initial_value" with _ | (s | (_ | q) | r' | ⟨n', c'⟩) <;> simp only [] <;>
    first
    | exact absurd hiv hi
    | (split_ifs <;> first | rfl | contradiction)

/-- how the two runs compare: same exception and the model object untouched, or related successor states and the
    returned `Variable`s are the same one (the returned number is the identity of the variable called `flat r`, the
    newest entry of `_name_to_variable`) -/
def Agree (flat : VRef → String) (D : VRef → Prop) (ms : Model.MState) :
    Except PyErr (VRef × CompsState) → Except PyErr Nat × Model.MState → Prop
  | .error e1, (.error e2, ms') => e1 = e2 ∧ e1 = ⟨"ValueError"⟩ ∧ ms' = ms
  | .ok (r, cs'), (.ok id, ms') => R flat D cs' ms' ∧ Model.nameOfVar ms' id = flat r ∧ ms'.live = ms.live ++ [id]
  | _, _ => False

/-- **SIMULATION, one call**: on related states and for every keyword dict of the domain, the leaf `modelAddVariable`
    (what the generated `_add_variables` calls) and the GENERATED `Model.add_variable` (called with the same keywords:
    the flat name as a string, a `Unit` object, the initial value, the cmeta id; any interfaces) agree: both raise
    ValueError when the name exists, both raise ValueError when the cmeta id is in use (the model's own included) — and
    then the model object is untouched —, otherwise both return and the successor states are related. -/
theorem modelAddVariable_sim {flat : VRef → String} {D : VRef → Prop} (hinj : FlatInjOn D flat) (self : CompsView) {cs : CompsState}
    {ms : Model.MState} (h : R flat D cs ms) {attrs : Attrs} {r : VRef} {n : String} {c : Container}
    (hd : Dom attrs r n c) (hr : D r) (pub priv : Option String) :
    Agree flat D ms (modelAddVariable self cs attrs)
      ((ModelState.addVariable (flat r) .unit (initArg attrs) pub priv (cmetaArg attrs)).run ms) := by
  rw [modelAddVariable_dom self cs hd, genAddVariable_run h r hr]
  by_cases h1 : cs.acc.1.contains r = true
  · simp only [h1, if_true]; exact ⟨rfl, rfl, rfl⟩
  · by_cases h2 : (match cmetaArg attrs with | some id => cs.acc.2.contains id | none => false) = true
    · simp only [h1, h2, if_true, if_false, Bool.false_eq_true]; exact ⟨rfl, rfl, rfl⟩
    · simp only [h1, h2, if_false, Bool.false_eq_true]
      refine ⟨?_, nameOfVar_succ_new ms _ _ _, rfl⟩
      exact R_step hinj h r hr ⟨c, ifaceArg attrs "public_interface", ifaceArg attrs "private_interface",
        initArg attrs, cmetaArg attrs, n⟩ (by simpa using h1) (by simpa using h2)

/-- the three cases, spelled out -/
theorem sim_name_exists {flat : VRef → String} {D : VRef → Prop} (self : CompsView) {cs : CompsState} {ms : Model.MState}
    (h : R flat D cs ms) {attrs : Attrs} {r : VRef} {n : String} {c : Container} (hd : Dom attrs r n c)
    (hr : D r) (pub priv : Option String) (hn : cs.acc.1.contains r = true) :
    modelAddVariable self cs attrs = .error ⟨"ValueError"⟩ ∧
    (ModelState.addVariable (flat r) .unit (initArg attrs) pub priv (cmetaArg attrs)).run ms
      = (.error ⟨"ValueError"⟩, ms) := by
  rw [modelAddVariable_dom self cs hd, genAddVariable_run h r hr]
  simp only [hn, if_true, and_self]

theorem sim_cmeta_in_use {flat : VRef → String} {D : VRef → Prop} (self : CompsView) {cs : CompsState} {ms : Model.MState}
    (h : R flat D cs ms) {attrs : Attrs} {r : VRef} {n : String} {c : Container} (hd : Dom attrs r n c)
    (hr : D r) (pub priv : Option String) (id : String) (hc : cmetaArg attrs = some id)
    (hu : ms.modelCmeta = some id ∨ cs.acc.2.contains id = true) :
    modelAddVariable self cs attrs = .error ⟨"ValueError"⟩ ∧
    (ModelState.addVariable (flat r) .unit (initArg attrs) pub priv (cmetaArg attrs)).run ms
      = (.error ⟨"ValueError"⟩, ms) := by
  have hu' : cs.acc.2.contains id = true := by
    rcases hu with hm | hu
    · rw [h.cmeta id]; simp [Model.hasCmetaId, hm]
    · exact hu
  rw [modelAddVariable_dom self cs hd, genAddVariable_run h r hr, hc]
  simp only [hu', if_true, ite_self, and_self]

/-! ## the loop of `_add_variables` -/

/-- `_add_variables` with the model OBJECT behind `self.model`: per `<variable>` child the unit lookup, then the
    GENERATED `Model.add_variable` with the keywords `_add_variables` builds (flat name, the `Unit` object, the value of
    `initial_value`, the two interface strings, the cmeta id) -/
def msLoop (flat : VRef → String) (ust : Units.Store) (cname : String) :
    List VarElem → Model.MState → Except PyErr Unit × Model.MState
  | [], ms => (.ok (), ms)
  | v :: rest, ms =>
    match Units.getUnit ust v.decl.units with
    | .error _ => (.error ⟨"KeyError"⟩, ms)
    | .ok _ =>
      match (ModelState.addVariable (flat (cname, v.decl.name)) .unit v.decl.init (some (ifaceStr v.decl.pub))
              (some (ifaceStr v.decl.priv)) v.decl.cmeta).run ms with
      | (.ok _, ms') => msLoop flat ust cname rest ms'
      | (.error e, ms') => (.error e, ms')

theorem loop_refines {flat : VRef → String} {D : VRef → Prop} (hinj : FlatInjOn D flat) (ust : Units.Store) (cname : String)
    (hD : ∀ x, D (cname, x)) :
    ∀ (vs : List VarElem) (cs : CompsState) (ms : Model.MState), R flat D cs ms → (∀ v ∈ vs, v.badInit = false) →
      (∀ acc', varsSpec ust cname vs cs.acc = .ok acc' →
        ∃ ms', msLoop flat ust cname vs ms = (.ok (), ms') ∧
          R flat D { cs with acc := acc', vt := cs.vt ++ vs.map (fun v => entry ust cname v.decl) } ms') ∧
      (∀ err, varsSpec ust cname vs cs.acc = .error err → ∃ ms', msLoop flat ust cname vs ms = (.error err, ms'))
  | [], cs, ms, h, _ => by
    obtain ⟨comps, acc, vt⟩ := cs
    refine ⟨?_, ?_⟩
    · intro acc' he
      simp only [varsSpec, Except.ok.injEq] at he
      subst he
      refine ⟨ms, rfl, ?_⟩
      simpa using h
    · intro err he
      simp only [varsSpec] at he
      cases he
  | v :: rest, cs, ms, h, hb => by
    obtain ⟨comps, acc, vt⟩ := cs
    have hv : v.badInit = false := hb v List.mem_cons_self
    have hrest : ∀ v' ∈ rest, v'.badInit = false := fun v' m => hb v' (List.mem_cons_of_mem _ m)
    simp only [varsSpec, msLoop, hv, Bool.false_eq_true, if_false]
    cases hu : Units.getUnit ust v.decl.units with
    | error a =>
      simp only []
      refine ⟨fun acc' he => (by cases he), fun err he => ?_⟩
      simp only [Except.error.injEq] at he
      subst he
      exact ⟨ms, rfl⟩
    | ok c =>
      simp only []
      rw [genAddVariable_run h _ (hD v.decl.name)]
      simp only []
      by_cases h1 : acc.1.contains (cname, v.decl.name) = true
      · simp only [h1, if_true]
        refine ⟨fun acc' he => (by cases he), fun err he => ?_⟩
        simp only [Except.error.injEq] at he
        subst he
        exact ⟨ms, rfl⟩
      · have h1' : acc.1.contains (cname, v.decl.name) = false := by simpa using h1
        simp only [h1', if_false, Bool.false_eq_true]
        rcases hcm : v.decl.cmeta with _ | id
        · simp only [Bool.false_eq_true, if_false]
          have hR := R_step hinj h (cname, v.decl.name) (hD _) (entry ust cname v.decl).2 h1' (by simp [entry, hcm])
          have ih := loop_refines hinj ust cname hD rest _ _ hR hrest
          simp only [entry, hcm] at ih
          refine ⟨fun acc' he => ?_, fun err he => ?_⟩
          · obtain ⟨ms', e1, e2⟩ := ih.1 acc' he
            refine ⟨ms', e1, ?_⟩
            simpa [List.append_assoc, entry, hcm] using e2
          · exact ih.2 err he
        · simp only []
          by_cases h2 : acc.2.contains id = true
          · simp only [h2, if_true]
            refine ⟨fun acc' he => (by cases he), fun err he => ?_⟩
            simp only [Except.error.injEq] at he
            subst he
            exact ⟨ms, rfl⟩
          · have h2' : acc.2.contains id = false := by simpa using h2
            simp only [h2', if_false, Bool.false_eq_true]
            have hR := R_step hinj h (cname, v.decl.name) (hD _) (entry ust cname v.decl).2 h1'
              (by simp only [entry, hcm]; exact h2')
            have ih := loop_refines hinj ust cname hD rest _ _ hR hrest
            simp only [entry, hcm] at ih
            refine ⟨fun acc' he => ?_, fun err he => ?_⟩
            · obtain ⟨ms', e1, e2⟩ := ih.1 acc' he
              refine ⟨ms', e1, ?_⟩
              simpa [List.append_assoc, entry, hcm] using e2
            · exact ih.2 err he

/-- **the generated `_add_variables` keeps the relation**: from related states, on a `<component>` element whose
    `initial_value`s are float literals, the GENERATED `_add_variables` (over the loader's record, leaf
    `modelAddVariable`) and the same loop over the model object (GENERATED `Model.add_variable`) either both return —
    and then the record and the object are related again: the variables the loader has recorded are exactly the
    variables the model object holds — or both raise the same exception. -/
theorem genAddVariables_refines {flat : VRef → String} {D : VRef → Prop} (hinj : FlatInjOn D flat) (ust : Units.Store) (e : CompElemV)
    (hD : ∀ x, D (e.name, x))
    {cs : CompsState} {ms : Model.MState} (h : R flat D cs ms) (hb : ∀ v ∈ e.vars, v.badInit = false) :
    (∀ out cs', AddVars.addVariables ⟨ust⟩ e cs = .ok (out, cs') →
      ∃ ms', msLoop flat ust e.name e.vars ms = (.ok (), ms') ∧ R flat D cs' ms') ∧
    (∀ err, AddVars.addVariables ⟨ust⟩ e cs = .error err →
      ∃ ms', msLoop flat ust e.name e.vars ms = (.error err, ms')) := by
  have hl := loop_refines hinj ust e.name hD e.vars cs ms h hb
  rw [addVariables_spec]
  cases hs : varsSpec ust e.name e.vars cs.acc with
  | error x =>
    simp only []
    refine ⟨fun out cs' he => (by cases he), fun err he => ?_⟩
    simp only [Except.error.injEq] at he
    subst he
    exact hl.2 _ hs
  | ok acc' =>
    simp only []
    refine ⟨fun out cs' he => ?_, fun err he => by cases he⟩
    simp only [Except.ok.injEq, Prod.mk.injEq] at he
    obtain ⟨ms', e1, e2⟩ := hl.1 acc' hs
    exact ⟨ms', e1, he.2 ▸ e2⟩

/-- the same for the leaf of the generated `_add_components` (`genAddVariables`, on a `<component>` element of the
    models: every `initial_value` readable) -/
theorem genAddVariables_leaf_refines {flat : VRef → String} {D : VRef → Prop} (hinj : FlatInjOn D flat) (ust : Units.Store) (e : CompElem)
    (hD : ∀ x, D (e.comp.name, x)) {cs : CompsState} {ms : Model.MState} (h : R flat D cs ms) :
    (∀ out cs', genAddVariables ⟨ust⟩ cs e = .ok (out, cs') →
      ∃ ms', msLoop flat ust e.comp.name (ofCompElem e).vars ms = (.ok (), ms') ∧ R flat D cs' ms') ∧
    (∀ err, genAddVariables ⟨ust⟩ cs e = .error err →
      ∃ ms', msLoop flat ust e.comp.name (ofCompElem e).vars ms = (.error err, ms')) := by
  have hb : ∀ v ∈ (ofCompElem e).vars, v.badInit = false := by
    intro v hv; simp only [ofCompElem, List.mem_map] at hv; obtain ⟨d, _, rfl⟩ := hv; rfl
  have hg := genAddVariables_refines hinj ust (ofCompElem e) hD h hb
  unfold genAddVariables
  cases hr : AddVars.addVariables ⟨ust⟩ (ofCompElem e) cs with
  | error x =>
    refine ⟨fun out cs' he => (by cases he), fun err he => ?_⟩
    have : x = err := by simpa [Except.map] using he
    subst this
    exact hg.2 _ hr
  | ok p =>
    obtain ⟨l, cs1⟩ := p
    refine ⟨fun out cs' he => ?_, fun err he => by cases he⟩
    have : cs1 = cs' := by
      simp only [Except.map, Except.ok.injEq, Prod.mk.injEq] at he
      exact he.2
    subst this
    exact hg.1 _ _ hr

/-- **what the loader records = what the model object holds**, after any run of the generated `_add_variables` from
    related states: in insertion order, the `Variable`s of `_name_to_variable` carry the flat name, the cmeta id and the
    initial value of the rows of the loader's table; and a name / a cmeta id is refused by the one exactly when it is
    refused by the other. -/
theorem recorded_eq_held {flat : VRef → String} {D : VRef → Prop} {cs : CompsState} {ms : Model.MState} (h : R flat D cs ms) :
    ms.live.map (varFacts ms) = cs.vt.map (fun p => some (flat p.1, p.2.cmeta, p.2.init)) ∧
    (∀ r, D r → cs.acc.1.contains r = nameHas ms (flat r)) ∧ (∀ id, cs.acc.2.contains id = Model.hasCmetaId ms id) :=
  ⟨h.vars, h.names, h.cmeta⟩

/-- `self.components[name] = _Component(name)` (between two runs of `_add_variables`) does not touch the relation -/
theorem R_newComponent {flat : VRef → String} {D : VRef → Prop} {cs : CompsState} {ms : Model.MState}
    (h : R flat D cs ms) (name : String) : R flat D (newComponent cs name) ms :=
  ⟨h.inv, h.names, h.cmeta, h.vars⟩

/-! ## python's own flat names -/

/-- the pairs whose component name has no `$` (all names a validated document can have: the RELAX NG schema of
    `Parser.parse` rejects `$`) -/
def NoDollar (r : VRef) : Prop := '$' ∉ r.1.toList

theorem flatName_injOn : FlatInjOn NoDollar flatName := fun a b ha hb h => flatName_inj a b ha hb h

/-- `genAddVariables_refines` for the strings python really uses (`component$name`), on a component whose name has
    no `$` -/
theorem genAddVariables_refines_flatName (ust : Units.Store) (e : CompElemV) (hn : '$' ∉ e.name.toList)
    {cs : CompsState} {ms : Model.MState} (h : R flatName NoDollar cs ms) (hb : ∀ v ∈ e.vars, v.badInit = false) :
    (∀ out cs', AddVars.addVariables ⟨ust⟩ e cs = .ok (out, cs') →
      ∃ ms', msLoop flatName ust e.name e.vars ms = (.ok (), ms') ∧ R flatName NoDollar cs' ms') ∧
    (∀ err, AddVars.addVariables ⟨ust⟩ e cs = .error err →
      ∃ ms', msLoop flatName ust e.name e.vars ms = (.error err, ms')) :=
  genAddVariables_refines flatName_injOn ust e (fun _ => hn) h hb

/-! ## the keyword dict `_add_variables` builds is in the domain -/

/-- the dict `attributes` at the call `self.model.add_variable(**attributes)`, for the `<variable>` element `v` of the
    component `cname` whose units the store knows (container `c`): `dict(element.attrib)`, `cmeta:id` renamed to
    `cmeta_id`, `name` replaced by the flat name, `units` by the `Unit` object -/
def kwargsOf (cname : String) (v : VarElem) (c : Container) : Attrs :=
  let a1 : Attrs :=
    if Py.isIn (withNs XmlNs.CMETA "id") (Py.keys (attribOf v)) = true then
      match dictPop (attribOf v) (withNs XmlNs.CMETA "id") with
      | .ok x => Py.setItem x.2 "cmeta_id" x.1
      | .error _ => attribOf v
    else attribOf v
  Py.setItem (Py.setItem a1 "name" (.ref (cname, v.decl.name))) "units" (.unit v.decl.units c)

attribute [local irreducible] String.decEq

/-- **the domain is what `_add_variables` produces**: for every `<variable>` element with a readable (or no)
    `initial_value`, the dict it passes is in `Dom`, its `cmeta_id` is the element's `cmeta:id`, its `initial_value`
    the element's -/
theorem kwargsOf_dom (cname : String) (v : VarElem) (c : Container) (hb : v.badInit = false) :
    Dom (kwargsOf cname v c) (cname, v.decl.name) v.decl.units c ∧
    cmetaArg (kwargsOf cname v c) = v.decl.cmeta ∧ initArg (kwargsOf cname v c) = v.decl.init := by
  obtain ⟨⟨name, units, pub, priv, init, cmeta⟩, bad⟩ := v
  simp only at hb
  subst hb
  cases cmeta <;> cases init <;>
    simp only [kwargsOf, attribOf, withNs, XmlNs, String.reduceAppend, List.cons_append, List.nil_append,
      List.append_nil, Bool.false_eq_true, if_false, if_true, Py.isIn, Py.keys, Py.setItem, DictLike.keys,
      DictLike.setItem, List.map_cons, List.map_nil, List.contains_cons, List.contains_nil, String.reduceBEq,
      Bool.or_false, Bool.or_true, Bool.false_or, Bool.true_or, dictPop, lookup_cons_if, List.lookup_nil,
      String.reduceEq, setAssoc, dictErase] <;>
    refine ⟨⟨?_, ?_, ?_, ?_⟩, ?_, ?_⟩ <;>
    simp only [cmetaArg, initArg, kwargNames, List.any_cons, List.any_nil, List.contains_cons, List.contains_nil,
      String.reduceBEq, Bool.or_false, Bool.or_true, Bool.true_or, Bool.false_or, Bool.not_true, Bool.not_false,
      lookup_cons_if, List.lookup_nil, String.reduceEq, if_true, if_false, ne_eq, Option.some.injEq,
      AttrVal.floatText.injEq, reduceCtorEq, not_false_eq_true]

/-- **the call in the generated loop body is the leaf at `kwargsOf`**: the body of the `for` of the generated
    `_add_variables` (`PAddVars.genStep`, checked against the generated definition in `addVariables_spec`) looks the
    unit up (KeyError), calls `modelAddVariable` with exactly the dict `kwargsOf`, and stores the result under the flat
    name -/
theorem genStep_kwargs (ust : Units.Store) (e : CompElemV) (v : VarElem) (s : CompsState × List (AttrVal × VRef)) :
    genStep ust e v s =
      match Units.getUnit ust v.decl.units with
      | .error _ => .error ⟨"KeyError"⟩
      | .ok c =>
        match modelAddVariable ⟨ust⟩ s.1 (kwargsOf e.name v c) with
        | .error x => .error x
        | .ok x => .ok (.yield (x.2, Py.setItem s.2 (.ref (e.name, v.decl.name)) x.1)) := by
  obtain ⟨⟨name, units, pub, priv, init, cmeta⟩, bad⟩ := v
  unfold genStep kwargsOf
  cases cmeta <;> cases bad <;> cases init <;>
    simp only [attribOf, withNs, XmlNs, String.reduceAppend, List.cons_append, List.nil_append, List.append_nil,
      Bool.false_eq_true, if_false, if_true, Py.isIn, Py.keys, Py.setItem, DictLike.keys, DictLike.setItem, List.map_cons, List.map_nil,
      List.contains_cons, List.contains_nil, String.reduceBEq, Bool.or_false, Bool.or_true, Bool.false_or, Bool.true_or]
  all_goals
    simp only [dictGetItem, dictPop, lookup_cons_if, List.lookup_nil, String.reduceEq, if_true, if_false, bind_ok,
      getVariableName_tie, setAssoc, unitsGetUnit, dictErase]
  all_goals cases hu : Units.getUnit ust units <;> simp only [bind_ok, bind_err]
  all_goals
    cases modelAddVariable { ust := ust } s.1 _ <;> rfl

/-! ## the second generated `add_variable` (group Cmeta: the model object together with its RDF store) -/

/-- **the GENERATED `Model.add_variable` of group Cmeta** (state: the model object and the RDF graph) on an object
    related to the loader's record: the same decision as `genAddVariable_run`, the RDF store untouched -/
theorem cmetaAddVariable_run {flat : VRef → String} {D : VRef → Prop} {cs : CompsState} {a : Model.AState}
    (h : R flat D cs a.m) (r : VRef) (hr : D r) (units : PCmeta.UnitArg) (cm : Option String) (init : Option Rat)
    (pub priv : Option String) :
    Cmeta.addVariable (flat r) units init pub priv cm a =
      if cs.acc.1.contains r then (.error ⟨"ValueError"⟩, a)
      else if (match cm with | some id => cs.acc.2.contains id | none => false) then (.error ⟨"ValueError"⟩, a)
      else (.ok a.m.heap.length, { a with m := succState a.m (flat r) cm init }) := by
  rw [PCmeta.addVariable_tie a (flat r) units init pub priv cm h.inv.reg.liveBound, modelAdd_decision h r hr]
  split_ifs <;> rfl

/-- `Agree` for the annotated model: the RDF store is never touched -/
def AgreeA (flat : VRef → String) (D : VRef → Prop) (a : Model.AState) :
    Except PyErr (VRef × CompsState) → Except PyErr Nat × Model.AState → Prop
  | .error e1, (.error e2, a') => e1 = e2 ∧ e1 = ⟨"ValueError"⟩ ∧ a' = a
  | .ok (r, cs'), (.ok id, a') =>
      R flat D cs' a'.m ∧ Model.nameOfVar a'.m id = flat r ∧ a'.m.live = a.m.live ++ [id] ∧ a'.rdf = a.rdf
  | _, _ => False

/-- **SIMULATION, one call, group Cmeta**: the leaf `modelAddVariable` and the generated `add_variable` over the
    annotated model agree on related states, for every keyword dict of the domain -/
theorem modelAddVariable_sim_cmeta {flat : VRef → String} {D : VRef → Prop} (hinj : FlatInjOn D flat)
    (self : CompsView) {cs : CompsState} {a : Model.AState} (h : R flat D cs a.m) {attrs : Attrs} {r : VRef}
    {n : String} {c : Container} (hd : Dom attrs r n c) (hr : D r) (units : PCmeta.UnitArg)
    (pub priv : Option String) :
    AgreeA flat D a (modelAddVariable self cs attrs)
      (Cmeta.addVariable (flat r) units (initArg attrs) pub priv (cmetaArg attrs) a) := by
  rw [modelAddVariable_dom self cs hd, cmetaAddVariable_run h r hr]
  by_cases h1 : cs.acc.1.contains r = true
  · simp only [h1, if_true]; exact ⟨rfl, rfl, rfl⟩
  · by_cases h2 : (match cmetaArg attrs with | some id => cs.acc.2.contains id | none => false) = true
    · simp only [h1, h2, if_true, if_false, Bool.false_eq_true]; exact ⟨rfl, rfl, rfl⟩
    · simp only [h1, h2, if_false, Bool.false_eq_true]
      refine ⟨?_, nameOfVar_succ_new a.m _ _ _, rfl, rfl⟩
      exact R_step hinj h r hr ⟨c, ifaceArg attrs "public_interface", ifaceArg attrs "private_interface",
        initArg attrs, cmetaArg attrs, n⟩ (by simpa using h1) (by simpa using h2)

end Cellml.Tie.PAddVarRef
