import Cellml.Generated.Code.Cmeta
import Cellml.Tie.CmetaQ
import Mathlib.Tactic.SplitIfs

/-! # Tie: the mutating cmeta / RDF functions of model.py (generated from the source) = the hand model's operations
    (`Model.transferCmetaId`, `Model.addCmetaId`, `Model.addVariable` of State.lean; `Model.removeVariableA` of
    Cmeta.lean) — value / exception class AND the state left behind, also when the call raises -/

set_option linter.unusedSimpArgs false

namespace Cellml.Tie.PCmeta
open Model Cellml.Gen

theorem getElem?_setVar (h : List Var) (i j : Nat) (f : Var → Var) :
    (setVar h i f)[j]? = if i = j then (h[j]?).map f else h[j]? := by
  unfold setVar
  cases hi : h[i]? with
  | none =>
    by_cases e : i = j
    · subst e; simp [hi]
    · simp [e]
  | some v =>
    by_cases e : i = j
    · subst e
      have : i < h.length := by
        rcases Nat.lt_or_ge i h.length with h1 | h1
        · exact h1
        · simp [List.getElem?_eq_none h1] at hi
      have hv : h[i] = v := by
        have h2 := List.getElem?_eq_getElem this
        rw [h2] at hi
        exact Option.some.inj hi
      simp [this, hv]
    · simp [e]

theorem length_setVar (h : List Var) (i : Nat) (f : Var → Var) : (setVar h i f).length = h.length := by
  unfold setVar; split <;> simp

/-- `v._set_cmeta_id(c)` seen through `w._cmeta_id` -/
theorem cmetaOf_setCmeta (m : MState) (i j : Nat) (c : Option String) (h' : List Var)
    (hh : h' = setVar m.heap i (fun x => { x with cmeta := c })) :
    cmetaOf { m with heap := h' } j = if i = j ∧ j < m.heap.length then c else cmetaOf m j := by
  subst hh
  unfold cmetaOf
  simp only [getElem?_setVar]
  by_cases e : i = j
  · subst e
    by_cases hl : i < m.heap.length
    · simp [hl]
    · simp [hl]
  · simp [e]

-- ------------------------------------------------------------------------------------------------ transfer_cmeta_id
/-- `transfer_cmeta_id(source, target)` on two variables of the model (the hand model refuses foreign objects by
    convention: `notInModel`; python has no such check) -/
theorem transferCmetaId_tie (a : AState) (src dst : Nat) (hs : isLive a.m src = true) (hd : isLive a.m dst = true)
    (hb : dst < a.m.heap.length) :
    Cmeta.transferCmetaId src dst a = liftM a (Model.transferCmetaId a.m src dst) := by
  unfold Cmeta.transferCmetaId Model.transferCmetaId
  simp only [hs, hd, bind, varCmeta]
  cases h1 : cmetaOf a.m src with
  | none =>
    simp [PyM.bind_apply, h1, throw, throwThe, MonadExceptOf.throw, PyM.throw, liftM, ofOutcome, mErrCls]
  | some c =>
    cases h2 : cmetaOf a.m dst with
    | some c' =>
      simp [PyM.bind_apply, h1, h2, throw, throwThe, MonadExceptOf.throw, PyM.throw, liftM, ofOutcome,
        mErrCls]
    | none =>
      have hne : src ≠ dst := by rintro rfl; simp [h1] at h2
      have hne' : dst ≠ src := fun e => hne e.symm
      have hv : a.m.heap[dst]? = some a.m.heap[dst] := List.getElem?_eq_getElem hb
      simp [PyM.bind_apply, h1, h2, setCmeta, cmetaMapSet, liftM, ofOutcome]
      simp [cmetaOf, getElem?_setVar, hne, hv]

-- ------------------------------------------------------------------------------------------------ add_variable
/-- the result of a model operation that returns a new variable -/
def liftNew (a : AState) (new : Nat) (r : MState × Outcome) : Except PyErr Nat × AState :=
  (match r.2 with
   | .ok => .ok new
   | .raised e => .error ⟨mErrCls e⟩, { a with m := r.1 })

theorem isIn_names (s : MState) (name : String) :
    Py.isIn name (s.live.map (nameOfVar s)) = s.live.any (fun i => nameOfVar s i == name) := by
  unfold Py.isIn
  induction s.live with
  | nil => rfl
  | cons i l ih =>
    simp only [List.map_cons, List.contains_cons, List.any_cons, ih]
    congr 1
    exact BEq.comm

theorem nameOf_append (h : List Var) (n : String) (i : Nat) (hi : i < h.length) :
    nameOf (h.map (·.name) ++ [n]) i = nameOf (h.map (·.name)) i := by
  unfold nameOf
  rw [List.getElem?_append_left (by simpa using hi)]

theorem fresh_name_absurd {l : List Nat} {h : List Var} {name : String} (hb : ∀ i ∈ l, i < h.length)
    (hn : (l.any fun i => nameOf (h.map (·.name)) i == name) = false) {P : Prop} :
    ∀ x ∈ l, nameOf (h.map (·.name) ++ [name]) x = name → P := by
  intro x hx hx'
  exfalso
  rw [nameOf_append _ _ _ (hb x hx)] at hx'
  have := List.any_eq_false.mp hn x hx
  simp [hx'] at this

theorem addVariable_tie (a : AState) (name : String) (units : UnitArg) (init : Option Rat) (pub priv cmeta : Option String)
    (hb : ∀ i ∈ a.m.live, i < a.m.heap.length) :
    Cmeta.addVariable name units init pub priv cmeta a
      = liftNew a a.m.heap.length (Model.addVariable a.m name cmeta init) := by
  unfold Cmeta.addVariable Model.addVariable
  simp only [bind, nameKeys, PyM.bind_apply, PyM.rd_run, isIn_names, PyM.ite_run]
  by_cases hn : (a.m.live.any fun i => nameOfVar a.m i == name) = true
  · simp [hn, throw, throwThe, MonadExceptOf.throw, PyM.throw, liftNew, mErrCls]
  · have hn' : (a.m.live.any fun i => nameOf (a.m.heap.map (·.name)) i == name) = false := by
      simpa [nameOfVar, names] using hn
    cases cmeta with
    | none =>
      cases units <;>
        (simp [liftNew, callQ, hasCmetaId_none,
          getUnit, variablesAdded, newVariable, nameDictSet, variablesAddedIncr, invalidateCache, cmetaTaken,
          registerCmeta, invalidate, pure, PyM.pure, UnitArg.isUnit, nameOfVar, names, hn']
         exact fresh_name_absurd hb hn')
    | some c =>
      by_cases hc : Model.hasCmetaId a.m c = true
      · simp [hn, hc, throw, throwThe, MonadExceptOf.throw, PyM.throw, liftNew, mErrCls, callQ, hasCmetaId_tie,
          cmetaTaken]
      · cases units <;>
          (simp [hc, liftNew, callQ, hasCmetaId_tie,
            getUnit, variablesAdded, newVariable, nameDictSet, variablesAddedIncr, invalidateCache, cmetaTaken,
            registerCmeta, invalidate, pure, PyM.pure, UnitArg.isUnit, nameOfVar, names,
            hn', cmetaMapSet]
           exact fresh_name_absurd hb hn')

-- ------------------------------------------------------------------------------------------------ add_cmeta_id
/-- the `while self.has_cmeta_id(cmeta_id): cmeta_id += '_'` loop of the generated code (test and body as translated,
    known only by what they do on the state `a`) = the hand model's `freeCmeta`; one unit of fuel more because
    `freeCmeta` tests once more at 0 -/
theorem whileFuel_free (a : AState) (test : String → M Bool) (body : String → M String)
    (ht : ∀ c, test c a = (.ok (Model.hasCmetaId a.m c), a)) (hbody : ∀ c, body c a = (.ok (c ++ "_"), a))
    (n : Nat) (c : String) :
    Py.whileFuel (n + 1) c test body a
      = (match freeCmeta a.m c n with
         | some c' => .ok c'
         | none => .error ⟨"FuelExhausted"⟩, a) := by
  induction n generalizing c with
  | zero =>
    unfold Py.whileFuel Py.whileFuel freeCmeta
    simp only [bind, PyM.bind_apply, ht]
    by_cases h : Model.hasCmetaId a.m c = true <;>
      simp [h, PyM.bind_apply, hbody, throw, throwThe, MonadExceptOf.throw, PyM.throw, pure, PyM.pure]
  | succ n ih =>
    unfold Py.whileFuel freeCmeta
    simp only [bind, PyM.bind_apply, ht]
    by_cases h : Model.hasCmetaId a.m c = true
    · simp only [h, if_true, PyM.bind_apply, hbody]
      exact ih (c ++ "_")
    · simp [h, pure, PyM.pure]

theorem displayName_nocmeta (a : AState) (v : Nat) (h : cmetaOf a.m v = none) :
    displayName v a = (.ok ((nameOfVar a.m v).replace "$" "__"), a) := by
  simp [displayName, displayNames, termsOf, annotationsOf, h]

/-- `add_cmeta_id(variable)` on a variable of the model -/
theorem addCmetaId_tie (a : AState) (v : Nat) (hl : isLive a.m v = true) :
    Cmeta.addCmetaId v a = liftM a (Model.addCmetaId a.m v) := by
  unfold Cmeta.addCmetaId Model.addCmetaId
  simp only [hl, bind, PyM.bind_apply, varCmeta, PyM.rd_run]
  cases h : cmetaOf a.m v with
  | some c => simp [liftM, ofOutcome, pure, PyM.pure]
  | none =>
    simp only [Option.isSome_none, Bool.false_eq_true, if_false, PyM.bind_apply, displayName_nocmeta a v h, callQ,
      PyM.rdE_run]
    rw [whileFuel_free a _ _ (fun c => by simp [PyM.bind_apply, callQ, hasCmetaId_tie, pure, PyM.pure])
      (fun c => by simp [pure, PyM.pure])]
    cases freeCmeta a.m ((nameOfVar a.m v).replace "$" "__") (a.m.cmetaMap.length + 1) with
    | none => simp [liftM, ofOutcome, mErrCls]
    | some c => simp [PyM.bind_apply, setCmeta, cmetaMapSet, liftM, ofOutcome]

-- ------------------------------------------------------------------------------------------------ remove_variable
/-- `for triple in triples: self.rdf.remove(triple)`: afterwards none of them is in the graph -/
theorem forIn_rdfRemove (l : List Triple) (b : AState) :
    (forIn l PUnit.unit (fun triple (_ : PUnit) =>
        PyM.bind (rdfRemove triple) fun _ => (pure (ForInStep.yield PUnit.unit) : M (ForInStep PUnit)))) b
      = (.ok PUnit.unit, { b with rdf := b.rdf.filter (fun x => !(l.contains x)) }) := by
  induction l generalizing b with
  | nil =>
    have : b.rdf.filter (fun _ => true) = b.rdf := List.filter_eq_self.mpr (fun _ _ => rfl)
    simp [pure, PyM.pure, this]
  | cons t r ih =>
    have hstep : rdfRemove t b = (.ok (), { b with rdf := b.rdf.filter (fun x => x != t) }) := rfl
    rw [List.forIn_cons]
    simp only [bind, PyM.bind_apply, hstep, PyM.pure_run]
    rw [ih]
    simp only [List.filter_filter, List.contains_cons]
    congr 2
    apply List.filter_congr
    intro x _
    cases hx : (x == t) <;> cases hr : r.contains x <;> simp [bne, hx]

theorem filter_name_eq_erase (f : Nat → String) (l : List Nat) (v : Nat) (hn : (l.map f).Nodup) (hv : v ∈ l) :
    l.filter (fun i => !(f i == f v)) = l.erase v := by
  induction l with
  | nil => cases hv
  | cons i r ih =>
    rw [List.map_cons, List.nodup_cons] at hn
    by_cases e : i = v
    · subst e
      have : r.filter (fun j => !(f j == f i)) = r := by
        apply List.filter_eq_self.mpr
        intro j hj
        have : f j ≠ f i := fun e => hn.1 (e ▸ List.mem_map_of_mem hj)
        simp [this]
      simp [this]
    · have hv' : v ∈ r := by
        rcases List.mem_cons.mp hv with h | h
        · exact absurd h.symm e
        · exact h
      have : f i ≠ f v := fun e' => hn.1 (e' ▸ List.mem_map_of_mem hv')
      have e2 : ¬ (i == v) = true := by simpa using e
      simp [this, List.erase_cons, e2, ih hn.2 hv']

/-- the statements of the generated `remove_variable` after the defining equation has been dealt with -/
def removeTail (variable_ : Nat) : M Unit := do
  if (Py.truthy (← varRdfIdentity variable_)) then
    for triple in (← rdfTriplesOf (← varRdfIdentity variable_)) do
      rdfRemove triple
  nameDictDel (← varName variable_)
  if ((← varCmeta variable_)).isSome then
    cmetaMapDel (← varCmeta variable_)
  invalidateCache

/-- … which is what the generated definition does after `get_definition` / `remove_equation` (definitional) -/
theorem removeVariable_split (v : Nat) :
    Cmeta.removeVariable v = (do
      let defn ← getDefinitionM v
      if (defn).isSome then
        removeEquationM defn
      removeTail v) := rfl

/-- annotations, name, registry entry, caches = the hand model's `dropSubject` + `unregister` -/
theorem removeTail_run (b : AState) (v : Nat) (hl : v ∈ b.m.live) (hn : (b.m.live.map (nameOfVar b.m)).Nodup) :
    removeTail v b = (ofOutcome (unregister b.m v).2,
      { m := (unregister b.m v).1, rdf := dropSubject (cmetaOf b.m v) b.rdf }) := by
  unfold removeTail unregister
  simp only [bind, PyM.bind_apply, varRdfIdentity, PyM.rd_run, Py.truthy_option, PyM.ite_run]
  have hex : ∃ x, x ∈ b.m.live ∧ nameOfVar b.m x = nameOfVar b.m v := ⟨v, hl, rfl⟩
  cases hc : cmetaOf b.m v with
  | none =>
    have hc' : (b.m.heap[v]?.bind fun x => x.cmeta) = none := hc
    simp [PyM.bind_apply, varName, nameDictDel, hex, varCmeta, cmetaOf, hc', invalidateCache,
      filter_name_eq_erase _ _ _ hn hl, ofOutcome, dropSubject, invalidate, pure, PyM.pure]
  | some c =>
    have hc' : (b.m.heap[v]?.bind fun x => x.cmeta) = some c := hc
    have hfilter : b.rdf.filter (fun x => !(b.rdf.filter (fun t => t.subj == c)).contains x)
        = b.rdf.filter (fun t => t.subj != c) := by
      apply List.filter_congr
      intro x hx
      cases hs : (x.subj == c) <;> simp [bne, hs, hx]
    simp only [Option.isSome_some, if_true, rdfTriplesOf, PyM.rd_run, forIn_rdfRemove, hfilter]
    by_cases hk : hasKey c b.m.cmetaMap = true
    · simp [PyM.bind_apply, varName, nameDictDel, hex, varCmeta, cmetaOf, hc', invalidateCache, cmetaMapDel, hk,
        filter_name_eq_erase _ _ _ hn hl, ofOutcome, dropSubject, invalidate, pure, PyM.pure]
    · simp [PyM.bind_apply, varName, nameDictDel, hex, varCmeta, cmetaOf, hc', invalidateCache, cmetaMapDel, hk,
        filter_name_eq_erase _ _ _ hn hl, ofOutcome, dropSubject, invalidate, pure, PyM.pure, mErrCls]

/-- `remove_equation` touches neither the variables nor the registry -/
theorem removeEquation_frame (s : MState) (e : Eqn) :
    (removeEquation s e).1.live = s.live ∧ (removeEquation s e).1.heap = s.heap := by
  unfold removeEquation
  split
  · simp
  · split <;> (try split) <;> simp [invalidate]

/-- `remove_variable(variable)` on a variable of the model whose names are pairwise distinct (C08's invariant; the
    hand model deletes the name entry by identity, python by name): the hand model's `removeVariableA` — outcome and
    state, also when `remove_equation` or the `del` of the registry entry raises half-way -/
theorem removeVariable_tie (a : AState) (v : Nat) (hl : isLive a.m v = true)
    (hn : (a.m.live.map (nameOfVar a.m)).Nodup) :
    Cmeta.removeVariable v a = (ofOutcome (removeVariableA a v).2, (removeVariableA a v).1) := by
  have hl' : v ∈ a.m.live := by simpa [isLive] using hl
  rw [removeVariable_split]
  unfold removeVariableA
  simp only [hl, bind, PyM.bind_apply, getDefinitionM, PyM.rd_run, PyM.ite_run]
  cases hd : getDefinition a.m v with
  | none =>
    simp only [Option.isSome_none, Bool.false_eq_true, if_false, PyM.bind_apply]
    rw [removeTail_run a v hl' hn]
    simp
  | some e =>
    obtain ⟨hlive, hheap⟩ := removeEquation_frame a.m e
    simp only [Option.isSome_some, if_true, removeEquationM, PyM.updE_run, liftM]
    cases hr : removeEquation a.m e with
    | mk s1 o =>
      rw [hr] at hlive hheap
      simp only at hlive hheap
      cases o with
      | raised x => simp [ofOutcome]
      | ok =>
        have hnames : nameOfVar s1 = nameOfVar a.m := by
          funext i; simp [nameOfVar, names, hheap]
        show removeTail v { a with m := s1 } = _
        rw [removeTail_run { a with m := s1 } v (by simpa [hlive] using hl') (by simpa [hlive, hnames] using hn)]
        rfl

-- ------------------------------------------------------------------------------------------------ the calls of `astep`
/-! The property theorems of `Props/C13.lean` speak about `astep` / `arun` (one API call on the annotated state). Its
    four cmeta cases are the functions tied above: -/

theorem astep_addVariable (a : AState) (name : String) (units : UnitArg) (init : Option Rat)
    (pub priv cmeta : Option String) (hb : ∀ i ∈ a.m.live, i < a.m.heap.length) :
    Cmeta.addVariable name units init pub priv cmeta a
      = ((ofOutcome (astep a (.base (.addVariable name cmeta init))).2).map (fun _ => a.m.heap.length),
         (astep a (.base (.addVariable name cmeta init))).1) := by
  rw [addVariable_tie a name units init pub priv cmeta hb]
  simp only [astep, step, liftNew]
  cases (Model.addVariable a.m name cmeta init).2 <;> rfl

theorem astep_removeVariable (a : AState) (v : Nat) (hl : isLive a.m v = true)
    (hn : (a.m.live.map (nameOfVar a.m)).Nodup) :
    Cmeta.removeVariable v a
      = (ofOutcome (astep a (.base (.removeVariable v))).2, (astep a (.base (.removeVariable v))).1) :=
  removeVariable_tie a v hl hn

theorem astep_addCmetaId (a : AState) (v : Nat) (hl : isLive a.m v = true) :
    Cmeta.addCmetaId v a = (ofOutcome (astep a (.base (.addCmetaId v))).2, (astep a (.base (.addCmetaId v))).1) :=
  addCmetaId_tie a v hl

theorem astep_transferCmetaId (a : AState) (src dst : Nat) (hs : isLive a.m src = true) (hd : isLive a.m dst = true)
    (hb : dst < a.m.heap.length) :
    Cmeta.transferCmetaId src dst a
      = (ofOutcome (astep a (.base (.transferCmetaId src dst))).2, (astep a (.base (.transferCmetaId src dst))).1) :=
  transferCmetaId_tie a src dst hs hd hb

end Cellml.Tie.PCmeta
