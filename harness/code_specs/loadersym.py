"""Code-translator spec (see harness/translate_code.py and harness/code_specs/__init__.py).

The closure `symbol_generator` of Parser._add_maths (identifier of a <ci> -> the Variable it stands for: own
variable, then up the chain of connections) = Load.checkIdent (the assert) + Load.rootOf / Load.resolve (the while loop).
Tie: lean/Cellml/Tie/LoaderSym.lean."""

GROUP = {'name': 'LoaderSym',
 'imports': ['Cellml.Tie.LoaderView'],
 'header': 'open Load',
 'functions': [{'file': 'cellmlmanip/parser.py',
                'func': 'Parser._add_maths.symbol_generator',
                'lean_name': 'symbolGenerator',
                # free variables of the closure first, then its own parameter; `fuel` bounds the while loop
                'params': ['prefix', 'variable_to_symbol', 'connected_variable_mapping', 'fuel', 'identifer'],
                'while_fuel': 'fuel',
                'signature': '(prefix_ : CompPrefix) (variable_to_symbol : VRef → Option VRef) '
                             '(connected_variable_mapping : VMap) (fuel : Nat) (identifer : String) : '
                             'Except PyErr (Option VRef)',
                'patterns': [('variable_to_symbol.get(__A, None)', '(variable_to_symbol {A})'),
                             ('str(__A)', '(pyStr {A})'),
                             ('connected_variable_mapping[__A]', '← dictGet connected_variable_mapping {A}')]}]}
