"""Code-translator spec: cellmlmanip/printer.py, `_print_Add` (see printer.py in this directory for the conventions)."""
from .printer import COMMON, SIG1

GROUP = {
    'name': 'PrinterAdd',
    'imports': ['Cellml.Generated.Code.Printer'],
    'header': 'open Cellml.Tie.PPrinter\nopen C11 Cellml.Gen.Printer',
    'patterns': COMMON,
    'functions': [
        {'file': 'cellmlmanip/printer.py', 'func': 'Printer._print_Add', 'lean_name': 'printAdd', 'signature': SIG1,
         'mutable': ['parts'],
         # python string / list primitives
         'patterns': [("__A.startswith('-')", '(headMinus {A})'),
                      ('t[1:]', '(tailStr t)'),
                      ('parts[0]', '← idx0 parts'),
                      ('parts[1:]', '(parts.drop 1)')],
         'stmt_patterns': [('parts.append(__A)', 'parts := parts ++ [{A}]')]},
    ]}
