/-! Finitely supported maps `κ → Rat` as association lists: the common representation of
    * scales      (prime ↦ exponent;  ⟦s⟧ = ∏ pᵉ, a positive real),
    * containers  (unit name ↦ exponent; pint's `UnitsContainer`),
    * dimensions  (dimension name ↦ exponent).
    Core Lean only (this file is linked into the compiled driver).

    The *meaning* of a map is its `get` function; all algebra is stated pointwise on `get`, so it holds for
    unnormalised lists too. `norm` produces the canonical form (sorted by key, no zero entries) that the
    driver prints and compares. -/

instance instDecEqExcept {ε α : Type} [DecidableEq ε] [DecidableEq α] : DecidableEq (Except ε α)
  | .ok a, .ok b => if h : a = b then isTrue (by rw [h]) else isFalse (by intro h'; cases h'; exact h rfl)
  | .error a, .error b => if h : a = b then isTrue (by rw [h]) else isFalse (by intro h'; cases h'; exact h rfl)
  | .ok _, .error _ => isFalse (by intro h; cases h)
  | .error _, .ok _ => isFalse (by intro h; cases h)

class KeyLt (κ : Type) where
  ltb : κ → κ → Bool

instance : KeyLt Nat := ⟨fun a b => decide (a < b)⟩
instance : KeyLt String := ⟨fun a b => decide (a < b)⟩

abbrev PMap (κ : Type) := List (κ × Rat)

namespace PMap
variable {κ : Type} [DecidableEq κ]

/-- the meaning of a map: total exponent of key `k` -/
def get : PMap κ → κ → Rat
  | [], _ => 0
  | (k', e) :: t, k => (if k' = k then e else 0) + get t k

def add (a b : PMap κ) : PMap κ := a ++ b
def smul (q : Rat) (a : PMap κ) : PMap κ := a.map (fun (k, e) => (k, q * e))
def neg (a : PMap κ) : PMap κ := smul (-1) a
def sub (a b : PMap κ) : PMap κ := add a (neg b)
def single (k : κ) (e : Rat) : PMap κ := [(k, e)]

/-- semantic equality -/
def Equiv (a b : PMap κ) : Prop := ∀ k, get a k = get b k
infix:50 " ≃ " => Equiv

@[simp] theorem get_nil (k : κ) : get ([] : PMap κ) k = 0 := rfl
@[simp] theorem get_cons (k' : κ) (e : Rat) (t : PMap κ) (k : κ) :
    get ((k', e) :: t) k = (if k' = k then e else 0) + get t k := rfl

@[simp] theorem get_add (a b : PMap κ) (k : κ) : get (add a b) k = get a k + get b k := by
  induction a with
  | nil => simp only [add, List.nil_append, get_nil]; grind
  | cons h t ih =>
      obtain ⟨k', e⟩ := h
      simp only [add, List.cons_append, get_cons] at *
      grind

@[simp] theorem get_smul (q : Rat) (a : PMap κ) (k : κ) : get (smul q a) k = q * get a k := by
  induction a with
  | nil => simp only [smul, List.map_nil, get_nil]; grind
  | cons h t ih =>
      obtain ⟨k', e⟩ := h
      simp only [smul, List.map_cons, get_cons] at *
      grind

@[simp] theorem get_neg (a : PMap κ) (k : κ) : get (neg a) k = - get a k := by
  simp only [neg, get_smul]; grind

@[simp] theorem get_sub (a b : PMap κ) (k : κ) : get (sub a b) k = get a k - get b k := by
  simp only [sub, get_add, get_neg]; grind

@[simp] theorem get_single (k k' : κ) (e : Rat) : get (single k e) k' = if k = k' then e else 0 := by
  simp only [single, get_cons, get_nil]; grind

theorem Equiv.refl (a : PMap κ) : a ≃ a := fun _ => rfl
theorem Equiv.symm {a b : PMap κ} (h : a ≃ b) : b ≃ a := fun k => (h k).symm
theorem Equiv.trans {a b c : PMap κ} (h₁ : a ≃ b) (h₂ : b ≃ c) : a ≃ c := fun k => (h₁ k).trans (h₂ k)

theorem add_congr {a a' b b' : PMap κ} (ha : a ≃ a') (hb : b ≃ b') : add a b ≃ add a' b' := by
  intro k; simp only [get_add, ha k, hb k]
theorem smul_congr (q : Rat) {a a' : PMap κ} (ha : a ≃ a') : smul q a ≃ smul q a' := by
  intro k; simp only [get_smul, ha k]
theorem neg_congr {a a' : PMap κ} (ha : a ≃ a') : neg a ≃ neg a' := by
  intro k; simp only [get_neg, ha k]
theorem sub_congr {a a' b b' : PMap κ} (ha : a ≃ a') (hb : b ≃ b') : sub a b ≃ sub a' b' := by
  intro k; simp only [get_sub, ha k, hb k]

/-! ### canonical form -/
variable [KeyLt κ]

/-- insert into a list sorted by key, adding exponents, dropping zeros -/
def ins (k : κ) (e : Rat) : PMap κ → PMap κ
  | [] => if e = 0 then [] else [(k, e)]
  | (k', f) :: t =>
      if KeyLt.ltb k k' then (if e = 0 then (k', f) :: t else (k, e) :: (k', f) :: t)
      else if k = k' then (if e + f = 0 then t else (k', e + f) :: t)
      else (k', f) :: ins k e t

def norm : PMap κ → PMap κ
  | [] => []
  | (k, e) :: t => ins k e (norm t)

theorem get_ins (k : κ) (e : Rat) (m : PMap κ) (k₀ : κ) :
    get (ins k e m) k₀ = (if k = k₀ then e else 0) + get m k₀ := by
  induction m with
  | nil => unfold ins; split <;> simp only [get_cons, get_nil] <;> grind
  | cons h t ih =>
      obtain ⟨k', f⟩ := h
      unfold ins
      split
      · split <;> simp only [get_cons] <;> grind
      · split
        · rename_i hk; subst hk
          split <;> simp only [get_cons] <;> grind
        · simp only [get_cons, ih]; grind

@[simp] theorem get_norm (m : PMap κ) (k : κ) : get (norm m) k = get m k := by
  induction m with
  | nil => rfl
  | cons h t ih =>
      obtain ⟨k', e⟩ := h
      simp only [norm, get_ins, ih, get_cons]

theorem norm_equiv (m : PMap κ) : norm m ≃ m := fun k => get_norm m k

/-- soundness of the executable equality test: equal canonical forms ⇒ equal meaning -/
theorem equiv_of_norm_eq {a b : PMap κ} (h : norm a = norm b) : a ≃ b := by
  intro k; rw [← get_norm a, ← get_norm b, h]

/-- executable semantic-equality test -/
def beq (a b : PMap κ) : Bool := decide (norm a = norm b)

theorem equiv_of_beq {a b : PMap κ} (h : beq a b = true) : a ≃ b :=
  equiv_of_norm_eq (of_decide_eq_true h)

def isZero (a : PMap κ) : Bool := decide (norm a = [])

theorem get_of_isZero {a : PMap κ} (h : isZero a = true) (k : κ) : get a k = 0 := by
  have : norm a = norm ([] : PMap κ) := of_decide_eq_true h
  have h2 := equiv_of_norm_eq this k
  simpa only [get_nil] using h2

end PMap
