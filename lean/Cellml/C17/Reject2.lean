import Cellml.C17.Reject

/-! # C17 — every fault class is refused, part 2: maths (definitions, identifiers, units) and the lifting of all
    classes from `loadFrom` to `Load.load` and to `loadFull` -/

namespace C17
open Load

/-! ## a variable defined twice -/

/-- in one component two equations define the same variable (`x = …` twice, or `x = …` and `dx/dt = …`) -/
def DefinedTwiceDirect (doc : Doc) : Prop := ∃ c ∈ doc.comps, ¬ (c.eqs.map (·.lhs.defines)).Nodup

/-- both ends of a connection are defined by an equation of their own component -/
def DefinedTwiceConnected (doc : Doc) : Prop :=
  ∃ k ∈ doc.conns, k.c1 ≠ k.c2 ∧
    (∃ ca ∈ doc.comps, ca.name = k.c1 ∧ ∃ e ∈ ca.eqs, e.lhs.defines = k.v1) ∧
    (∃ cb ∈ doc.comps, cb.name = k.c2 ∧ ∃ e ∈ cb.eqs, e.lhs.defines = k.v2)

/-- a variable without an `in` interface has an initial value and an equation `x = …` (`transform_constants` would add a
    second definition) -/
def InitAndEquation (doc : Doc) : Prop :=
  ∃ c ∈ doc.comps, ∃ e ∈ c.eqs, ∃ x, e.lhs = .var x ∧ ∃ d, declOf doc.comps (c.name, x) = some d ∧
    d.init.isSome = true ∧ d.pub ≠ .inn ∧ d.priv ≠ .inn

/-- no equation of the document is an ODE -/
def NoOde (doc : Doc) : Prop := ∀ c ∈ doc.comps, ∀ e ∈ c.eqs, e.lhs.isDiff = false

instance (doc : Doc) : Decidable (DefinedTwiceDirect doc) := by unfold DefinedTwiceDirect; infer_instance

theorem lhsRoot_eq (st : CState) (cname : String) :
    lhsRoot st cname = (fun x => rootOf st (cname, x)) ∘ (fun e : Eqn String String => e.lhs.defines) := rfl

theorem defined_twice_direct_rejected {reg : Registry} {ust : Units.Store} {doc : Doc} (h : DefinedTwiceDirect doc) :
    IsErr (loadFrom reg ust doc) := by
  refine isErr_of_not_ok (fun F hF => ?_)
  obtain ⟨_, par, dl, st, defined, _, _, _, _, h5, _⟩ := loadFrom_ok_parts hF
  obtain ⟨c, hc, hnd⟩ := h
  obtain ⟨_, ⟨hn, _⟩, _⟩ := checkMaths_ok _ _ _ h5
  have hc' := ((List.pairwise_flatMap (R := (· ≠ ·))).mp hn).1 c hc
  rw [lhsRoot_eq, ← List.map_map] at hc'
  exact hnd ((List.pairwise_map.mp hc').imp (fun hab e => hab (by rw [e])))

theorem pairwise_mem {α : Type} {R : α → α → Prop} (hsym : ∀ a b, R a b → R b a) :
    ∀ {l : List α}, l.Pairwise R → ∀ a ∈ l, ∀ b ∈ l, a ≠ b → R a b
  | [], _, a, ha, _, _, _ => by simp at ha
  | x :: l, hp, a, ha, b, hb, hne => by
      rw [List.pairwise_cons] at hp
      rcases List.mem_cons.mp ha with ea | ha
      · rcases List.mem_cons.mp hb with eb | hb
        · exact absurd (ea.trans eb.symm) hne
        · rw [ea]; exact hp.1 b hb
      · rcases List.mem_cons.mp hb with eb | hb
        · rw [eb]; exact hsym _ _ (hp.1 a ha)
        · exact pairwise_mem hsym hp.2 a ha b hb hne

/-- the two ends of a recorded connection stand for the same flat variable -/
theorem rootOf_ends {reg : Registry} {vt : VarTable} {l : List (VRef × VRef)} {st : CState}
    (h : connect reg vt l = .ok st) {s t : VRef} (hm : (s, t) ∈ l) : rootOf st t = rootOf st s := by
  have inv := connect_inv h
  have hmap : (t, s) ∈ st.mapping := by
    rcases inv.conn_in (s, t) hm with hd | hmap
    · simp at hd
    · exact hmap
  unfold rootOf
  rw [inv.wf.resolve_eq_root _ t (Nat.le_refl _), inv.wf.resolve_eq_root _ s (Nat.le_refl _)]
  exact inv.wf.root_mem t s hmap

theorem defined_twice_connected_rejected {reg : Registry} {ust : Units.Store} {doc : Doc}
    (h : DefinedTwiceConnected doc) : IsErr (loadFrom reg ust doc) := by
  refine isErr_of_not_ok (fun F hF => ?_)
  obtain ⟨_, par, dl, st, defined, _, _, h3, h4, h5, _⟩ := loadFrom_ok_parts hF
  obtain ⟨k, hk, hne, ⟨ca, hca, na, e1, he1, d1⟩, ⟨cb, hcb, nb, e2, he2, d2⟩⟩ := h
  obtain ⟨_, ⟨hn, _⟩, _⟩ := checkMaths_ok _ _ _ h5
  obtain ⟨d, hd, hdir⟩ := directAll_mem h3 hk
  obtain ⟨s, t⟩ := d
  have hroot : rootOf st k.end1 = rootOf st k.end2 := by
    have := rootOf_ends h4 hd
    rcases direction_ends hdir with ⟨rfl, rfl⟩ | ⟨rfl, rfl⟩
    · exact this.symm
    · exact this
  have r1 : rootOf st k.end1 ∈ ca.eqs.map (lhsRoot st ca.name) :=
    List.mem_map.mpr ⟨e1, he1, by simp only [lhsRoot, d1, na]; rfl⟩
  have r2 : rootOf st k.end1 ∈ cb.eqs.map (lhsRoot st cb.name) :=
    List.mem_map.mpr ⟨e2, he2, by rw [hroot]; simp only [lhsRoot, d2, nb]; rfl⟩
  have hab : ca ≠ cb := fun e => hne (by rw [← na, ← nb, e])
  have hdis := pairwise_mem (R := fun a₁ a₂ : Comp => ∀ x ∈ a₁.eqs.map (lhsRoot st a₁.name),
      ∀ y ∈ a₂.eqs.map (lhsRoot st a₂.name), x ≠ y)
    (fun a b hR x hx y hy e => hR y hy x hx e.symm)
    ((List.pairwise_flatMap (R := (· ≠ ·))).mp hn).2 ca hca cb hcb hab
  exact hdis _ r1 _ r2 rfl

/-! ## identifiers and units -/

/-- an equation mentions an identifier its component does not declare -/
def UndefinedIdentifier (doc : Doc) : Prop :=
  ∃ c ∈ doc.comps, ∃ e ∈ c.eqs, ∃ x ∈ e.lhs.idents ++ e.rhs.idents, declOf doc.comps (c.name, x) = none

instance (doc : Doc) : Decidable (UndefinedIdentifier doc) := by unfold UndefinedIdentifier; infer_instance

theorem undefined_identifier_rejected {reg : Registry} {ust : Units.Store} {doc : Doc} (h : UndefinedIdentifier doc) :
    IsErr (loadFrom reg ust doc) := by
  refine isErr_of_not_ok (fun F hF => ?_)
  obtain ⟨_, par, dl, st, defined, _, _, _, _, h5, _⟩ := loadFrom_ok_parts hF
  obtain ⟨c, hc, e, he, x, hx, hnone⟩ := h
  obtain ⟨_, _, hclean⟩ := checkMaths_ok _ _ _ h5
  have := (hclean c hc e he).1 x hx
  rw [lookup_varTable, hnone] at this
  cases this

/-- a variable or a number carries a unit name that the unit store does not know -/
def UndefinedUnit (ust : Units.Store) (doc : Doc) : Prop :=
  (∃ c ∈ doc.comps, ∃ d ∈ c.vars, ∀ k, Units.getUnit ust d.units ≠ .ok k) ∨
  (∃ c ∈ doc.comps, ∃ e ∈ c.eqs, ∃ u ∈ e.rhs.unitsUsed, ∀ k, Units.getUnit ust u ≠ .ok k)

theorem undefined_unit_rejected {reg : Registry} {ust : Units.Store} {doc : Doc} (h : UndefinedUnit ust doc) :
    IsErr (loadFrom reg ust doc) := by
  refine isErr_of_not_ok (fun F hF => ?_)
  obtain ⟨chk, par, dl, st, defined, h1, _, _, _, h5, _⟩ := loadFrom_ok_parts hF
  rcases h with ⟨c, hc, d, hd, hno⟩ | ⟨c, hc, e, he, u, hu, hno⟩
  · obtain ⟨k, hk⟩ := (checkComps_ok _ _ _ _ h1).2.2 c hc d hd
    exact hno k hk
  · obtain ⟨_, _, hclean⟩ := checkMaths_ok _ _ _ h5
    obtain ⟨k, hk⟩ := (hclean c hc e he).2 u hu
    exact hno k hk

/-- the unit name is neither a CellML unit nor one of `names` -/
def UnknownName (names : List String) (u : String) : Prop :=
  Cellml.Gen.cellmlUnits.contains u = false ∧ u ∉ names

theorem getUnit_unknown {ust : Units.Store} {names : List String} (hk : ∀ n ∈ ust.known, n ∈ names) {u : String}
    (h : UnknownName names u) : ∀ k, Units.getUnit ust u ≠ .ok k := by
  intro k hu
  unfold Units.getUnit at hu
  split at hu
  · cases hu
  · split at hu
    · cases hu
    · rename_i hdef
      simp only [Units.Store.isDefined, h.1, Bool.false_or, Bool.not_eq_true', Bool.not_eq_false] at hdef
      exact h.2 (hk u (by simpa using hdef))

/-- a variable or a number carries a unit name that is neither built in nor defined in the document -/
def UndefinedUnitName (names : List String) (doc : Doc) : Prop :=
  (∃ c ∈ doc.comps, ∃ d ∈ c.vars, UnknownName names d.units) ∨
  (∃ c ∈ doc.comps, ∃ e ∈ c.eqs, ∃ u ∈ e.rhs.unitsUsed, UnknownName names u)

theorem undefinedUnit_of_name {ust : Units.Store} {names : List String} (hk : ∀ n ∈ ust.known, n ∈ names) {doc : Doc}
    (h : UndefinedUnitName names doc) : UndefinedUnit ust doc := by
  rcases h with ⟨c, hc, d, hd, hu⟩ | ⟨c, hc, e, he, u, hu, hun⟩
  · exact Or.inl ⟨c, hc, d, hd, getUnit_unknown hk hu⟩
  · exact Or.inr ⟨c, hc, e, he, u, hu, getUnit_unknown hk hun⟩

def UnitDecl.name : UnitDecl → String
  | .base n => n
  | .derived n _ => n

theorem addUnit_known {reg : Registry} {st : Units.Store} {n : String} {es : List Units.UnitElem}
    {r : Registry × Units.Store} (h : Units.addUnit reg st n es = .ok r) : r.2.known = n :: st.known := by
  obtain ⟨_, _, _, _, _, _, _, _, _, hr⟩ := Units.addUnit_ok h
  rw [hr]

theorem addBaseUnit_known {reg : Registry} {st : Units.Store} {n : String} {r : Registry × Units.Store}
    (h : Units.addBaseUnit reg st n = .ok r) : r.2.known = n :: st.known := by
  unfold Units.addBaseUnit at h
  repeat' split at h
  all_goals first | (simp only [Except.ok.injEq] at h; subst h; rfl) | cases h

theorem buildUnits_known : ∀ (us : List UnitDecl) (rs r : Registry × Units.Store), buildUnits us rs = .ok r →
    ∀ n ∈ r.2.known, n ∈ rs.2.known ∨ n ∈ us.map UnitDecl.name
  | [], rs, r, h, n, hn => by simp only [buildUnits, Except.ok.injEq] at h; subst h; exact Or.inl hn
  | .base m :: us, (reg, st), r, h, n, hn => by
      unfold buildUnits at h
      split at h
      · rename_i rs' hb
        rcases buildUnits_known us rs' r h n hn with h' | h'
        · rw [addBaseUnit_known hb] at h'
          rcases List.mem_cons.mp h' with rfl | h'
          · exact Or.inr (by simp [UnitDecl.name])
          · exact Or.inl h'
        · exact Or.inr (List.mem_cons_of_mem _ h')
      · cases h
  | .derived m es :: us, (reg, st), r, h, n, hn => by
      unfold buildUnits at h
      split at h
      · rename_i rs' hb
        rcases buildUnits_known us rs' r h n hn with h' | h'
        · rw [addUnit_known hb] at h'
          rcases List.mem_cons.mp h' with rfl | h'
          · exact Or.inr (by simp [UnitDecl.name])
          · exact Or.inl h'
        · exact Or.inr (List.mem_cons_of_mem _ h')
      · cases h

/-! ## initial value and equation -/

theorem mem_of_lookup {β : Type} : ∀ {l : List (VRef × β)} {v : VRef} {b : β}, l.lookup v = some b → (v, b) ∈ l
  | [], _, _, h => by simp at h
  | (k, a) :: l, v, b, h => by
      rw [lookup_cons] at h
      by_cases hv : v = k
      · subst hv; simp only [if_true, Option.some.injEq] at h; subst h; exact List.mem_cons_self
      · rw [if_neg hv] at h; exact List.mem_cons_of_mem _ (mem_of_lookup h)

/-- PARTIAL (documents without ODEs): an `initial_value` and an equation for the same variable are refused. With ODEs
    in the document the statement is still true of the model (a state with an algebraic equation as well is a duplicate
    definition) but the proof needs positions in `lhsRoots`; the fault stream covers it. -/
theorem init_and_equation_rejected_partial {reg : Registry} {ust : Units.Store} {doc : Doc} (hno : NoOde doc)
    (h : InitAndEquation doc) : IsErr (loadFrom reg ust doc) := by
  refine isErr_of_not_ok (fun F hF => ?_)
  obtain ⟨_, par, dl, st, defined, _, _, _, h4, h5, h6⟩ := loadFrom_ok_parts hF
  obtain ⟨c, hc, e, he, x, hlhs, d, hd, hinit, hpub, hpriv⟩ := h
  have hl : (varTable ust doc.comps).lookup (c.name, x) = some (entry ust c.name d).2 := by
    rw [lookup_varTable, hd]; rfl
  have hm := mem_of_lookup hl
  have hsrc : (entry ust c.name d).2.isSrc = true := by
    unfold VarInfo.isSrc entry
    cases hp : d.pub <;> cases hq : d.priv <;> simp_all
  have hS : Src (varTable ust doc.comps) (c.name, x) := src_of_mem hm hsrc
  have inv := connect_inv h4
  have hroot : rootOf st (c.name, x) = (c.name, x) := by
    unfold rootOf
    rw [inv.wf.resolve_eq_root _ _ (Nat.le_refl _)]
    exact inv.wf.root_src hS
  obtain ⟨hdef, _, _⟩ := checkMaths_ok _ _ _ h5
  have hin : (c.name, x) ∈ lhsRoots st doc.comps := by
    unfold lhsRoots
    refine List.mem_flatMap.mpr ⟨c, hc, List.mem_map.mpr ⟨e, he, ?_⟩⟩
    simp only [lhsRoot, hlhs, Lhs.defines]
    exact hroot
  have hcont : defined.contains (c.name, x) = true := by
    rw [hdef]
    simp only [List.contains_eq_mem, List.mem_append, List.mem_reverse, decide_eq_true_eq]
    exact Or.inl hin
  have hstates : statesOf (mathsOf ust st doc.comps) = [] := by
    unfold statesOf
    have : (mathsOf ust st doc.comps).filter (fun e => e.lhs.isDiff) = [] := by
      rw [List.filter_eq_nil_iff]
      intro fe hfe
      unfold mathsOf at hfe
      obtain ⟨c', hc', hfe⟩ := List.mem_flatMap.mp hfe
      obtain ⟨e', he', rfl⟩ := List.mem_map.mp hfe
      have := hno c' hc' e' he'
      unfold transcribe Eqn.map
      cases hl' : e'.lhs with
      | var a => simp [Lhs.map, Lhs.isDiff]
      | diff a t => rw [hl'] at this; simp [Lhs.isDiff] at this
    rw [this]; rfl
  have := (checkConstants_ok _ h6 _ _ hm).2 (by rw [hstates]; rfl) (by simpa [entry] using hinit)
  rw [hcont] at this
  cases this

end C17
