"""Code-translator spec: Model.graph_with_sympy_numbers (cellmlmanip/model.py) ->
lean/Cellml/Generated/Code/GraphNum.lean, tied to C09.stripGraph in lean/Cellml/Tie/GraphNum.lean.

Leaves bound here (none of them is decided inside graph_with_sympy_numbers):
 * the cache attribute self._graph_with_sympy_numbers: an explicit state variable `cache`, returned with the result;
 * self.graph.copy(): the built graph (tied separately);
 * graph.nodes[n]['equation'], equation.lhs; equation.rhs.atoms(Quantity) (sympy; in the view `numView` it is
   `quantityAtoms e`, a list that is non-empty iff the model input `Eqn.hasQ` says the right-hand side holds a Quantity);
   the dict comprehension that maps each Quantity to its Float is represented by its key list (only its truthiness is
   asked: `if subs_dict:` - the guard the hand model `C09.keepEdge` now has as well);
   equation.rhs.xreplace(subs_dict) (sympy: the substituted right-hand side, identified by its equation) and
   find_variables_and_derivatives([rhs]) = the model's INPUT `Eqn.refsNum` (observed from sympy, see C09/Model.lean);
 * tuple(graph.in_edges(v)), edge[0], graph.remove_edge(u, v) (networkx);
 * graph.nodes[node]['equation'] = sympy.Eq(lhs, rhs): the rewritten `equation` attribute is NOT modelled by C09.Graph
   (the model's result is the list of left-hand sides, which the rewrite keeps) - bound to a no-op.
"""

GROUP = {'name': 'GraphNum',
 'imports': ['Cellml.Tie.GraphView'],
 'header': 'open Cellml.Tie.PGraph\nopen C09',
 'functions': [{'file': 'cellmlmanip/model.py',
                'func': 'Model.graph_with_sympy_numbers',
                'lean_name': 'graphWithSympyNumbers',
                'params': ['self', 'cache'],
                'signature': '(self : NumView) (cache : Option Graph) : Except PyErr (Graph × Option Graph)',
                'mutable': ['graph', 'cache'],
                'patterns': [('self._graph_with_sympy_numbers', 'cache'),
                             ('self.graph.copy()', '← self.graph'),
                             ("graph.nodes[__A]['equation']", '(self.equationOf {A})'),
                             ('equation.rhs.atoms(Quantity)', '(self.dummies (theEqn equation))'),
                             ('{d: d.evalf(FLOAT_PRECISION) for d in dummies}', 'dummies'),
                             ('equation.rhs.xreplace(subs_dict)', '(self.xreplace (theEqn equation) subs_dict)'),
                             ('self.find_variables_and_derivatives([rhs])', '(self.refsOfRhs rhs)'),
                             ('equation.lhs', '(theEqn equation).lhs'),
                             ('tuple(graph.in_edges(__A))', '(nxInEdges graph {A})'),
                             ('edge[0]', '(edge).1')],
                'stmt_patterns': [('return self._graph_with_sympy_numbers', 'return (theGraph cache, cache)'),
                                  ('return __A', 'return ({A}, cache)'),
                                  ('self._graph_with_sympy_numbers = __A', 'cache := some {A}'),
                                  ('graph.remove_edge(__A, __B)', 'graph := nxRemoveEdge graph {A} {B}'),
                                  ("graph.nodes[node]['equation'] = sympy.Eq(equation.lhs, rhs)", 'pure ()')]}]}
