import Cellml.C15.Model
import Cellml.Props.C01

/-! # Element permutations: what `Load.prepare` / `Load.load` keep when order-insensitive elements are permuted -/

namespace C15
open Load

theorem fair_ident : Adv.ident.Fair := ⟨fun _ => List.Perm.refl _, fun _ _ => List.Perm.refl _, fun _ => List.Perm.refl _⟩

theorem fair_rev : Adv.rev.Fair := ⟨fun _ => List.reverse_perm _, fun _ _ => List.reverse_perm _, fun _ => List.reverse_perm _⟩

theorem rotateLeft_perm {α : Type} (l : List α) (k : Nat) : (l.rotateLeft k).Perm l := by
  unfold List.rotateLeft
  simp only []
  split
  · exact List.Perm.refl _
  · exact List.perm_append_comm.trans (by rw [List.take_append_drop])

theorem fair_rot (k : Nat) : (Adv.rot k).Fair :=
  ⟨fun _ => rotateLeft_perm _ _, fun _ _ => rotateLeft_perm _ _, fun _ => rotateLeft_perm _ _⟩

/-- the stages of `prepare`, read back from its result -/
theorem prepare_parts {doc : Doc} {L : Loaded} (h : prepare doc = .ok L) :
    buildUnits doc.units (Units.builtinRegistry, { id := 0, known := [] }) = .ok (L.reg, L.ust) ∧
    (∃ chk, checkComps L.ust doc.comps [] ([], doc.cmeta.toList) = .ok chk) ∧
    L.vt = varTable L.ust doc.comps ∧
    buildParents (doc.comps.map (·.name)) doc.encaps [] [] = .ok L.par ∧
    directAll (doc.comps.map (·.name)) L.par L.vt doc.conns = .ok L.dl ∧
    connect L.reg L.vt L.dl = .ok L.st := by
  unfold prepare at h
  split at h
  · cases h
  · rename_i reg ust hu
    split at h
    · cases h
    · rename_i chk hc
      simp only at h
      split at h
      · cases h
      · rename_i par hp
        split at h
        · cases h
        · rename_i dl hd
          split at h
          · cases h
          · rename_i st hs
            simp only [Except.ok.injEq] at h
            subst h
            exact ⟨hu, ⟨chk, hc⟩, rfl, hp, hd, hs⟩

/-- the maths of the flat model only look at the state of the work list through `rootOf` -/
theorem mathsOf_congr (ust : Units.Store) {st st' : CState} (h : ∀ v, rootOf st v = rootOf st' v) (comps : List Comp) :
    mathsOf ust st comps = mathsOf ust st' comps := by
  unfold mathsOf
  congr 1
  funext c
  congr 1
  funext e
  unfold transcribe
  congr 1
  funext x
  exact h _

/-- `flatVars` up to the cmeta id (which `transfer_cmeta_id` may have moved): name, units, initial value -/
def plainVars (F : Flat) : List (VRef × Container × Option Rat) := F.vars.map (fun v => (v.ref, v.units, v.init))

theorem plainVars_flat (L : Loaded) (doc : Doc) :
    plainVars (L.flat doc) = L.vt.map (fun p => (p.1, p.2.units, if (L.states doc).contains p.1 then p.2.init else none)) := by
  simp only [plainVars, Loaded.flat, flatVars, List.map_map]
  rfl

/-! ## Re-spelling the maths of the components (equations inside `<math>`, `<math>` elements inside a component) -/

/-- the same components with the equation list of each replaced by `σ c` -/
def respell (σ : Comp → List (Eqn String String)) (comps : List Comp) : List Comp :=
  comps.map (fun c => { c with eqs := σ c })

theorem respell_names (σ : Comp → List (Eqn String String)) (comps : List Comp) :
    (respell σ comps).map (·.name) = comps.map (·.name) := by
  simp only [respell, List.map_map]
  rfl

theorem respell_varTable (σ : Comp → List (Eqn String String)) (ust : Units.Store) (comps : List Comp) :
    varTable ust (respell σ comps) = varTable ust comps := by
  unfold varTable respell
  induction comps with
  | nil => rfl
  | cons c cs ih => simp only [List.map_cons, List.flatMap_cons, ih]

theorem respell_checkComps (σ : Comp → List (Eqn String String)) (ust : Units.Store) :
    ∀ (comps : List Comp) (seen : List String) (acc : List VRef × List String),
      checkComps ust (respell σ comps) seen acc = checkComps ust comps seen acc
  | [], _, _ => rfl
  | c :: cs, seen, acc => by
      simp only [respell, List.map_cons]
      unfold checkComps
      simp only
      split
      · rfl
      · cases checkVars ust c.name c.vars acc with
        | error e => rfl
        | ok acc' => exact respell_checkComps σ ust cs (c.name :: seen) acc'

/-- `prepare` never looks at the equations -/
theorem respell_prepare (σ : Comp → List (Eqn String String)) (doc : Doc) :
    prepare { doc with comps := respell σ doc.comps } = prepare doc := by
  unfold prepare
  simp only [respell_checkComps, respell_varTable, respell_names]

theorem respell_maths_perm (σ : Comp → List (Eqn String String)) (hσ : ∀ c, (σ c).Perm c.eqs) (ust : Units.Store)
    (st : CState) (comps : List Comp) : (mathsOf ust st (respell σ comps)).Perm (mathsOf ust st comps) := by
  unfold mathsOf respell
  induction comps with
  | nil => exact List.Perm.refl _
  | cons c cs ih =>
      simp only [List.map_cons, List.flatMap_cons]
      exact List.Perm.append ((hσ c).map _) ih

theorem statesOf_perm {eqs eqs' : List FlatEq} (h : eqs'.Perm eqs) : (statesOf eqs').Perm (statesOf eqs) := by
  unfold statesOf
  exact (h.filter _).map _

theorem constsOf_congr {s s' : List VRef} (h : ∀ v, v ∈ s' ↔ v ∈ s) (vt : VarTable) : constsOf s' vt = constsOf s vt := by
  unfold constsOf
  congr 1
  funext ⟨v, i⟩
  have : s'.contains v = s.contains v := by
    rw [Bool.eq_iff_iff, List.contains_iff_mem, List.contains_iff_mem]; exact h v
  simp only [this]

theorem flatVars_congr {s s' : List VRef} (h : ∀ v, v ∈ s' ↔ v ∈ s) (st : CState) (vt : VarTable) :
    flatVars s' st vt = flatVars s st vt := by
  unfold flatVars
  congr 1
  funext ⟨v, i⟩
  have : s'.contains v = s.contains v := by
    rw [Bool.eq_iff_iff, List.contains_iff_mem, List.contains_iff_mem]; exact h v
  simp only [this]

end C15
