import Cellml.Tie.GenDGraph

/-! # C09 — the property theorems of `Props/C09.lean`, stated about the GENERATED code

    `Props/C09.lean` proves its theorems about the hand model `C09.getEquationsFor`. Here every headline theorem is
    restated with the hand model replaced by `genEquationsFor` (`Tie/GenDGraph.lean`): the definition generated from the
    source of `Model.get_equations_for`, reading `self.graph` / `self.graph_with_sympy_numbers` as the definitions
    generated from the source of those two properties. Each is a corollary of the theorem of the same name (without
    `_gen`) through the closed tie `genEquationsFor_tie`.

    * Python returns the `equation` attributes (`List (Option Eqn)`); `lhsList res` is the list of their left-hand sides,
      which is what the original theorems speak about; `eqsfor_shape_gen` says that nothing is lost: `res` is the list
      of the model's equations filed under those left-hand sides.
    * No domain hypothesis is carried over from the tie any more. (Until the model repair of
      notes/reports/MODELFIX_Strip.md every theorem with `strip = true` carried `NumOK m`: the hand model pruned the
      in-edges of every equation, the code only of equations holding a `Quantity`. The model now has the guard,
      `Eqn.hasQ`; `skewPy` below, once the witness of the disagreement, is now an example of agreement.)
    * `lexTopo_*`: `nx.lexicographical_topological_sort` is a networkx function — there is no source in /repo to generate
      from. The generated `get_equations_for` calls it through the leaf binding `nxLexTopo` (`Tie/GraphView.lean`); the
      `lexTopo_*_gen` theorems restate the originals for that binding (they are about the MODEL of networkx, as the
      originals are). What the sort contributes to the generated code is in `eqsfor_relative_order_gen`,
      `eqsfor_order_gen`, `eqsfor_insertion_independent_gen`. -/

namespace Cellml.Props.C09Gen
open _root_.C09 Cellml.Tie Cellml.Tie.PGraph Cellml.Tie.GenD Cellml.Props.C09

/-! ## The sort, as called by the generated code (`nxLexTopo`) -/

theorem lexTopo_perm_gen (key : Node → String) (g : Graph) (hwf : WF g) (hac : Acyclic g) :
    ∃ l, nxLexTopo key g = .ok l ∧ l.Perm g.nodes := by
  obtain ⟨l, hl, hp⟩ := lexTopo_perm key g hwf hac
  exact ⟨l, (nxLexTopo_ok_iff key g l).mpr hl, hp⟩

theorem lexTopo_ok_is_perm_gen (key : Node → String) (g : Graph) (l : List Node) (h : nxLexTopo key g = .ok l) :
    l.Perm g.nodes := lexTopo_ok_is_perm key g l ((nxLexTopo_ok_iff key g l).mp h)

theorem lexTopo_topological_gen (key : Node → String) (g : Graph) (l : List Node) (h : nxLexTopo key g = .ok l) :
    ∀ (i : Nat) (v : Node), l[i]? = some v → ∀ u, (u, v) ∈ g.edges → u ∈ l.take i :=
  lexTopo_topological key g l ((nxLexTopo_ok_iff key g l).mp h)

theorem lexTopo_least_gen (key : Node → String) (g : Graph) (l : List Node) (h : nxLexTopo key g = .ok l)
    (i : Nat) (v : Node) (hi : l[i]? = some v) (w : Node) (hw : w ∈ g.nodes) (hnot : w ∉ l.take i)
    (hready : ∀ u, (u, w) ∈ g.edges → u ∈ l.take i) : ¬ key w < key v :=
  lexTopo_least key g l ((nxLexTopo_ok_iff key g l).mp h) i v hi w hw hnot hready

/-- the call returns exactly on the acyclic graphs, and raises `NetworkXUnfeasible` otherwise -/
theorem lexTopo_ok_iff_acyclic_gen (key : Node → String) (g : Graph) (hwf : WF g) :
    ((∃ l, nxLexTopo key g = .ok l) ↔ Acyclic g) ∧
    (nxLexTopo key g = .error ⟨"NetworkXUnfeasible"⟩ ↔ ¬ Acyclic g) := by
  have hiff := lexTopo_ok_iff_acyclic key g hwf
  refine ⟨?_, ?_⟩
  · rw [← hiff]
    exact ⟨fun ⟨l, hl⟩ => ⟨l, (nxLexTopo_ok_iff key g l).mp hl⟩, fun ⟨l, hl⟩ => ⟨l, (nxLexTopo_ok_iff key g l).mpr hl⟩⟩
  · rw [nxLexTopo_error_iff, ← hiff]
    constructor
    · rintro ⟨x, hx⟩ ⟨l, hl⟩; rw [hx] at hl; cases hl
    · intro hn
      cases h : lexTopo key g with
      | ok l => exact absurd ⟨l, h⟩ hn
      | error x => exact ⟨x, rfl⟩

theorem lexTopo_perm_of_no_cycle_gen (key : Node → String) (g : Graph) (hwf : WF g)
    (hno : ∀ v, ¬ TC (Edge' g) v v) : ∃ l, nxLexTopo key g = .ok l ∧ l.Perm g.nodes :=
  lexTopo_perm_gen key g hwf ((_root_.C09.acyclic_iff_no_cycle g).mpr hno)

theorem lexTopo_insertion_independent_gen (key : Node → String) (g g' : Graph)
    (hnodes : g'.nodes.Perm g.nodes) (hedges : ∀ e, e ∈ g'.edges ↔ e ∈ g.edges) (hinj : KeyInj key g.nodes) :
    nxLexTopo key g' = nxLexTopo key g := by
  unfold nxLexTopo
  rw [lexTopo_insertion_independent key g g' hnodes hedges hinj]

theorem lexTopo_tie_by_insertion_gen :
    nxLexTopo (fun _ => "k") ⟨[0, 1], []⟩ = .ok [0, 1] ∧ nxLexTopo (fun _ => "k") ⟨[1, 0], []⟩ = .ok [1, 0] :=
  ⟨(nxLexTopo_ok_iff _ _ _).mpr lexTopo_tie_by_insertion.1, (nxLexTopo_ok_iff _ _ _).mpr lexTopo_tie_by_insertion.2⟩

/-! ## `get_equations_for` (generated, over the generated `graph` and `graph_with_sympy_numbers`) -/

/-- what python returns is determined by the left-hand sides: each entry is an equation of the model (never `None`),
    and it is the equation filed under its own left-hand side -/
theorem eqsfor_shape_gen (m : PyModel) (vars : List Node) (recurse strip : Bool)
    (res : List (Option Eqn)) (h : genEquationsFor m vars recurse strip = .ok res) :
    res = (lhsList res).map (eqnOf m.eqs) ∧ ∀ o ∈ res, ∃ e ∈ m.eqs, o = some e ∧ eqnOf m.eqs e.lhs = some e :=
  ⟨(gen_ok h).2, gen_entries h⟩

/-- **Complete and minimal, each equation exactly once** (`eqsfor_exact` for the generated code) -/
theorem eqsfor_exact_gen (m : PyModel) (vars : List Node) (recurse strip : Bool)
    (res : List (Option Eqn)) (h : genEquationsFor m vars recurse strip = .ok res) :
    (lhsList res).Nodup ∧ ∀ v, v ∈ lhsList res ↔ (hasEq m.eqs v = true ∧ Needed m.eqs vars recurse strip v) :=
  eqsfor_exact m.key m.eqs vars recurse strip _ (gen_ok h).1

theorem eqsfor_count_gen (m : PyModel) (vars : List Node) (recurse strip : Bool)
    (res : List (Option Eqn)) (h : genEquationsFor m vars recurse strip = .ok res) (v : Node)
    (hv : v ∈ lhsList res) : (lhsList res).count v = 1 :=
  eqsfor_count m.key m.eqs vars recurse strip _ (gen_ok h).1 v hv

theorem eqsfor_relative_order_gen (m : PyModel) (vars : List Node) (recurse strip : Bool)
    (res : List (Option Eqn)) (h : genEquationsFor m vars recurse strip = .ok res)
    (i : Nat) (v : Node) (hi : (lhsList res)[i]? = some v) (u : Node) (huv : DepOn m.eqs strip u v)
    (hu : u ∈ lhsList res) : u ∈ (lhsList res).take i :=
  eqsfor_relative_order m.key m.eqs vars recurse strip _ (gen_ok h).1 i v hi u huv hu

/-- **Evaluable order** (`eqsfor_order` for the generated code) -/
theorem eqsfor_order_gen (m : PyModel) (vars : List Node) (strip : Bool)
    (res : List (Option Eqn)) (h : genEquationsFor m vars true strip = .ok res)
    (i : Nat) (v : Node) (hi : (lhsList res)[i]? = some v) (u : Node) (huv : DepOn m.eqs strip u v) :
    u ∈ (lhsList res).take i ∨ (hasEq m.eqs u = false ∧ isStateOrFree m.eqs u = true) :=
  eqsfor_order m.key m.eqs vars strip _ (gen_ok h).1 i v hi u huv

theorem eqsfor_order_all_gen (m : PyModel) (vars : List Node) (strip : Bool)
    (res : List (Option Eqn)) (h : genEquationsFor m vars true strip = .ok res)
    (i : Nat) (e : Eqn) (he : e ∈ m.eqs) (hi : (lhsList res)[i]? = some e.lhs) :
    ∀ u ∈ e.refs, (strip = true → u ∈ e.numRefs) →
      u ∈ (lhsList res).take i ∨ (hasEq m.eqs u = false ∧ isStateOrFree m.eqs u = true) :=
  eqsfor_order_all m.key m.eqs vars strip _ (gen_ok h).1 i e he hi

/-- **The call returns on every valid acyclic system** (`eqsfor_total` for the generated code): python raises
    nothing -/
theorem eqsfor_total_gen (m : PyModel) (vars : List Node) (recurse strip : Bool)
    (hvalid : Valid m.key m.eqs)
    (hvars : ∀ v ∈ vars, hasEq m.eqs v = true ∨ isStateOrFree m.eqs v = true)
    (hno : ∀ v, ¬ TC (DepOn m.eqs strip) v v) :
    ∃ res, genEquationsFor m vars recurse strip = .ok res := by
  obtain ⟨r, hr⟩ := eqsfor_total m.key m.eqs vars recurse strip hvalid hvars hno
  exact ⟨_, gen_of_ok hr⟩

theorem eqsfor_total_of_rank_gen (m : PyModel) (vars : List Node) (recurse strip : Bool)
    (hvalid : Valid m.key m.eqs)
    (hvars : ∀ v ∈ vars, hasEq m.eqs v = true ∨ isStateOrFree m.eqs v = true)
    (hac : ∃ rank : Node → Nat, ∀ u v, DepOn m.eqs strip u v → rank u < rank v) :
    ∃ res, genEquationsFor m vars recurse strip = .ok res := by
  obtain ⟨r, hr⟩ := eqsfor_total_of_rank m.key m.eqs vars recurse strip hvalid hvars hac
  exact ⟨_, gen_of_ok hr⟩

theorem eqsfor_ok_only_if_gen (m : PyModel) (vars : List Node) (recurse strip : Bool)
    (res : List (Option Eqn)) (h : genEquationsFor m vars recurse strip = .ok res) :
    Valid m.key m.eqs ∧ (∀ v ∈ vars, hasEq m.eqs v = true ∨ isStateOrFree m.eqs v = true) ∧
      ∃ rank : Node → Nat, ∀ u v, DepOn m.eqs strip u v → rank u < rank v :=
  eqsfor_ok_only_if m.key m.eqs vars recurse strip _ (gen_ok h).1

theorem eqsfor_ok_no_cycle_gen (m : PyModel) (vars : List Node) (recurse strip : Bool)
    (res : List (Option Eqn)) (h : genEquationsFor m vars recurse strip = .ok res) :
    ∀ v, ¬ TC (DepOn m.eqs strip) v v :=
  eqsfor_ok_no_cycle m.key m.eqs vars recurse strip _ (gen_ok h).1

/-- which exception python raises when it does not return: `AssertionError` for an invalid system, `NetworkXError`
    (recursing) / `KeyError` (not recursing) for a request that is not a node, `NetworkXUnfeasible` for a cycle — the
    classes `errName` assigns to the hand model's errors -/
theorem eqsfor_error_gen (m : PyModel) (vars : List Node) (recurse strip : Bool)
    (e : PyErr) (h : genEquationsFor m vars recurse strip = .error e) :
    ∃ x, getEquationsFor m.key m.eqs vars recurse strip = .error x ∧ e = ⟨errName recurse x⟩ := by
  cases hm : getEquationsFor m.key m.eqs vars recurse strip with
  | ok r => rw [gen_of_ok hm] at h; cases h
  | error x => rw [gen_of_error hm] at h; cases h; exact ⟨x, rfl, rfl⟩

/-! ## The unit-stripped variant -/

/-- `strip_subset` for the generated code -/
theorem strip_subset_gen (m : PyModel) (vars : List Node) (recurse : Bool)
    (resS resP : List (Option Eqn))
    (hS : genEquationsFor m vars recurse true = .ok resS)
    (hP : genEquationsFor m vars recurse false = .ok resP) :
    (∀ v ∈ vars, hasEq m.eqs v = true → v ∈ lhsList resS) ∧
    ((lhsList resS).Nodup ∧ ∀ v, v ∈ lhsList resS ↔ (hasEq m.eqs v = true ∧ Needed m.eqs vars recurse true v)) ∧
    (∀ v ∈ lhsList resS, v ∈ lhsList resP) ∧
    (∀ v ∈ lhsList resP, v ∉ lhsList resS → ¬ Needed m.eqs vars recurse true v) :=
  strip_subset m.key m.eqs vars recurse _ _ (gen_ok hS).1 (gen_ok hP).1

/-- … and at the level of the returned equation objects: every equation of the stripped result is in the
    unstripped one -/
theorem strip_subset_entries_gen (m : PyModel) (vars : List Node) (recurse : Bool)
    (resS resP : List (Option Eqn))
    (hS : genEquationsFor m vars recurse true = .ok resS)
    (hP : genEquationsFor m vars recurse false = .ok resP) : ∀ o ∈ resS, o ∈ resP := by
  have hsub := (strip_subset_gen m vars recurse resS resP hS hP).2.2.1
  have h1 := (gen_ok hS).2
  have h2 := (gen_ok hP).2
  intro o ho
  rw [h1] at ho
  obtain ⟨v, hv, rfl⟩ := List.mem_map.mp ho
  rw [h2]
  exact List.mem_map.mpr ⟨v, hsub v hv, rfl⟩

theorem strip_ok_of_plain_ok_gen (m : PyModel) (vars : List Node) (recurse : Bool)
    (resP : List (Option Eqn)) (hP : genEquationsFor m vars recurse false = .ok resP) :
    ∃ resS, genEquationsFor m vars recurse true = .ok resS := by
  obtain ⟨r, hr⟩ := strip_ok_of_plain_ok m.key m.eqs vars recurse _ (gen_ok hP).1
  exact ⟨_, gen_of_ok hr⟩

/-! ## Evaluating the returned list from top to bottom -/

/-- `eqsfor_evaluable` for the generated code -/
theorem eqsfor_evaluable_gen {K : Type} (m : PyModel) (vars : List Node) (strip : Bool)
    (res : List (Option Eqn)) (h : genEquationsFor m vars true strip = .ok res)
    (f : Node → (Node → K) → K) (hloc : ReadsOnly m.eqs strip f) (ρ₀ : Node → K) :
    (∀ v ∈ lhsList res, run f (lhsList res) ρ₀ v = f v (run f (lhsList res) ρ₀)) ∧
    (∀ u, hasEq m.eqs u = false → run f (lhsList res) ρ₀ u = ρ₀ u) :=
  eqsfor_evaluable m.key m.eqs vars strip _ (gen_ok h).1 f hloc ρ₀

/-- `strip_values_partial` for the generated code (PARTIAL exactly as the original: `hsame`, `hlocN` are hypotheses
    about SymPy) -/
theorem strip_values_partial_gen {K : Type} (m : PyModel) (vars : List Node)
    (resS resP : List (Option Eqn))
    (hS : genEquationsFor m vars true true = .ok resS)
    (hP : genEquationsFor m vars true false = .ok resP)
    (f fN : Node → (Node → K) → K) (hloc : ReadsOnly m.eqs false f) (hlocN : ReadsOnly m.eqs true fN)
    (hsame : ∀ v ρ, hasEq m.eqs v = true → fN v ρ = f v ρ) (ρ₀ : Node → K) :
    ∀ v ∈ lhsList resS, run fN (lhsList resS) ρ₀ v = run f (lhsList resP) ρ₀ v :=
  strip_values_partial m.key m.eqs vars _ _ (gen_ok hS).1 (gen_ok hP).1
    f fN hloc hlocN hsame ρ₀

/-! ## Independence of insertion order -/

/-- `eqsfor_insertion_independent` for the generated code: two python models holding the same system (entered in any
    order, reference sets iterated in any order, any `Variable.type` left-overs, any variable lists) return equations
    with the same left-hand sides in the same order -/
theorem eqsfor_insertion_independent_gen (m m' : PyModel) (hkey : m'.key = m.key) (vars : List Node)
    (recurse strip : Bool)
    (res res' : List (Option Eqn)) (hsame : SameSystem m.eqs m'.eqs)
    (hinj : ∀ a b, (hasEq m.eqs a = true ∨ isStateOrFree m.eqs a = true) →
      (hasEq m.eqs b = true ∨ isStateOrFree m.eqs b = true) → m.key a = m.key b → a = b)
    (h : genEquationsFor m vars recurse strip = .ok res)
    (h' : genEquationsFor m' vars recurse strip = .ok res') : lhsList res' = lhsList res := by
  have h1 := (gen_ok h).1
  have h2 := (gen_ok h').1
  rw [hkey] at h2
  exact eqsfor_insertion_independent m.key m.eqs m'.eqs vars recurse strip _ _ hsame hinj h1 h2

/-! ## Non-vacuity: the diamond of `Props/C09.lean` run through the generated code
    (`c = 0·a + 1` is the one equation with a `Quantity` whose reference vanishes) -/

def diamondPy : PyModel := { key := diamondKey, eqs := diamond }

/-- the generated code, evaluated by the kernel -/
example : (genEquationsFor diamondPy [0] true false).map lhsList = .ok [3, 1, 2, 0] := by decide +kernel
example : (genEquationsFor diamondPy [0] false false).map lhsList = .ok [1, 2, 0] := by decide +kernel
example : (genEquationsFor diamondPy [2] true false).map lhsList = .ok [3, 2] := by decide +kernel
example : (genEquationsFor diamondPy [2] true true).map lhsList = .ok [2] := by decide +kernel
example : genEquationsFor diamondPy [7] true false = .error ⟨"NetworkXError"⟩ := by decide +kernel
example : genEquationsFor diamondPy [7] false false = .error ⟨"KeyError"⟩ := by decide +kernel
/-- … and the hypotheses of `eqsfor_total_gen` are met by it -/
example : ∃ res, genEquationsFor diamondPy [0] true true = .ok res :=
  eqsfor_total_gen diamondPy [0] true true
    (eqsfor_ok_only_if diamondKey diamond [0] true true [3, 1, 2, 0] (by decide +kernel)).1
    (eqsfor_ok_only_if diamondKey diamond [0] true true [3, 1, 2, 0] (by decide +kernel)).2.1
    (eqsfor_ok_no_cycle diamondKey diamond [0] true true [3, 1, 2, 0] (by decide +kernel))

/-- **The guard `if subs_dict:`** (once the disagreement of TIE_Graph.md, item 1): `b = a` without any `Quantity`, handed
    an empty `refsNum` — the code skips the equation and returns `[a, b]` for the request `[b]`, and so does the hand
    model now (before it had the guard `Eqn.hasQ` it pruned the edge and returned `[b]`). With a `Quantity` in the
    equation both prune. -/
def skewPy : PyModel :=
  { key := diamondKey,
    eqs := [{ lhs := 1, refs := [3], refsNum := [], hasQ := false }, { lhs := 3, refs := [], refsNum := [] }] }

example : getEquationsFor skewPy.key skewPy.eqs [1] true true = .ok [3, 1] := by decide +kernel
example : (genEquationsFor skewPy [1] true true).map lhsList = .ok [3, 1] := by decide +kernel
example : (genEquationsFor { skewPy with eqs := [{ lhs := 1, refs := [3], refsNum := [] },
    { lhs := 3, refs := [], refsNum := [] }] } [1] true true).map lhsList = .ok [1] := by decide +kernel

end Cellml.Props.C09Gen

-- ================================================================================================ axiom audit
/-- info: 'Cellml.Props.C09Gen.eqsfor_exact_gen' depends on axioms: [propext, Classical.choice, Quot.sound] -/
#guard_msgs in
#print axioms Cellml.Props.C09Gen.eqsfor_exact_gen
/-- info: 'Cellml.Props.C09Gen.eqsfor_order_gen' depends on axioms: [propext, Classical.choice, Quot.sound] -/
#guard_msgs in
#print axioms Cellml.Props.C09Gen.eqsfor_order_gen
/-- info: 'Cellml.Props.C09Gen.eqsfor_evaluable_gen' depends on axioms: [propext, Classical.choice, Quot.sound] -/
#guard_msgs in
#print axioms Cellml.Props.C09Gen.eqsfor_evaluable_gen
/-- info: 'Cellml.Props.C09Gen.eqsfor_total_gen' depends on axioms: [propext, Classical.choice, Quot.sound] -/
#guard_msgs in
#print axioms Cellml.Props.C09Gen.eqsfor_total_gen
/-- info: 'Cellml.Props.C09Gen.eqsfor_insertion_independent_gen' depends on axioms: [propext, Classical.choice, Quot.sound] -/
#guard_msgs in
#print axioms Cellml.Props.C09Gen.eqsfor_insertion_independent_gen
/-- info: 'Cellml.Props.C09Gen.strip_subset_gen' depends on axioms: [propext, Classical.choice, Quot.sound] -/
#guard_msgs in
#print axioms Cellml.Props.C09Gen.strip_subset_gen
/-- info: 'Cellml.Props.C09Gen.eqsfor_shape_gen' depends on axioms: [propext, Classical.choice, Quot.sound] -/
#guard_msgs in
#print axioms Cellml.Props.C09Gen.eqsfor_shape_gen
/-- info: 'Cellml.Props.C09Gen.eqsfor_error_gen' depends on axioms: [propext, Classical.choice, Quot.sound] -/
#guard_msgs in
#print axioms Cellml.Props.C09Gen.eqsfor_error_gen
/-- info: 'Cellml.Props.C09Gen.lexTopo_perm_gen' depends on axioms: [propext, Classical.choice, Quot.sound] -/
#guard_msgs in
#print axioms Cellml.Props.C09Gen.lexTopo_perm_gen
/-- info: 'Cellml.Props.C09Gen.lexTopo_least_gen' depends on axioms: [propext, Classical.choice, Quot.sound] -/
#guard_msgs in
#print axioms Cellml.Props.C09Gen.lexTopo_least_gen
/-- info: 'Cellml.Props.C09Gen.lexTopo_ok_iff_acyclic_gen' depends on axioms: [propext, Classical.choice, Quot.sound] -/
#guard_msgs in
#print axioms Cellml.Props.C09Gen.lexTopo_ok_iff_acyclic_gen
/-- info: 'Cellml.Props.C09Gen.lexTopo_insertion_independent_gen' depends on axioms: [propext, Classical.choice, Quot.sound] -/
#guard_msgs in
#print axioms Cellml.Props.C09Gen.lexTopo_insertion_independent_gen
