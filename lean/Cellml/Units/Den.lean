import Cellml.Units.Worklist

/-! The meaning of a set of `<units>` definitions according to the CellML specification (1.1, section 5.2.2 / 5.4.2),
    written as an inductive relation straight from the formula

        ⟦units⟧ = ∏ over its <unit> children of  multiplier · (10^prefix · ⟦referenced units⟧)^exponent

    A meaning is a pair (scale to the root units, root-unit exponents); scales are prime-exponent maps, so a product is
    `PMap.add`, a power is `PMap.smul`. The relation refers to the definitions only through membership, hence it cannot
    depend on their order. Built-in units get their meaning from the table `Units.builtinRoots`, which
    `Cellml.Props.C03` proves equal, entry by entry, to table 2 of the specification. Core Lean only. -/

namespace Units
open PMap

/-- power of ten of the `prefix` attribute (default 0) -/
def elemPrefix (e : UnitElem) : Option Int :=
  match e.pfx with
  | none => some 0
  | some p => prefixPower p

/-- the `exponent` attribute (default 1) -/
def elemExponent (e : UnitElem) : Option Rat :=
  match e.exponent with
  | none => some 1
  | some t => Decimal.parse t

/-- the `multiplier` attribute (default 1) as a scale; defined for positive multipliers -/
def elemMultiplier (e : UnitElem) : Option Scale :=
  match e.multiplier with
  | none => some []
  | some t => (Decimal.parse t).bind Factor.rat

/-- multiplier · (10^prefix · x)^exponent -/
def elemDen (k : Int) (q : Rat) (m : Scale) (x : Scale × Container) : Scale × Container :=
  (add m (smul q (add (pow10 k) x.1)), smul q x.2)

/-- product of two meanings -/
def mulDen (x y : Scale × Container) : Scale × Container := (add x.1 y.1, add x.2 y.2)

/-- meaning of a built-in name: `dimensionless` is the empty product, the others come from the table -/
def builtinDen (n : String) : Option (Scale × Container) :=
  if n = "dimensionless" then some ([], []) else builtinRoots.lookup n

/-- `Den id defs elems x`: the product of the `<unit>` children `elems` means `x`, given the definitions `defs`
    (`id` only names the new root units that `base_units="yes"` definitions introduce) -/
inductive Den (id : Nat) (defs : List UDef) : List UnitElem → Scale × Container → Prop
  | nil : Den id defs [] ([], [])
  | builtin {e : UnitElem} {es : List UnitElem} {k : Int} {q : Rat} {m : Scale} {x y : Scale × Container} :
      elemPrefix e = some k → elemExponent e = some q → elemMultiplier e = some m →
      Cellml.Gen.cellmlUnits.contains e.units = true → builtinDen e.units = some x →
      Den id defs es y → Den id defs (e :: es) (mulDen (elemDen k q m x) y)
  | base {e : UnitElem} {es : List UnitElem} {k : Int} {q : Rat} {m : Scale} {d : UDef} {y : Scale × Container} :
      elemPrefix e = some k → elemExponent e = some q → elemMultiplier e = some m →
      d ∈ defs → d.base = true → d.name = e.units →
      Den id defs es y → Den id defs (e :: es) (mulDen (elemDen k q m ([], [(prefixName id d.name, 1)])) y)
  | user {e : UnitElem} {es : List UnitElem} {k : Int} {q : Rat} {m : Scale} {d : UDef} {x y : Scale × Container} :
      elemPrefix e = some k → elemExponent e = some q → elemMultiplier e = some m →
      d ∈ defs → d.base = false → d.name = e.units → Den id defs d.elems x →
      Den id defs es y → Den id defs (e :: es) (mulDen (elemDen k q m x) y)

/-- meaning of a NAME: a built-in, a new base unit, or a user definition -/
inductive NameDen (id : Nat) (defs : List UDef) : String → Scale × Container → Prop
  | builtin {n : String} {x : Scale × Container} :
      Cellml.Gen.cellmlUnits.contains n = true → builtinDen n = some x → NameDen id defs n x
  | base {d : UDef} : d ∈ defs → d.base = true → NameDen id defs d.name ([], [(prefixName id d.name, 1)])
  | user {d : UDef} {x : Scale × Container} : d ∈ defs → d.base = false → Den id defs d.elems x → NameDen id defs d.name x

/-- the order of the definitions is irrelevant to the meaning: only membership is used -/
theorem Den.of_mem_iff {id : Nat} {defs defs' : List UDef} (h : ∀ d, d ∈ defs ↔ d ∈ defs') {es : List UnitElem}
    {x : Scale × Container} (hd : Den id defs es x) : Den id defs' es x := by
  induction hd with
  | nil => exact .nil
  | builtin h1 h2 h3 h4 h5 _ ih => exact .builtin h1 h2 h3 h4 h5 ih
  | base h1 h2 h3 hm hb hn _ ih => exact .base h1 h2 h3 ((h _).mp hm) hb hn ih
  | user h1 h2 h3 hm hb hn _ _ ihx ih => exact .user h1 h2 h3 ((h _).mp hm) hb hn ihx ih

theorem NameDen.of_mem_iff {id : Nat} {defs defs' : List UDef} (h : ∀ d, d ∈ defs ↔ d ∈ defs') {n : String}
    {x : Scale × Container} (hd : NameDen id defs n x) : NameDen id defs' n x := by
  cases hd with
  | builtin h1 h2 => exact .builtin h1 h2
  | base hm hb => exact .base ((h _).mp hm) hb
  | user hm hb hx => exact .user ((h _).mp hm) hb (hx.of_mem_iff h)

end Units
