import Cellml.Tie.Prelude
import Cellml.C14.Pipeline

/-! # What the translated functions of the NUMBER PIPELINE see (property C14)

    `harness/code_specs/numpipe.py` translates, from the source text of cellmlmanip, every function a number of the
    document passes through AFTER the parser's `_cn_handler` (which is `Tie/Transpile.lean`):

    | python                                   | generated (`Cellml.Gen.NumPipe.…`) |
    |------------------------------------------|------------------------------------|
    | `Quantity.__new__`                       | `quantityNew`                      |
    | `Quantity.__init__`                      | `quantityInit`                     |
    | `Quantity.__float__`                     | `quantityFloat`                    |
    | `Quantity._eval_evalf`                   | `quantityEvalEvalf`                |
    | `Model.create_quantity`                  | `createQuantity`                   |
    | `Variable.__init__`                      | `variableInit`                     |
    | `Parser.transform_constants`             | `transformConstants`               |
    | `Model.graph_with_sympy_numbers`         | `graphWithSympyNumbers`            |
    | `Model._get_value` (+ `expand_derivatives`, `get_value`) | `getValueRec`, `expandDerivatives`, `getValue` |
    | `Printer._print_float`, `_print_Float`, `_print_int` | `printFloat`, `printFloatS`, `printInt` |

    A python `float` is its binary64 bit pattern (`Nat`, as everywhere in `C14`). The LEAVES — python's `float(x)`,
    `str(x)` of a float / int, `'{:g}'.format`, `sympy.Float(x, dps)`, `Expr.evalf(n)`, `Float.__float__`, `Dummy.__new__`,
    `xreplace`, `atoms`, networkx — are the accessors below; the ones with a C14 model (`C14/Pipeline.lean`) are DEFINED by
    its pieces, the others (`'{:g}'`, `repr`, the Dummy counter, the unit look-up) are fields of `PView`, so every
    theorem holds for every reading of them. Core Lean only. -/

namespace Cellml.Tie.PNumPipe
open C14

/-! ## python values -/

/-- what is handed to `Quantity(value, …)` / `create_quantity(value, …)`: a python `float`, or a `str` -/
inductive PyVal where
  | flt (b : Nat)
  | str (s : String)
deriving DecidableEq, Repr, Inhabited

/-- a unit argument: a `str` name or a `Unit` object of the model's store (C14 does not look inside) -/
inductive UArg where
  | name (s : String)
  | unit (s : String)
deriving DecidableEq, Repr, Inhabited

/-- a sympy number as the C14 model has it (`C14.evalfStage`): an `mpf` `(man, exp)` (scaled by 2^1074) with its sign,
    the integer `Zero` (mpmath has no signed zero), or a non-finite double handed through (outside the property) -/
inductive SNum where
  | flt (neg : Bool) (mj : Nat × Nat)
  | zero
  | nonfinite (b : Nat)
deriving DecidableEq, Repr, Inhabited

/-- the leaves that have no model in `C14/*.lean`; every tie theorem quantifies over them -/
structure PView where
  /-- `'{:g}'.format(x)` of a float -/
  fmtG : Nat → String
  /-- `str(x)` = `repr(x)` of a python float -/
  reprF : Nat → String
  /-- `Dummy._count` at the time of the call (the `dummy_index` the new object gets) -/
  count : Nat
  /-- `self.units.get_unit(name)` -/
  getUnit : String → Except PyErr String

/-- the one fact the C14 theorems need about `str(float)`: `float()` reads the text back as the same double
    (`repr` is the shortest such text; any is as good — `C14.Emits`) -/
def ReprOK (v : PView) : Prop := ∀ b, isFiniteBits b = true → b < 2 ^ 64 → Emits b (v.reprF b).toList

/-! ## `Quantity` objects -/

/-- a `Quantity` (a `sympy.Dummy`): identity (`dummy_index`), the symbol name, the assumption `real`, and the two
    attributes `__init__` sets (`none` = not set yet) -/
structure QObj where
  id : Nat
  name : String
  real : Bool
  _value : Option PyVal := none
  units : Option UArg := none
deriving DecidableEq, Repr, Inhabited

/-- `isinstance(value, str)` -/
def PyVal.isStr : PyVal → Bool
  | .str _ => true
  | .flt _ => false

/-- `'{:g}'.format(value)` (the result is a `str`) -/
def fmtG (v : PView) : PyVal → PyVal
  | .flt b => .str (v.fmtG b)
  | .str s => .str s                 -- python: ValueError for a str; `__new__` only formats non-str values

/-- `'_' + value`: TypeError unless `value` is a `str` -/
def strConcat (a : String) : PyVal → Except PyErr String
  | .str s => .ok (a ++ s)
  | .flt _ => .error ⟨"TypeError"⟩

/-- `super().__new__(cls, name, real=…)`: a new Dummy with the next index -/
def newDummy (v : PView) (name : String) (real : Bool) : QObj := { id := v.count, name := name, real := real }

/-- `self._value` (AttributeError before `__init__`) -/
def attrValue (q : QObj) : Except PyErr PyVal :=
  match q._value with
  | some x => .ok x
  | none => .error ⟨"AttributeError"⟩

/-- python `float(x)`: the float itself, or ONE parse of a text (`C14.decToBitsL`, which skips the blanks around it) -/
def pyFloat : PyVal → Except PyErr Nat
  | .flt b => .ok b
  | .str s => match decToBitsL s.toList with
    | some b => .ok b
    | none => .error ⟨"ValueError"⟩

/-- `float(x)` where `x` may be `None` (TypeError) -/
def pyFloatOpt : Option PyVal → Except PyErr Nat
  | some x => pyFloat x
  | none => .error ⟨"TypeError"⟩

/-- `sympy.Float(x, dps)` of a python float: the double widened to `dps_to_prec(dps)` bits (first rounding step of
    `C14.evalfStage`). A `str` is outside the C14 model (a decimal text parsed at that precision). -/
def sympyFloat (x : PyVal) (dps : Nat) : Except PyErr SNum :=
  match x with
  | .str _ => .error ⟨"outside: sympy.Float of a str"⟩
  | .flt b =>
    if !isFiniteBits b then .ok (.nonfinite b)
    else
      let mj := decodeScaled (magOf b)
      if mj.1 = 0 then .ok .zero
      else .ok (.flt (isNeg b) (roundSig (dpsToPrec dps) mj))

/-- sympy's `x.evalf(n)` on an atom with `_eval_evalf`: `prec = dps_to_prec(n)`, the atom's `_eval_evalf(prec + 4)`,
    then rounding to the working precision `prec + 4` and to `prec` (see the header of `C14/Pipeline.lean`) -/
def sympyEvalf (evalEvalf : Nat → Except PyErr SNum) (n : Nat) : Except PyErr SNum :=
  match evalEvalf (dpsToPrec n + 4) with
  | .error e => .error e
  | .ok (.flt neg mj) => .ok (.flt neg (roundSig (dpsToPrec n) (roundSig (dpsToPrec n + 4) mj)))
  | .ok s => .ok s

/-- `float(x)` of a sympy number: `Float.__float__` (`C14.toFloat`), `Zero` ↦ `+0.0` -/
def floatOfSNum : SNum → Nat
  | .flt neg mj => withSign neg (toFloat mj)
  | .zero => 0
  | .nonfinite b => b

/-- python `type.__call__`: `Quantity(value, units)` runs `__new__`, then `__init__` on the new object -/
def construct (new : PyVal → Except PyErr QObj) (init : QObj → PyVal → UArg → Except PyErr QObj)
    (value : PyVal) (units : UArg) : Except PyErr QObj :=
  match new value with
  | .error e => .error e
  | .ok o => init o value units

/-- `isinstance(units, self.units.Unit)` -/
def UArg.isUnit : UArg → Bool
  | .unit _ => true
  | .name _ => false

/-- `self.units.get_unit(units)` -/
def getUnitArg (v : PView) : UArg → Except PyErr UArg
  | .name s => match v.getUnit s with
    | .ok u => .ok (.unit u)
    | .error e => .error e
  | .unit _ => .error ⟨"outside: get_unit of a Unit object"⟩

/-! ## `Variable` objects -/

/-- a `Variable` with every attribute `Variable.__init__` sets -/
structure VObj where
  id : Nat
  _model : Option Nat := none
  name : Option String := none
  units : Option UArg := none
  initial_value : Option PyVal := none
  public_interface : Option String := none
  private_interface : Option String := none
  assigned_to : Option Nat := none
  order_added : Option Nat := none
  _cmeta_id : Option String := none
  _rdf_identity : Option String := none
  type : Option String := none
deriving DecidableEq, Repr, Inhabited

/-- `float(x)` as the value of an attribute -/
def someFlt (b : Nat) : Option PyVal := some (.flt b)

/-! ## expressions, equations, the graph — as far as numbers are concerned -/

/-- a leaf of a sympy expression: a `Quantity`, a sympy number, a `Variable`, a `Derivative` -/
inductive NLeaf where
  | qty (q : QObj)
  | num (s : SNum)
  | var (v : Nat)
  | deriv (v : Nat)
deriving DecidableEq, Repr, Inhabited

/-- a sympy expression: its leaves in traversal order, and everything else about it (`shape`; 0 = the expression IS
    its only leaf). `xreplace` keeps the shape. -/
structure NExpr where
  shape : Nat
  leaves : List NLeaf
deriving DecidableEq, Repr, Inhabited

structure NEq where
  lhs : Nat
  rhs : NExpr
deriving DecidableEq, Repr, Inhabited

/-- a python `set` of objects as the list of its distinct members -/
def dedup {α} [DecidableEq α] : List α → List α
  | [] => []
  | a :: l => if a ∈ dedup l then dedup l else a :: dedup l

/-- `expr.atoms(Quantity)`: the distinct Quantity objects -/
def quantityAtoms (e : NExpr) : List QObj :=
  dedup (e.leaves.filterMap fun l => match l with | .qty q => some q | _ => none)

/-- `expr.atoms(Variable)` -/
def varAtoms (e : NExpr) : List Nat :=
  dedup (e.leaves.filterMap fun l => match l with | .var v => some v | _ => none)

/-- `expr.atoms(sympy.Derivative)` (as the state variable it differentiates) -/
def derivAtoms (e : NExpr) : List Nat :=
  dedup (e.leaves.filterMap fun l => match l with | .deriv v => some v | _ => none)

/-- `self.find_variables_and_derivatives([rhs])` -/
def varRefs (e : NExpr) : List Nat :=
  e.leaves.filterMap fun l => match l with | .var v => some v | .deriv v => some v | _ => none

def lookupQ (d : List (QObj × SNum)) (q : QObj) : Option SNum := (d.find? fun p => p.1 == q).map (·.2)

/-- `expr.xreplace(subs_dict)` for a dict Quantity ↦ number: a Quantity that is a key is replaced, everything else stays -/
def xreplaceQ (e : NExpr) (d : List (QObj × SNum)) : NExpr :=
  { e with leaves := e.leaves.map fun l => match l with
      | .qty q => (match lookupQ d q with | some s => .num s | none => .qty q)
      | l => l }

/-- the graph: nodes with their `'equation'` attribute, edges -/
structure NGraph where
  nodes : List (Nat × Option NEq)
  edges : List (Nat × Nat)
deriving DecidableEq, Repr, Inhabited

/-- `graph.nodes` (iteration) -/
def NGraph.nodeIds (g : NGraph) : List Nat := g.nodes.map (·.1)

/-- `graph.nodes[n]['equation']` (KeyError for a node that is not there) -/
def nodeEquation (g : NGraph) (n : Nat) : Except PyErr (Option NEq) :=
  match g.nodes.find? (fun p => p.1 == n) with
  | some p => .ok p.2
  | none => .error ⟨"KeyError"⟩

/-- `graph.nodes[n]['equation'] = eq` -/
def setEquation (g : NGraph) (n : Nat) (eq : NEq) : NGraph :=
  { g with nodes := g.nodes.map fun p => if p.1 == n then (p.1, some eq) else p }

/-- python narrows `equation` after `if equation is None: continue` -/
def theEq (e : Option NEq) : NEq := e.getD default

/-- `tuple(graph.in_edges(v))` -/
def inEdges (g : NGraph) (v : Nat) : List (Nat × Nat) := g.edges.filter fun ed => ed.2 == v

/-- `graph.remove_edge(u, v)` -/
def removeEdge (g : NGraph) (u v : Nat) : NGraph := { g with edges := g.edges.filter fun ed => !(ed == (u, v)) }

/-- `self._graph_with_sympy_numbers` after `is not None` -/
def theGraph (c : Option NGraph) : NGraph := c.getD default

/-- the `Model` as `graph_with_sympy_numbers`, `_get_value`, `transform_constants` see it -/
structure NModel where
  /-- `self.graph` (a property that may raise) -/
  graph : Except PyErr NGraph := .ok default
  /-- `self._ode_definition_map`: state variable ↦ right-hand side of its ODE (the left-hand side is `d state / d time`) -/
  odes : List (Nat × NExpr) := []
  /-- `self._var_definition_map`: variable ↦ right-hand side of its defining equation -/
  defs : List (Nat × NExpr) := []
  /-- the `Variable` objects, in insertion order -/
  vars : List VObj := []
  /-- `self.get_free_variable()` -/
  free : Except PyErr Nat := .error ⟨"ValueError"⟩
  /-- `Dummy._count` -/
  count : Nat := 0
deriving Inhabited

/-! ### `transform_constants` -/

/-- `set(self.model.get_state_variables())` (only used for `in`) -/
def stateVars (m : NModel) : List VObj := m.vars.filter fun x => m.odes.any fun p => p.1 == x.id

/-- the leaves of `create_quantity` when the model is in state `m` (the Dummy counter moves with every new Dummy) -/
def viewAt (v : PView) (m : NModel) : PView := { v with count := m.count }

/-- an attribute that python has narrowed to "not None" (`elif var.initial_value is not None:`); TypeError otherwise
    (what `float(None)` / `get_unit(None)` would raise) -/
def optVal {α} : Option α → Except PyErr α
  | some a => .ok a
  | none => .error ⟨"TypeError"⟩

/-- `self.model.add_equation(sympy.Eq(var, quantity))`: `_check_duplicate_definitions` (ValueError), then the definition
    is recorded; the new Dummy has used up one index -/
def addEquationQ (m : NModel) (x : VObj) (q : QObj) : Except PyErr NModel :=
  if (m.defs.any fun p => p.1 == x.id) || (m.odes.any fun p => p.1 == x.id) then .error ⟨"ValueError"⟩
  else .ok { m with defs := m.defs ++ [(x.id, ⟨0, [.qty q]⟩)], count := m.count + 1 }

/-- `var.initial_value = None` -/
def clearInit (m : NModel) (x : VObj) : NModel :=
  { m with vars := m.vars.map fun y => if y.id == x.id then { y with initial_value := none } else y }

/-! ### `_get_value` -/

/-- python's `0` where a float is expected (`return 0`, `evaluated[time] = 0`): `+0.0` -/
class PyZero (α : Type) where
  zero : α
instance : PyZero Nat := ⟨0⟩
instance : PyZero (Option Nat) := ⟨some 0⟩
def zeroVal {α} [PyZero α] : α := PyZero.zero

/-- the dictionary `evaluated` (`None` = not made yet): variable ↦ float, or `None` for a state without initial value -/
abbrev NMemo := Option (List (Nat × Option Nat))

instance : Py.DictLike NMemo Nat (Option Nat) where
  keys d := match d with | some l => l.map (·.1) | none => []
  setItem d k v := d.map (Py.setAssoc k v)

/-- `self._ode_definition_map.keys()` -/
def odeKeys (m : NModel) : List Nat := m.odes.map (·.1)

/-- `self._ode_definition_map.get(v)` -/
def odeGet (m : NModel) (v : Nat) : Option (Nat × NExpr) := m.odes.find? fun p => p.1 == v

/-- `ode.lhs` (as the state variable it differentiates) -/
def odeLhs (o : Option (Nat × NExpr)) : Nat := (o.map (·.1)).getD 0

/-- `ode.rhs` (AttributeError on `None`) -/
def optRhs : Option (Nat × NExpr) → Except PyErr NExpr
  | some p => .ok p.2
  | none => .error ⟨"AttributeError"⟩

/-- `expr.xreplace(replacements)`: every derivative that is a key is replaced by its expression -/
def xreplaceD (e : NExpr) (d : List (Nat × NExpr)) : NExpr :=
  match e with
  | ⟨0, [.deriv x]⟩ => (match d.find? (fun p => p.1 == x) with | some p => p.2 | none => e)
  | _ => ⟨e.shape + 1, e.leaves.flatMap fun l => match l with
      | .deriv x => (match d.find? (fun p => p.1 == x) with | some p => p.2.leaves | none => [l])
      | l => [l]⟩

/-- `x.initial_value` of the Variable with that identity (`None` when it has none) -/
def initialValueOf (m : NModel) (x : Nat) : Option PyVal := (m.vars.find? fun y => y.id == x).bind (·.initial_value)

/-- an `initial_value` as a value of `evaluated` (`Variable.__init__` made it a float or `None`) -/
def memoInit : Option PyVal → Option Nat
  | some (.flt b) => some b
  | _ => none

/-- a float returned by `_get_value` as a value of `evaluated` -/
def memoFloat (b : Nat) : Option Nat := some b

/-- `self._var_definition_map[v]` (here already its right-hand side) -/
def varDefItem (m : NModel) (x : Nat) : Except PyErr NExpr :=
  match m.defs.find? fun p => p.1 == x with
  | some p => .ok p.2
  | none => .error ⟨"KeyError"⟩

/-- a python float inside a sympy expression: `sympify` makes a `Float` of 53 bits -/
def sOfFloat (b : Nat) : SNum :=
  if !isFiniteBits b then .nonfinite b
  else if (decodeScaled (magOf b)).1 = 0 then .zero
  else .flt (isNeg b) (decodeScaled (magOf b))

/-- `expr.xreplace(evaluated)`: AttributeError for `None`, a value `None` cannot be sympified -/
def xreplaceMemo (e : NExpr) (d : NMemo) : Except PyErr NExpr :=
  match d with
  | none => .error ⟨"AttributeError"⟩
  | some l =>
    if e.leaves.any (fun lf => match lf with
        | .var x => (match l.find? (fun p => p.1 == x) with | some (_, none) => true | _ => false)
        | _ => false)
    then .error ⟨"SympifyError"⟩
    else .ok { e with leaves := e.leaves.map fun lf => match lf with
        | .var x => (match l.find? (fun p => p.1 == x) with | some (_, some b) => .num (sOfFloat b) | _ => lf)
        | lf => lf }

/-- `float(expr)` of a sympy expression: an atom answers itself — a `Quantity` through its `__float__` (the generated
    one is handed in), a number through `Float.__float__`; evaluating a compound expression is sympy's arithmetic, which
    C14 does not model -/
def floatExpr (quantityFloat : QObj → Except PyErr Nat) (e : NExpr) : Except PyErr Nat :=
  match e with
  | ⟨0, [.qty q]⟩ => quantityFloat q
  | ⟨0, [.num s]⟩ => .ok (floatOfSNum s)
  | _ => .error ⟨"outside: sympy evaluates a compound expression"⟩

end Cellml.Tie.PNumPipe
