"""Probe of cellmlmanip.units.UnitStore.add_conversion_rule / convert / get_conversion_factor against pint 0.18
(run: /venv/bin/python notes/tie5_convrule_probe.py).  Each case prints what the real code does; the expected value
stated in the comment is what the Lean model (Units.mkRule consed on the newest-first rule list, Units.lookupRule,
Units.convertQ) gives.  See notes/reports/TIE5_ConvRule.md."""
import sys
sys.path.insert(0, '/repo')
import pint
from cellmlmanip.units import UnitStore


def fresh():
    s = UnitStore()
    A = s.add_unit('A', 'ampere')
    uA = s.add_unit('uA', 'ampere * 1e-6')
    pA = s.add_unit('pA', 'ampere * 1e-12')
    V = s.add_unit('V', 'volt')
    mV = s.add_unit('mV', 'volt * 1e-3')
    kV = s.add_unit('kV', 'volt * 1e3')
    S = s.add_unit('S', 'second')
    ms = s.add_unit('ms', 'second * 1e-3')
    return s, dict(A=A, uA=uA, pA=pA, V=V, mV=mV, kV=kV, S=S, ms=ms)


def show(tag, f):
    try:
        print(tag, '->', f())
    except Exception as e:
        print(tag, '-> EXC', type(e).__name__)


def keys(s):
    """the (src, dst) keys of the active context chain, newest map first"""
    return [[(str(a), str(b)) for (a, b) in m.keys()] for m in s._registry._active_ctx.maps]


# 1. the key depends on dimensionality only: rule registered with (uA -> mV) serves (pA -> kV) and (A -> V)
s, u = fresh()
s.add_conversion_rule(u['uA'], u['mV'], lambda ureg, rhs: rhs * s.Quantity(5, u['V'] / u['A']))
print('1 keys', keys(s))                                   # [[('[current]', '[length]**2 [mass] / [current] / [time]**3')]]
show('1a A->V', lambda: s.convert(s.Quantity(1, u['A']), u['V']))       # 5 V        (model: scale 5)
show('1b pA->kV', lambda: s.convert(s.Quantity(1, u['pA']), u['kV']))   # 5e-15 kV   (5 * 1e-12 / 1e3)
show('1c uA->mV', lambda: s.get_conversion_factor(u['uA'], u['mV']))    # 5e-3  (5 * 1e-6 / 1e-3)
# 2. direction: the reverse conversion finds nothing
show('2 V->A', lambda: s.convert(s.Quantity(1, u['V']), u['A']))        # DimensionalityError
# 3. equal dimensionality never consults the rule (also with a rule keyed on that very dimension as source)
show('3a uA->pA', lambda: s.get_conversion_factor(u['uA'], u['pA']))    # 1e6
show('3b mV->kV', lambda: s.get_conversion_factor(u['mV'], u['kV']))    # 1e-6
# 4. a rule whose key has src == dst dimension is registered but never used (path of length 0)
s.add_conversion_rule(u['A'], u['pA'], lambda ureg, rhs: rhs * 7)
print('4 keys', keys(s))
show('4 uA->pA', lambda: s.get_conversion_factor(u['uA'], u['pA']))     # 1e6 still
# 5. adding the same rule twice: two contexts, same key; lookups unchanged
s, u = fresh()
r = lambda ureg, rhs: rhs * s.Quantity(5, u['V'] / u['A'])
s.add_conversion_rule(u['uA'], u['mV'], r)
s.add_conversion_rule(u['uA'], u['mV'], r)
print('5 maps', len(s._registry._active_ctx.maps), keys(s))
show('5 A->V', lambda: s.convert(s.Quantity(1, u['A']), u['V']))        # 5 V
# 6. a later rule for the same key pair (given by other units of the same dimensions) shadows the earlier one
s.add_conversion_rule(u['pA'], u['kV'], lambda ureg, rhs: rhs * s.Quantity(11, u['V'] / u['A']))
show('6 A->V', lambda: s.convert(s.Quantity(1, u['A']), u['V']))        # 11 V  (newest wins)
print('6 maps', len(s._registry._active_ctx.maps))
# 7. and re-adding the OLD rule object makes it the newest again
s.add_conversion_rule(u['uA'], u['mV'], r)
show('7 A->V', lambda: s.convert(s.Quantity(1, u['A']), u['V']))        # 5 V
# 8. a rule for another key does not shadow
s.add_conversion_rule(u['S'], u['V'], lambda ureg, rhs: rhs * s.Quantity(3, u['V'] / u['S']))
show('8a A->V', lambda: s.convert(s.Quantity(1, u['A']), u['V']))       # 5 V
show('8b ms->V', lambda: s.convert(s.Quantity(1, u['ms']), u['V']))     # 3e-3 V
# 9. the rule is NOT rescaled to the units it was registered with: registering with (pA, kV) or (A, V) is the same
s, u = fresh()
s.add_conversion_rule(u['pA'], u['kV'], lambda ureg, rhs: rhs * s.Quantity(5, u['V'] / u['A']))
show('9 A->V', lambda: s.convert(s.Quantity(1, u['A']), u['V']))        # 5 V
# 10. a rule that does not produce the target dimension: DimensionalityError at conversion time, not at registration
s, u = fresh()
show('10 add', lambda: s.add_conversion_rule(u['A'], u['V'], lambda ureg, rhs: rhs * s.Quantity(5, u['S'])))   # None
show('10 A->V', lambda: s.convert(s.Quantity(1, u['A']), u['V']))       # DimensionalityError
# 11. a unit of ANOTHER registry (unknown name in this registry)
s2 = UnitStore()
x = s2.add_unit('x', 'kelvin')
s, u = fresh()
show('11 add foreign', lambda: s.add_conversion_rule(x, u['V'], lambda ureg, rhs: rhs))
print('11 maps after', len(s._registry._active_ctx.maps))
# 12. the return value is None; the context name is free text
s, u = fresh()
show('12 ret', lambda: s.add_conversion_rule(u['A'], u['V'], lambda ureg, rhs: rhs * s.Quantity(2, u['V'] / u['A'])))
print('12 ctx name starts', s._registry._active_ctx.contexts[0].name[:20])
# 13. dimensionless source: rule from the empty dimension
s, u = fresh()
d = s.get_unit('dimensionless')
s.add_conversion_rule(d, u['V'], lambda ureg, rhs: rhs * s.Quantity(5, u['V']))
print('13 keys', keys(s))
show('13 dimensionless->mV', lambda: s.convert(s.Quantity(1, d), u['mV']))   # 5000 mV
# 14. chain of two rules, second registered through other units
s, u = fresh()
s.add_conversion_rule(u['uA'], u['mV'], lambda ureg, rhs: rhs * s.Quantity(5, u['V'] / u['A']))
s.add_conversion_rule(u['kV'], u['ms'], lambda ureg, rhs: rhs * s.Quantity(2, u['S'] / u['V']))
show('14 A->S', lambda: s.convert(s.Quantity(1, u['A']), u['S']))       # 10 S
