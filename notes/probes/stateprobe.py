"""Scratch probe: random API histories on a Model; coherence with a freshly built model, atomicity of rejected edits, cmeta bijection (C08, C10, C13)."""
import random, sys, collections, logging
import sympy as sp
from cellmlmanip.model import Model, Quantity, Variable, DataDirectionFlow as D
logging.disable(logging.CRITICAL)
seed = int(sys.argv[1]) if len(sys.argv) > 1 else 0; N = int(sys.argv[2]) if len(sys.argv) > 2 else 300
rng = random.Random(seed); finds = collections.defaultdict(list); stats = collections.Counter()
def graph_obs(m, which):
    try:
        g = m.graph if which == 0 else m.graph_with_sympy_numbers
        return ('ok', sorted(str(n) for n in g.nodes), sorted((str(a), str(b)) for a, b in g.edges), sorted((str(n), str(d.get('variable_type'))) for n, d in g.nodes.items()))
    except BaseException as ex: return ('EXC', type(ex).__name__)
def obs(m, with_graph=True):
    o = {'eqs': [str(e) for e in m.equations], 'vars': [v.name for v in m.variables()],
         'defs': {v.name: str(m.get_definition(v)) for v in m.variables()}, 'states': [v.name for v in m.get_state_variables()],
         'cmeta': {v.name: v.cmeta_id for v in m.variables()}, 'init': {v.name: v.initial_value for v in m.variables()}}
    if with_graph: o['g'] = graph_obs(m, 0); o['gn'] = graph_obs(m, 1)
    return o
def fresh_like(m):
    """build a fresh model with the same variables and equations (same objects cannot be reused: rebuild by name)"""
    f = Model('m'); mp_ = {}
    for v in m.variables(): mp_[v] = f.add_variable(v.name, str(m.units.format(v.units)) if False else 'dimensionless', initial_value=v.initial_value, cmeta_id=v.cmeta_id)
    for e in m.equations:
        sub = dict(mp_); sub.update({q: f.create_quantity(q._value, 'dimensionless') for q in e.atoms(Quantity)})
        ne = e.xreplace(sub)
        f.add_equation(ne, check_duplicates=False)
    return f
def norm(o):  # quantity dummies print by value so string compare is fine
    return o
for case in range(N):
    m = Model('m', cmeta_id='model_id'); dl = 'dimensionless'; Q = m.create_quantity
    pool = []; eqpool = []
    def new_var():
        nm = rng.choice(['a', 'b', 'c', 'd', 'x', 'y', 't'])
        cm = rng.choice([None, None, nm + '_id', 'shared_id', 'model_id'])
        iv = rng.choice([None, 1.0, 2.5])
        v = m.add_variable(nm, dl, initial_value=iv, cmeta_id=cm); pool.append(v); return v
    for step in range(rng.randint(3, 14)):
        before = obs(m, with_graph=False); before_cached = (m._graph is not None, m._graph_with_sympy_numbers is not None)
        live = list(m.variables())
        r = rng.random(); op = None
        try:
            if r < 0.25 or len(live) < 2: op = 'add_variable'; new_var()
            elif r < 0.55:
                op = 'add_equation'
                lhs_v = rng.choice(live); others = [v for v in live if v is not lhs_v]
                kind = rng.random()
                rhs = Q(float(rng.randint(1, 5)), dl)
                for v in rng.sample(others, rng.randint(0, min(2, len(others)))): rhs = rhs + v
                if kind < 0.6: lhs = lhs_v
                elif kind < 0.85: lhs = sp.Derivative(lhs_v, rng.choice(others))
                elif kind < 0.93: lhs = lhs_v + Q(1.0, dl); op += '(bad lhs)'
                else: lhs = sp.Derivative(lhs_v, rng.choice(others), 2); op += '(2nd order)'
                eq = sp.Eq(lhs, rhs); m.add_equation(eq); eqpool.append(eq)
            elif r < 0.65 and m.equations: op = 'remove_equation'; m.remove_equation(rng.choice(m.equations))
            elif r < 0.70: op = 'remove_equation(unknown)'; m.remove_equation(sp.Eq(rng.choice(live), Q(99.0, dl)))
            elif r < 0.78: op = 'remove_variable'; v = rng.choice(live); m.remove_variable(v)
            elif r < 0.84: op = 'add_cmeta_id'; m.add_cmeta_id(rng.choice(live))
            elif r < 0.90: op = 'transfer_cmeta_id'; a, b = rng.sample(live, 2); m.transfer_cmeta_id(a, b)
            else: op = 'query'; _ = graph_obs(m, rng.choice([0, 1]))
            raised = None
        except (ValueError, KeyError) as ex: raised = type(ex).__name__
        except BaseException as ex: finds['op raised unexpected %s in %s' % (type(ex).__name__, op)].append((case, step, str(ex)[:60])); break
        stats[op + (' RAISED' if raised else '')] += 1
        after = obs(m, with_graph=False)
        if raised and after != before:
            diff = [k for k in after if after[k] != before[k]]
            finds['NOT ATOMIC: %s raised %s but changed %s' % (op, raised, diff)].append((case, step))
            break
        # cmeta bijection
        ids = [v.cmeta_id for v in m.variables() if v.cmeta_id is not None]
        if len(ids) != len(set(ids)) or 'model_id' in ids: finds['cmeta id not unique after ' + op].append((case, step, ids))
        for v in m.variables():
            if v.cmeta_id is not None:
                try:
                    if m.get_variable_by_cmeta_id(v.cmeta_id) is not v: finds['lookup returns other variable after ' + op].append((case, step))
                except KeyError: finds['lookup fails for carried id after ' + op].append((case, step))
        for cid, v in m._cmeta_id_to_variable.items():
            if v.name not in m._name_to_variable or v.cmeta_id != cid: finds['registry entry stale after ' + op].append((case, step, cid))
        # coherence with a fresh model (only while each variable has at most one definition)
        try: f = fresh_like(m)
        except BaseException as ex: stats['fresh-build-exc ' + type(ex).__name__] += 1; continue
        of, om = obs(f), obs(m)
        for k in om:
            if om[k] != of[k]:
                finds['INCOHERENT with fresh model: %s differs after %s' % (k, op)].append((case, step, str(om[k])[:100], str(of[k])[:100])); break
print(dict(stats))
for k, v in finds.items(): print('##', k, len(v), str(v[0])[:300])
