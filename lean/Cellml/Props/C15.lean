/-! Property theorems for C15 (not built yet). -/
