/-! Property theorems for C16 (not built yet). -/
