import Cellml.Tie.Prelude
import Cellml.Load.Connect

/-! # What the translated functions of parser.py see of the loader's state

    The generated code refers to python attribute paths (`self.components[c].parent`, `variable.public_interface`,
    `source.assigned_to` …). The pattern tables of harness/code_specs.py bind each of them to one of the accessors below,
    which read the state of the hand-written model (`Load.Connect`). Core Lean only. -/

namespace Cellml.Tie
open Load

/-- a `Variable` object as the loader sees it: its flat identity and its declared attributes -/
abbrev VarObj := VRef × VarInfo

/-- the python spelling of an interface value -/
def ifaceStr : Iface → String
  | .none => "none"
  | .inn => "in"
  | .out => "out"

@[simp] theorem ifaceStr_eq_out (i : Iface) : (ifaceStr i == "out") = (i == .out) := by cases i <;> decide
@[simp] theorem ifaceStr_eq_in (i : Iface) : (ifaceStr i == "in") = (i == .inn) := by cases i <;> decide

/-- `Parser` as seen by `_determine_connection_direction` -/
structure LoaderView where
  /-- `self.components[c].parent` -/
  parent : String → Option String
  /-- `self.model.get_variable_by_name(self._get_variable_name(c, v))`; KeyError when there is no such variable -/
  getVar : String → String → Except PyErr VarObj

/-- `Parser` / `Model` as seen by the body of the `while connections_to_process:` loop of `_add_connections` -/
structure ConnLoopView where
  /-- `self.model.units.get_conversion_factor(from_unit=a.units, to_unit=b.units)` -/
  factor : VRef → VRef → Except PyErr Scale
  /-- `v.units` -/
  unitsOf : VRef → Container

def connLoopView (reg : Registry) (vt : VarTable) : ConnLoopView where
  factor s t := match Units.factor reg (Load.unitsOf vt s) (Load.unitsOf vt t) with
    | .ok f => .ok f
    | .error .dimensionality => .error ⟨"DimensionalityError"⟩
    | .error _ => .error ⟨"KeyError"⟩
  unitsOf v := Load.unitsOf vt v

/-- `deque.popleft()` -/
def popleft {α} : List α → Except PyErr (α × List α)
  | [] => .error ⟨"IndexError"⟩
  | a :: l => .ok (a, l)

/-- `cf == 1` for a conversion factor (a scale is a prime-exponent map; 1 is the empty map) -/
def scaleIsOne (f : Scale) : Bool := f.isEmpty

/-- `v.assigned_to = w` (`w` may be `None` only where the variable has no source yet: nothing to record) -/
def setAssigned (st : CState) (v : VRef) (w : Option VRef) : CState :=
  match w with
  | some a => { st with assigned := (v, a) :: st.assigned }
  | none => st

/-- `self.model.transfer_cmeta_id(source=s, target=t)` on the work-list state -/
def transferCmeta (st : CState) (s : VRef) (t : Option VRef) : Except PyErr CState :=
  match t with
  | none => .error ⟨"AttributeError"⟩
  | some a =>
    if (cmetaOf st a).isSome then .error ⟨"ValueError"⟩
    else .ok { st with cmeta := (a, cmetaOf st s) :: (s, none) :: st.cmeta }

/-- `self.model.add_equation(sympy.Eq(target, src * cf_quant))` where `cf_quant = create_quantity(cf, tu / su)` -/
def addConvEq (st : CState) (target : VRef) (src : Option VRef) (q : Scale × Container × Container) :
    Except PyErr CState :=
  match src with
  | none => .error ⟨"TypeError"⟩
  | some a => .ok { st with convs := st.convs ++ [⟨target, a, q.1, q.2.1, q.2.2⟩] }

def loaderView (par : ParentMap) (vt : VarTable) : LoaderView where
  parent c := par.lookup c
  getVar c v := match vt.lookup (c, v) with
    | some i => .ok ((c, v), i)
    | none => .error ⟨"KeyError"⟩

end Cellml.Tie
