import Cellml.Tie.PrinterClosed

/-! # The closing induction, rejection direction

    `gprint_pr` (Tie/PrinterClosed.lean): where the model prints, the generated printer returns the model's text. Here the
    other half: where the model rejects with `ValueError` (`(pr e).st = verr`: a construct without `_print_` method or a
    function outside the name table in a printed position, everything else in printed positions inside the modelled
    fragment), the generated printer raises `ValueError` — python evaluates the operands in order and the first failing
    one raises. `gprint_spec` has both halves. -/

set_option linter.unusedSimpArgs false
set_option linter.unusedVariables false

namespace Cellml.Tie.PPrinter2
open C11 Cellml.Gen Cellml.Tie.PPrinter

abbrev VE : PyErr := ⟨"ValueError"⟩

/-- returns a string or raises ValueError -/
def OkOrVE (r : Except PyErr String) : Prop := (∃ s, r = .ok s) ∨ r = .error VE

/-! ## python evaluates in order: the first failing operand raises -/

theorem mapM_rj (f : E → Except PyErr String) (xs : List E) (h : ∀ x ∈ xs, OkOrVE (f x))
    (hex : ∃ x ∈ xs, f x = .error VE) : xs.mapM f = .error VE := by
  induction xs with
  | nil => obtain ⟨x, hx, _⟩ := hex; simp at hx
  | cons x r ih =>
    rw [List.mapM_cons]
    rcases h x (by simp) with ⟨s, hs⟩ | he
    · have : ∃ y ∈ r, f y = .error VE := by
        obtain ⟨y, hy, hye⟩ := hex
        rcases List.mem_cons.mp hy with rfl | hy
        · rw [hs] at hye; cases hye
        · exact ⟨y, hy, hye⟩
      rw [hs, ih (fun y hy => h y (by simp [hy])) this]; rfl
    · rw [he]; rfl

theorem mapM_all_ok (f : E → Except PyErr String) (xs : List E) (h : ∀ x ∈ xs, ∃ s, f x = .ok s) :
    ∃ ys, xs.mapM f = .ok ys := by
  induction xs with
  | nil => exact ⟨[], rfl⟩
  | cons x r ih =>
    obtain ⟨s, hs⟩ := h x (by simp)
    obtain ⟨ys, hys⟩ := ih (fun y hy => h y (by simp [hy]))
    exact ⟨s :: ys, by rw [List.mapM_cons, hs, hys]; rfl⟩

theorem forIn_rj {σ : Type} (xs : List E) (f : E → σ → Except PyErr (ForInStep σ))
    (hok : ∀ x ∈ xs, ∀ s, (∃ s', f x s = .ok (.yield s')) ∨ f x s = .error VE)
    (hex : ∃ x ∈ xs, ∀ s, f x s = .error VE) (s0 : σ) : forIn xs s0 f = .error VE := by
  induction xs generalizing s0 with
  | nil => obtain ⟨x, hx, _⟩ := hex; simp at hx
  | cons x r ih =>
    rw [List.forIn_cons]
    rcases hok x (by simp) s0 with ⟨s', hs⟩ | he
    · have : ∃ y ∈ r, ∀ s, f y s = .error VE := by
        obtain ⟨y, hy, hye⟩ := hex
        rcases List.mem_cons.mp hy with rfl | hy
        · rw [hye s0] at hs; cases hs
        · exact ⟨y, hy, hye⟩
      rw [hs]
      exact ih (fun y hy => hok y (by simp [hy])) this s'
    · rw [he]; rfl

theorem bracket_okOrVE (print : E → Except PyErr String) (e : E) (p : Nat) (h : OkOrVE (print e)) :
    OkOrVE (Printer.bracket print e p) := by
  rw [PPrinter.bracket_eq]
  rcases h with ⟨s, hs⟩ | he
  · left; rw [hs]; exact ⟨_, rfl⟩
  · right; rw [he]; rfl

theorem okOrVE_ret (m : Except PyErr String) (h : OkOrVE m) : OkOrVE (do return (← m)) := by
  rcases h with ⟨s, hs⟩ | he
  · exact Or.inl ⟨s, by rw [hs]⟩
  · exact Or.inr (by rw [he])

theorem ve_ret (m : Except PyErr String) (h : m = .error VE) : (do return (← m)) = .error VE := by
  rw [h]

/-! ## the status -/

theorem join_nu (a b : Status) : a.join b ≠ .unsup ↔ a ≠ .unsup ∧ b ≠ .unsup := by
  cases a <;> cases b <;> simp [Status.join]

theorem join_verr (a b : Status) (h : a.join b = .verr) : a = .verr ∨ b = .verr := by
  cases a <;> cases b <;> simp_all [Status.join]

theorem st_cases (a : Status) (h : a ≠ .unsup) : a = .ok ∨ a = .verr := by
  cases a <;> simp_all

theorem st_list_ex (l : E) (hl : proper l = true) (h : (pr l).st = .verr) :
    ∃ x ∈ C11.toList l, (pr x).st = .verr := by
  induction l with
  | nil => simp [pr, okDoc] at h
  | cons a t _ iht =>
      simp only [proper] at hl
      simp only [pr] at h
      rcases join_verr _ _ h with h1 | h1
      · exact ⟨a, by simp [C11.toList], h1⟩
      · obtain ⟨x, hx, hxv⟩ := iht hl h1
        exact ⟨x, by simp [C11.toList, hx], hxv⟩
  | _ => simp [proper] at hl

/-! ## the statement proved for every node -/

/-- `print` does on `x` what the model says: the model's text when it prints, ValueError when it rejects -/
def Sp (print : E → Except PyErr String) (x : E) : Prop :=
  ∀ s, s ≠ Srt.P → wf s x = true → isList x = false → genOK x = true → AddOK x →
    ((pr x).st = .ok → print x = .ok (flatten (pr x).doc)) ∧ ((pr x).st = .verr → print x = .error VE)

theorem Pr_of_Sp (print : E → Except PyErr String) (x : E) (h : Sp print x) : Pr print x :=
  fun s hs hw hl hg ha hst => (h s hs hw hl hg ha).1 hst

theorem sp_okOrVE (print : E → Except PyErr String) (x : E) (h : Sp print x) (s : Srt) (hs : s ≠ .P)
    (hw : wf s x = true) (hl : isList x = false) (hg : genOK x = true) (ha : AddOK x) (hnu : (pr x).st ≠ .unsup) :
    OkOrVE (print x) := by
  rcases st_cases _ hnu with h1 | h1
  · exact Or.inl ⟨_, (h s hs hw hl hg ha).1 h1⟩
  · exact Or.inr ((h s hs hw hl hg ha).2 h1)

theorem list_Sp (print : E → Except PyErr String) (l : E) (s : Srt) (hs : s ≠ .P)
    (IH : ∀ x, height x ≤ height l → Sp print x) (hl : isList l = true) (hw : wf s l = true)
    (hg : genOK l = true) (ha : AddOK l) (hnu : (pr l).st ≠ .unsup) :
    (∀ x ∈ elems l, OkOrVE (print x)) ∧ (∀ x ∈ elems l, (pr x).st = .verr → print x = .error VE) := by
  have key : ∀ x ∈ elems l, Sp print x ∧ wf s x = true ∧ isList x = false ∧ genOK x = true ∧ AddOK x ∧
      (pr x).st ≠ .unsup := by
    intro x hx
    have hx' : x ∈ C11.toList l := by rwa [← elems_eq_toList]
    have h1 := wf_list s l hw x hx'
    exact ⟨IH x (height_elem l x hx), h1.1, h1.2, genOK_elem l x hg hx, AddOK_elem l x ha hx,
      st_list_T (· ≠ .unsup) (fun a b h => (join_nu a b).mp h) l (proper_of_wf s l hl hw) hnu x hx'⟩
  constructor
  · intro x hx
    obtain ⟨h1, h2, h3, h4, h5, h6⟩ := key x hx
    exact sp_okOrVE print x h1 s hs h2 h3 h4 h5 h6
  · intro x hx hv
    obtain ⟨h1, h2, h3, h4, h5, h6⟩ := key x hx
    exact (h1 s hs h2 h3 h4 h5).2 hv

/-- the operands of an `And` / `Or` / function application: one of them raises -/
theorem args_rj (print : E → Except PyErr String) (a : E) (s : Srt) (hs : s ≠ .P) (p : Nat)
    (IH : ∀ x, height x ≤ height a → Sp print x) (hla : isList a = true) (hwa : wf s a = true)
    (hg : genOK a = true) (ha : AddOK a) (hsa : (pr a).st = .verr) :
    (elems a).mapM (fun x => do return (← Printer.bracket print x p)) = .error VE := by
  obtain ⟨hall, hverr⟩ := list_Sp print a s hs IH hla hwa hg ha (by rw [hsa]; decide)
  obtain ⟨x, hx, hxv⟩ := st_list_ex a (proper_of_wf s _ hla hwa) hsa
  have hx' : x ∈ elems a := by rwa [elems_eq_toList]
  exact mapM_rj _ (elems a) (fun y hy => okOrVE_ret _ (bracket_okOrVE _ _ _ (hall y hy)))
    ⟨x, hx', ve_ret _ (bracket_err _ _ _ _ (hverr x hx' hxv))⟩

theorem not_num_of_verr (x : E) (h : (pr x).st = .verr) :
    isHalf x = false ∧ negIsHalf x = false ∧ negIsOne x = false ∧ isNum x = false := by
  cases x <;> simp_all [isHalf, negIsHalf, negIsOne, isNum, pr, okDoc]
  all_goals (split_ifs at h)

/-! ## `_print_Piecewise` -/

/-- the body of the loop of the generated `printPiecewise` -/
def pwBody (print : E → Except PyErr String) (x : E × E) (__s : String × String × Nat) :
    Except PyErr (ForInStep (String × String × Nat)) :=
  if Py.truthy (PPrinter.isTrue (Prod.snd x)) = true then
    Except.bind (print (Prod.fst x)) fun v =>
      pure (ForInStep.done (v, Prod.fst (Prod.snd __s), Prod.snd (Prod.snd __s)))
  else
    Except.bind (Printer.printTernary print (Prod.snd x) (Prod.fst x)) fun v =>
      pure (ForInStep.yield (Prod.fst __s, Prod.fst (Prod.snd __s) + v, Prod.snd (Prod.snd __s) + 1))

theorem ternary_rj (print : E → Except PyErr String) (c v : E) (hv : OkOrVE (print v)) (hc : OkOrVE (print c))
    (h : print v = .error VE ∨ print c = .error VE) : Printer.printTernary print c v = .error VE := by
  rcases hv with ⟨sv, hsv⟩ | hev
  · rcases h with h | h
    · rw [hsv] at h; cases h
    · simp [Printer.printTernary, hsv, h, bind, Except.bind]
  · simp [Printer.printTernary, hev, bind, Except.bind]

theorem ternary_ok (print : E → Except PyErr String) (c v : E) (sv sc : String) (hv : print v = .ok sv)
    (hc : print c = .ok sc) : ∃ s, Printer.printTernary print c v = .ok s := by
  refine ⟨"(" ++ sv ++ ") if (" ++ sc ++ ") else (", ?_⟩
  simp [Printer.printTernary, hv, hc, bind, Except.bind, pure, Except.pure]

theorem pw_rj (print : E → Except PyErr String) (N : Nat) (IH : ∀ x, height x < N → Sp print x) (l : E)
    (hl : isList l = true) (hw : wf .P l = true) (hg : genOK l = true) (ha : AddOK l) (hh : height l < N)
    (hv : (pwInner (pr l).items).1 = .verr) (st0 : String × String × Nat) :
    forIn ((elems l).map pairOf) st0 (pwBody print) = .error VE := by
  induction l generalizing st0 with
  | nil => simp [pr, okDoc, pwInner] at hv
  | cons h t _ iht =>
    simp only [wf, Bool.and_eq_true, Bool.not_eq_true'] at hw
    obtain ⟨⟨⟨hwh, hlh⟩, hlt⟩, hwt⟩ := hw
    simp only [genOK, Bool.and_eq_true] at hg
    simp only [AddOK] at ha
    simp only [height] at hh
    have hit : (pr (.cons h t)).items = ⟨h, (pr h).st, (pr h).doc, (pr h).base, (pr h).items.map Item.one⟩ ::
        (pr t).items := by simp [pr]
    rw [hit] at hv
    simp only [elems, List.map_cons, List.forIn_cons]
    cases h with
    | pair v c =>
      simp only [wf, Bool.and_eq_true, Bool.not_eq_true'] at hwh
      simp only [genOK, Bool.and_eq_true] at hg
      simp only [AddOK] at ha
      simp only [height] at hh
      simp only [pwInner, isTruePair_pair] at hv
      have hps : (pr (.pair v c)).st = (pr v).st.join (pr c).st := by simp [pr]
      have hSv := IH v (by omega) .A (by decide) hwh.1.2 hwh.1.1.1.2 hg.1.1 ha.1.1
      have hSc := IH c (by omega) .B (by decide) hwh.2 hwh.1.1.2 hg.1.2 ha.1.2
      by_cases htc : PPrinter.isTrue c = true
      · simp only [htc, if_true, hps] at hv
        have hcok : (pr c).st = .ok := by cases c <;> simp_all [PPrinter.isTrue, pr, okDoc]
        have hvv : (pr v).st = .verr := by
          rcases join_verr _ _ hv with h1 | h1
          · exact h1
          · rw [hcok] at h1; cases h1
        simp [pwBody, pairOf, htc, hSv.2 hvv, Except.bind, bind]
      · have htc' : PPrinter.isTrue c = false := by simpa using htc
        simp only [htc', Bool.false_eq_true, if_false, hps] at hv
        have hnu : ((pr v).st.join (pr c).st).join (pwInner (pr t).items).1 ≠ .unsup := by rw [hv]; decide
        obtain ⟨hnu1, hnu3⟩ := (join_nu _ _).mp hnu
        obtain ⟨hnuv, hnuc⟩ := (join_nu _ _).mp hnu1
        have hov := sp_okOrVE print v (IH v (by omega)) .A (by decide) hwh.1.2 hwh.1.1.1.2 hg.1.1 ha.1.1 hnuv
        have hoc := sp_okOrVE print c (IH c (by omega)) .B (by decide) hwh.2 hwh.1.1.2 hg.1.2 ha.1.2 hnuc
        by_cases hvc : (pr v).st = .verr ∨ (pr c).st = .verr
        · have : Printer.printTernary print c v = .error VE := by
            apply ternary_rj print c v hov hoc
            rcases hvc with h1 | h1
            · exact Or.inl (hSv.2 h1)
            · exact Or.inr (hSc.2 h1)
          simp [pwBody, pairOf, htc', this, Except.bind, bind]
        · have hvok : (pr v).st = .ok := by
            rcases st_cases _ hnuv with h1 | h1
            · exact h1
            · exact absurd (Or.inl h1) hvc
          have hcok : (pr c).st = .ok := by
            rcases st_cases _ hnuc with h1 | h1
            · exact h1
            · exact absurd (Or.inr h1) hvc
          obtain ⟨str, hstr⟩ := ternary_ok print c v _ _ (hSv.1 hvok) (hSc.1 hcok)
          have hrest : (pwInner (pr t).items).1 = .verr := by
            rw [hvok, hcok] at hv
            revert hv; cases (pwInner (pr t).items).1 <;> simp [Status.join]
          simp only [pwBody, pairOf, htc', hstr, Except.bind, bind, Py.truthy_bool, Bool.false_eq_true, if_false,
            pure, Except.pure]
          exact iht hlt hwt hg.2 ha.2 (by omega) hrest _
    | other w =>
      have := (IH (.other w) (by simp only [height] at hh ⊢; omega) .A (by decide) rfl rfl rfl trivial).2 rfl
      simp [pwBody, pairOf, PPrinter.isTrue, Printer.printTernary, this, Except.bind, bind]
    | _ => simp_all [wf, isList]
  | _ => simp [isList] at hl

/-! ## `_print_Mul` -/

theorem keepCoeffMul_keeps (V : Item1 → Prop) (hVnum : ∀ f : Item1, isNum f.e = true → ¬ V f) (k : E)
    (margs l : List Item1) (h : keepCoeffMul k margs = some l) (hex : ∃ f ∈ margs, V f) : ∃ f ∈ l, V f := by
  cases margs with
  | nil => simp [keepCoeffMul] at h
  | cons m rest =>
    simp only [keepCoeffMul] at h
    obtain ⟨f, hf, hVf⟩ := hex
    split at h
    · rename_i hn
      have hfr : f ∈ rest := by
        rcases List.mem_cons.mp hf with rfl | hf
        · exact absurd hVf (hVnum _ hn)
        · exact hf
      split at h
      · split at h
        · simp only [Option.some.injEq] at h; subst h; exact ⟨f, hfr, hVf⟩
        · simp only [Option.some.injEq] at h; subst h; exact ⟨f, by simp [hfr], hVf⟩
      · cases h
    · simp only [Option.some.injEq] at h; subst h
      exact ⟨f, List.mem_cons_of_mem _ hf, hVf⟩

/-- a rejected factor survives `mulItems`: as itself, or — when the product `-1 * Mul(…)` is flattened — as one of the
    rejected factors of that factor -/
theorem mulItems_keeps (V : Item1 → Prop) (hVnum : ∀ f : Item1, isNum f.e = true → ¬ V f)
    (items : List Item) (s : Bool) (fs : List Item1) (hmi : mulItems items = some (s, fs))
    (hex : ∃ i ∈ items, V i.one ∧ (isMul i.e = true → ∃ j ∈ i.sub, V j)) : ∃ f ∈ fs, V f := by
  obtain ⟨i, hi, hVi, hVsub⟩ := hex
  cases items with
  | nil => simp at hi
  | cons c rest =>
    simp only [mulItems] at hmi
    split at hmi
    · rename_i hneg
      have hcn : isNum c.e = true := by
        revert hneg; cases c.e <;> simp [isNegNum, isNum]
      have hir : i ∈ rest := by
        rcases List.mem_cons.mp hi with rfl | h
        · exact absurd hVi (hVnum _ hcn)
        · exact h
      split at hmi
      · cases hmi
      · split at hmi
        · split at hmi
          · rename_i r
            simp only [List.mem_singleton] at hir
            subst hir
            simp only [Option.some.injEq, Prod.mk.injEq] at hmi
            obtain ⟨rfl, rfl⟩ := hmi
            by_cases hm : isMul i.e = true
            · simp only [hm, if_true]; exact hVsub hm
            · simp only [hm, Bool.false_eq_true, if_false]; exact ⟨_, by simp, hVi⟩
          · simp only [Option.some.injEq, Prod.mk.injEq] at hmi
            obtain ⟨rfl, rfl⟩ := hmi
            exact ⟨i.one, List.mem_map_of_mem hir, hVi⟩
        · split at hmi
          · cases hmi
          · rename_i r
            simp only [List.mem_singleton] at hir
            subst hir
            split at hmi
            · rename_i h1
              have : isNum i.e = true := by
                have : i.e = .int 1 := by simpa using h1
                rw [this]; rfl
              exact absurd hVi (hVnum _ this)
            · split at hmi
              · simp only [Option.some.injEq, Prod.mk.injEq] at hmi
                obtain ⟨rfl, rfl⟩ := hmi
                exact ⟨i.one, by simp, hVi⟩
              · rename_i l hl
                simp only [Option.map_eq_some_iff] at hmi
                obtain ⟨l', hl', hl''⟩ := hmi
                simp only [Prod.mk.injEq] at hl''
                obtain ⟨rfl, rfl⟩ := hl''
                exact keepCoeffMul_keeps V hVnum _ _ _ hl' (hVsub (by rw [hl]; rfl))
              · split at hmi
                · simp only [Option.some.injEq, Prod.mk.injEq] at hmi
                  obtain ⟨rfl, rfl⟩ := hmi
                  exact ⟨i.one, by simp, hVi⟩
                · cases hmi
          · simp only [Option.map_eq_some_iff] at hmi
            obtain ⟨l', hl', hl''⟩ := hmi
            simp only [Prod.mk.injEq] at hl''
            obtain ⟨rfl, rfl⟩ := hl''
            exact keepCoeffMul_keeps V hVnum _ _ _ hl' ⟨i.one, List.mem_map_of_mem hir, hVi⟩
    · simp only [Option.some.injEq, Prod.mk.injEq] at hmi
      obtain ⟨rfl, rfl⟩ := hmi
      exact ⟨i.one, List.mem_map_of_mem hi, hVi⟩

/-- the operands that `classify` makes of one factor: all print or raise ValueError, and one raises when the factor does -/
theorem classify_ops (print : E → Except PyErr String) (i : Item1)
    (hp : OkOrVE (print i.e))
    (hb : ∀ b x, i.e = .pow b x → OkOrVE (print b))
    (hint : ∀ n, OkOrVE (print (.int n)))
    (hpow : ∀ b x, i.e = .pow b x → isNegRat x = true → OkOrVE (print (.pow b (negNum x)))) :
    (∀ j ∈ (classify i).1 ++ (classify i).2.1, OkOrVE (print j.e)) := by
  rcases i with ⟨e, d, bs⟩
  cases e with
  | pow b x =>
    simp only [classify]
    by_cases h1 : (comm b && comm x && isNegRat x) = true
    · by_cases h2 : (x == .int (-1)) = true
      · simpa [h1, h2] using hb b x rfl
      · simp only [Bool.and_eq_true] at h1
        simpa [h1, h2] using hpow b x rfl h1.2
    · simpa [h1] using hp
  | int n =>
    simp only [classify]
    split_ifs <;> simp [num1, hint]
  | rat p q =>
    simp only [classify]
    split_ifs <;> simp [num1, hint]
  | _ => simpa [classify] using hp

theorem classify_ve (print : E → Except PyErr String) (i : Item1)
    (hp : print i.e = .error VE) (hnn : isNum i.e = false)
    (hb : ∀ b x, i.e = .pow b x → x = .int (-1) → print b = .error VE)
    (hpow : ∀ b x, i.e = .pow b x → isNegRat x = true → print (.pow b (negNum x)) = .error VE) :
    (∃ j ∈ (classify i).1 ++ (classify i).2.1, print j.e = .error VE) := by
  rcases i with ⟨e, d, bs⟩
  cases e with
  | pow b x =>
    simp only [classify]
    by_cases h1 : (comm b && comm x && isNegRat x) = true
    · by_cases h2 : (x == .int (-1)) = true
      · simpa [h1, h2] using hb b x rfl (by simpa using h2)
      · simp only [Bool.and_eq_true] at h1
        simpa [h1, h2] using hpow b x rfl h1.2
    · simpa [h1] using hp
  | int n => simp [isNum] at hnn
  | rat p q => simp [isNum] at hnn
  | _ => simpa [classify] using hp

theorem partition_ops (fs : List Item1) :
    (∀ j ∈ (partition fs).1 ++ (partition fs).2.1, ∃ i ∈ fs, j ∈ (classify i).1 ++ (classify i).2.1) ∧
    (∀ i ∈ fs, ∀ j ∈ (classify i).1 ++ (classify i).2.1, j ∈ (partition fs).1 ++ (partition fs).2.1) := by
  induction fs with
  | nil => simp [partition]
  | cons i r ih =>
    simp only [partition, List.mem_append, List.mem_cons, forall_eq_or_imp, exists_eq_or_imp]
    refine ⟨?_, ?_, ?_⟩
    · rintro j ((h | h) | (h | h))
      · exact Or.inl (Or.inl h)
      · obtain ⟨i', hi', hj⟩ := ih.1 j (by simp [h]); exact Or.inr ⟨i', hi', by simpa using hj⟩
      · exact Or.inl (Or.inr h)
      · obtain ⟨i', hi', hj⟩ := ih.1 j (by simp [h]); exact Or.inr ⟨i', hi', by simpa using hj⟩
    · rintro j (h | h)
      · exact Or.inl (Or.inl h)
      · exact Or.inr (Or.inl h)
    · intro i' hi' j hj
      have := ih.2 i' hi' j (by simpa using hj)
      simp only [List.mem_append] at this
      rcases this with h | h
      · exact Or.inl (Or.inr h)
      · exact Or.inr (Or.inr h)

/-- the generated `printMul` raises ValueError when every operand of the numerator and denominator lists prints or
    raises ValueError and one of them raises -/
theorem printMul_core_rj (print : E → Except PyErr String) (expr : E) (s : Bool) (fs : List Item1)
    (hs : isNegNum (asCoeffMul expr).1 = s)
    (hargs : makeArgs (if s then keepCoeff (negNum (asCoeffMul expr).1) (asCoeffMul expr).2 else expr) = fs.map (·.e))
    (hint : OkOrVE (print (.int 1)))
    (hall : ∀ j ∈ (partition fs).1 ++ (partition fs).2.1, OkOrVE (print j.e))
    (hex : ∃ j ∈ (partition fs).1 ++ (partition fs).2.1, print j.e = .error VE)
    (hq : ∀ i ∈ fs, ∀ p q, i.e = .rat p q → q ≠ 1)
    (hm : ∀ i ∈ fs, ∀ bb x, i.e = .pow bb x → isMul bb = true → (argsOf bb).length ≠ 1) :
    PrinterMul2.printMul print expr = .error VE := by
  unfold PrinterMul2.printMul
  simp only [Py.truthy_bool, bind, pure, hs]
  cases s
  all_goals
    simp only [Bool.false_eq_true, if_false, if_true] at hargs ⊢
    rw [hargs, mulLoop2 _ (fun item s => body_eq item s) fs hq hm, ok_bind]
    simp only []
    generalize hP : partition fs = P at *
    obtain ⟨A, B, marks⟩ := P
    simp only [] at hall hex ⊢
    have hA' : (if Py.truthy (A.map (·.e)) = true then A.map (·.e) else [E.int 1]) =
        (if A.isEmpty then [num1 (.int 1)] else A).map (·.e) := by cases A <;> simp [num1]
    rw [hA']
    have hallA : ∀ x ∈ (if A.isEmpty then [num1 (.int 1)] else A).map (·.e), OkOrVE (Printer.bracket print x 50) := by
      intro x hx
      apply bracket_okOrVE
      cases A with
      | nil => simp [num1] at hx; subst hx; exact hint
      | cons a0 as =>
        obtain ⟨j, hj, rfl⟩ := List.mem_map.mp hx
        have hj' : j ∈ a0 :: as := by simpa using hj
        exact hall j (List.mem_append_left _ hj')
    have hallB : ∀ x ∈ B.map (·.e), OkOrVE (Printer.bracket print x 50) := by
      intro x hx
      obtain ⟨j, hj, rfl⟩ := List.mem_map.mp hx
      exact bracket_okOrVE _ _ _ (hall j (by simp [hj]))
    by_cases hexA : ∃ x ∈ (if A.isEmpty then [num1 (.int 1)] else A).map (·.e), Printer.bracket print x 50 = .error VE
    · rw [mapM_rj _ _ hallA hexA]; rfl
    · have hokA : ∀ x ∈ (if A.isEmpty then [num1 (.int 1)] else A).map (·.e),
          ∃ s, Printer.bracket print x 50 = .ok s := by
        intro x hx
        rcases hallA x hx with h | h
        · exact h
        · exact absurd ⟨x, hx, h⟩ hexA
      obtain ⟨ys, hys⟩ := mapM_all_ok _ _ hokA
      rw [hys, ok_bind]
      have hexB : ∃ x ∈ B.map (·.e), Printer.bracket print x 50 = .error VE := by
        obtain ⟨j, hj, hje⟩ := hex
        rcases List.mem_append.mp hj with hjA | hjB
        · exfalso
          apply hexA
          cases A with
          | nil => simp at hjA
          | cons a0 as => exact ⟨j.e, List.mem_map_of_mem hjA, bracket_err _ _ _ _ hje⟩
        · exact ⟨j.e, List.mem_map_of_mem hjB, bracket_err _ _ _ _ hje⟩
      rw [mapM_rj _ _ hallB hexB]; rfl

/-! ## one step -/

theorem num1_not_pow (k b x : E) (hk : numOK k = true) (h : (num1 k).e = .pow b x) : False := by
  cases k <;> simp_all [num1, numOK]

theorem num1_isNum (k : E) (hk : numOK k = true) : isNum (num1 k).e = true := by
  cases k <;> simp_all [num1, numOK, isNum]

theorem reject_step (print : E → Except PyErr String) (e : E) (IH : ∀ x, height x < height e → Sp print x)
    (s : Srt) (hs : s ≠ .P) (hw : wf s e = true) (hl : isList e = false) (hg : genOK e = true) (ha : AddOK e)
    (hv : (pr e).st = .verr) : dispatch print e = .error VE := by
  cases e with
  | sym n c => simp [pr, okDoc] at hv
  | int n => simp [pr, okDoc] at hv
  | rat p q => simp only [pr] at hv; split_ifs at hv
  | flt t neg => simp only [pr] at hv; split_ifs at hv
  | pi => simp [pr, okDoc] at hv
  | e1 => simp [pr, okDoc] at hv
  | tt => simp [pr, okDoc] at hv
  | ff => simp [pr, okDoc] at hv
  | deriv x t => simp [pr, okDoc] at hv
  | other w => rfl
  | pair v c => simp_all [wf]
  | nil => simp [isList] at hl
  | cons a t => simp [isList] at hl
  | and a =>
    simp only [wf, Bool.and_eq_true] at hw
    obtain ⟨⟨⟨_, hla⟩, hwa⟩, _⟩ := hw
    simp only [genOK] at hg
    simp only [AddOK] at ha
    have hsa : (pr a).st = .verr := by
      simp only [pr] at hv
      split_ifs at hv
      exact hv
    have hmap := args_rj print a .B (by decide) 30 (fun x hx => IH x (by simp only [height]; omega)) hla hwa hg ha hsa
    show Printer.printAnd print (.and a) = _
    simp only [Printer.printAnd, argsOf, prec, hmap, bind, Except.bind]
  | or a =>
    simp only [wf, Bool.and_eq_true] at hw
    obtain ⟨⟨⟨_, hla⟩, hwa⟩, _⟩ := hw
    simp only [genOK] at hg
    simp only [AddOK] at ha
    have hsa : (pr a).st = .verr := by
      simp only [pr] at hv
      split_ifs at hv
      exact hv
    have hmap := args_rj print a .B (by decide) 20 (fun x hx => IH x (by simp only [height]; omega)) hla hwa hg ha hsa
    show Printer.printOr print (.or a) = _
    simp only [Printer.printOr, argsOf, prec, hmap, bind, Except.bind]
  | fn name a =>
    simp only [wf, Bool.and_eq_true] at hw
    obtain ⟨⟨_, hla⟩, hwa⟩ := hw
    simp only [genOK] at hg
    simp only [AddOK] at ha
    have hIH : ∀ x, height x ≤ height a → Sp print x := fun x hx => IH x (by simp only [height]; omega)
    have herr : (pr a).st = .verr → Printer.printFunction print (.fn name a) = .error VE := by
      intro hsa
      have hmap := args_rj print a .A (by decide) 0 hIH hla hwa hg ha hsa
      simp only [Printer.printFunction, Printer.bracketArgs, argsOf, hmap, bind, Except.bind]
    show Printer.printFunction print (.fn name a) = _
    simp only [pr] at hv
    cases hf : fnName name with
    | some f => simp only [hf] at hv; exact herr hv
    | none =>
      simp only [hf] at hv
      have hnu : (pr a).st ≠ .unsup := ((join_nu _ _).mp (by rw [hv]; decide)).1
      rcases st_cases _ hnu with hok | hve
      · have hkids := list_Pr print a .A (by decide) (fun x hx => Pr_of_Sp print x (hIH x hx)) hla hwa hg ha hok
        have := printFunction_pr print name a (by rw [properList_eq]; exact proper_of_wf .A _ hla hwa) hkids
        simpa [hf] using this
      · exact herr hve
  | add a =>
    simp only [wf, Bool.and_eq_true] at hw
    obtain ⟨⟨_, hla⟩, hwa⟩ := hw
    simp only [genOK] at hg
    simp only [AddOK] at ha
    have hsa : (pr a).st = .verr := by
      simp only [pr] at hv
      split_ifs at hv
      exact hv
    obtain ⟨hall, hverr⟩ := list_Sp print a .A (by decide) (fun x hx => IH x (by simp only [height]; omega)) hla hwa
      hg ha.2 (by rw [hsa]; decide)
    obtain ⟨x, hx, hxv⟩ := st_list_ex a (proper_of_wf .A _ hla hwa) hsa
    have hx' : x ∈ elems a := by rwa [elems_eq_toList]
    show PrinterAdd.printAdd print (.add a) = _
    unfold PrinterAdd.printAdd
    simp only [argsOf, bind]
    rw [forIn_rj]
    · rfl
    · intro y hy st
      rcases hall y hy with ⟨t, ht⟩ | he
      · left
        simp only [ht, Except.bind, Py.truthy_bool, pure, Except.pure]
        split_ifs <;> exact ⟨_, rfl⟩
      · right
        simp only [he, Except.bind]
    · exact ⟨x, hx', fun st => by simp only [hverr x hx' hxv, Except.bind]⟩
  | pw ps =>
    simp only [wf, Bool.and_eq_true] at hw
    obtain ⟨⟨_, hlp⟩, hwp⟩ := hw
    simp only [genOK] at hg
    simp only [AddOK] at ha
    have hsp : (pwInner (pr ps).items).1 = .verr := by
      simp only [pr] at hv
      exact hv
    show Printer.printPiecewise print (.pw ps) = _
    unfold Printer.printPiecewise
    simp only [litNamesIdx, lit_in_table_nan, pairsOf, bind]
    show Except.bind (Except.ok (litName "nan")) (fun other => Except.bind (forIn _ _ (pwBody print)) _) = _
    simp only [Except.bind]
    rw [pw_rj print (height (.pw ps)) IH ps hlp hwp hg ha (by simp only [height]; omega) hsp]
  | rel r a b =>
    simp only [wf, Bool.and_eq_true, Bool.not_eq_true', Bool.or_eq_true] at hw
    obtain ⟨⟨⟨_, hla⟩, hlb⟩, hwab⟩ := hw
    simp only [genOK, Bool.and_eq_true] at hg
    simp only [AddOK] at ha
    simp only [pr] at hv
    have hnu := (join_nu _ _).mp (by rw [hv]; decide : (pr a).st.join (pr b).st ≠ .unsup)
    have hha : height a < height (.rel r a b) := by simp only [height]; omega
    have hhb : height b < height (.rel r a b) := by simp only [height]; omega
    have hab : OkOrVE (print a) ∧ ((pr a).st = .verr → print a = .error VE) ∧
        ((pr b).st = .verr → print b = .error VE) := by
      rcases hwab with ⟨hwa, hwb⟩ | ⟨⟨_, hwa⟩, hwb⟩
      · exact ⟨sp_okOrVE print a (IH a hha) .A (by decide) hwa hla hg.1 ha.1 hnu.1,
          (IH a hha .A (by decide) hwa hla hg.1 ha.1).2, (IH b hhb .A (by decide) hwb hlb hg.2 ha.2).2⟩
      · exact ⟨sp_okOrVE print a (IH a hha) .B (by decide) hwa hla hg.1 ha.1 hnu.1,
          (IH a hha .B (by decide) hwa hla hg.1 ha.1).2, (IH b hhb .B (by decide) hwb hlb hg.2 ha.2).2⟩
    obtain ⟨hoa, hva, hvb⟩ := hab
    show Printer.printRelational print (.rel r a b) = _
    unfold Printer.printRelational
    have hop : (!Py.isIn (relOp (.rel r a b)) ["==", "!=", "<", "<=", ">", ">="]) = false := by
      cases r <;> simp [relOp, Rel.text, Py.isIn]
    simp only [hop, lhsOf, rhsOf, PPrinter.bracket_eq, bind, Bool.false_eq_true, if_false]
    rcases hoa with ⟨sa, hsa⟩ | hea
    · have hbv : (pr b).st = .verr := by
        rcases join_verr _ _ hv with h1 | h1
        · rw [hva h1] at hsa; cases hsa
        · exact h1
      simp only [hsa, hvb hbv, Except.map, Except.bind]
    · simp only [hea, Except.map, Except.bind]
  | pow b x =>
    have hsA : s = .A := by
      simp only [wf, Bool.and_eq_true, beq_iff_eq] at hw
      exact hw.1.1.1.1
    subst hsA
    simp only [wf, Bool.and_eq_true, Bool.not_eq_true'] at hw
    simp only [genOK, Bool.and_eq_true] at hg
    simp only [AddOK] at ha
    simp only [pr] at hv
    split_ifs at hv
    have hnu := (join_nu _ _).mp (by rw [hv]; decide : (pr b).st.join (pr x).st ≠ .unsup)
    have hSb := IH b (by simp only [height]; omega) .A (by decide) hw.1.2 hw.1.1.1.2 hg.1 ha.1
    have hSx := IH x (by simp only [height]; omega) .A (by decide) hw.2 hw.1.1.2 hg.2 ha.2
    have hob := sp_okOrVE print b (IH b (by simp only [height]; omega)) .A (by decide) hw.1.2 hw.1.1.1.2 hg.1 ha.1 hnu.1
    show Printer.printPow print (.pow b x) = _
    unfold Printer.printPow Printer.printOrdinaryPow
    simp only [baseOf, expOf, fnNamesIdx, sqrt_in_table, PPrinter.bracket_eq, bind, Py.truthy_bool]
    rcases hob with ⟨sb, hsb⟩ | heb
    · have hxv : (pr x).st = .verr := by
        rcases join_verr _ _ hv with h1 | h1
        · rw [hSb.2 h1] at hsb; cases hsb
        · exact h1
      obtain ⟨h1, h2, h3, _⟩ := not_num_of_verr x hxv
      simp only [h1, h2, h3, hsb, hSx.2 hxv, Except.map, Except.bind, Bool.false_eq_true, if_false, pure, Except.pure]
      split_ifs <;> rfl
    · simp only [heb, Except.map, Except.bind, pure, Except.pure]
      split_ifs <;> rfl
  | mul a =>
    simp only [wf, Bool.and_eq_true] at hw
    obtain ⟨⟨_, hla⟩, hwa⟩ := hw
    simp only [genOK, Bool.and_eq_true] at hg
    simp only [AddOK] at ha
    obtain ⟨c, r1, t, rfl⟩ := twoPlus_cases a hg.1
    obtain ⟨s', fs, hmi, hd, hse, hgood, hsubr, htl⟩ := mul_good AddOK AddOK_elem (fun l h => h) (· ≠ .unsup)
      (fun a b h => (join_nu a b).mp h) (by decide) c r1 t hla hwa hg.2 ha (by rw [hv]; decide)
    have hN : height (.mul (.cons c (.cons r1 t))) = height (.cons c (.cons r1 t)) + 1 := rfl
    obtain ⟨h1, h2⟩ := mulItems_leaves c r1 t (mk c) (mk r1) ((C11.toList t).map mk) s' fs rfl rfl htl hsubr hmi
    -- what `print` does on a sub-term of the domain below the product
    have key : ∀ g, height g < height (.mul (.cons c (.cons r1 t))) → wf .A g = true → isList g = false →
        genOK g = true → AddOK g → (pr g).st ≠ .unsup →
        OkOrVE (print g) ∧ ((pr g).st = .verr → print g = .error VE) :=
      fun g hh hw' hl' hg' ha' hs' => ⟨sp_okOrVE print g (IH g hh) .A (by decide) hw' hl' hg' ha' hs',
        (IH g hh .A (by decide) hw' hl' hg' ha').2⟩
    have hnumP : ∀ k, numOK k = true → OkOrVE (print k) := fun k hk =>
      Or.inl ⟨_, num_Pr print k hk (Pr_of_Sp print k (IH k (by rw [numOK_height k hk, hN]; omega)))⟩
    -- the parts of a power among the factors
    have powparts : ∀ b x, wf .A (.pow b x) = true → genOK (.pow b x) = true → AddOK (.pow b x) →
        (pr (.pow b x)).st ≠ .unsup →
        (wf .A b = true ∧ isList b = false ∧ genOK b = true ∧ AddOK b ∧ (pr b).st ≠ .unsup) ∧ wf .A x = true ∧
        (pr x).st ≠ .unsup ∧ (pr (.pow b x)).st = (pr b).st.join (pr x).st := by
      intro b x hw' hg' ha' hs'
      simp only [wf, Bool.and_eq_true, Bool.not_eq_true'] at hw'
      simp only [genOK, Bool.and_eq_true] at hg'
      simp only [AddOK] at ha'
      simp only [pr] at hs' ⊢
      split_ifs at hs' ⊢ with hcc
      · exact absurd rfl hs'
      · have := (join_nu _ _).mp hs'
        exact ⟨⟨hw'.1.2, hw'.1.1.1.2, hg'.1, ha'.1, this.1⟩, hw'.2, this.2, rfl⟩
    have negpow : ∀ b x, height (.pow b x) < height (.mul (.cons c (.cons r1 t))) → wf .A (.pow b x) = true →
        genOK (.pow b x) = true → AddOK (.pow b x) → (pr (.pow b x)).st ≠ .unsup → isNegRat x = true →
        OkOrVE (print (.pow b (negNum x))) ∧ ((pr (.pow b x)).st = .verr → print (.pow b (negNum x)) = .error VE) := by
      intro b x hh hw' hg' ha' hs' hneg
      obtain ⟨⟨hwb, hlb, hgb, hab, hsb⟩, hwx, hsx, hje⟩ := powparts b x hw' hg' ha' hs'
      obtain ⟨n1, n2, n3, n4, n5, n6, n7, n8, n9, hxok⟩ := negNum_parts x hneg hwx
      have hst' : (pr (.pow b (negNum x))).st = (pr b).st := by
        have : (pr (.pow b (negNum x))).st =
            if constCompound (negNum x) then .unsup else (pr b).st.join (pr (negNum x)).st := rfl
        rw [this, n9, n5]
        cases (pr b).st <;> rfl
      have := key (.pow b (negNum x)) (by simp only [height, n7, n8] at hh ⊢; omega)
        (by simp [wf, hwb, hlb, n1, n2]) rfl (by simp [genOK, hgb, n3]) ⟨hab, n4⟩ (by rw [hst']; exact hsb)
      refine ⟨this.1, fun hv' => this.2 ?_⟩
      rw [hst']
      rw [hje, hxok] at hv'
      revert hv'; cases (pr b).st <;> simp [Status.join]
    -- every operand prints or raises ValueError
    have hall : ∀ j ∈ (partition fs).1 ++ (partition fs).2.1, OkOrVE (print j.e) := by
      intro j hj
      obtain ⟨i, hi, hji⟩ := (partition_ops fs).1 j hj
      refine classify_ops print i ?_ ?_ (fun n => hnumP (.int n) rfl) ?_ j hji
      · cases hgood i hi with
        | sub g hh hw' hl' hg' ha' hs' => exact (key g hh hw' hl' hg' ha' hs').1
        | num k hk => exact hnumP k hk
      · intro b x hie
        cases hgood i hi with
        | sub g hh hw' hl' hg' ha' hs' =>
          simp only at hie; subst hie
          obtain ⟨⟨hwb, hlb, hgb, hab, hsb⟩, _⟩ := powparts b x hw' hg' ha' hs'
          exact (key b (by simp only [height] at hh ⊢; omega) hwb hlb hgb hab hsb).1
        | num k hk => exact (num1_not_pow k b x hk hie).elim
      · intro b x hie hneg
        cases hgood i hi with
        | sub g hh hw' hl' hg' ha' hs' =>
          simp only at hie; subst hie
          exact (negpow b x hh hw' hg' ha' hs' hneg).1
        | num k hk => exact (num1_not_pow k b x hk hie).elim
    -- one of the factors is rejected, and it survives `mulItems`
    have hsa : (pr (.cons c (.cons r1 t))).st = .verr := by rw [← hse]; exact hv
    have hpa := proper_of_wf .A _ hla hwa
    obtain ⟨g, hgm, hgv⟩ := st_list_ex _ hpa hsa
    have hVnum : ∀ f : Item1, isNum f.e = true → ¬ (pr f.e).st = .verr := by
      intro f hn hv'
      exact absurd hn (by rw [(not_num_of_verr f.e hv').2.2.2]; decide)
    have hgi : mk g ∈ mk c :: mk r1 :: (C11.toList t).map mk := by
      simp only [C11.toList, List.mem_cons] at hgm
      rcases hgm with rfl | rfl | hgm
      · simp
      · simp
      · exact List.mem_cons_of_mem _ (List.mem_cons_of_mem _ (List.mem_map_of_mem hgm))
    have hgsub : isMul (mk g).e = true → ∃ j ∈ (mk g).sub, (pr j.e).st = .verr := by
      intro hmul
      cases g with
      | mul l =>
        have hwl : wf .A (.mul l) = true := (wf_list .A _ hwa _ hgm).1
        simp only [wf, Bool.and_eq_true] at hwl
        have hsl : (pr l).st = .verr := by
          simp only [pr] at hgv
          split at hgv
          · cases hgv
          · exact hgv
        obtain ⟨g', hg', hgv'⟩ := st_list_ex l (proper_of_wf .A _ hwl.1.2 hwl.2) hsl
        refine ⟨(mk g').one, ?_, hgv'⟩
        simp only [mk, mul_items, items_list l (proper_of_wf .A _ hwl.1.2 hwl.2), List.map_map]
        exact List.mem_map_of_mem hg'
      | _ => simp [mk, isMul] at hmul
    obtain ⟨f, hf, hfv⟩ := mulItems_keeps (fun f => (pr f.e).st = .verr) hVnum _ s' fs hmi ⟨mk g, hgi, hgv, hgsub⟩
    have hex : ∃ j ∈ (partition fs).1 ++ (partition fs).2.1, print j.e = .error VE := by
      have hnn : isNum f.e = false := (not_num_of_verr f.e hfv).2.2.2
      have : ∃ j ∈ (classify f).1 ++ (classify f).2.1, print j.e = .error VE := by
        cases hgood f hf with
        | sub g' hh hw' hl' hg' ha' hs' =>
          refine classify_ve print _ ((key g' hh hw' hl' hg' ha' hs').2 hfv) hnn ?_ ?_
          · intro b x hie hx1
            simp only at hie; subst hie
            obtain ⟨⟨hwb, hlb, hgb, hab, hsb⟩, _, _, hje⟩ := powparts b x hw' hg' ha' hs'
            apply (key b (by simp only [height] at hh ⊢; omega) hwb hlb hgb hab hsb).2
            subst hx1
            have hfv' : (pr (.pow b (.int (-1)))).st = .verr := hfv
            rw [hje] at hfv'
            revert hfv'; simp only [pr, okDoc]; cases (pr b).st <;> simp [Status.join]
          · intro b x hie hneg
            simp only at hie; subst hie
            exact (negpow b x hh hw' hg' ha' hs' hneg).2 hfv
        | num k hk =>
          have := num1_isNum k hk
          rw [this] at hnn; cases hnn
      obtain ⟨j, hj, hje⟩ := this
      exact ⟨j, (partition_ops fs).2 f hf j hj, hje⟩
    have hq : ∀ i ∈ fs, ∀ p q, i.e = .rat p q → q ≠ 1 := by
      intro f hf p q hfe
      cases hgood f hf with
      | sub g hh hw' hl' hg' ha' hs' =>
        simp only at hfe
        subst hfe
        simp only [wf, Bool.and_eq_true, decide_eq_true_eq] at hw'
        omega
      | num k hk =>
        simp only [num1] at hfe
        subst hfe
        simp only [numOK, decide_eq_true_eq] at hk
        omega
    have hm : ∀ i ∈ fs, ∀ bb x, i.e = .pow bb x → isMul bb = true → (argsOf bb).length ≠ 1 := by
      intro f hf bb x hfe hmul
      cases hgood f hf with
      | sub g hh hw' hl' hg' ha' hs' =>
        simp only at hfe
        subst hfe
        cases bb with
        | mul l =>
          simp only [genOK, Bool.and_eq_true] at hg'
          simpa [argsOf] using twoPlus_length l hg'.1.1
        | _ => simp [isMul] at hmul
      | num k hk => exact (num1_not_pow k bb x hk hfe).elim
    exact printMul_core_rj print _ s' fs h1 h2 (hnumP (.int 1) rfl) hall hex hq hm

/-- one step of the closing induction, both directions -/
theorem spec_step (print : E → Except PyErr String) (e : E) (IH : ∀ x, height x < height e → Sp print x) :
    Sp (dispatch print) e := by
  intro s hs hw hl hg ha
  exact ⟨fun hok => dispatch_step print e (fun x hx => Pr_of_Sp print x (IH x hx)) s hs hw hl hg ha hok,
    fun hv => reject_step print e IH s hs hw hl hg ha hv⟩

/-- **the generated printer, closed by recursion, does what the model says**, in both directions -/
theorem gprint_spec (n : Nat) (e : E) (hn : height e < n) : Sp (gprint n) e := by
  induction n generalizing e with
  | zero => omega
  | succ n ih =>
    show Sp (dispatch (gprint n)) e
    exact spec_step (gprint n) e (fun x hx => ih x (by omega))

/-- **`print_rejected`**: on the domain, an expression that the model rejects with ValueError makes the generated
    `_print` raise ValueError -/
theorem print_rejected (e : E) (s : Srt) (hs : s ≠ .P) (hw : wf s e = true) (hl : isList e = false)
    (hg : genOK e = true) (ha : AddOK e) (hv : (pr e).st = .verr) : genPrint e = .error VE :=
  (gprint_spec _ e (by omega) s hs hw hl hg ha).2 hv

/-- and conversely: when the generated `_print` returns a string on an expression inside the modelled fragment of SymPy,
    the model prints, and the string is the text of the model's tree -/
theorem print_returns (e : E) (s : Srt) (hs : s ≠ .P) (hw : wf s e = true) (hl : isList e = false)
    (hg : genOK e = true) (ha : AddOK e) (hnu : (pr e).st ≠ .unsup) (str : String) (h : genPrint e = .ok str) :
    ∃ d, printDoc e = some d ∧ str = flatten d := by
  rcases st_cases _ hnu with hok | hve
  · have := (gprint_spec _ e (by omega : height e < height e + 1) s hs hw hl hg ha).1 hok
    refine ⟨(pr e).doc, by simp [printDoc, hok], ?_⟩
    unfold genPrint at h
    rw [this] at h
    cases h; rfl
  · have := print_rejected e s hs hw hl hg ha hve
    rw [this] at h; cases h

end Cellml.Tie.PPrinter2
