import Cellml.Generated.Code.CmetaQ
import Mathlib.Tactic.SplitIfs

/-! # Tie: the reading cmeta / RDF functions of model.py (generated from the source) = the hand model's lookups
    (`Model.hasCmetaId`, `Model.getVariableByCmetaId` of State.lean; `Model.byRdf`, `Model.byTerm` of Cmeta.lean) -/

namespace Cellml.Tie.PCmeta
open Model Cellml.Gen

/-- a lookup of the hand model (`none` = KeyError) as a python result -/
def ofLookup : Option Nat → Except PyErr Nat
  | some v => .ok v
  | none => .error ⟨"KeyError"⟩

-- ------------------------------------------------------------------------------------------------ has_cmeta_id
theorem isIn_cmetaKeys (a : AState) (c : String) : Py.isIn (some c) (cmetaKeys a) = hasKey c a.m.cmetaMap := by
  unfold Py.isIn cmetaKeys hasKey
  induction a.m.cmetaMap with
  | nil => rfl
  | cons p l ih =>
    simp only [List.map_cons, List.contains_cons, List.any_cons, ih]
    congr 1
    by_cases h : p.1 = c
    · simp [h]
    · have h' : ¬ c = p.1 := fun e => h e.symm
      simp [h, h']

theorem isIn_cmetaKeys_none (a : AState) : Py.isIn (none : Option String) (cmetaKeys a) = false := by
  unfold Py.isIn cmetaKeys
  induction a.m.cmetaMap with
  | nil => rfl
  | cons p l ih => simp

/-- `has_cmeta_id(c)` for a string … -/
theorem hasCmetaId_tie (a : AState) (c : String) :
    CmetaQ.hasCmetaId a (some c) = .ok (Model.hasCmetaId a.m c) := by
  unfold CmetaQ.hasCmetaId Model.hasCmetaId
  rw [isIn_cmetaKeys]
  by_cases h : a.m.modelCmeta = some c
  · simp [h, pure, Except.pure]
  · have h' : ¬ some c = a.m.modelCmeta := fun e => h e.symm
    simp [h, h', pure, Except.pure]

/-- … and for `None` (which `add_variable` guards against): never an id of the model -/
theorem hasCmetaId_none (a : AState) : CmetaQ.hasCmetaId a none = .ok false := by
  unfold CmetaQ.hasCmetaId
  rw [isIn_cmetaKeys_none]
  simp [pure, Except.pure]

-- ------------------------------------------------------------------------------------------------ get_variable_by_cmeta_id
/-- a plain string: the registry lookup of the hand model, KeyError when absent -/
theorem getVariableByCmetaId_str (a : AState) (c : String) :
    CmetaQ.getVariableByCmetaId a (.str c) = ofLookup (Model.getVariableByCmetaId a.m c) := by
  unfold CmetaQ.getVariableByCmetaId Model.getVariableByCmetaId cmetaMapGet
  cases h : List.lookup c a.m.cmetaMap with
  | none =>
    simp [h, IdArg.isNode, ofLookup, bind, Except.bind, tryCatch, tryCatchThe,
      MonadExceptOf.tryCatch, Except.tryCatch, throw, throwThe, MonadExceptOf.throw]
  | some v =>
    simp [h, IdArg.isNode, ofLookup, bind, Except.bind, tryCatch, tryCatchThe,
      MonadExceptOf.tryCatch, Except.tryCatch, EarlyReturnT.return, EarlyReturn.runK]
    rfl

theorem dropFront_hash (c : String) : (IdArg.uriRef ("#" ++ c)).toStr.dropFront 1 = .str c := by
  simp [IdArg.toStr, IdArg.dropFront, IdArg.text, String.toList_append]

theorem charAt_hash (c : String) : (IdArg.uriRef ("#" ++ c)).toStr.charAt 0 = .ok "#" := by
  simp [IdArg.toStr, IdArg.charAt, IdArg.text, String.toList_append]

/-- the `URIRef('#' + c)` of a local resource (what `Variable.rdf_identity` is and what `rdf.subjects` yields for
    the triples of the hand model): the same lookup of `c` -/
theorem getVariableByCmetaId_uri (a : AState) (c : String) :
    CmetaQ.getVariableByCmetaId a (.uriRef ("#" ++ c)) = ofLookup (Model.getVariableByCmetaId a.m c) := by
  rw [← getVariableByCmetaId_str]
  unfold CmetaQ.getVariableByCmetaId
  simp only [IdArg.isNode, IdArg.isURIRef, Py.truthy_bool, charAt_hash, dropFront_hash, bind, Except.bind]
  simp [pure, Except.pure]

/-- a URI that is not local: IndexError for the empty one, NotImplementedError otherwise — before any lookup -/
theorem getVariableByCmetaId_nonlocal (a : AState) (s : String) (h : s.toList.head? ≠ some '#') :
    CmetaQ.getVariableByCmetaId a (.uriRef s)
      = .error ⟨if s.toList = [] then "IndexError" else "NotImplementedError"⟩ := by
  unfold CmetaQ.getVariableByCmetaId
  simp only [IdArg.isNode, IdArg.isURIRef, Py.truthy_bool, IdArg.toStr, IdArg.charAt, IdArg.text]
  cases hl : s.toList with
  | nil => simp [bind, Except.bind]
  | cons ch r =>
    have hc : ch ≠ '#' := by simpa [hl] using h
    have : (String.singleton ch != "#") = true := by
      simp only [bne_iff_ne, ne_eq]
      intro e
      apply hc
      have := congrArg String.toList e
      simpa using this
    simp [bind, Except.bind, this, throw, throwThe, MonadExceptOf.throw]

/-- a node that is not a URI (a literal, a blank node): AssertionError -/
theorem getVariableByCmetaId_nonresource (a : AState) (s : String) :
    CmetaQ.getVariableByCmetaId a (.otherNode s) = .error ⟨"AssertionError"⟩ := by
  unfold CmetaQ.getVariableByCmetaId
  simp [IdArg.isNode, IdArg.isURIRef, bind, Except.bind, throw, throwThe, MonadExceptOf.throw]

-- ------------------------------------------------------------------------------------------------ get_variables_by_rdf
/-- an optional object of the hand model's query as the python argument: `None` is the wildcard -/
def ofObj : Option RNode → RdfArg
  | none => .none
  | some x => .node x

theorem createRdfNode_ofObj (o : Option RNode) : createRdfNode (ofObj o) = ofObj o := by cases o <;> rfl

theorem createRdfNode_node (n : RNode) : createRdfNode (.node n) = .node n := rfl

theorem uri_beq (x y : String) : (RNode.uri x == RNode.uri y) = (x == y) := by
  rw [Bool.eq_iff_iff, beq_iff_eq, beq_iff_eq]
  constructor
  · intro h; injection h
  · intro h; rw [h]

theorem rdfSubjects_eq (a : AState) (p : String) (o : Option RNode) :
    rdfSubjects a (.node (.uri p)) (ofObj o)
      = (a.rdf.filter (tripleMatches p o)).map (fun t => IdArg.uriRef ("#" ++ t.subj)) := by
  unfold rdfSubjects
  congr 1
  apply List.filter_congr
  intro t _
  cases o <;> simp [nodeMatches, tripleMatches, ofObj, uri_beq]

/-- the list comprehension `[self.get_variable_by_cmeta_id(result) for result in …]` over the subjects of a list of
    triples = the hand model's `carriers` with the registry lookup -/
theorem mapM_carriers (a : AState) (l : List Triple) :
    (l.map (fun t => IdArg.uriRef ("#" ++ t.subj))).mapM (fun result => CmetaQ.getVariableByCmetaId a result)
      = match carriers (Model.getVariableByCmetaId a.m) l with
        | some vs => .ok vs
        | none => .error ⟨"KeyError"⟩ := by
  induction l with
  | nil => rfl
  | cons t r ih =>
    simp only [List.map_cons, List.mapM_cons, ih, getVariableByCmetaId_uri, carriers]
    cases h1 : Model.getVariableByCmetaId a.m t.subj <;>
      cases h2 : carriers (Model.getVariableByCmetaId a.m) r <;>
      simp [ofLookup, bind, Except.bind, pure, Except.pure]

/-- `get_variables_by_rdf(predicate, object_, sort)` for a predicate node `URIRef(p)` and an object that is `None` or a
    node: sorted = the hand model's `byRdf` … -/
theorem getVariablesByRdf_tie (a : AState) (p : String) (o : Option RNode) :
    CmetaQ.getVariablesByRdf a (.node (.uri p)) (ofObj o) true = errClass lErrCls (byRdf a p o) := by
  unfold CmetaQ.getVariablesByRdf byRdf
  simp only [createRdfNode_node, createRdfNode_ofObj, rdfSubjects_eq, mapM_carriers, Py.truthy_bool]
  cases carriers (Model.getVariableByCmetaId a.m) (a.rdf.filter (tripleMatches p o)) <;>
    simp [bind, Except.bind, pure, Except.pure, errClass, lErrCls]

/-- … and unsorted: the carriers in the order of the triples -/
theorem getVariablesByRdf_unsorted (a : AState) (p : String) (o : Option RNode) :
    CmetaQ.getVariablesByRdf a (.node (.uri p)) (ofObj o) false
      = match carriers (Model.getVariableByCmetaId a.m) (a.rdf.filter (tripleMatches p o)) with
        | some vs => .ok vs
        | none => .error ⟨"KeyError"⟩ := by
  unfold CmetaQ.getVariablesByRdf
  simp only [createRdfNode_node, createRdfNode_ofObj, rdfSubjects_eq, mapM_carriers, Py.truthy_bool]
  cases carriers (Model.getVariableByCmetaId a.m) (a.rdf.filter (tripleMatches p o)) <;>
    simp [bind, Except.bind, pure, Except.pure]

/-- the default of `sort`, read off the parameter list -/
theorem getVariablesByRdf_default : CmetaQ.getVariablesByRdf_default_sort = true := rfl

-- ------------------------------------------------------------------------------------------------ get_variable_by_ontology_term
/-- the predicate written in `get_variable_by_ontology_term`, through `create_rdf_node`, is the hand model's `bqbiolIs` -/
theorem bqbiol_is : createRdfNode (.pair "http://biomodels.net/biology-qualifiers/" "is") = .node (.uri bqbiolIs) := by
  decide

theorem createRdfNode_idem (x : RdfArg) : createRdfNode (createRdfNode x) = createRdfNode x := by
  cases x with
  | none => rfl
  | node n => rfl
  | pair ns loc => simp only [createRdfNode]; split_ifs <;> rfl
  | str s => simp only [createRdfNode]; split_ifs <;> rfl

/-- `get_variables_by_rdf` sees its predicate and its object only through `create_rdf_node` (for ANY argument: `None`,
    a node, a `(namespace, local_name)` pair, a string) -/
theorem getVariablesByRdf_args (a : AState) (p o : RdfArg) (s : Bool) :
    CmetaQ.getVariablesByRdf a p o s = CmetaQ.getVariablesByRdf a (createRdfNode p) (createRdfNode o) s := by
  unfold CmetaQ.getVariablesByRdf
  simp only [createRdfNode_idem]

theorem getVariablesByRdf_pred (a : AState) (p : RdfArg) (t : RNode) (s : Bool) :
    CmetaQ.getVariablesByRdf a p (.node t) s = CmetaQ.getVariablesByRdf a (createRdfNode p) (.node t) s := by
  rw [getVariablesByRdf_args]; rfl

/-- `get_variable_by_ontology_term(term)` for a node `term` = the hand model's `byTerm` -/
theorem getVariableByOntologyTerm_tie (a : AState) (term : RNode) :
    CmetaQ.getVariableByOntologyTerm a (.node term) = errClass lErrCls (byTerm a term) := by
  unfold CmetaQ.getVariableByOntologyTerm byTerm
  have h := getVariablesByRdf_tie a bqbiolIs (some term)
  simp only [ofObj] at h
  have hp : ((("http://biomodels.net/biology-qualifiers/", "is") : String × String) : RdfArg)
      = .pair "http://biomodels.net/biology-qualifiers/" "is" := rfl
  rw [hp, getVariablesByRdf_pred, bqbiol_is, getVariablesByRdf_default, h]
  cases byRdf a bqbiolIs (some term) with
  | error e => cases e <;> simp [errClass, lErrCls, bind, Except.bind]
  | ok vs =>
    match vs with
    | [] => simp [errClass, lErrCls, bind, Except.bind, throw, throwThe, MonadExceptOf.throw]
    | [v] => simp [errClass, bind, Except.bind, listGet]
    | _ :: _ :: _ => simp [errClass, lErrCls, bind, Except.bind, throw, throwThe, MonadExceptOf.throw]

end Cellml.Tie.PCmeta
