import Cellml.Generated.Code.Roles
import Mathlib.Tactic.SplitIfs

/-! # Tie (Roles, part 1): the role queries of cellmlmanip/model.py (generated from the source) = the hand model `Model/Roles.lean`

    `get_free_variable` = `freeVar`, `get_state_variables` = `stateVars`, `get_derivatives` = `derivatives`,
    `get_derived_quantities` = `derivedQuantities`, `is_constant` = `isConstant` — the functions the theorems of
    `Props/C10.lean` are about. -/

namespace Cellml.Tie.PRoles
open Model Cellml.Gen

-- ------------------------------------------------------------------------------------------------ helpers
/-- `None` of the model side = the exception of the code side -/
def optErr {α} (cls : String) : Option α → Except PyErr α
  | some a => .ok a
  | none => .error ⟨cls⟩

theorem sortBy_eq_sortByKey (key : Nat → Nat) (l : List Nat) : sortBy key l = sortByKey key l := by
  induction l with
  | nil => rfl
  | cons x xs ih =>
    simp only [sortBy, sortByKey, ih]
    generalize sortByKey key xs = ys
    induction ys with
    | nil => rfl
    | cons y ys ih2 => simp only [insertBy, insertSorted, ih2]

theorem insertBy_map {α β} (f : α → β) (key : β → Nat) (x : α) (l : List α) :
    insertBy key (f x) (l.map f) = (insertBy (fun a => key (f a)) x l).map f := by
  induction l with
  | nil => rfl
  | cons y ys ih =>
    simp only [List.map, insertBy]
    split_ifs <;> simp [ih]

theorem sortBy_map {α β} (f : α → β) (key : β → Nat) (l : List α) :
    sortBy key (l.map f) = (sortBy (fun a => key (f a)) l).map f := by
  induction l with
  | nil => rfl
  | cons x xs ih => simp only [List.map, sortBy, ih, insertBy_map]

-- ------------------------------------------------------------------------------------------------ get_free_variable
/-- every value of `_ode_definition_map` has a derivative on its left (what `add_equation` guarantees: `EqInv.odeDef`) -/
def odeLhsOk (M : RModel) : Bool :=
  M.st.odeDef.all (fun p => match p.2.lhs with | .deriv _ _ _ => true | _ => false)

theorem odeLhsOk_of_inv (M : RModel) (E : EqInv M.st) : odeLhsOk M = true := by
  unfold odeLhsOk
  rw [E.odeDef, List.all_eq_true]
  intro p hp
  simp only [deriveOdeDef, List.mem_filterMap] at hp
  obtain ⟨e, _, he⟩ := hp
  cases hl : e.lhs <;> simp [hl] at he
  subst he; simp [hl]

/-- `get_free_variable()` = `freeVar` (`None` ↦ ValueError). Outside `odeLhsOk` (a first entry of the ODE map whose
    left-hand side is no derivative — unreachable through `add_equation`) the code raises AttributeError where the model
    answers `none`. -/
theorem getFreeVariable_tie (M : RModel) (h : odeLhsOk M = true) :
    Gen.Roles.getFreeVariable M = optErr "ValueError" (freeVar M) := by
  unfold Gen.Roles.getFreeVariable freeVar Model.getFreeVariable odeValues odeLhsOk at *
  cases hd : M.st.odeDef with
  | nil => simp [optErr, bind, Except.bind, throw, throwThe, MonadExceptOf.throw, pure, Except.pure]
  | cons p rest =>
    obtain ⟨k, e⟩ := p
    rw [hd] at h
    cases hl : e.lhs <;> simp [hl] at h
    simp [hl, optErr, lhsVariables0, bind, Except.bind, pure, Except.pure]

-- ------------------------------------------------------------------------------------------------ get_state_variables
/-- `get_state_variables(sort=True)` = `stateVars`; `sort=False`: the keys of the ODE map in insertion order -/
theorem getStateVariables_tie (M : RModel) (sort : Bool) :
    Gen.Roles.getStateVariables M sort = .ok (if sort then stateVars M else stateKeys M.st) := by
  unfold Gen.Roles.getStateVariables stateVars Model.getStateVariables odeKeys pySortBy orderAdded
  cases sort <;> simp [pure, Except.pure, sortBy_eq_sortByKey]

-- ------------------------------------------------------------------------------------------------ get_derivatives
/-- a derivative of the model side as the graph node the code returns -/
def derivNode (p : Nat × Nat) : Node := .deriv p.1 p.2

theorem filter_isDerivative (ns : List GNode) :
    (ns.map (·.node)).filter (fun v => isDerivative v) = (derivNodesL ns).map derivNode := by
  induction ns with
  | nil => rfl
  | cons n ns ih =>
    obtain ⟨node, e, t⟩ := n
    cases node <;> simp [derivNodesL, isDerivative, derivNode] at ih ⊢ <;> exact ih

/-- `get_derivatives(sort=True)` = `derivatives` (the `Derivative` nodes of the graph, stable sort by the
    `order_added` of the state; the exception of the graph builder) -/
theorem getDerivatives_tie (M : RModel) :
    Gen.Roles.getDerivatives M true = (errClass gerrClass (derivatives M)).map (List.map derivNode) := by
  unfold Gen.Roles.getDerivatives derivatives graphOf
  cases hg : (queryGraph M.st).2 with
  | error e => simp [bind, Except.bind, errClass, Except.map]
  | ok g =>
    simp only [bind, Except.bind, errClass, Except.map, pure, Except.pure, Py.truthy_bool, if_true, List.map_id',
      graphIter, derivNodes, pySortBy, filter_isDerivative]
    rw [sortBy_map]
    rfl

theorem getDerivatives_unsorted_tie (M : RModel) :
    Gen.Roles.getDerivatives M false =
      (errClass gerrClass (queryGraph M.st).2).map (fun g => (derivNodes g).map derivNode) := by
  unfold Gen.Roles.getDerivatives graphOf
  cases hg : (queryGraph M.st).2 with
  | error e => simp [bind, Except.bind, errClass, Except.map]
  | ok g =>
    simp [bind, Except.bind, errClass, Except.map, pure, Except.pure, graphIter, derivNodes, filter_isDerivative]

-- ------------------------------------------------------------------------------------------------ get_derived_quantities
theorem filter_derived (ns : List GNode) :
    ((ns.map (fun n => (n.node, n))).filter (fun (x : Node × GNode) =>
        (!(isDerivative x.1)) && (!(Py.isIn (getVariableType x.2 VariableType.UNKNOWN)
          [VariableType.FREE, VariableType.STATE, VariableType.PARAMETER])))).map (fun x => x.1)
      = (derivedNodesL ns).map Node.var := by
  induction ns with
  | nil => rfl
  | cons n ns ih =>
    obtain ⟨node, e, t⟩ := n
    cases node with
    | deriv s t' => simpa [derivedNodesL, isDerivative, List.filterMap_cons] using ih
    | var v =>
      simp only [derivedNodesL, List.filterMap_cons, List.map_cons, List.filter_cons] at ih ⊢
      rcases t with _ | t
      · simpa [isDerivative, getVariableType, Py.isIn] using ih
      · cases t <;> simpa [isDerivative, getVariableType, Py.isIn, ofVType] using ih

/-- `get_derived_quantities(sort=True)` = `derivedQuantities` -/
theorem getDerivedQuantities_tie (M : RModel) :
    Gen.Roles.getDerivedQuantities M true = (errClass gerrClass (derivedQuantities M)).map (List.map Node.var) := by
  unfold Gen.Roles.getDerivedQuantities derivedQuantities graphOf
  cases hg : (queryGraph M.st).2 with
  | error e => simp [bind, Except.bind, errClass, Except.map]
  | ok g =>
    simp only [bind, Except.bind, errClass, Except.map, pure, Except.pure, Py.truthy_bool, if_true,
      graphItems, derivedNodes, pySortBy]
    rw [filter_derived, sortBy_map]
    rfl

theorem getDerivedQuantities_unsorted_tie (M : RModel) :
    Gen.Roles.getDerivedQuantities M false =
      (errClass gerrClass (queryGraph M.st).2).map (fun g => (derivedNodes g).map Node.var) := by
  unfold Gen.Roles.getDerivedQuantities graphOf
  cases hg : (queryGraph M.st).2 with
  | error e => simp [bind, Except.bind, errClass, Except.map]
  | ok g =>
    simp only [bind, Except.bind, errClass, Except.map, pure, Except.pure, Py.truthy_bool,
      graphItems, derivedNodes]
    rw [filter_derived]
    rfl

-- ------------------------------------------------------------------------------------------------ is_constant
/-- `is_constant(v)` = `isConstant` -/
theorem isConstant_tie (M : RModel) (v : Nat) : Gen.Roles.isConstant M v = .ok (Model.isConstant M v) := by
  unfold Gen.Roles.isConstant Model.isConstant varRhs varDefGet rhsAtomsVariable
  cases h : M.st.varDef.lookup v with
  | none => simp [pure, Except.pure]
  | some e =>
    simp only [pure, Except.pure, Option.isSome_some, Bool.true_and, Option.map_some]
    cases (M.rhs e.tok).vars <;> rfl

end Cellml.Tie.PRoles
