"""Code-translator spec (see harness/translate_code.py and harness/code_specs/__init__.py).

units.py: UnitCalculator.convert_expression_recursively with its nested helpers, and the two UnitStore wrappers.
Every pattern below stands for a LEAF: a SymPy class flag / structure accessor / constructor, pint unit arithmetic, the
unit store, `float()`. The accessors are documented in lean/Cellml/Tie/ConvertView.lean."""

RES = 'Except PyErr ConvRes'
REC = '(rec : E → PyUnit → Except PyErr ConvRes)'

SYMPY = [
    ('__A.is_Matrix', '(isMatrix {A})'),
    ('__A.is_Symbol', '(isSymbol {A})'),
    ('__A.is_Derivative', '(isDerivative {A})'),
    ('__A.is_Mul', '(isMul {A})'),
    ('__A.is_Pow', '(isPow {A})'),
    ('__A.is_Add', '(isAdd {A})'),
    ('__A.is_Relational', '(isRelational {A})'),
    ('__A.is_Piecewise', '(isPiecewise {A})'),
    ('__A.is_Function', '(isFunction {A})'),
    ('__A.is_number', '(isNumber {A})'),
    ('__A.is_Boolean', '(isBoolean {A})'),
    ('isinstance(__A, model.Variable)', '(isVariable {A})'),
    # structure of a Derivative: Derivative(x, (t, n))
    ('expr.args[1][1]', '(dOrder expr)'),
    ('expr.args[1][0]', '(dWrt expr)'),
    ('expr.args[0]', '(dNum expr)'),
    ('len(expr.args)', '(nargs expr)'),
    # rebuilding a node of the same class
    ('expr.func(*__A)', '(rebuild expr {A})'),
    ('expr.func(__A, __B)', '(rebuild expr [{A}, {B}])'),
    ('expr.func', '(funcName expr)'),
    ('sympy.floor', '"floor"'),
    ('sympy.ceiling', '"ceiling"'),
    ('sympy.Abs', '"Abs"'),
    ('expr.args', '(args expr)'),
    # the ExprCondPair that Piecewise builds from a python tuple
    ('(new_piece, new_cond)', '(mkPair new_piece new_cond)'),
    ('float(__A)', '← pyFloat {A}'),
]

UNITS = [
    ("self._store.get_unit('dimensionless')", '(some ([] : Container))'),
    ('__A.units', '← self.unitsOf {A}'),
    ('reduce(mul, __A)', '← reduceMul {A}'),
    ('__A / __B', '← unitDiv {A} {B}'),
    ('__A ** __B', '← unitPow {A} {B}'),
]

GROUP = {
    'name': 'Convert',
    'imports': ['Cellml.Tie.ConvertView'],
    'header': 'open Cellml.Tie.PConvert\nopen Units Infer',
    'functions': [
        {'file': 'cellmlmanip/units.py',
         'func': 'UnitCalculator.convert_expression_recursively.maybe_convert_expr',
         'lean_name': 'maybeConvertExpr',
         'signature': '(self : ConvView) (expr : E) (was_converted : Bool) (from_units to_units : PyUnit) : ' + RES,
         'locals_init': {'cf': 'Option Scale := none'},
         'patterns': [('self._store.get_conversion_factor(from_units, to_units)',
                       '← self.factor from_units to_units'),
                      # a factor is a prime-exponent map in the model; `none` is the int 1 the code returns
                      ('cf != 1', '(cfNotOne cf)'),
                      # sympy multiplication: the Mul node (factor first)
                      ('cf * expr', '(E.mul cf_quantity__ expr)')] + UNITS,
         # `cf` changes its python type here (number -> Quantity): the Quantity gets a name of its own
         'stmt_patterns': [('cf = model.Quantity(cf, __A)', 'let cf_quantity__ ← mkQuantity cf {A}')]},
        {'file': 'cellmlmanip/units.py',
         'func': 'UnitCalculator.convert_expression_recursively.maybe_convert_child',
         'lean_name': 'maybeConvertChild',
         'signature': REC + ' (expr : E) (was_converted : Bool) (to_units : PyUnit) : ' + RES,
         'patterns': [('self.convert_expression_recursively(__A, __B)', '← rec {A} {B}')]},
        {'file': 'cellmlmanip/units.py',
         'func': 'UnitCalculator.convert_expression_recursively',
         'lean_name': 'convertExpressionRecursively',
         'signature': '(self : ConvView) ' + REC + ' (expr : E) (to_units : PyUnit) : ' + RES,
         'skip_defs': ['maybe_convert_expr', 'maybe_convert_child'],
         'mutable': ['new_args', 'all_arg_units'],
         'locals_init': {'actual_units': 'PyUnit := none', 'exponent_val': 'Rat := 0'},
         'patterns': [('maybe_convert_expr(__A, __B, __C, __D)', '← maybeConvertExpr self {A} {B} {C} {D}'),
                      ('maybe_convert_child(__A, __B, __C)', '← maybeConvertChild rec {A} {B} {C}')] + SYMPY + UNITS,
         'stmt_patterns': [('new_args.append(__A)', 'new_args := new_args ++ [{A}]'),
                           ('all_arg_units.append(__A)', 'all_arg_units := all_arg_units ++ [{A}]'),
                           ('piece, cond = arg', 'let (piece, cond) := pairOf arg'),
                           ('base, exponent = expr.args', 'let (base, exponent) ← unpack2 (args expr)')]},
        # the UnitStore wrappers: call the calculator, add context to the MESSAGE of a UnitError, re-raise
        {'file': 'cellmlmanip/units.py',
         'func': 'UnitStore.convert_expression_recursively',
         'lean_name': 'storeConvertExpressionRecursively',
         'signature': '(calculator : E → PyUnit → Except PyErr ConvRes) (expr : E) (to_units : PyUnit) : Except PyErr E',
         'locals_init': {'new_expr': 'E := E.undef', 'was_converted': 'Bool := false', 'actual_units': 'PyUnit := none'},
         'skip_calls': ['logger.', 'e.add_context'],
         'patterns': [('self._calculator.convert_expression_recursively(__A, __B)', '← calculator {A} {B}')]},
        {'file': 'cellmlmanip/units.py',
         'func': 'UnitStore.evaluate_units_and_fix',
         'lean_name': 'storeEvaluateUnitsAndFix',
         'signature': '(calculator : E → PyUnit → Except PyErr ConvRes) (expr : E) : Except PyErr (PyUnit × E)',
         'locals_init': {'new_expr': 'E := E.undef', 'was_converted': 'Bool := false', 'actual_units': 'PyUnit := none'},
         'skip_calls': ['logger.', 'e.add_context'],
         'patterns': [('self._calculator.convert_expression_recursively(__A, __B)', '← calculator {A} {B}')]},
    ],
}
